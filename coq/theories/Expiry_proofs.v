(* C13  lemmas about the model Expiry.v *)
From Coq Require Import ZArith List Bool Lia Arith.
Import ListNotations.
From MP Require Import Base Expiry.
Local Open Scope Z_scope.

(* ---- addresses and the cache map ------------------------------------------------------------------- *)

Lemma addr_eqb_eq : forall a b : addr, addr_eqb a b = true <-> a = b.
Proof.
  intros [[a1 a2] a3] [[b1 b2] b3]. unfold addr_eqb, Z3_eqb.
  rewrite !andb_true_iff, !Z.eqb_eq. split.
  - intros [[H1 H2] H3]. subst. reflexivity.
  - intros H. inversion H. auto.
Qed.

Lemma addr_eqb_refl : forall a, addr_eqb a a = true.
Proof. intros a. apply addr_eqb_eq. reflexivity. Qed.

Lemma existsb_addr_In : forall a l, existsb (addr_eqb a) l = true <-> In a l.
Proof.
  intros a l. rewrite existsb_exists. split.
  - intros [x [Hin He]]. apply addr_eqb_eq in He. subst. exact Hin.
  - intros H. exists a. split; [exact H | apply addr_eqb_refl].
Qed.

Lemma mt_eqb_eq : forall x y, mt_eqb x y = true <-> x = y.
Proof.
  unfold mt_eqb. induction x as [|a x IH]; intros [|b y]; cbn [list_eqb]; split; intros H;
    try reflexivity; try discriminate.
  - apply andb_true_iff in H. destruct H as [H1 H2]. apply addr_eqb_eq in H1. apply IH in H2. subst. reflexivity.
  - inversion H. subst. apply andb_true_iff. split; [apply addr_eqb_refl | apply IH; reflexivity].
Qed.

Lemma get_put : forall c a b e, get (put c b e) a = if addr_eqb a b then Some e else get c a.
Proof. reflexivity. Qed.

Lemma get_put_all : forall l c a e,
  get (put_all c l e) a = if existsb (addr_eqb a) l then Some e else get c a.
Proof.
  induction l as [|b r IH]; intros c a e; cbn [put_all existsb]; [reflexivity|].
  rewrite IH, get_put. destruct (existsb (addr_eqb a) r), (addr_eqb a b); reflexivity.
Qed.

(* ---- the staleness decision -------------------------------------------------------------------------- *)

Section Decision.
Variable Q : Z.
Hypothesis Qpos : 0 < Q.

Lemma int_ts_floor : forall ts, 0 <= ts -> int_ts Q ts * Q = floor_sec Q ts.
Proof. intros ts H. unfold int_ts, floor_sec. rewrite Z.quot_div_nonneg by lia. reflexivity. Qed.

Lemma floor_sec_le : forall t, floor_sec Q t <= t.
Proof. intros t. unfold floor_sec. pose proof (Z.mul_div_le t Q Qpos). lia. Qed.

Lemma floor_sec_gt : forall t, t < floor_sec Q t + Q.
Proof.
  intros t. unfold floor_sec. pose proof (Z.mod_pos_bound t Q Qpos).
  pose proof (Z.div_mod t Q). lia.
Qed.

Lemma floor_sec_mono : forall a b, a <= b -> floor_sec Q a <= floor_sec Q b.
Proof.
  intros a b H. unfold floor_sec. apply Z.mul_le_mono_nonneg_r; [lia|].
  apply Z.div_le_mono; lia.
Qed.

Lemma floor_sec_whole : forall s, floor_sec Q (s * Q) = s * Q.
Proof. intros s. unfold floor_sec. rewrite Z.div_mul by lia. reflexivity. Qed.

Lemma floor_sec_idem : forall t, floor_sec Q (floor_sec Q t) = floor_sec Q t.
Proof. intros t. unfold floor_sec at 2. apply floor_sec_whole. Qed.

Lemma floor_sec_nonneg : forall t, 0 <= t -> 0 <= floor_sec Q t.
Proof. intros t H. unfold floor_sec. apply Z.mul_nonneg_nonneg; [|lia]. apply Z.div_pos; lia. Qed.

(* moving back by at least one second moves the whole-second value back by at least one second *)
Lemma floor_sec_lag : forall t d, Q <= d -> floor_sec Q (t - d) <= floor_sec Q t - Q.
Proof.
  intros t d H. unfold floor_sec.
  assert ((t - d) / Q <= (t - Q) / Q) by (apply Z.div_le_mono; lia).
  replace (t - Q) with (t + (-1) * Q) in H0 by lia. rewrite Z.div_add in H0 by lia. nia.
Qed.

(* the decision, for timestamps after 1970: stale iff the whole second of the timestamp is at or before the
   threshold *)
Lemma stale_at_spec : forall ts t, 0 <= ts -> stale_at Q ts t = true <-> floor_sec Q ts <= t.
Proof. intros ts t H. unfold stale_at. rewrite Z.leb_le, int_ts_floor by exact H. reflexivity. Qed.

Lemma stale_at_false_spec : forall ts t, 0 <= ts -> stale_at Q ts t = false <-> t < floor_sec Q ts.
Proof. intros ts t H. unfold stale_at. rewrite Z.leb_gt, int_ts_floor by exact H. reflexivity. Qed.

(* written at or before the threshold => stale *)
Lemma written_before_stale : forall ts t, 0 <= ts -> ts <= t -> stale_at Q ts t = true.
Proof. intros ts t H0 H. apply stale_at_spec; [exact H0|]. pose proof (floor_sec_le ts). lia. Qed.

(* written at least one second after the threshold => fresh *)
Lemma written_second_after_fresh : forall ts t, 0 <= ts -> t + Q <= ts -> stale_at Q ts t = false.
Proof. intros ts t H0 H. apply stale_at_false_spec; [exact H0|]. pose proof (floor_sec_gt ts). lia. Qed.

(* whole-second timestamps (sqlite rows) against any threshold: stale iff ts <= thr *)
Lemma stale_at_whole_ts : forall s t, 0 <= s -> stale_at Q (s * Q) t = true <-> s * Q <= t.
Proof.
  intros s t H. rewrite stale_at_spec by nia. rewrite floor_sec_whole. reflexivity.
Qed.

(* the window in which a tile written after the threshold is nevertheless refreshed *)
Lemma stale_window : forall ts t, 0 <= ts -> t < ts -> stale_at Q ts t = true -> floor_sec Q ts <= t < ts /\ ts < t + Q.
Proof.
  intros ts t H0 H1 H. apply stale_at_spec in H; [|exact H0]. pose proof (floor_sec_gt ts). lia.
Qed.

(* the entry a store writes at `now` is fresh for every threshold before the current whole second *)
Lemma store_ts_fresh : forall m ev t, 0 <= now ev -> t < floor_sec Q (now ev) -> stale_at Q (store_ts Q m ev) t = false.
Proof.
  intros m ev t H0 H. unfold store_ts. destruct (m_floor_store m).
  - apply stale_at_false_spec; [apply floor_sec_nonneg; exact H0|]. rewrite floor_sec_idem. exact H.
  - apply stale_at_false_spec; assumption.
Qed.

(* relative rule with an age of at least one second: the threshold lies before the current whole second *)
Lemma relative_threshold_lags : forall rc t_now, Q <= delta_of Q rc -> timestamp_before Q rc t_now < floor_sec Q t_now.
Proof. intros rc t_now H. unfold timestamp_before. pose proof (floor_sec_lag t_now (delta_of Q rc) H). lia. Qed.

End Decision.

(* ---- one request ------------------------------------------------------------------------------------- *)

Section Request.
Variable Q : Z.
Variable m : mgr.
Variable ev : env.
Variable sc : nat -> outcome.

Notation cachedb := (tm_is_cached Q m ev).

Lemma is_cached_ext : forall c c' a, get c a = get c' a -> cachedb c a = cachedb c' a.
Proof. intros c c' a H. unfold tm_is_cached. rewrite H. reflexivity. Qed.

Lemma is_cached_total : forall c a, expire_timestamp Q m ev <> ThrErr -> exists b, cachedb c a = Some b.
Proof.
  intros c a H. unfold tm_is_cached. destruct (expire_timestamp Q m ev); [eexists; reflexivity | eexists; reflexivity | congruence].
Qed.

Lemma is_cached_some_thr : forall c a b, cachedb c a = Some b -> expire_timestamp Q m ev <> ThrErr.
Proof. intros c a b H E. unfold tm_is_cached in H. rewrite E in H. discriminate. Qed.

Lemma is_cached_put_all : forall c l e a,
  cachedb (put_all c l e) a =
  if existsb (addr_eqb a) l then cachedb (put c a e) a else cachedb c a.
Proof.
  intros c l e a. destruct (existsb (addr_eqb a) l) eqn:E.
  - apply is_cached_ext. rewrite get_put_all, E, get_put, addr_eqb_refl. reflexivity.
  - apply is_cached_ext. rewrite get_put_all, E. reflexivity.
Qed.

Lemma get_store_tile_other : forall c a b v, addr_eqb a b = false -> get (store_tile Q m ev c b v) a = get c a.
Proof.
  intros c a b v H. unfold store_tile. rewrite get_put, H. reflexivity.
Qed.

Lemma get_store_tile_cases : forall c a b v,
  get (store_tile Q m ev c b v) a = get c a \/ get (store_tile Q m ev c b v) a = Some (mkEntry v (store_ts Q m ev)).
Proof.
  intros c a b v. destruct (addr_eqb a b) eqn:E; [|left; apply get_store_tile_other; exact E].
  unfold store_tile. right. rewrite get_put, E. reflexivity.
Qed.

Lemma get_store_tiles_notin : forall l c a v,
  existsb (addr_eqb a) l = false -> get (store_tiles Q m ev c l v) a = get c a.
Proof.
  induction l as [|b r IH]; intros c a v H; cbn [store_tiles]; [reflexivity|].
  cbn [existsb] in H. apply orb_false_iff in H. destruct H as [H1 H2].
  rewrite IH by exact H2. apply get_store_tile_other. exact H1.
Qed.

Lemma get_store_tiles_cases : forall l c a v,
  get (store_tiles Q m ev c l v) a = get c a \/ get (store_tiles Q m ev c l v) a = Some (mkEntry v (store_ts Q m ev)).
Proof.
  induction l as [|b r IH]; intros c a v; cbn [store_tiles]; [left; reflexivity|].
  destruct (IH (store_tile Q m ev c b v) a v) as [H|H]; [|right; exact H].
  rewrite H. apply get_store_tile_cases.
Qed.

Lemma store_tiles_put_all : forall l c v,
  store_tiles Q m ev c l v = put_all c l (mkEntry v (store_ts Q m ev)).
Proof.
  induction l as [|b r IH]; intros c v; cbn [store_tiles put_all]; [reflexivity|].
  rewrite IH. reflexivity.
Qed.

(* an abstract creation step: `cover w` = tiles covered by the upstream request for work item w,
   `needs c w` = the re-check under the lock *)
Section Loop.
Variable W : Type.
Variable f : st -> W -> step.
Variable cover : W -> list addr.
Variable needs : cache -> W -> option bool.

Definition answer_content (o : outcome) : Z := match o with UOk _ _ v => v | _ => 0 end.
Definition new_content (s : st) : Z := apply_tile_filter m (answer_content (sc (length (s_log s)))).
Definition new_entry (s : st) : entry := mkEntry (new_content s) (store_ts Q m ev).

Definition step_spec : Prop := forall s w,
  match f s w with
  | Cont s' cr =>
      (s' = s /\ needs (s_cache s) w = Some true) \/
      (needs (s_cache s) w = Some false /\ s_log s' = cover w :: s_log s /\
       (s_cache s' = s_cache s \/
        ((exists au v, sc (length (s_log s)) = UOk true au v) /\
         s_cache s' = store_tiles Q m ev (s_cache s) (cover w) (new_content s))))
  | Stop s' e =>
      (s' = s /\ needs (s_cache s) w = None) \/
      (needs (s_cache s) w = Some false /\ s_log s' = cover w :: s_log s /\ s_cache s' = s_cache s /\
       (e = ESource \/ e = EBody))
  end.

Definition step_ok : Prop := forall s w,
  needs (s_cache s) w = Some false -> (exists v, sc (length (s_log s)) = UOk true false v) ->
  exists cr, f s w = Cont (mkSt (store_tiles Q m ev (s_cache s) (cover w) (new_content s)) (cover w :: s_log s)) cr.

Definition needs_sound : Prop := forall c w, needs c w = Some true -> forall a, In a (cover w) -> cachedb c a = Some true.
Definition needs_total : Prop := forall c w, expire_timestamp Q m ev <> ThrErr -> needs c w <> None.

Hypothesis Hspec : step_spec.

Definition final (r : step) : st := match r with Cont s _ => s | Stop s _ => s end.

(* L1: the log only grows, and every new entry is the cover of a work item *)
Lemma loop_log : forall ws s acc,
  exists new, s_log (final (create_loop f s acc ws)) = new ++ s_log s /\
              forall entry, In entry new -> exists w, In w ws /\ entry = cover w.
Proof.
  induction ws as [|w r IH]; intros s acc; cbn [create_loop].
  - exists []. split; [reflexivity | intros ? []].
  - pose proof (Hspec s w) as H. destruct (f s w) as [s1 cr|s1 e].
    + destruct (IH s1 (rev cr ++ acc)) as [new [Hl Hin]].
      destruct H as [[-> _] | [_ [Hlog _]]].
      * exists new. split; [exact Hl|]. intros en He. destruct (Hin en He) as [w' [? ?]]. exists w'. split; [right|]; assumption.
      * exists (new ++ [cover w]). rewrite Hl, Hlog, <- app_assoc. split; [reflexivity|].
        intros en He. apply in_app_or in He. destruct He as [He|[<-|[]]].
        -- destruct (Hin en He) as [w' [? ?]]. exists w'. split; [right|]; assumption.
        -- exists w. split; [left|]; reflexivity.
    + cbn [final]. destruct H as [[-> _] | [_ [Hlog _]]].
      * exists []. split; [reflexivity | intros ? []].
      * exists [cover w]. rewrite Hlog. split; [reflexivity|]. intros en [<-|[]]. exists w. split; [left|]; reflexivity.
Qed.

Lemma loop_log_len : forall ws s acc, (length (s_log s) <= length (s_log (final (create_loop f s acc ws))))%nat.
Proof. intros ws s acc. destruct (loop_log ws s acc) as [new [-> _]]. rewrite app_length. lia. Qed.

(* L2: a loop that stops has issued an upstream request (when the threshold can be computed) *)
Lemma loop_stop_called : forall ws s acc s' e,
  needs_total -> expire_timestamp Q m ev <> ThrErr ->
  create_loop f s acc ws = Stop s' e ->
  (e = ESource \/ e = EBody) /\ exists new, s_log s' = new ++ s_log s /\ new <> [].
Proof.
  intros ws s acc s' e Htot Hthr. revert s acc.
  induction ws as [|w r IH]; intros s acc; cbn [create_loop]; [discriminate|].
  pose proof (Hspec s w) as H. destruct (f s w) as [s1 cr|s1 e1].
  - intros Hr. destruct (IH s1 _ Hr) as [He [new [Hl Hne]]]. split; [exact He|].
    destruct H as [[-> _] | [_ [Hlog _]]].
    + exists new. split; assumption.
    + exists (new ++ [cover w]). rewrite Hl, Hlog, <- app_assoc. split; [reflexivity|]. destruct new; discriminate.
  - intros Hr. inversion Hr; subst. destruct H as [[_ Hn] | [_ [Hlog [_ He]]]].
    + exfalso. exact (Htot _ _ Hthr Hn).
    + split; [exact He|]. exists [cover w]. rewrite Hlog. split; [reflexivity | discriminate].
Qed.

(* L3: a tile that is missing or stale and belongs to a work item is covered by a new upstream request *)
Lemma loop_covers : forall ws s acc s' cr,
  needs_sound ->
  create_loop f s acc ws = Cont s' cr ->
  forall a w, In w ws -> In a (cover w) -> cachedb (s_cache s) a = Some false ->
  exists new entry, s_log s' = new ++ s_log s /\ In entry new /\ In a entry.
Proof.
  intros ws s acc s' cr Hsound. revert s acc.
  induction ws as [|w0 r IH]; intros s acc Hr a w Hw Ha Hc; [destruct Hw|].
  cbn [create_loop] in Hr. pose proof (Hspec s w0) as H. destruct (f s w0) as [s1 cr1|s1 e1]; [|discriminate].
  destruct H as [[-> Hn] | [Hn [Hlog Hcache]]].
  - destruct Hw as [<-|Hw].
    + rewrite (Hsound _ _ Hn a Ha) in Hc. discriminate.
    + exact (IH _ _ Hr a w Hw Ha Hc).
  - destruct (existsb (addr_eqb a) (cover w0)) eqn:E.
    + apply existsb_addr_In in E.
      pose proof (loop_log r s1 (rev cr1 ++ acc)) as [new [Hl _]]. rewrite Hr in Hl. cbn [final] in Hl.
      exists (new ++ [cover w0]), (cover w0). rewrite Hl, Hlog, <- app_assoc. split; [reflexivity|].
      split; [apply in_or_app; right; left; reflexivity | exact E].
    + assert (Hw' : In w r).
      { destruct Hw as [<-|Hw]; [|exact Hw]. apply existsb_addr_In in Ha. congruence. }
      assert (Hc' : cachedb (s_cache s1) a = Some false).
      { destruct Hcache as [->|[_ ->]]; [exact Hc|]. rewrite <- Hc. apply is_cached_ext. apply get_store_tiles_notin. exact E. }
      destruct (IH _ _ Hr a w Hw' Ha Hc') as [new [en [Hl [Hin Hae]]]].
      exists (new ++ [cover w0]), en. rewrite Hl, Hlog, <- app_assoc. split; [reflexivity|].
      split; [apply in_or_app; left; exact Hin | exact Hae].
Qed.

(* L7: a tile that no new upstream request covers keeps its entry *)
Lemma loop_untouched : forall ws s acc a new,
  s_log (final (create_loop f s acc ws)) = new ++ s_log s ->
  (forall entry, In entry new -> ~ In a entry) ->
  get (s_cache (final (create_loop f s acc ws))) a = get (s_cache s) a.
Proof.
  induction ws as [|w r IH]; intros s acc a new Hl Hnot; cbn [create_loop] in *; [reflexivity|].
  pose proof (Hspec s w) as H. destruct (f s w) as [s1 cr|s1 e].
  - destruct H as [[-> _] | [_ [Hlog Hcache]]].
    + exact (IH _ _ a new Hl Hnot).
    + destruct (loop_log r s1 (rev cr ++ acc)) as [new' [Hl' _]].
      assert (Hn : new = new' ++ [cover w]).
      { apply (app_inv_tail (s_log s)). rewrite <- Hl, Hl', Hlog, <- app_assoc. reflexivity. }
      subst new. rewrite (IH s1 _ a new' Hl').
      * destruct Hcache as [->|[_ ->]]; [reflexivity|].
        destruct (existsb (addr_eqb a) (cover w)) eqn:E; [|apply get_store_tiles_notin; exact E].
        exfalso. apply (Hnot (cover w)); [apply in_or_app; right; left; reflexivity | apply existsb_addr_In; exact E].
      * intros en He. apply Hnot. apply in_or_app. left. exact He.
  - cbn [final] in *. destruct H as [[-> _] | [_ [_ [-> _]]]]; reflexivity.
Qed.

(* L4: without a cacheable upstream answer the cache does not change *)
Lemma loop_cache_unchanged : forall ws s acc,
  (forall k au v, (length (s_log s) <= k)%nat -> sc k <> UOk true au v) ->
  s_cache (final (create_loop f s acc ws)) = s_cache s.
Proof.
  induction ws as [|w r IH]; intros s acc Hno; cbn [create_loop]; [reflexivity|].
  pose proof (Hspec s w) as H. destruct (f s w) as [s1 cr|s1 e].
  - destruct H as [[-> _] | [_ [Hlog Hcache]]].
    + apply IH. exact Hno.
    + rewrite IH.
      * destruct Hcache as [->|[[au [v Hau]] _]]; [reflexivity|]. exfalso. exact (Hno _ au v (le_n _) Hau).
      * intros k au v Hk. apply Hno. rewrite Hlog in Hk. cbn [length] in Hk. lia.
  - cbn [final]. destruct H as [[-> _] | [_ [_ [-> _]]]]; reflexivity.
Qed.

(* L5: an entry survives or is replaced by the answer of a cacheable upstream request of this loop *)
Lemma loop_entry_survives : forall ws s acc a e,
  get (s_cache s) a = Some e ->
  let s' := final (create_loop f s acc ws) in
  get (s_cache s') a = Some e \/
  exists k au v, (length (s_log s) <= k < length (s_log s'))%nat /\ sc k = UOk true au v /\
               get (s_cache s') a = Some (mkEntry (apply_tile_filter m v) (store_ts Q m ev)).
Proof.
  induction ws as [|w r IH]; intros s acc a e Hg; cbn [create_loop]; [left; exact Hg|].
  pose proof (Hspec s w) as H. destruct (f s w) as [s1 cr|s1 e1].
  - destruct H as [[-> _] | [_ [Hlog Hcache]]].
    + apply IH. exact Hg.
    + pose proof (loop_log_len r s1 (rev cr ++ acc)) as Hlen.
      assert (Hlen1 : length (s_log s1) = S (length (s_log s))) by (rewrite Hlog; reflexivity).
      destruct Hcache as [Hc|[[au [v Hau]] Hc]].
      * rewrite <- Hc in Hg. destruct (IH s1 (rev cr ++ acc) a e Hg) as [IH1|[k [au [v [Hk [Hs Hg']]]]]]; [left; exact IH1|].
        right. exists k, au, v. split; [lia|]. split; assumption.
      * destruct (get_store_tiles_cases (cover w) (s_cache s) a (new_content s)) as [Hsame|Hnew]; rewrite <- Hc in *.
        -- rewrite Hg in Hsame.
           destruct (IH s1 (rev cr ++ acc) a e Hsame) as [IH1|[k [au' [v' [Hk [Hs Hg']]]]]]; [left; exact IH1|].
           right. exists k, au', v'. split; [lia|]. split; assumption.
        -- destruct (IH s1 (rev cr ++ acc) a _ Hnew) as [IH1|[k [au' [v' [Hk [Hs Hg']]]]]].
           ++ right. exists (length (s_log s)), au, v. split; [lia|]. split; [exact Hau|].
              rewrite IH1. unfold new_content. rewrite Hau. reflexivity.
           ++ right. exists k, au', v'. split; [lia|]. split; assumption.
  - cbn [final]. left. destruct H as [[-> _] | [_ [_ [-> _]]]]; exact Hg.
Qed.

(* L6: when every upstream request is answered with a cacheable image and what a store writes is fresh, the
   loop completes, keeps fresh tiles fresh and leaves every tile of every work item fresh *)
Lemma loop_converges : forall ws s acc,
  step_ok -> needs_sound -> needs_total ->
  expire_timestamp Q m ev <> ThrErr ->
  (forall c a, cachedb (put c a (mkEntry 0 (store_ts Q m ev))) a = Some true) ->
  (forall k, (length (s_log s) <= k)%nat -> exists v, sc k = UOk true false v) ->
  exists s' cr, create_loop f s acc ws = Cont s' cr /\
    (forall a, cachedb (s_cache s) a = Some true -> cachedb (s_cache s') a = Some true) /\
    (forall w a, In w ws -> In a (cover w) -> cachedb (s_cache s') a = Some true).
Proof.
  intros ws s acc Hok Hsound Htot Hthr Hfresh. revert s acc.
  assert (Hfresh' : forall c a k, cachedb (put c a (mkEntry k (store_ts Q m ev))) a = Some true).
  { intros c a k. specialize (Hfresh c a). unfold tm_is_cached in *. rewrite !get_put, addr_eqb_refl in *.
    destruct (expire_timestamp Q m ev); exact Hfresh. }
  induction ws as [|w r IH]; intros s acc Hsc; cbn [create_loop].
  - exists s, acc. split; [reflexivity|]. split; [auto | intros ? ? []].
  - destruct (needs (s_cache s) w) as [[|]|] eqn:Hn.
    + (* nothing to do for this work item *)
      pose proof (Hspec s w) as H. rewrite Hn in H.
      destruct (f s w) as [s1 cr|s1 e].
      * destruct H as [[-> _] | [Hn' _]]; [|discriminate].
        destruct (IH s (rev cr ++ acc) Hsc) as [s' [cr' [Hr [Hkeep Hall]]]].
        exists s', cr'. split; [exact Hr|]. split; [exact Hkeep|].
        intros w' a [<-|Hw] Ha; [apply Hkeep; exact (Hsound _ _ Hn a Ha) | exact (Hall w' a Hw Ha)].
      * destruct H as [[_ Hn'] | [Hn' _]]; discriminate.
    + destruct (Hok s w Hn (Hsc _ (le_n _))) as [cr Hf]. rewrite Hf.
      rewrite store_tiles_put_all.
      set (s1 := mkSt (put_all (s_cache s) (cover w) (mkEntry (new_content s) (store_ts Q m ev))) (cover w :: s_log s)).
      assert (Hsc1 : forall k, (length (s_log s1) <= k)%nat -> exists v, sc k = UOk true false v).
      { intros k Hk. apply Hsc. cbn in Hk. lia. }
      destruct (IH s1 (rev cr ++ acc) Hsc1) as [s' [cr' [Hr [Hkeep Hall]]]].
      exists s', cr'. split; [exact Hr|]. split.
      * intros a Ha. apply Hkeep. cbn [s1 s_cache]. rewrite is_cached_put_all.
        destruct (existsb (addr_eqb a) (cover w)); [apply Hfresh' | exact Ha].
      * intros w' a [<-|Hw] Ha; [|exact (Hall w' a Hw Ha)].
        apply Hkeep. cbn [s1 s_cache]. rewrite is_cached_put_all.
        apply existsb_addr_In in Ha. rewrite Ha. apply Hfresh'.
    + exfalso. exact (Htot _ _ Hthr Hn).
Qed.

(* L8: a tile that is accepted stays accepted and is not covered by any upstream request of the loop, provided the
   re-check of a work item that covers it sees that it is accepted *)
Lemma loop_fresh_untouched : forall a,
  (forall c w, In a (cover w) -> cachedb c a = Some true -> needs c w = Some true) ->
  forall ws s acc, cachedb (s_cache s) a = Some true ->
  exists new, s_log (final (create_loop f s acc ws)) = new ++ s_log s /\
              (forall entry, In entry new -> ~ In a entry) /\
              cachedb (s_cache (final (create_loop f s acc ws))) a = Some true.
Proof.
  intros a Hre. induction ws as [|w r IH]; intros s acc Hc; cbn [create_loop].
  - exists []. split; [reflexivity|]. split; [intros ? [] | exact Hc].
  - pose proof (Hspec s w) as H. destruct (f s w) as [s1 cr|s1 e].
    + destruct H as [[-> _] | [Hn [Hlog Hcache]]].
      * exact (IH s _ Hc).
      * assert (Hnot : existsb (addr_eqb a) (cover w) = false).
        { destruct (existsb (addr_eqb a) (cover w)) eqn:E; [|reflexivity]. apply existsb_addr_In in E.
          rewrite (Hre _ _ E Hc) in Hn. discriminate. }
        assert (Hc1 : cachedb (s_cache s1) a = Some true).
        { destruct Hcache as [->|[_ ->]]; [exact Hc|]. rewrite <- Hc. apply is_cached_ext. apply get_store_tiles_notin. exact Hnot. }
        destruct (IH s1 (rev cr ++ acc) Hc1) as [new [Hl [Hno Hfin]]].
        exists (new ++ [cover w]). rewrite Hl, Hlog, <- app_assoc. split; [reflexivity|]. split; [|exact Hfin].
        intros en He Ha. apply in_app_or in He. destruct He as [He|[<-|[]]]; [exact (Hno en He Ha)|].
        apply existsb_addr_In in Ha. congruence.
    + cbn [final]. destruct H as [[-> _] | [Hn [Hlog [Hcache _]]]].
      * exists []. split; [reflexivity|]. split; [intros ? [] | exact Hc].
      * exists [cover w]. rewrite Hlog. split; [reflexivity|]. split; [|rewrite Hcache; exact Hc].
        intros en [<-|[]] Ha. rewrite (Hre _ _ Ha Hc) in Hn. discriminate.
Qed.

(* L8 for a group of tiles (meta tile path): tiles that are all accepted stay accepted and none of them is covered by
   an upstream request of the loop, provided the re-check of every work item of the loop that covers one of them
   answers "nothing to do" while all of them are accepted *)
Lemma loop_group_untouched : forall grp ws,
  (forall c w, In w ws -> (exists x, In x grp /\ In x (cover w)) ->
               (forall x, In x grp -> cachedb c x = Some true) -> needs c w = Some true) ->
  forall s acc, (forall x, In x grp -> cachedb (s_cache s) x = Some true) ->
  exists new, s_log (final (create_loop f s acc ws)) = new ++ s_log s /\
              (forall entry, In entry new -> forall x, In x grp -> ~ In x entry) /\
              (forall x, In x grp -> cachedb (s_cache (final (create_loop f s acc ws))) x = Some true).
Proof.
  intros grp. induction ws as [|w r IH]; intros Hre s acc Hc; cbn [create_loop].
  - exists []. split; [reflexivity|]. split; [intros ? [] | exact Hc].
  - assert (Hre' : forall c w', In w' r -> (exists x, In x grp /\ In x (cover w')) ->
                   (forall x, In x grp -> cachedb c x = Some true) -> needs c w' = Some true).
    { intros c w' Hw'. apply Hre. right. exact Hw'. }
    assert (Hdisj : needs (s_cache s) w = Some false -> forall x, In x grp -> existsb (addr_eqb x) (cover w) = false).
    { intros Hn x Hx. destruct (existsb (addr_eqb x) (cover w)) eqn:E; [|reflexivity]. apply existsb_addr_In in E.
      rewrite (Hre (s_cache s) w (or_introl eq_refl) (ex_intro _ x (conj Hx E)) Hc) in Hn. discriminate. }
    pose proof (Hspec s w) as H. destruct (f s w) as [s1 cr|s1 e].
    + destruct H as [[-> _] | [Hn [Hlog Hcache]]].
      * exact (IH Hre' s _ Hc).
      * assert (Hc1 : forall x, In x grp -> cachedb (s_cache s1) x = Some true).
        { intros x Hx. destruct Hcache as [->|[_ ->]]; [exact (Hc x Hx)|]. rewrite <- (Hc x Hx).
          apply is_cached_ext. apply get_store_tiles_notin. exact (Hdisj Hn x Hx). }
        destruct (IH Hre' s1 (rev cr ++ acc) Hc1) as [new [Hl [Hno Hfin]]].
        exists (new ++ [cover w]). rewrite Hl, Hlog, <- app_assoc. split; [reflexivity|]. split; [|exact Hfin].
        intros en He x Hx Ha. apply in_app_or in He. destruct He as [He|[<-|[]]]; [exact (Hno en He x Hx Ha)|].
        apply existsb_addr_In in Ha. rewrite (Hdisj Hn x Hx) in Ha. discriminate.
    + cbn [final]. destruct H as [[-> _] | [Hn [Hlog [Hcache _]]]].
      * exists []. split; [reflexivity|]. split; [intros ? [] | exact Hc].
      * exists [cover w]. rewrite Hlog. split; [reflexivity|]. split; [|rewrite Hcache; exact Hc].
        intros en [<-|[]] x Hx Ha. apply existsb_addr_In in Ha. rewrite (Hdisj Hn x Hx) in Ha. discriminate.
Qed.

End Loop.
End Request.

(* ---- the two creation paths are instances of the abstract step --------------------------------------- *)

Section Paths.
Variable Q : Z.
Variable m : mgr.
Variable ev : env.
Variable sc : nat -> outcome.

Lemma is_stale_of_cached_false : forall c a,
  tm_is_cached Q m ev c a = Some false ->
  tm_is_stale Q m ev c a = Some (match get c a with Some _ => true | None => false end).
Proof. intros c a H. unfold tm_is_stale. rewrite H. destruct (get c a); reflexivity. Qed.

Definition cover1 (a : addr) : list addr := [a].

Lemma single_spec : step_spec Q m ev sc addr (create_single Q m ev sc) cover1 (tm_is_cached Q m ev).
Proof.
  intros s a. unfold create_single.
  destruct (tm_is_cached Q m ev (s_cache s) a) as [[|]|] eqn:Hc.
  - left. split; reflexivity.
  - rewrite (is_stale_of_cached_false _ _ Hc). unfold next_outcome.
    unfold new_content. destruct (sc (length (s_log s))) as [cacheable auth v| | |] eqn:Ho.
    + destruct auth.
      * destruct (get (s_cache s) a).
        -- right. split; [reflexivity|]. split; [reflexivity|]. left. reflexivity.
        -- right. split; [reflexivity|]. split; [reflexivity|].
           destruct cacheable; [right; split; [eexists; eexists; reflexivity | reflexivity] | left; reflexivity].
      * right. split; [reflexivity|]. split; [reflexivity|].
        destruct cacheable; [right; split; [eexists; eexists; reflexivity | reflexivity] | left; reflexivity].
    + destruct (get (s_cache s) a).
      * right. split; [reflexivity|]. split; [reflexivity|]. left. reflexivity.
      * right. split; [reflexivity|]. split; [reflexivity|]. split; [reflexivity | left; reflexivity].
    + right. split; [reflexivity|]. split; [reflexivity|]. left. reflexivity.
    + right. split; [reflexivity|]. split; [reflexivity|]. split; [reflexivity | right; reflexivity].
  - left. split; reflexivity.
Qed.

Lemma single_ok : step_ok Q m ev sc addr (create_single Q m ev sc) cover1 (tm_is_cached Q m ev).
Proof.
  intros s a Hn [v Ho]. unfold create_single. rewrite Hn. unfold next_outcome, new_content. rewrite Ho.
  eexists. reflexivity.
Qed.

Lemma single_sound : needs_sound Q m ev addr cover1 (tm_is_cached Q m ev).
Proof. intros c w H a [<-|[]]. exact H. Qed.

Lemma single_total : needs_total Q m ev addr (tm_is_cached Q m ev).
Proof.
  intros c w Hthr H. destruct (is_cached_total Q m ev c w Hthr) as [b Hb]. congruence.
Qed.

Lemma single_v_spec : forall c0, step_spec Q m ev sc addr (create_single_v Q m ev sc c0) cover1 (tm_is_cached Q m ev).
Proof.
  intros c0 s a. unfold create_single_v. cbv zeta.
  destruct (tm_is_cached Q m ev (s_cache s) a) as [[|]|] eqn:Hc.
  - left. split; reflexivity.
  - rewrite (is_stale_of_cached_false _ _ Hc). unfold next_outcome.
    unfold new_content. destruct (sc (length (s_log s))) as [cacheable auth v| | |] eqn:Ho.
    + destruct auth.
      * destruct (get (s_cache s) a).
        -- right. split; [reflexivity|]. split; [reflexivity|]. left. reflexivity.
        -- right. split; [reflexivity|]. split; [reflexivity|].
           destruct cacheable; [right; split; [eexists; eexists; reflexivity | reflexivity] | left; reflexivity].
      * right. split; [reflexivity|]. split; [reflexivity|].
        destruct cacheable; [right; split; [eexists; eexists; reflexivity | reflexivity] | left; reflexivity].
    + destruct (get (s_cache s) a).
      * right. split; [reflexivity|]. split; [reflexivity|]. left. reflexivity.
      * right. split; [reflexivity|]. split; [reflexivity|]. split; [reflexivity | left; reflexivity].
    + right. split; [reflexivity|]. split; [reflexivity|]. left. reflexivity.
    + right. split; [reflexivity|]. split; [reflexivity|]. split; [reflexivity | right; reflexivity].
  - left. split; reflexivity.
Qed.

Definition coverm (mt : list addr) : list addr := mt.

Lemma all_cached_sound : forall c mt, all_cached Q m ev c mt = Some true ->
  forall a, In a mt -> tm_is_cached Q m ev c a = Some true.
Proof.
  induction mt as [|b r IH]; intros H a Ha; [destruct Ha|].
  cbn [all_cached] in H. destruct (tm_is_cached Q m ev c b) as [[|]|] eqn:Hb; try discriminate.
  destruct Ha as [<-|Ha]; [exact Hb | exact (IH H a Ha)].
Qed.

Lemma all_cached_total : forall c mt, expire_timestamp Q m ev <> ThrErr -> all_cached Q m ev c mt <> None.
Proof.
  induction mt as [|b r IH]; intros Hthr; cbn [all_cached]; [discriminate|].
  destruct (is_cached_total Q m ev c b Hthr) as [x Hx]. rewrite Hx. destruct x; [exact (IH Hthr) | discriminate].
Qed.

Lemma all_cached_false_of : forall c mt a, expire_timestamp Q m ev <> ThrErr ->
  In a mt -> tm_is_cached Q m ev c a = Some false -> all_cached Q m ev c mt = Some false.
Proof.
  intros c mt a Hthr Ha Hc. destruct (all_cached Q m ev c mt) as [[|]|] eqn:E.
  - rewrite (all_cached_sound _ _ E a Ha) in Hc. discriminate.
  - reflexivity.
  - exfalso. exact (all_cached_total c mt Hthr E).
Qed.

Lemma meta_spec : step_spec Q m ev sc (list addr) (create_meta Q m ev sc) coverm (all_cached Q m ev).
Proof.
  intros s mt. unfold create_meta.
  destruct (all_cached Q m ev (s_cache s) mt) as [[|]|] eqn:Hc.
  - left. split; reflexivity.
  - unfold next_outcome, new_content. destruct (sc (length (s_log s))) as [cacheable auth v| | |] eqn:Ho.
    + right. split; [reflexivity|]. split; [reflexivity|].
      destruct cacheable; [right; split; [exists auth, v; reflexivity | reflexivity] | left; reflexivity].
    + right. split; [reflexivity|]. split; [reflexivity|]. split; [reflexivity | left; reflexivity].
    + right. split; [reflexivity|]. split; [reflexivity|]. left. reflexivity.
    + right. split; [reflexivity|]. split; [reflexivity|]. split; [reflexivity | right; reflexivity].
  - left. split; reflexivity.
Qed.

Lemma meta_ok : step_ok Q m ev sc (list addr) (create_meta Q m ev sc) coverm (all_cached Q m ev).
Proof.
  intros s mt Hn [v Ho]. unfold create_meta. rewrite Hn. unfold next_outcome, new_content. rewrite Ho. eexists. reflexivity.
Qed.

Lemma meta_sound : needs_sound Q m ev (list addr) coverm (all_cached Q m ev).
Proof. intros c w H a Ha. exact (all_cached_sound c w H a Ha). Qed.

Lemma meta_total : needs_total Q m ev (list addr) (all_cached Q m ev).
Proof. intros c w Hthr. exact (all_cached_total c w Hthr). Qed.

End Paths.

(* ---- load_tile_coords --------------------------------------------------------------------------------- *)

Section Top.
Variable Q : Z.
Variable m : mgr.
Variable ev : env.
Variable sc : nat -> outcome.
Variable members : addr -> list addr.

Notation cachedb := (tm_is_cached Q m ev).

Lemma uncached_spec : forall c l u, uncached Q m ev c l = Some u ->
  forall a, In a u <-> In a l /\ cachedb c a = Some false.
Proof.
  induction l as [|x l IH]; intros u H a.
  - inversion H. split; [intros [] | intros [[] _]].
  - cbn [uncached] in H. destruct (cachedb c x) as [b|] eqn:Hb; [|discriminate].
    destruct (uncached Q m ev c l) as [u'|] eqn:Hu; [|discriminate]. inversion H; subst. clear H.
    specialize (IH u' eq_refl a). destruct b.
    + rewrite IH. split.
      * intros [? ?]. split; [right|]; assumption.
      * intros [[<-|Hin] Hc]; [congruence | split; assumption].
    + cbn [In]. rewrite IH. split.
      * intros [<-|[? ?]]; [split; [left; reflexivity | exact Hb] | split; [right|]; assumption].
      * intros [[<-|Hin] Hc]; [left; reflexivity | right; split; assumption].
Qed.

Lemma uncached_total : forall c l, expire_timestamp Q m ev <> ThrErr -> exists u, uncached Q m ev c l = Some u.
Proof.
  induction l as [|x l IH]; intros Hthr; cbn [uncached]; [eexists; reflexivity|].
  destruct (is_cached_total Q m ev c x Hthr) as [b ->]. destruct (IH Hthr) as [u ->]. eexists; reflexivity.
Qed.

Lemma uncached_all_true : forall c l, (forall a, In a l -> cachedb c a = Some true) -> uncached Q m ev c l = Some [].
Proof.
  induction l as [|x l IH]; intros H; cbn [uncached]; [reflexivity|].
  rewrite (H x (or_introl eq_refl)), IH; [reflexivity|]. intros a Ha. apply H. right. exact Ha.
Qed.

Lemma mem_mt_In : forall x l, mem_mt x l = true <-> In x l.
Proof.
  induction l as [|y r IH]; cbn [mem_mt In]; [split; [discriminate | intros []]|].
  rewrite orb_true_iff, IH, mt_eqb_eq. split; intros [H|H]; auto.
Qed.

Lemma dedupe_sub : forall l seen x, In x (dedupe seen l) -> In x l.
Proof.
  induction l as [|y r IH]; intros seen x H; [exact H|]. cbn [dedupe] in H.
  destruct (mem_mt y seen); [right; exact (IH _ _ H)|]. destruct H as [<-|H]; [left; reflexivity | right; exact (IH _ _ H)].
Qed.

Lemma dedupe_complete : forall l seen x, In x l -> In x (dedupe seen l) \/ In x seen.
Proof.
  induction l as [|y r IH]; intros seen x H; [destruct H|]. cbn [dedupe].
  destruct (mem_mt y seen) eqn:E.
  - destruct H as [<-|H]; [right; apply mem_mt_In; exact E | exact (IH seen x H)].
  - destruct H as [<-|H]; [left; left; reflexivity|].
    destruct (IH (y :: seen) x H) as [H1|[<-|H1]]; [left; right; exact H1 | left; left; reflexivity | right; exact H1].
Qed.

Definition work_entry (b : addr) : list addr := if m_meta m then members b else [b].

(* the upstream log of one request: it only grows, and every new entry is the (meta) tile of a requested tile
   that was missing or stale when the request started *)
Lemma request_log : forall s coords s' r,
  load_tile_coords Q m ev sc members s coords = (s', r) ->
  exists new, s_log s' = new ++ s_log s /\
    forall entry, In entry new ->
      exists b, In b coords /\ cachedb (s_cache s) b = Some false /\ entry = work_entry b.
Proof.
  intros s coords s' r H. unfold load_tile_coords in H.
  destruct (uncached Q m ev (s_cache s) coords) as [[|u us]|] eqn:Hu.
  - inversion H; subst. exists []. split; [reflexivity | intros ? []].
  - unfold work_entry. destruct (m_meta m).
    + pose proof (loop_log Q m ev sc _ _ coverm _ (meta_spec Q m ev sc) (dedupe [] (map members (u :: us))) s []) as [new [Hl Hin]].
      destruct (create_loop (create_meta Q m ev sc) s [] (dedupe [] (map members (u :: us)))) as [s1 cr|s1 e];
        inversion H; subst; cbn [final] in Hl; exists new; (split; [exact Hl|]);
        intros en He; destruct (Hin en He) as [w [Hw ->]]; apply dedupe_sub in Hw; apply in_map_iff in Hw;
        destruct Hw as [b [<- Hb]]; apply (uncached_spec _ _ _ Hu) in Hb; destruct Hb as [Hb1 Hb2];
        exists b; (split; [exact Hb1|]); (split; [exact Hb2 | reflexivity]).
    + pose proof (loop_log Q m ev sc _ _ cover1 _ (single_spec Q m ev sc) (u :: us) s []) as [new [Hl Hin]].
      destruct (create_loop (create_single Q m ev sc) s [] (u :: us)) as [s1 cr|s1 e];
        inversion H; subst; cbn [final] in Hl; exists new; (split; [exact Hl|]);
        intros en He; destruct (Hin en He) as [b [Hb ->]]; apply (uncached_spec _ _ _ Hu) in Hb; destruct Hb as [Hb1 Hb2];
        exists b; (split; [exact Hb1|]); (split; [exact Hb2 | reflexivity]).
  - inversion H; subst. exists []. split; [reflexivity | intros ? []].
Qed.

(* fresh tiles: answered from the cache, nothing else happens *)
Lemma request_all_fresh : forall s coords,
  (forall a, In a coords -> cachedb (s_cache s) a = Some true) ->
  load_tile_coords Q m ev sc members s coords = (s, Served (map (content_of (s_cache s)) coords)).
Proof. intros s coords H. unfold load_tile_coords. rewrite (uncached_all_true _ _ H). reflexivity. Qed.

(* a requested tile that is missing or stale is fetched again *)
Lemma request_stale_refetched : forall s coords a s' r,
  In a coords -> In a (members a) ->
  cachedb (s_cache s) a = Some false ->
  load_tile_coords Q m ev sc members s coords = (s', r) ->
  exists new, s_log s' = new ++ s_log s /\ new <> [] /\
    ((r = Raised ESource \/ r = Raised EBody) \/ exists l entry, r = Served l /\ In entry new /\ In a entry).
Proof.
  intros s coords a s' r Hin Hmem Hc H. pose proof (is_cached_some_thr Q m ev _ _ _ Hc) as Hthr.
  unfold load_tile_coords in H.
  destruct (uncached_total (s_cache s) coords Hthr) as [unc Hu]. rewrite Hu in H.
  assert (Ha : In a unc) by (apply (uncached_spec _ _ _ Hu); split; assumption).
  destruct unc as [|u us]; [destruct Ha|].
  destruct (m_meta m).
  - assert (Hw : In (members a) (dedupe [] (map members (u :: us)))).
    { destruct (dedupe_complete (map members (u :: us)) [] (members a)) as [?|[]]; [|assumption].
      apply in_map. exact Ha. }
    destruct (create_loop (create_meta Q m ev sc) s [] (dedupe [] (map members (u :: us)))) as [s1 cr|s1 e] eqn:HR;
      inversion H; subst.
    + destruct (loop_covers Q m ev sc _ _ coverm _ (meta_spec Q m ev sc) _ _ _ _ _ (meta_sound Q m ev) HR a _ Hw Hmem Hc)
        as [new [en [Hl [He Hae]]]].
      exists new. split; [exact Hl|]. split; [intros ->; destruct He|]. right. eexists; exists en. split; [reflexivity|]. split; assumption.
    + destruct (loop_stop_called Q m ev sc _ _ coverm _ (meta_spec Q m ev sc) _ _ _ _ _ (meta_total Q m ev) Hthr HR)
        as [He [new [Hl Hne]]].
      exists new. split; [exact Hl|]. split; [exact Hne|]. left. destruct He as [-> | ->]; [left | right]; reflexivity.
  - destruct (create_loop (create_single Q m ev sc) s [] (u :: us)) as [s1 cr|s1 e] eqn:HR; inversion H; subst.
    + destruct (loop_covers Q m ev sc _ _ cover1 _ (single_spec Q m ev sc) _ _ _ _ _ (single_sound Q m ev) HR a a Ha
                  (or_introl eq_refl) Hc) as [new [en [Hl [He Hae]]]].
      exists new. split; [exact Hl|]. split; [intros ->; destruct He|]. right. eexists; exists en. split; [reflexivity|]. split; assumption.
    + destruct (loop_stop_called Q m ev sc _ _ cover1 _ (single_spec Q m ev sc) _ _ _ _ _ (single_total Q m ev) Hthr HR)
        as [He [new [Hl Hne]]].
      exists new. split; [exact Hl|]. split; [exact Hne|]. left. destruct He as [-> | ->]; [left | right]; reflexivity.
Qed.

Lemma request_final : forall s coords,
  uncached Q m ev (s_cache s) coords = None \/ uncached Q m ev (s_cache s) coords = Some [] \/
  exists u us, uncached Q m ev (s_cache s) coords = Some (u :: us) /\
    fst (load_tile_coords Q m ev sc members s coords) =
    if m_meta m then final (create_loop (create_meta Q m ev sc) s [] (dedupe [] (map members (u :: us))))
    else final (create_loop (create_single Q m ev sc) s [] (u :: us)).
Proof.
  intros s coords. unfold load_tile_coords.
  destruct (uncached Q m ev (s_cache s) coords) as [[|u us]|]; [right; left; reflexivity | | left; reflexivity].
  right. right. exists u, us. split; [reflexivity|].
  destruct (m_meta m).
  - destruct (create_loop (create_meta Q m ev sc) s [] (dedupe [] (map members (u :: us)))); reflexivity.
  - destruct (create_loop (create_single Q m ev sc) s [] (u :: us)); reflexivity.
Qed.

(* a request whose upstream answers are all failures / blank / uncacheable leaves the cache as it was *)
Lemma request_failed_keeps_cache : forall s coords,
  (forall k au v, (length (s_log s) <= k)%nat -> sc k <> UOk true au v) ->
  s_cache (fst (load_tile_coords Q m ev sc members s coords)) = s_cache s.
Proof.
  intros s coords Hno. destruct (request_final s coords) as [H|[H|[u [us [H ->]]]]].
  - unfold load_tile_coords. rewrite H. reflexivity.
  - unfold load_tile_coords. rewrite H. reflexivity.
  - destruct (m_meta m).
    + apply (loop_cache_unchanged Q m ev sc _ _ coverm _ (meta_spec Q m ev sc)). exact Hno.
    + apply (loop_cache_unchanged Q m ev sc _ _ cover1 _ (single_spec Q m ev sc)). exact Hno.
Qed.

(* no request removes a tile; an entry changes only into the answer of a cacheable upstream request issued by
   this request, stamped with the instant of the request *)
Lemma request_entry_survives : forall s coords a e,
  get (s_cache s) a = Some e ->
  let s' := fst (load_tile_coords Q m ev sc members s coords) in
  get (s_cache s') a = Some e \/
  exists k au v, (length (s_log s) <= k < length (s_log s'))%nat /\ sc k = UOk true au v /\
               get (s_cache s') a = Some (mkEntry (apply_tile_filter m v) (store_ts Q m ev)).
Proof.
  intros s coords a e Hg. destruct (request_final s coords) as [H|[H|[u [us [H Hf]]]]].
  - left. unfold load_tile_coords. rewrite H. exact Hg.
  - left. unfold load_tile_coords. rewrite H. exact Hg.
  - cbv zeta. rewrite Hf. destruct (m_meta m).
    + exact (loop_entry_survives Q m ev sc _ _ coverm _ (meta_spec Q m ev sc) _ s [] a e Hg).
    + exact (loop_entry_survives Q m ev sc _ _ cover1 _ (single_spec Q m ev sc) _ s [] a e Hg).
Qed.

(* a tile that none of the upstream requests of a request covers keeps its entry *)
Lemma request_untouched : forall s coords a new,
  s_log (fst (load_tile_coords Q m ev sc members s coords)) = new ++ s_log s ->
  (forall entry, In entry new -> ~ In a entry) ->
  get (s_cache (fst (load_tile_coords Q m ev sc members s coords))) a = get (s_cache s) a.
Proof.
  intros s coords a new Hl Hnot. destruct (request_final s coords) as [H|[H|[u [us [H Hf]]]]].
  - unfold load_tile_coords. rewrite H. reflexivity.
  - unfold load_tile_coords. rewrite H. reflexivity.
  - rewrite Hf in *. destruct (m_meta m).
    + exact (loop_untouched Q m ev sc _ _ coverm _ (meta_spec Q m ev sc) _ s [] a new Hl Hnot).
    + exact (loop_untouched Q m ev sc _ _ cover1 _ (single_spec Q m ev sc) _ s [] a new Hl Hnot).
Qed.

(* ---- a request that waits for its lock while another request completes ---- *)

Lemma fst_result_final : forall (R : step) (g : st -> list (addr * option Z) -> list (option Z)),
  fst (match R with Stop s' e => (s', Raised e) | Cont s' created => (s', Served (g s' created)) end) = final R.
Proof. intros [s' cr|s' e] g; reflexivity. Qed.

Lemma load_after_final : forall s0 coords other,
  fst (load_after Q m ev sc members s0 coords other) = s0 \/
  exists u us, uncached Q m ev (s_cache s0) coords = Some (u :: us) /\
    fst (load_after Q m ev sc members s0 coords other) =
    let s1 := fst (load_tile_coords Q m ev sc members s0 other) in
    if m_meta m then final (create_loop (create_meta Q m ev sc) s1 [] (dedupe [] (map members (u :: us))))
    else final (create_loop (create_single_v Q m ev sc (s_cache s0)) s1 [] (u :: us)).
Proof.
  intros s0 coords other. unfold load_after.
  destruct (uncached Q m ev (s_cache s0) coords) as [[|u us]|]; [left; reflexivity | | left; reflexivity].
  right. exists u, us. split; [reflexivity|]. cbv zeta.
  destruct (m_meta m);
    apply (fst_result_final _ (fun s' created => map (serve_after m (s_cache s0) (s_cache s') created) coords)).
Qed.

Lemma load_after_log : forall s0 coords other,
  exists new, s_log (fst (load_after Q m ev sc members s0 coords other)) = new ++ s_log s0.
Proof.
  intros s0 coords other. destruct (load_after_final s0 coords other) as [->|[u [us [_ ->]]]]; [exists []; reflexivity|].
  cbv zeta. destruct (load_tile_coords Q m ev sc members s0 other) as [s1 r1] eqn:H1.
  destruct (request_log s0 other s1 r1 H1) as [n1 [Hl1 _]]. cbn [fst].
  destruct (m_meta m).
  - destruct (loop_log Q m ev sc _ _ coverm _ (meta_spec Q m ev sc) (dedupe [] (map members (u :: us))) s1 []) as [n2 [Hl2 _]].
    exists (n2 ++ n1). rewrite Hl2, Hl1, app_assoc. reflexivity.
  - destruct (loop_log Q m ev sc _ _ cover1 _ (single_v_spec Q m ev sc (s_cache s0)) (u :: us) s1 []) as [n2 [Hl2 _]].
    exists (n2 ++ n1). rewrite Hl2, Hl1, app_assoc. reflexivity.
Qed.

Lemma load_after_keeps : forall s0 coords other a e,
  get (s_cache s0) a = Some e ->
  exists e', get (s_cache (fst (load_after Q m ev sc members s0 coords other))) a = Some e'.
Proof.
  intros s0 coords other a e Hg. destruct (load_after_final s0 coords other) as [->|[u [us [_ ->]]]]; [exists e; exact Hg|].
  cbv zeta.
  assert (H1 : exists e1, get (s_cache (fst (load_tile_coords Q m ev sc members s0 other))) a = Some e1).
  { pose proof (request_entry_survives s0 other a e Hg) as H. cbv zeta in H.
    destruct H as [H|[k [au [v [_ [_ H]]]]]]; eexists; exact H. }
  destruct H1 as [e1 H1]. destruct (m_meta m).
  - pose proof (loop_entry_survives Q m ev sc _ _ coverm _ (meta_spec Q m ev sc) (dedupe [] (map members (u :: us))) _ [] a e1 H1) as H.
    cbv zeta in H. destruct H as [H|[k [au [v [_ [_ H]]]]]]; eexists; exact H.
  - pose proof (loop_entry_survives Q m ev sc _ _ cover1 _ (single_v_spec Q m ev sc (s_cache s0)) (u :: us) _ [] a e1 H1) as H.
    cbv zeta in H. destruct H as [H|[k [au [v [_ [_ H]]]]]]; eexists; exact H.
Qed.

Lemma load_after_down : forall s0 coords other,
  (forall k au v, sc k <> UOk true au v) ->
  s_cache (fst (load_after Q m ev sc members s0 coords other)) = s_cache s0.
Proof.
  intros s0 coords other Hno. destruct (load_after_final s0 coords other) as [->|[u [us [_ ->]]]]; [reflexivity|].
  cbv zeta. pose proof (request_failed_keeps_cache s0 other (fun k au v _ => Hno k au v)) as H1.
  destruct (m_meta m).
  - rewrite (loop_cache_unchanged Q m ev sc _ _ coverm _ (meta_spec Q m ev sc)); [exact H1 | intros k au v _; apply Hno].
  - rewrite (loop_cache_unchanged Q m ev sc _ _ cover1 _ (single_v_spec Q m ev sc (s_cache s0))); [exact H1 | intros k au v _; apply Hno].
Qed.

(* the re-check under the lock observes the refreshed tile (single tile path, every back-end): a requested tile that
   the other request left accepted is not fetched by the waiting request *)
Lemma recheck_observes_refresh : forall s0 coords other a,
  m_meta m = false ->
  let s1 := fst (load_tile_coords Q m ev sc members s0 other) in
  let s' := fst (load_after Q m ev sc members s0 coords other) in
  cachedb (s_cache s1) a = Some true ->
  s' = s0 \/
  exists new, s_log s' = new ++ s_log s1 /\ (forall entry, In entry new -> ~ In a entry) /\
              cachedb (s_cache s') a = Some true.
Proof.
  intros s0 coords other a Hm s1 s' Hc. subst s'.
  destruct (load_after_final s0 coords other) as [->|[u [us [_ ->]]]]; [left; reflexivity|]. right.
  cbv zeta. rewrite Hm. fold s1.
  apply (loop_fresh_untouched Q m ev sc _ _ cover1 _ (single_v_spec Q m ev sc (s_cache s0)) a); [|exact Hc].
  intros c w [<-|[]] Hcw. exact Hcw.
Qed.

Lemma all_cached_complete : forall c mt,
  (forall x, In x mt -> cachedb c x = Some true) -> all_cached Q m ev c mt = Some true.
Proof.
  intros c. induction mt as [|b r IH]; intros H; cbn [all_cached]; [reflexivity|].
  rewrite (H b (or_introl eq_refl)). apply IH. intros x Hx. apply H. right. exact Hx.
Qed.

(* the same on the meta tile path: when the other request left every tile of the meta tile of `a` accepted, the
   waiting request - which decided to create that meta tile before - finds under the lock that there is nothing to
   do: no upstream request of it covers any tile of the meta tile, and all of them stay accepted.  Meta tiles of the
   requested tiles are taken to be equal or disjoint (they partition the grid). *)
Lemma recheck_observes_refresh_meta : forall s0 coords other a,
  m_meta m = true ->
  (forall b, In b coords -> members b = members a \/ forall x, In x (members b) -> ~ In x (members a)) ->
  let s1 := fst (load_tile_coords Q m ev sc members s0 other) in
  let s' := fst (load_after Q m ev sc members s0 coords other) in
  (forall x, In x (members a) -> cachedb (s_cache s1) x = Some true) ->
  s' = s0 \/
  exists new, s_log s' = new ++ s_log s1 /\ (forall entry, In entry new -> forall x, In x (members a) -> ~ In x entry) /\
              (forall x, In x (members a) -> cachedb (s_cache s') x = Some true).
Proof.
  intros s0 coords other a Hm Hpart s1 s' Hc. subst s'.
  destruct (load_after_final s0 coords other) as [->|[u [us [Hu ->]]]]; [left; reflexivity|]. right.
  cbv zeta. rewrite Hm. fold s1.
  apply (loop_group_untouched Q m ev sc _ _ coverm _ (meta_spec Q m ev sc) (members a)); [|exact Hc].
  intros c w Hw [x [Hx Hxw]] Hall. unfold coverm in Hxw.
  apply dedupe_sub in Hw. apply in_map_iff in Hw. destruct Hw as [b [<- Hb]].
  apply (uncached_spec _ _ _ Hu) in Hb. destruct Hb as [Hb _].
  destruct (Hpart b Hb) as [->|Hd]; [apply all_cached_complete; exact Hall|].
  exfalso. exact (Hd x Hxw Hx).
Qed.

(* single-tile path, upstream down: every requested tile that exists is served with its old content *)
Lemma single_loop_all_fail : forall ws s acc,
  (forall a, In a ws -> (exists e, get (s_cache s) a = Some e) /\ cachedb (s_cache s) a = Some false) ->
  (forall k, (length (s_log s) <= k)%nat -> sc k = UErr) ->
  exists s', create_loop (create_single Q m ev sc) s acc ws = Cont s' acc /\ s_cache s' = s_cache s.
Proof.
  induction ws as [|w r IH]; intros s acc Hall Herr; cbn [create_loop]; [exists s; split; reflexivity|].
  destruct (Hall w (or_introl eq_refl)) as [[e He] Hc].
  unfold create_single at 1. rewrite Hc, (is_stale_of_cached_false Q m ev _ _ Hc), He. unfold next_outcome.
  rewrite (Herr _ (le_n _)). cbn [rev app].
  destruct (IH (mkSt (s_cache s) ([w] :: s_log s)) acc) as [s' [Hr Hcache]].
  - intros a Ha. exact (Hall a (or_intror Ha)).
  - intros k Hk. apply Herr. cbn in Hk. lia.
  - exists s'. split; [exact Hr | exact Hcache].
Qed.

Lemma serve_nil : forall c coords, map (serve c []) coords = map (content_of c) coords.
Proof. intros c coords. apply map_ext. intros a. reflexivity. Qed.

Lemma request_failed_serves_old : forall s coords,
  m_meta m = false ->
  expire_timestamp Q m ev <> ThrErr ->
  (forall a, In a coords -> exists e, get (s_cache s) a = Some e) ->
  (forall k, (length (s_log s) <= k)%nat -> sc k = UErr) ->
  exists s', load_tile_coords Q m ev sc members s coords = (s', Served (map (content_of (s_cache s)) coords)) /\
             s_cache s' = s_cache s.
Proof.
  intros s coords Hm Hthr Hex Herr. unfold load_tile_coords.
  destruct (uncached_total (s_cache s) coords Hthr) as [unc Hu]. rewrite Hu.
  destruct unc as [|u us]; [exists s; split; reflexivity|]. rewrite Hm.
  destruct (single_loop_all_fail (u :: us) s []) as [s' [Hr Hc]].
  - intros a Ha. apply (uncached_spec _ _ _ Hu) in Ha. destruct Ha as [Ha1 Ha2]. split; [exact (Hex a Ha1) | exact Ha2].
  - exact Herr.
  - rewrite Hr. exists s'. rewrite serve_nil. split; [reflexivity | exact Hc].
Qed.

(* successful refresh: afterwards every requested tile is fresh *)
Lemma request_converges : forall s coords t,
  0 < Q -> 0 <= now ev ->
  expire_timestamp Q m ev = ThrAt t -> t < floor_sec Q (now ev) ->
  (forall a, In a coords -> In a (members a)) ->
  (forall k, (length (s_log s) <= k)%nat -> exists v, sc k = UOk true false v) ->
  exists s' l, load_tile_coords Q m ev sc members s coords = (s', Served l) /\
    (forall a, In a coords -> cachedb (s_cache s') a = Some true) /\
    (forall a, cachedb (s_cache s) a = Some true -> cachedb (s_cache s') a = Some true).
Proof.
  intros s coords t HQ Hnow Ht Hlt Hmem Hok.
  assert (Hthr : expire_timestamp Q m ev <> ThrErr) by (rewrite Ht; discriminate).
  assert (Hfresh : forall c a, cachedb (put c a (mkEntry 0 (store_ts Q m ev))) a = Some true).
  { intros c a. unfold tm_is_cached. rewrite Ht, get_put, addr_eqb_refl. cbn [e_ts].
    rewrite (store_ts_fresh Q HQ m ev t Hnow Hlt). reflexivity. }
  unfold load_tile_coords.
  destruct (uncached_total (s_cache s) coords Hthr) as [unc Hu]. rewrite Hu.
  assert (Hrest : forall a, In a coords -> ~ In a unc -> cachedb (s_cache s) a = Some true).
  { intros a Ha Hn. destruct (is_cached_total Q m ev (s_cache s) a Hthr) as [[|] Hb]; [exact Hb|].
    exfalso. apply Hn. apply (uncached_spec _ _ _ Hu). split; assumption. }
  destruct unc as [|u us].
  - exists s. eexists. split; [reflexivity|]. split; [|auto]. intros a Ha. apply Hrest; [exact Ha | intros []].
  - destruct (m_meta m).
    + destruct (loop_converges Q m ev sc _ _ coverm _ (meta_spec Q m ev sc) (dedupe [] (map members (u :: us))) s []
                  (meta_ok Q m ev sc) (meta_sound Q m ev) (meta_total Q m ev) Hthr Hfresh Hok) as [s' [cr [Hr [Hkeep Hall]]]].
      rewrite Hr. exists s'. eexists. split; [reflexivity|]. split; [|exact Hkeep].
      intros a Ha. destruct (is_cached_total Q m ev (s_cache s) a Hthr) as [[|] Hb]; [apply Hkeep; exact Hb|].
      assert (Hau : In a (u :: us)) by (apply (uncached_spec _ _ _ Hu); split; assumption).
      apply (Hall (members a) a); [|exact (Hmem a Ha)].
      destruct (dedupe_complete (map members (u :: us)) [] (members a)) as [?|[]]; [|assumption]. apply in_map. exact Hau.
    + destruct (loop_converges Q m ev sc _ _ cover1 _ (single_spec Q m ev sc) (u :: us) s []
                  (single_ok Q m ev sc) (single_sound Q m ev) (single_total Q m ev) Hthr Hfresh Hok) as [s' [cr [Hr [Hkeep Hall]]]].
      rewrite Hr. exists s'. eexists. split; [reflexivity|]. split; [|exact Hkeep].
      intros a Ha. destruct (is_cached_total Q m ev (s_cache s) a Hthr) as [[|] Hb]; [apply Hkeep; exact Hb|].
      assert (Hau : In a (u :: us)) by (apply (uncached_spec _ _ _ Hu); split; assumption).
      exact (Hall a a Hau (or_introl eq_refl)).
Qed.

End Top.

(* ---- the statements in terms of timestamps and thresholds -------------------------------------------- *)

Section Readable.
Variable Q : Z.
Hypothesis Qpos : 0 < Q.
Variable m : mgr.
Variable ev : env.

(* cached, written at or before the threshold: not accepted *)
Lemma stale_tile_uncached : forall c a e t,
  expire_timestamp Q m ev = ThrAt t -> get c a = Some e -> 0 <= e_ts e -> e_ts e <= t ->
  tm_is_cached Q m ev c a = Some false.
Proof.
  intros c a e t Ht Hg H0 Hle. unfold tm_is_cached. rewrite Ht, Hg.
  rewrite (written_before_stale Q Qpos _ _ H0 Hle). reflexivity.
Qed.

Lemma missing_tile_uncached : forall c a,
  expire_timestamp Q m ev <> ThrErr -> get c a = None -> tm_is_cached Q m ev c a = Some false.
Proof.
  intros c a Ht Hg. unfold tm_is_cached. rewrite Hg. destruct (expire_timestamp Q m ev); [reflexivity | reflexivity | congruence].
Qed.

(* cached, whole second of the timestamp after the threshold: accepted *)
Lemma fresh_tile_cached : forall c a e t,
  expire_timestamp Q m ev = ThrAt t -> get c a = Some e -> 0 <= e_ts e -> t < floor_sec Q (e_ts e) ->
  tm_is_cached Q m ev c a = Some true.
Proof.
  intros c a e t Ht Hg H0 Hlt. unfold tm_is_cached. rewrite Ht, Hg.
  rewrite (proj2 (stale_at_false_spec Q Qpos _ _ H0) Hlt). reflexivity.
Qed.

Lemma no_rule_cached : forall c a e,
  expire_timestamp Q m ev = ThrNone -> get c a = Some e -> tm_is_cached Q m ev c a = Some true.
Proof. intros c a e Ht Hg. unfold tm_is_cached. rewrite Ht, Hg. reflexivity. Qed.

(* exact characterisation *)
Lemma is_cached_iff : forall c a t, expire_timestamp Q m ev = ThrAt t ->
  (forall e, get c a = Some e -> 0 <= e_ts e) ->
  (tm_is_cached Q m ev c a = Some true <-> exists e, get c a = Some e /\ t < floor_sec Q (e_ts e)).
Proof.
  intros c a t Ht Hpos. unfold tm_is_cached. rewrite Ht. destruct (get c a) as [e|] eqn:Hg.
  - specialize (Hpos e eq_refl). split.
    + intros H. exists e. split; [reflexivity|]. apply (stale_at_false_spec Q Qpos _ _ Hpos).
      destruct (stale_at Q (e_ts e) t); [discriminate | reflexivity].
    + intros [e' [He Hlt]]. inversion He; subst. rewrite (proj2 (stale_at_false_spec Q Qpos _ _ Hpos) Hlt). reflexivity.
  - split; [discriminate | intros [e [He _]]; discriminate].
Qed.

(* is_stale = exists and not accepted *)
Lemma is_stale_iff : forall c a t, expire_timestamp Q m ev = ThrAt t ->
  (forall e, get c a = Some e -> 0 <= e_ts e) ->
  (tm_is_stale Q m ev c a = Some true <-> exists e, get c a = Some e /\ floor_sec Q (e_ts e) <= t).
Proof.
  intros c a t Ht Hpos. unfold tm_is_stale, tm_is_cached. rewrite Ht. destruct (get c a) as [e|] eqn:Hg.
  - specialize (Hpos e eq_refl). split.
    + intros H. exists e. split; [reflexivity|]. apply (stale_at_spec Q Qpos _ _ Hpos).
      destruct (stale_at Q (e_ts e) t); [reflexivity | discriminate].
    + intros [e' [He Hle]]. inversion He; subst. rewrite (proj2 (stale_at_spec Q Qpos _ _ Hpos) Hle). reflexivity.
  - split; [discriminate | intros [e [He _]]; discriminate].
Qed.

End Readable.

(* ---- histories --------------------------------------------------------------------------------------- *)

Section Histories.
Variable Q : Z.
Variable sc : nat -> outcome.
Variable members : addr -> list addr.

Lemma request_keeps : forall m ev s coords a en,
  get (s_cache s) a = Some en ->
  exists en', get (s_cache (fst (load_tile_coords Q m ev sc members s coords))) a = Some en'.
Proof.
  intros m ev s coords a en Hg.
  pose proof (request_entry_survives Q m ev sc members s coords a en Hg) as H. cbv zeta in H.
  destruct H as [H|[k [au [v [_ [_ H]]]]]]; eexists; exact H.
Qed.

Lemma request_log_grows : forall m ev s coords,
  exists new, s_log (fst (load_tile_coords Q m ev sc members s coords)) = new ++ s_log s.
Proof.
  intros m ev s coords. destruct (load_tile_coords Q m ev sc members s coords) as [s' r] eqn:H.
  destruct (request_log Q m ev sc members _ _ _ _ H) as [new [Hl _]]. exists new. exact Hl.
Qed.

Lemma seed_walk_keeps : forall mains m ev s skip a en,
  get (s_cache s) a = Some en ->
  exists en', get (s_cache (fst (fst (seed_walk Q m ev sc members s skip mains)))) a = Some en'.
Proof.
  induction mains as [|t r IH]; intros m ev s skip a en Hg; cbn [seed_walk]; [exists en; exact Hg|].
  destruct (seed_select Q m ev (s_cache s) skip (members t)) as [[|x h]|].
  - exact (IH m ev s skip a en Hg).
  - destruct (request_keeps m ev s (x :: h) a en Hg) as [en1 H1].
    destruct (IH m ev _ skip a en1 H1) as [en2 H2].
    destruct (seed_walk Q m ev sc members (fst (load_tile_coords Q m ev sc members s (x :: h))) skip r) as [[s2 hs] ok].
    exists en2. exact H2.
  - exists en. exact Hg.
Qed.

Lemma seed_walk_log : forall mains m ev s skip,
  exists new, s_log (fst (fst (seed_walk Q m ev sc members s skip mains))) = new ++ s_log s.
Proof.
  induction mains as [|t r IH]; intros m ev s skip; cbn [seed_walk]; [exists []; reflexivity|].
  destruct (seed_select Q m ev (s_cache s) skip (members t)) as [[|x h]|].
  - exact (IH m ev s skip).
  - destruct (request_log_grows m ev s (x :: h)) as [n1 H1].
    destruct (IH m ev (fst (load_tile_coords Q m ev sc members s (x :: h))) skip) as [n2 H2].
    destruct (seed_walk Q m ev sc members (fst (load_tile_coords Q m ev sc members s (x :: h))) skip r) as [[s2 hs] ok].
    cbn [fst] in *. exists (n2 ++ n1). rewrite H2, H1, app_assoc. reflexivity.
  - exists []. reflexivity.
Qed.

Lemma seed_walk_down : forall mains m ev s skip,
  (forall k au v, sc k <> UOk true au v) ->
  s_cache (fst (fst (seed_walk Q m ev sc members s skip mains))) = s_cache s.
Proof.
  induction mains as [|t r IH]; intros m ev s skip Hno; cbn [seed_walk]; [reflexivity|].
  destruct (seed_select Q m ev (s_cache s) skip (members t)) as [[|x h]|].
  - exact (IH m ev s skip Hno).
  - pose proof (request_failed_keeps_cache Q m ev sc members s (x :: h) (fun k au v _ => Hno k au v)) as H1.
    pose proof (IH m ev (fst (load_tile_coords Q m ev sc members s (x :: h))) skip Hno) as H2.
    destruct (seed_walk Q m ev sc members (fst (load_tile_coords Q m ev sc members s (x :: h))) skip r) as [[s2 hs] ok].
    cbn [fst] in *. congruence.
  - reflexivity.
Qed.

Lemma step_event_keeps : forall w e a en,
  get (s_cache (w_st w)) a = Some en ->
  exists en', get (s_cache (w_st (fst (step_event Q sc members w e)))) a = Some en'.
Proof.
  intros w e a en Hg. destruct e as [coords|coords other|b|t|t|rb ex|refresh skip mains]; cbn [step_event].
  - pose proof (request_entry_survives Q (w_mgr w) (w_env w) sc members (w_st w) coords a en Hg) as H. cbv zeta in H.
    destruct (load_tile_coords Q (w_mgr w) (w_env w) sc members (w_st w) coords) as [s' r]. cbn [fst w_st] in *.
    destruct H as [H|[k [au [v [_ [_ H]]]]]]; eexists; exact H.
  - destruct (load_after_keeps Q (w_mgr w) (w_env w) sc members (w_st w) coords other a en Hg) as [en' H].
    destruct (load_after Q (w_mgr w) (w_env w) sc members (w_st w) coords other) as [s' r]. exists en'. exact H.
  - exists en. exact Hg.
  - exists en. exact Hg.
  - exists en. exact Hg.
  - exists en. exact Hg.
  - match goal with |- context [seed_walk Q ?m' ?ev' sc members ?s0 skip mains] =>
      destruct (seed_walk_keeps mains m' ev' s0 skip a en Hg) as [en' H];
      destruct (seed_walk Q m' ev' sc members s0 skip mains) as [[s2 h] ok] end.
    exists en'. exact H.
Qed.

Lemma step_event_log : forall w e,
  exists new, s_log (w_st (fst (step_event Q sc members w e))) = new ++ s_log (w_st w).
Proof.
  intros w e. destruct e as [coords|coords other|b|t|t|rb ex|refresh skip mains]; cbn [step_event]; try (exists []; reflexivity).
  - destruct (load_tile_coords Q (w_mgr w) (w_env w) sc members (w_st w) coords) as [s' r] eqn:H.
    destruct (request_log Q (w_mgr w) (w_env w) sc members _ _ _ _ H) as [new [Hl _]]. exists new. exact Hl.
  - destruct (load_after_log Q (w_mgr w) (w_env w) sc members (w_st w) coords other) as [new H].
    destruct (load_after Q (w_mgr w) (w_env w) sc members (w_st w) coords other) as [s' r]. exists new. exact H.
  - match goal with |- context [seed_walk Q ?m' ?ev' sc members ?s0 skip mains] =>
      destruct (seed_walk_log mains m' ev' s0 skip) as [new H];
      destruct (seed_walk Q m' ev' sc members s0 skip mains) as [[s2 h] ok] end.
    exists new. exact H.
Qed.

(* whatever the history (requests, clock changes, rule changes, upstream failures): no tile is ever lost *)
Lemma history_never_deletes : forall es w a en,
  get (s_cache (w_st w)) a = Some en ->
  exists en', get (s_cache (w_st (fst (run Q sc members w es)))) a = Some en'.
Proof.
  induction es as [|e r IH]; intros w a en Hg; cbn [run]; [exists en; exact Hg|].
  destruct (step_event_keeps w e a en Hg) as [en1 H1].
  destruct (step_event Q sc members w e) as [w1 o]. cbn [fst] in H1.
  destruct (IH w1 a en1 H1) as [en2 H2]. destruct (run Q sc members w1 r) as [w2 os]. exists en2. exact H2.
Qed.

Lemma history_log_grows : forall es w,
  exists new, s_log (w_st (fst (run Q sc members w es))) = new ++ s_log (w_st w).
Proof.
  induction es as [|e r IH]; intros w; cbn [run]; [exists []; reflexivity|].
  destruct (step_event_log w e) as [n1 H1]. destruct (step_event Q sc members w e) as [w1 o]. cbn [fst] in H1.
  destruct (IH w1) as [n2 H2]. destruct (run Q sc members w1 r) as [w2 os]. cbn [fst] in *.
  exists (n2 ++ n1). rewrite H2, H1, app_assoc. reflexivity.
Qed.

(* with the upstream down for the whole history, the cache never changes *)
Lemma history_upstream_down : forall es w,
  (forall k au v, sc k <> UOk true au v) ->
  s_cache (w_st (fst (run Q sc members w es))) = s_cache (w_st w).
Proof.
  induction es as [|e r IH]; intros w Hno; cbn [run]; [reflexivity|].
  assert (H1 : s_cache (w_st (fst (step_event Q sc members w e))) = s_cache (w_st w)).
  { destruct e as [coords|coords other|b|t|t|rb ex|refresh skip mains]; cbn [step_event]; try reflexivity.
    - pose proof (request_failed_keeps_cache Q (w_mgr w) (w_env w) sc members (w_st w) coords (fun k au v _ => Hno k au v)) as H.
      destruct (load_tile_coords Q (w_mgr w) (w_env w) sc members (w_st w) coords) as [s' r']. exact H.
    - pose proof (load_after_down Q (w_mgr w) (w_env w) sc members (w_st w) coords other Hno) as H.
      destruct (load_after Q (w_mgr w) (w_env w) sc members (w_st w) coords other) as [s' r']. exact H.
    - match goal with |- context [seed_walk Q ?m' ?ev' sc members ?s0 skip mains] =>
        pose proof (seed_walk_down mains m' ev' s0 skip Hno) as H;
        destruct (seed_walk Q m' ev' sc members s0 skip mains) as [[s2 h] ok] end.
      exact H. }
  destruct (step_event Q sc members w e) as [w1 o]. cbn [fst] in H1.
  specialize (IH w1 Hno). destruct (run Q sc members w1 r) as [w2 os]. cbn [fst] in *. congruence.
Qed.

End Histories.

(* ---- non-vacuity: concrete instances of the hypotheses, and the documented witnesses ---------------- *)

Module Ex.
Definition q := 4.                                   (* quarter seconds *)
Definition a0 : addr := (0, 0, 2).
Definition a1 : addr := (1, 0, 2).
Definition a2 : addr := (0, 1, 2).
Definition a3 : addr := (1, 1, 2).
(* relative rule "2 seconds", clock at 1000000010.0 s: threshold = 1000000008 s = tick 4000000032 *)
Definition m_rel := mkMgr (Some (mkRconf None false 0 0 0 0 8)) None false false 0 false.
Definition m_rel_meta := mkMgr (Some (mkRconf None false 0 0 0 0 8)) None true true 0 false.
Definition ev := mkEnv 4000000040 None.
(* a0 written at ...07.5 s (stale), a1 at ...09.25 s (fresh), a2 at ...08.25 s (after the threshold, same second) *)
Definition c : cache := [(a0, mkEntry 100 4000000030); (a1, mkEntry 101 4000000037); (a2, mkEntry 102 4000000033)].
Definition all_ok (k : nat) := UOk true false (Z.of_nat k).
Definition all_err (k : nat) := UErr.
Definition single (a : addr) := [a].
Definition block (a : addr) := [a2; a3; a0; a1].
Definition s0 := mkSt c [].
End Ex.

Example ex_threshold : expire_timestamp Ex.q Ex.m_rel Ex.ev = ThrAt 4000000032.
Proof. vm_compute. reflexivity. Qed.

Example ex_decisions :
  (tm_is_cached Ex.q Ex.m_rel Ex.ev Ex.c Ex.a0, tm_is_cached Ex.q Ex.m_rel Ex.ev Ex.c Ex.a1,
   tm_is_cached Ex.q Ex.m_rel Ex.ev Ex.c Ex.a2, tm_is_cached Ex.q Ex.m_rel Ex.ev Ex.c Ex.a3)
  = (Some false, Some true, Some false, Some false).
Proof. vm_compute. reflexivity. Qed.

(* stale a0 is refetched (content 0 = first upstream answer), fresh a1 is served from the cache *)
Example ex_single_request :
  load_tile_coords Ex.q Ex.m_rel Ex.ev Ex.all_ok Ex.single Ex.s0 [Ex.a0; Ex.a1] =
  (mkSt ((Ex.a0, mkEntry 0 4000000040) :: Ex.c) [[Ex.a0]], Served [Some 0; Some 101]).
Proof. vm_compute. reflexivity. Qed.

Example ex_all_fresh : forall a, In a [Ex.a1] -> tm_is_cached Ex.q Ex.m_rel Ex.ev (s_cache Ex.s0) a = Some true.
Proof. intros a [<-|[]]. vm_compute. reflexivity. Qed.

(* upstream down: old content served, cache untouched, one upstream attempt *)
Example ex_failed_refresh :
  load_tile_coords Ex.q Ex.m_rel Ex.ev Ex.all_err Ex.single Ex.s0 [Ex.a0; Ex.a1] =
  (mkSt Ex.c [[Ex.a0]], Served [Some 100; Some 101]).
Proof. vm_compute. reflexivity. Qed.

(* meta tile path: one request for the whole block because a0 is stale; sqlite-like store writes whole seconds *)
Example ex_meta_request :
  load_tile_coords Ex.q Ex.m_rel_meta Ex.ev Ex.all_ok Ex.block Ex.s0 [Ex.a1; Ex.a0] =
  (mkSt (put_all Ex.c [Ex.a2; Ex.a3; Ex.a0; Ex.a1] (mkEntry 0 4000000040)) [[Ex.a2; Ex.a3; Ex.a0; Ex.a1]],
   Served [Some 0; Some 0]).
Proof. vm_compute. reflexivity. Qed.

(* meta tile path, upstream down: the error surfaces, the cache is untouched *)
Example ex_meta_failed :
  load_tile_coords Ex.q Ex.m_rel_meta Ex.ev Ex.all_err Ex.block Ex.s0 [Ex.a0] =
  (mkSt Ex.c [[Ex.a2; Ex.a3; Ex.a0; Ex.a1]], Raised ESource).
Proof. vm_compute. reflexivity. Qed.

Example ex_converges_hyps : 0 < Ex.q /\ 0 <= now Ex.ev /\ 4000000032 < floor_sec Ex.q (now Ex.ev).
Proof. vm_compute. repeat split; intros; discriminate. Qed.

(* documented granularity: a tile written AFTER the threshold but within the same whole second is refreshed.
   (statement "written after the threshold => served from the cache" is false at sub-second resolution) *)
Lemma written_after_threshold_same_second_refuted :
  exists Q m ev c a e t,
    0 < Q /\ expire_timestamp Q m ev = ThrAt t /\ get c a = Some e /\ t < e_ts e /\
    tm_is_cached Q m ev c a = Some false.
Proof.
  exists Ex.q, Ex.m_rel, Ex.ev, Ex.c, Ex.a2, (mkEntry 102 4000000033), 4000000032.
  vm_compute. repeat split; reflexivity.
Qed.

(* a rule "0 seconds" never accepts a tile written in the current second: refresh cannot converge there *)
Example ex_zero_age_never_fresh :
  let m0 := mkMgr (Some (mkRconf None false 0 0 0 0 0)) None false false 0 false in
  tm_is_cached Ex.q m0 Ex.ev (put [] Ex.a0 (mkEntry 7 (store_ts Ex.q m0 Ex.ev))) Ex.a0 = Some false.
Proof. vm_compute. reflexivity. Qed.

(* ---- the property statements (used by props/P_C13.v) ------------------------------------------------ *)

Lemma stale_refetched_lemma : forall Q m ev sc members s coords a e t s' r,
  0 < Q -> expire_timestamp Q m ev = ThrAt t ->
  In a coords -> In a (members a) ->
  get (s_cache s) a = Some e -> 0 <= e_ts e -> e_ts e <= t ->
  load_tile_coords Q m ev sc members s coords = (s', r) ->
  exists new, s_log s' = new ++ s_log s /\ new <> [] /\
    ((r = Raised ESource \/ r = Raised EBody) \/ exists l entry, r = Served l /\ In entry new /\ In a entry).
Proof.
  intros Q m ev sc members s coords a e t s' r HQ Ht Hin Hmem Hg H0 Hle H.
  apply (request_stale_refetched Q m ev sc members s coords a s' r Hin Hmem); [|exact H].
  exact (stale_tile_uncached Q HQ m ev _ _ _ _ Ht Hg H0 Hle).
Qed.

Lemma missing_fetched_lemma : forall Q m ev sc members s coords a s' r,
  expire_timestamp Q m ev <> ThrErr ->
  In a coords -> In a (members a) -> get (s_cache s) a = None ->
  load_tile_coords Q m ev sc members s coords = (s', r) ->
  exists new, s_log s' = new ++ s_log s /\ new <> [] /\
    ((r = Raised ESource \/ r = Raised EBody) \/ exists l entry, r = Served l /\ In entry new /\ In a entry).
Proof.
  intros Q m ev sc members s coords a s' r Ht Hin Hmem Hg H.
  apply (request_stale_refetched Q m ev sc members s coords a s' r Hin Hmem); [|exact H].
  exact (missing_tile_uncached Q m ev _ _ Ht Hg).
Qed.

Lemma fresh_no_upstream_lemma : forall Q m ev sc members s coords t,
  0 < Q -> expire_timestamp Q m ev = ThrAt t ->
  (forall a, In a coords -> exists e, get (s_cache s) a = Some e /\ 0 <= e_ts e /\ t < floor_sec Q (e_ts e)) ->
  load_tile_coords Q m ev sc members s coords = (s, Served (map (content_of (s_cache s)) coords)).
Proof.
  intros Q m ev sc members s coords t HQ Ht H. apply request_all_fresh.
  intros a Ha. destruct (H a Ha) as [e [Hg [H0 Hlt]]]. exact (fresh_tile_cached Q HQ m ev _ _ _ _ Ht Hg H0 Hlt).
Qed.

Lemma fresh_no_upstream_whole_lemma : forall Q m ev sc members s coords t,
  0 < Q -> expire_timestamp Q m ev = ThrAt t ->
  (forall a, In a coords -> exists e sec, get (s_cache s) a = Some e /\ 0 <= sec /\ e_ts e = sec * Q /\ t < e_ts e) ->
  load_tile_coords Q m ev sc members s coords = (s, Served (map (content_of (s_cache s)) coords)).
Proof.
  intros Q m ev sc members s coords t HQ Ht H. apply (fresh_no_upstream_lemma Q m ev sc members s coords t HQ Ht).
  intros a Ha. destruct (H a Ha) as [e [sec [Hg [H0 [Hw Hlt]]]]]. exists e. split; [exact Hg|].
  rewrite Hw in *. rewrite floor_sec_whole by exact HQ. split; [nia | exact Hlt].
Qed.

Lemma no_rule_no_upstream_lemma : forall Q m ev sc members s coords,
  expire_timestamp Q m ev = ThrNone ->
  (forall a, In a coords -> exists e, get (s_cache s) a = Some e) ->
  load_tile_coords Q m ev sc members s coords = (s, Served (map (content_of (s_cache s)) coords)).
Proof.
  intros Q m ev sc members s coords Ht H. apply request_all_fresh.
  intros a Ha. destruct (H a Ha) as [e Hg]. exact (no_rule_cached Q m ev _ _ _ Ht Hg).
Qed.

Lemma fresh_not_refetched_single_lemma : forall Q m ev sc members s coords a s' r,
  m_meta m = false ->
  tm_is_cached Q m ev (s_cache s) a = Some true ->
  load_tile_coords Q m ev sc members s coords = (s', r) ->
  exists new, s_log s' = new ++ s_log s /\ forall entry, In entry new -> ~ In a entry.
Proof.
  intros Q m ev sc members s coords a s' r Hm Hc H.
  destruct (request_log Q m ev sc members s coords s' r H) as [new [Hl Hin]].
  exists new. split; [exact Hl|]. intros en He Ha.
  destruct (Hin en He) as [b [_ [Hb ->]]]. unfold work_entry in Ha. rewrite Hm in Ha.
  destruct Ha as [<-|[]]. congruence.
Qed.

Lemma refresh_then_cached_lemma : forall Q m ev sc members s coords t,
  0 < Q -> 0 <= now ev ->
  expire_timestamp Q m ev = ThrAt t -> t < floor_sec Q (now ev) ->
  (forall a, In a coords -> In a (members a)) ->
  (forall k, (length (s_log s) <= k)%nat -> exists v, sc k = UOk true false v) ->
  exists s' l, load_tile_coords Q m ev sc members s coords = (s', Served l) /\
    (forall a, In a coords -> tm_is_cached Q m ev (s_cache s') a = Some true) /\
    load_tile_coords Q m ev sc members s' coords = (s', Served (map (content_of (s_cache s')) coords)).
Proof.
  intros Q m ev sc members s coords t HQ Hnow Ht Hlt Hmem Hok.
  destruct (request_converges Q m ev sc members s coords t HQ Hnow Ht Hlt Hmem Hok) as [s' [l [H1 [H2 _]]]].
  exists s', l. split; [exact H1|]. split; [exact H2|]. apply request_all_fresh. exact H2.
Qed.

(* a relative rule with an age of at least one second satisfies the convergence condition at every instant *)
Lemma relative_rule_converges_lemma : forall Q m ev rc,
  0 < Q -> m_refresh_before m = Some rc -> rc_time rc = None -> rc_mtime rc = false -> Q <= delta_of Q rc ->
  exists t, expire_timestamp Q m ev = ThrAt t /\ t < floor_sec Q (now ev).
Proof.
  intros Q m ev rc HQ Hrb Htime Hmt Hd. unfold expire_timestamp, before_timestamp_from_options.
  rewrite Hrb, Htime, Hmt. eexists. split; [reflexivity|]. exact (relative_threshold_lags Q HQ rc (now ev) Hd).
Qed.

(* ---- seed task ------------------------------------------------------------------------------------------ *)

Section SeedWalk.
Variable Q : Z.
Variable m : mgr.
Variable ev : env.
Variable sc : nat -> outcome.
Variable members : addr -> list addr.

(* what the walker is looking for: missing-or-stale tiles, with --skip-uncached stale tiles *)
Definition wanted (skip : bool) (c : cache) (a : addr) : Prop :=
  if skip then tm_is_stale Q m ev c a = Some true else tm_is_cached Q m ev c a = Some false.

Lemma wanted_ext : forall skip c c' a, get c a = get c' a -> wanted skip c a -> wanted skip c' a.
Proof.
  intros skip c c' a H. unfold wanted, tm_is_stale, tm_is_cached. rewrite H. auto.
Qed.

Lemma wanted_uncached : forall skip c a, wanted skip c a -> tm_is_cached Q m ev c a = Some false.
Proof.
  intros [|] c a H; [|exact H]. unfold wanted, tm_is_stale in H.
  destruct (get c a); [|discriminate]. destruct (tm_is_cached Q m ev c a) as [[|]|]; try discriminate. reflexivity.
Qed.

Lemma stale_members_spec : forall c l u, stale_members Q m ev c l = Some u ->
  forall a, In a u <-> In a l /\ tm_is_stale Q m ev c a = Some true.
Proof.
  induction l as [|x l IH]; intros u H a.
  - inversion H. split; [intros [] | intros [[] _]].
  - cbn [stale_members] in H. destruct (tm_is_stale Q m ev c x) as [b|] eqn:Hb; [|discriminate].
    destruct (stale_members Q m ev c l) as [u'|] eqn:Hu; [|discriminate]. inversion H; subst. clear H.
    specialize (IH u' eq_refl a). destruct b.
    + cbn [In]. rewrite IH. split.
      * intros [<-|[? ?]]; [split; [left; reflexivity | exact Hb] | split; [right|]; assumption].
      * intros [[<-|Hin] Hc]; [left; reflexivity | right; split; assumption].
    + rewrite IH. split.
      * intros [? ?]. split; [right|]; assumption.
      * intros [[<-|Hin] Hc]; [congruence | split; assumption].
Qed.

(* the walker hands over exactly the wanted tiles of the meta tile it examines *)
Lemma seed_select_spec : forall skip c l h, seed_select Q m ev c skip l = Some h ->
  forall a, In a h <-> In a l /\ wanted skip c a.
Proof.
  intros [|] c l h H a; unfold seed_select in H; unfold wanted.
  - exact (stale_members_spec c l h H a).
  - exact (uncached_spec Q m ev c l h H a).
Qed.

Definition covered (new : list (list addr)) (a : addr) : bool := existsb (fun en => existsb (addr_eqb a) en) new.

Lemma covered_true : forall new a, covered new a = true -> exists entry, In entry new /\ In a entry.
Proof.
  intros new a H. apply existsb_exists in H. destruct H as [en [H1 H2]]. exists en. split; [exact H1|].
  apply existsb_addr_In. exact H2.
Qed.

Lemma covered_false : forall new a, covered new a = false -> forall entry, In entry new -> ~ In a entry.
Proof.
  intros new a H en He Ha. assert (covered new a = true); [|congruence].
  apply existsb_exists. exists en. split; [exact He | apply existsb_addr_In; exact Ha].
Qed.

(* the whole walk: a wanted tile of an examined meta tile is handed to a worker, unless an earlier upstream
   request of the same walk already covered it *)
Lemma seed_walk_hands_over : forall skip mains s a t,
  In t mains -> In a (members t) -> wanted skip (s_cache s) a ->
  forall s' handed, seed_walk Q m ev sc members s skip mains = (s', handed, true) ->
  (exists h, In h handed /\ In a h) \/
  (exists new entry, s_log s' = new ++ s_log s /\ In entry new /\ In a entry).
Proof.
  intros skip. induction mains as [|t0 r IH]; intros s a t Ht Ha Hw s' handed H; [destruct Ht|].
  cbn [seed_walk] in H.
  destruct (seed_select Q m ev (s_cache s) skip (members t0)) as [h|] eqn:Hsel; [|discriminate].
  destruct (existsb (addr_eqb a) (members t0)) eqn:Hin.
  - (* a belongs to the meta tile examined now: it is selected *)
    apply existsb_addr_In in Hin.
    assert (Hah : In a h) by (apply (seed_select_spec _ _ _ _ Hsel); split; assumption).
    destruct h as [|x h]; [destruct Hah|].
    destruct (seed_walk Q m ev sc members (fst (load_tile_coords Q m ev sc members s (x :: h))) skip r) as [[s2 hs] ok].
    inversion H; subst. left. exists (x :: h). split; [left; reflexivity | exact Hah].
  - assert (Ht' : In t r).
    { destruct Ht as [<-|Ht]; [|exact Ht]. apply existsb_addr_In in Ha. congruence. }
    destruct h as [|x h]; [exact (IH s a t Ht' Ha Hw s' handed H)|].
    set (s1 := fst (load_tile_coords Q m ev sc members s (x :: h))) in *.
    destruct (load_tile_coords Q m ev sc members s (x :: h)) as [s1' r1] eqn:Hreq.
    destruct (request_log Q m ev sc members _ _ _ _ Hreq) as [new1 [Hl1 _]]. cbn [fst] in s1. subst s1.
    destruct (seed_walk Q m ev sc members s1' skip r) as [[s2 hs] ok] eqn:Hwalk. inversion H; subst.
    destruct (seed_walk_log Q sc members r m ev s1' skip) as [new2 Hl2]. rewrite Hwalk in Hl2. cbn [fst] in Hl2.
    destruct (covered new1 a) eqn:Hcov.
    + destruct (covered_true _ _ Hcov) as [en [He Hae]]. right. exists (new2 ++ new1), en.
      rewrite Hl2, Hl1, app_assoc. split; [reflexivity|]. split; [apply in_or_app; right; exact He | exact Hae].
    + assert (Hg : get (s_cache s1') a = get (s_cache s) a).
      { pose proof (request_untouched Q m ev sc members s (x :: h) a new1) as Hu. rewrite Hreq in Hu. cbn [fst] in Hu.
        exact (Hu Hl1 (covered_false _ _ Hcov)). }
      assert (Hw' : wanted skip (s_cache s1') a) by (apply (wanted_ext skip (s_cache s)); [symmetry; exact Hg | exact Hw]).
      destruct (IH s1' a t Ht' Ha Hw' s' hs Hwalk) as [[h' [Hh' Hah']]|[new [en [Hl [He Hae]]]]].
      * left. exists h'. split; [right; exact Hh' | exact Hah'].
      * right. exists (new ++ new1), en. rewrite Hl, Hl1, app_assoc. split; [reflexivity|].
        split; [apply in_or_app; left; exact He | exact Hae].
Qed.

(* and the worker's request for a handed-over list fetches every tile of it *)
Lemma seed_handed_refetched : forall skip s t h a s' r,
  seed_select Q m ev (s_cache s) skip (members t) = Some h -> In a h -> In a (members a) ->
  load_tile_coords Q m ev sc members s h = (s', r) ->
  exists new, s_log s' = new ++ s_log s /\ new <> [] /\
    ((r = Raised ESource \/ r = Raised EBody) \/ exists l entry, r = Served l /\ In entry new /\ In a entry).
Proof.
  intros skip s t h a s' r Hsel Hah Hmem H.
  apply (request_stale_refetched Q m ev sc members s h a s' r Hah Hmem); [|exact H].
  apply (wanted_uncached skip). exact (proj2 (proj1 (seed_select_spec _ _ _ _ Hsel a) Hah)).
Qed.

End SeedWalk.

(* non-vacuity: the state of the former finding (main tile a0 fresh, member a1 stale, threshold 1000000008 s):
   the repaired walker hands over [a1] and the meta tile is fetched again *)
Example ex_seed_walk_mixed_meta_tile :
  let m := mkMgr None (Some 4000000032) true false 0 false in
  let c := [(Ex.a0, mkEntry 100 4000000036); (Ex.a1, mkEntry 101 4000000030);
            (Ex.a2, mkEntry 102 4000000036); (Ex.a3, mkEntry 103 4000000036)] in
  seed_walk Ex.q m Ex.ev Ex.all_ok Ex.block (mkSt c []) false [Ex.a0] =
  (mkSt (put_all c [Ex.a2; Ex.a3; Ex.a0; Ex.a1] (mkEntry 0 4000000040)) [[Ex.a2; Ex.a3; Ex.a0; Ex.a1]], [[Ex.a1]], true).
Proof. vm_compute. reflexivity. Qed.

(* linked single colour tiles (symlink mode, after the repair of F48): a refresh whose answer has the colour the
   stale tile already has still makes the tile fresh *)
Example ex_linked_same_colour_refresh :
  let m := mkMgr (Some (mkRconf None false 0 0 0 0 8)) None false false 0 true in
  let s1 := fst (load_tile_coords Ex.q m Ex.ev (fun _ => UOk true false 100) Ex.single Ex.s0 [Ex.a0]) in
  tm_is_cached Ex.q m Ex.ev (s_cache s1) Ex.a0 = Some true /\
  load_tile_coords Ex.q m Ex.ev (fun _ => UOk true false 100) Ex.single s1 [Ex.a0] = (s1, Served [Some 100]).
Proof. vm_compute. split; reflexivity. Qed.

(* pre_store_filter and an uncacheable answer: the filtered image is served, nothing is stored; a broken body is an
   error of the request and leaves the cache alone *)
Example ex_filter_uncacheable :
  let m := mkMgr (Some (mkRconf None false 0 0 0 0 8)) None false false 1000 false in
  load_tile_coords Ex.q m Ex.ev (fun _ => UOk false false 7) Ex.single Ex.s0 [Ex.a0] =
  (mkSt Ex.c [[Ex.a0]], Served [Some 1007]).
Proof. vm_compute. reflexivity. Qed.

Example ex_broken_body :
  load_tile_coords Ex.q Ex.m_rel Ex.ev (fun _ => UBroken) Ex.single Ex.s0 [Ex.a0] = (mkSt Ex.c [[Ex.a0]], Raised EBody).
Proof. vm_compute. reflexivity. Qed.

(* ---- waiting for the lock: witnesses ---------------------------------------------------------------- *)

(* file cache: request B for the stale tile a0 waits while request A refreshes it; B's re-check sees the new time
   stamp: one upstream request in total, B serves the refreshed image (the loaded source is the file name) *)
Example ex_race_file :
  load_after Ex.q Ex.m_rel Ex.ev Ex.all_ok Ex.single Ex.s0 [Ex.a0] [Ex.a0] =
  (mkSt ((Ex.a0, mkEntry 0 4000000040) :: Ex.c) [[Ex.a0]], Served [Some 0]).
Proof. vm_compute. reflexivity. Qed.

(* mbtiles / sqlite (after the repair of F60): the waiting request re-checks with the stored time stamp - one upstream
   request in total - and serves the image it had loaded before the wait *)
Example ex_race_sqlite :
  let m := mkMgr (Some (mkRconf None false 0 0 0 0 8)) None false true 0 false in
  load_after Ex.q m Ex.ev Ex.all_ok Ex.single (mkSt [(Ex.a0, mkEntry 100 4000000028)] []) [Ex.a0] [Ex.a0] =
  (mkSt [(Ex.a0, mkEntry 0 4000000040); (Ex.a0, mkEntry 100 4000000028)] [[Ex.a0]], Served [Some 100]).
Proof. vm_compute. reflexivity. Qed.

(* seed tasks that share a TileManager: each walk runs under the threshold of its own task, whatever an earlier
   task left in _expire_timestamp (the cache's own refresh_before, if any, still wins) *)
Lemma seed_task_own_threshold : forall Q sc members w t skip mains w' o,
  m_refresh_before (w_mgr w) = None ->
  step_event Q sc members w (ESeed (Some t) skip mains) = (w', o) ->
  expire_timestamp Q (w_mgr w') (w_env w') = ThrAt t /\
  exists handed ok, o = OSeed handed ok /\
    seed_walk Q (mkMgr None (Some t) (m_meta (w_mgr w)) (m_floor_store (w_mgr w)) (m_filter (w_mgr w)) (m_link (w_mgr w)))
              (w_env w) sc members (w_st w) skip mains = (w_st w', handed, ok).
Proof.
  intros Q sc members w t skip mains w' o Hrb H. cbn [step_event] in H. rewrite Hrb in H.
  destruct (seed_walk Q (mkMgr None (Some t) (m_meta (w_mgr w)) (m_floor_store (w_mgr w)) (m_filter (w_mgr w)) (m_link (w_mgr w)))
                      (w_env w) sc members (w_st w) skip mains) as [[s' handed] ok] eqn:Hw.
  inversion H; subst. cbn [w_mgr w_env w_st]. split; [reflexivity|]. exists handed, ok. split; reflexivity.
Qed.

(* a seed step changes nothing of the manager but _expire_timestamp, and nothing of the environment *)
Lemma seed_step_mgr : forall Q sc members w refresh skip mains,
  w_mgr (fst (step_event Q sc members w (ESeed refresh skip mains))) =
    match refresh with
    | Some t => mkMgr (m_refresh_before (w_mgr w)) (Some t) (m_meta (w_mgr w)) (m_floor_store (w_mgr w))
                      (m_filter (w_mgr w)) (m_link (w_mgr w))
    | None => w_mgr w
    end /\
  w_env (fst (step_event Q sc members w (ESeed refresh skip mains))) = w_env w.
Proof.
  intros Q sc members w refresh skip mains. destruct refresh as [t|]; cbn [step_event];
    match goal with |- context [seed_walk ?a ?b ?c ?d ?e ?f ?g ?h] =>
      destruct (seed_walk a b c d e f g h) as [[s' hd] ok] end;
    cbn [fst w_mgr w_env]; split; reflexivity.
Qed.

(* two seed tasks one after the other on the same TileManager (seed.yaml with two seeds of one cache): the second walk
   runs under its own threshold t2 - not under t1 that the first task left in _expire_timestamp - on the cache the
   first task left *)
Lemma seed_tasks_in_sequence : forall Q sc members w t1 skip1 mains1 t2 skip2 mains2 w2 obs,
  m_refresh_before (w_mgr w) = None ->
  run Q sc members w [ESeed (Some t1) skip1 mains1; ESeed (Some t2) skip2 mains2] = (w2, obs) ->
  exists s1 h1 ok1 h2 ok2,
    obs = [OSeed h1 ok1; OSeed h2 ok2] /\
    seed_walk Q (mkMgr None (Some t1) (m_meta (w_mgr w)) (m_floor_store (w_mgr w)) (m_filter (w_mgr w)) (m_link (w_mgr w)))
              (w_env w) sc members (w_st w) skip1 mains1 = (s1, h1, ok1) /\
    seed_walk Q (mkMgr None (Some t2) (m_meta (w_mgr w)) (m_floor_store (w_mgr w)) (m_filter (w_mgr w)) (m_link (w_mgr w)))
              (w_env w) sc members s1 skip2 mains2 = (w_st w2, h2, ok2) /\
    expire_timestamp Q (w_mgr w2) (w_env w2) = ThrAt t2.
Proof.
  intros Q sc members w t1 skip1 mains1 t2 skip2 mains2 w2 obs Hrb H.
  cbn [run] in H.
  destruct (step_event Q sc members w (ESeed (Some t1) skip1 mains1)) as [w1 o1] eqn:E1.
  destruct (step_event Q sc members w1 (ESeed (Some t2) skip2 mains2)) as [w2' o2] eqn:E2.
  inversion H; subst w2' obs; clear H.
  destruct (seed_step_mgr Q sc members w (Some t1) skip1 mains1) as [Hm1 He1].
  rewrite E1 in Hm1, He1. cbn [fst] in Hm1, He1. rewrite Hrb in Hm1.
  destruct (seed_task_own_threshold Q sc members w t1 skip1 mains1 w1 o1 Hrb E1) as [_ [h1 [ok1 [Ho1 Hw1]]]].
  assert (Hrb1 : m_refresh_before (w_mgr w1) = None) by (rewrite Hm1; reflexivity).
  destruct (seed_task_own_threshold Q sc members w1 t2 skip2 mains2 w2 o2 Hrb1 E2) as [Ht2 [h2 [ok2 [Ho2 Hw2]]]].
  rewrite Hm1, He1 in Hw2. cbn [m_meta m_floor_store m_filter m_link] in Hw2.
  exists (w_st w1), h1, ok1, h2, ok2. subst o1 o2. repeat split; assumption.
Qed.

(* a cache that has its own refresh_before: TileManager.expire_timestamp consults _refresh_before first, so the walk of
   a seed task on this manager runs under the rule of the cache, not under the threshold of the task *)
Lemma seed_task_cache_rule_first : forall Q sc members w rc t skip mains w' o,
  m_refresh_before (w_mgr w) = Some rc ->
  step_event Q sc members w (ESeed (Some t) skip mains) = (w', o) ->
  expire_timestamp Q (w_mgr w') (w_env w') = before_timestamp_from_options Q rc (w_env w).
Proof.
  intros Q sc members w rc t skip mains w' o Hrb H.
  destruct (seed_step_mgr Q sc members w (Some t) skip mains) as [Hm He].
  rewrite H in Hm, He. cbn [fst] in Hm, He. rewrite Hm, He. unfold expire_timestamp. cbn [m_refresh_before].
  rewrite Hrb. reflexivity.
Qed.

(* non-vacuity: two tasks (thresholds 4000000008 and 4000000020) over a cache with tiles stamped 4000000000 and
   4000000012: the first task fetches only the first tile, the second task (own, later threshold) fetches the second *)
Example ex_seed_tasks_in_sequence :
  let a := (0, 0, 2) in let b := (1, 0, 2) in
  let w := mkWorld (mkMgr None None false false 0 false) (mkEnv 4000000040 None)
                   (mkSt [(a, mkEntry 1 4000000000); (b, mkEntry 2 4000000012)] []) in
  snd (run 4 (fun k => UOk true false (Z.of_nat k)) (fun x => [x]) w
           [ESeed (Some 4000000008) false [a; b]; ESeed (Some 4000000020) false [a; b]])
  = [OSeed [[a]] true; OSeed [[b]] true].
Proof. vm_compute. reflexivity. Qed.

(* non-vacuity of recheck_observes_refresh_meta: a and b form one meta tile and are stale; the request for a decides to
   create the meta tile, waits for the lock while the request for b refreshes the meta tile, and then fetches
   nothing: one upstream request in total, both tiles accepted *)
Example ex_recheck_meta :
  let a := (0, 0, 2) in let b := (1, 0, 2) in
  let m := mkMgr None (Some 4000000008) true false 0 false in
  let ev := mkEnv 4000000040 None in
  let sc := fun k => UOk true false (Z.of_nat k) in
  let members := fun _ : addr => [a; b] in
  let s0 := mkSt [(a, mkEntry 1 4000000000); (b, mkEntry 2 4000000000)] [] in
  let s1 := fst (load_tile_coords 4 m ev sc members s0 [b]) in
  let s' := fst (load_after 4 m ev sc members s0 [a] [b]) in
  tm_is_cached 4 m ev (s_cache s0) a = Some false /\
  tm_is_cached 4 m ev (s_cache s1) a = Some true /\ tm_is_cached 4 m ev (s_cache s1) b = Some true /\
  s_log s1 = [[a; b]] /\ s_log s' = [[a; b]] /\ tm_is_cached 4 m ev (s_cache s') a = Some true.
Proof. vm_compute. repeat split; reflexivity. Qed.

(* ---- bulk_meta_tiles ------------------------------------------------------------------------------------ *)

Section Bulk.
Variable Q : Z.
Variable m : mgr.
Variable ev : env.
Variable sc : nat -> outcome.

(* the downloads of one meta tile: the log grows by singletons; when no download fails every tile of the meta tile
   has been asked for *)
Lemma bulk_query_log : forall mt log acc log' e acc',
  bulk_query m sc log acc mt = (log', e, acc') ->
  exists new, log' = new ++ log /\ (forall entry, In entry new -> exists t, In t mt /\ entry = [t]) /\
              (e = None -> forall t, In t mt -> In [t] new).
Proof.
  induction mt as [|t r IH]; intros log acc log' e acc' H; cbn [bulk_query] in H.
  - inversion H; subst. exists []. split; [reflexivity|]. split; [intros ? [] | intros _ ? []].
  - destruct (sc (length log)) as [c au v| | |].
    + destruct (IH _ _ _ _ _ H) as [new [Hl [Hin Hall]]]. exists (new ++ [[t]]). rewrite Hl, <- app_assoc. split; [reflexivity|]. split.
      * intros en He. apply in_app_or in He. destruct He as [He|[<-|[]]].
        -- destruct (Hin en He) as [x [Hx ->]]. exists x. split; [right; exact Hx | reflexivity].
        -- exists t. split; [left; reflexivity | reflexivity].
      * intros He x [<-|Hx]; apply in_or_app; [right; left; reflexivity | left; exact (Hall He x Hx)].
    + inversion H; subst. exists [[t]]. split; [reflexivity|]. split; [|discriminate].
      intros en [<-|[]]. exists t. split; [left; reflexivity | reflexivity].
    + destruct (IH _ _ _ _ _ H) as [new [Hl [Hin Hall]]]. exists (new ++ [[t]]). rewrite Hl, <- app_assoc. split; [reflexivity|]. split.
      * intros en He. apply in_app_or in He. destruct He as [He|[<-|[]]].
        -- destruct (Hin en He) as [x [Hx ->]]. exists x. split; [right; exact Hx | reflexivity].
        -- exists t. split; [left; reflexivity | reflexivity].
      * intros He x [<-|Hx]; apply in_or_app; [right; left; reflexivity | left; exact (Hall He x Hx)].
    + inversion H; subst. exists [[t]]. split; [reflexivity|]. split; [|discriminate].
      intros en [<-|[]]. exists t. split; [left; reflexivity | reflexivity].
Qed.

Lemma bulk_query_err : forall mt log acc log' e acc',
  bulk_query m sc log acc mt = (log', Some e, acc') -> e = ESource \/ e = EBody.
Proof.
  induction mt as [|t r IH]; intros log acc log' e acc' H; cbn [bulk_query] in H; [discriminate|].
  destruct (sc (length log)); try (exact (IH _ _ _ _ _ H)); inversion H; subst; [left | right]; reflexivity.
Qed.

Lemma bulk_query_len : forall mt log acc log' e acc',
  bulk_query m sc log acc mt = (log', e, acc') ->
  (length log + (match mt with [] => 0 | _ => 1 end) <= length log')%nat.
Proof.
  induction mt as [|t r IH]; intros log acc log' e acc' H; cbn [bulk_query] in H; [inversion H; lia|].
  destruct (sc (length log)); try (apply IH in H; cbn [length] in H; destruct r; lia); inversion H; subst; cbn [length]; lia.
Qed.

(* a meta tile with a missing or stale tile: every tile of it is downloaded again (or the request fails and the
   cache is left as it was) *)
Lemma bulk_meta_refetched : forall s mt a,
  In a mt -> tm_is_cached Q m ev (s_cache s) a = Some false ->
  match create_bulk_meta Q m ev sc s mt with
  | Cont s' cr => exists new, s_log s' = new ++ s_log s /\ forall t, In t mt -> In [t] new
  | Stop s' e => (e = ESource \/ e = EBody) /\ s_cache s' = s_cache s /\ exists new, s_log s' = new ++ s_log s /\ new <> []
  end.
Proof.
  intros s mt a Ha Hc. unfold create_bulk_meta.
  rewrite (all_cached_false_of Q m ev _ _ a (is_cached_some_thr Q m ev _ _ _ Hc) Ha Hc).
  destruct (bulk_query m sc (s_log s) [] mt) as [[log' e] acc] eqn:Hq.
  destruct (bulk_query_log _ _ _ _ _ _ Hq) as [new [Hl [Hin Hall]]].
  destruct e as [e|].
  - cbn [s_cache s_log]. split; [exact (bulk_query_err _ _ _ _ _ _ Hq)|]. split; [reflexivity|].
    exists new. split; [exact Hl|]. intros ->. cbn [app] in Hl.
    pose proof (bulk_query_len _ _ _ _ _ _ Hq) as Hlen. rewrite Hl in Hlen. destruct mt; [destruct Ha | lia].
  - cbn [s_log]. exists new. split; [exact Hl | exact (Hall eq_refl)].
Qed.

(* stored are only tiles whose own upstream answer is cacheable *)
Lemma store_bulk_untouched : forall acc c a,
  (forall v, ~ In (a, v, true) acc) -> get (store_bulk Q m ev c acc) a = get c a.
Proof.
  induction acc as [|[[t v] cb] r IH]; intros c a H; cbn [store_bulk]; [reflexivity|].
  rewrite IH by (intros v0 Hin; exact (H v0 (or_intror Hin))).
  destruct cb; [|reflexivity]. unfold store_tile. rewrite get_put.
  destruct (addr_eqb a t) eqn:E; [|reflexivity]. apply addr_eqb_eq in E. subst. exfalso. exact (H v (or_introl eq_refl)).
Qed.

End Bulk.

Example ex_bulk_request :
  (* a0 stale: the four tiles of the meta tile are downloaded one by one; the second answer is not cacheable *)
  load_tile_coords_bulk Ex.q Ex.m_rel_meta Ex.ev (fun k => UOk (negb (Nat.eqb k 1)) false (Z.of_nat k)) Ex.block Ex.s0 [Ex.a0] =
  (mkSt ((Ex.a1, mkEntry 3 4000000040) :: (Ex.a0, mkEntry 2 4000000040) :: (Ex.a2, mkEntry 0 4000000040) :: Ex.c)
        [[Ex.a1]; [Ex.a0]; [Ex.a3]; [Ex.a2]], Served [Some 2]).
Proof. vm_compute. reflexivity. Qed.

(* ---- configuration loader: the rule of a cache is in force for every grid of the cache -------------------- *)

Lemma cache_managers_rule : forall rb fs grids m, In m (cache_managers rb fs grids) -> m_refresh_before m = rb.
Proof.
  intros rb fs grids m H. unfold cache_managers in H. apply in_map_iff in H. destruct H as [meta [<- _]]. reflexivity.
Qed.

Lemma cache_managers_threshold : forall Q rb fs grids m ev,
  In m (cache_managers rb fs grids) ->
  expire_timestamp Q m ev = match rb with Some rc => before_timestamp_from_options Q rc ev | None => ThrNone end.
Proof.
  intros Q rb fs grids m ev H. unfold cache_managers in H. apply in_map_iff in H. destruct H as [meta [<- _]].
  unfold expire_timestamp. cbn [m_refresh_before m_expire]. destruct rb; reflexivity.
Qed.

Lemma cache_managers_length : forall rb fs grids, length (cache_managers rb fs grids) = length grids.
Proof. intros. unfold cache_managers. apply map_length. Qed.

Example ex_cache_managers :
  map (fun m => expire_timestamp Ex.q m Ex.ev) (cache_managers (Some (mkRconf None false 0 0 0 0 8)) false [false; true; false])
  = [ThrAt 4000000032; ThrAt 4000000032; ThrAt 4000000032].
Proof. vm_compute. reflexivity. Qed.

(* ---- on_error placeholder with authorize_stale over a stale tile (whatever its `cache` flag) ------------------- *)

Lemma placeholder_authorize_stale_keeps_stale_tile : forall Q m ev sc s a e cacheable v0,
  get (s_cache s) a = Some e ->
  tm_is_cached Q m ev (s_cache s) a = Some false ->
  next_outcome sc s = UOk cacheable true v0 ->
  exists s', create_single Q m ev sc s a = Cont s' [(a, content_of (s_cache s) a)] /\
             s_cache s' = s_cache s /\ s_log s' = [a] :: s_log s /\
             tm_is_cached Q m ev (s_cache s') a = Some false.
Proof.
  intros Q m ev sc s a e cacheable v0 Hg Hc Ho.
  unfold create_single, tm_is_stale. rewrite Hc, Ho, Hg. cbn [negb].
  eexists. split; [reflexivity|]. cbn [s_cache s_log]. repeat split. exact Hc.
Qed.

(* the same answer where nothing is cached yet: the placeholder is stored iff it is cacheable *)
Lemma placeholder_authorize_stale_on_missing_tile : forall Q m ev sc s a cacheable v0,
  get (s_cache s) a = None ->
  tm_is_cached Q m ev (s_cache s) a = Some false ->
  next_outcome sc s = UOk cacheable true v0 ->
  create_single Q m ev sc s a =
    Cont (mkSt (if cacheable then store_tile Q m ev (s_cache s) a (apply_tile_filter m v0) else s_cache s)
               ([a] :: s_log s)) [(a, Some (apply_tile_filter m v0))].
Proof.
  intros Q m ev sc s a cacheable v0 Hg Hc Ho.
  unfold create_single, tm_is_stale. rewrite Hc, Ho, Hg. reflexivity.
Qed.

Example ex_placeholder_authorize_stale :
  (* a0 is stale; the upstream answers with a cacheable placeholder that authorises stale tiles *)
  create_single Ex.q Ex.m_rel Ex.ev (fun _ => UOk true true 502) Ex.s0 Ex.a0 = Cont (mkSt Ex.c [[Ex.a0]]) [(Ex.a0, Some 100)]
  /\ create_single Ex.q Ex.m_rel Ex.ev (fun _ => UOk true true 502) Ex.s0 Ex.a3 =
     Cont (mkSt ((Ex.a3, mkEntry 502 4000000040) :: Ex.c) [[Ex.a3]]) [(Ex.a3, Some 502)].
Proof. vm_compute. split; reflexivity. Qed.

(* request level (single tile creation): the stale tile is served, the cache is untouched - so the tile is still
   stale and the next request for it asks the upstream again *)
Lemma request_placeholder_authorize_stale_single : forall Q m ev sc members s a e cacheable v0,
  m_meta m = false ->
  get (s_cache s) a = Some e ->
  tm_is_cached Q m ev (s_cache s) a = Some false ->
  next_outcome sc s = UOk cacheable true v0 ->
  load_tile_coords Q m ev sc members s [a] = (mkSt (s_cache s) ([a] :: s_log s), Served [Some (e_content e)]) /\
  forall sc', exists s2 r, load_tile_coords Q m ev sc' members (mkSt (s_cache s) ([a] :: s_log s)) [a] = (s2, r) /\
                          s_log s2 = [a] :: [a] :: s_log s.
Proof.
  intros Q m ev sc members s a e cacheable v0 Hm Hg Hc Ho. split.
  - unfold load_tile_coords. cbn [uncached]. rewrite Hc, Hm. cbn [create_loop].
    unfold create_single, tm_is_stale. rewrite Hc, Ho, Hg. cbn [negb rev app map].
    unfold serve. cbn [assoc]. rewrite addr_eqb_refl. unfold content_of. rewrite Hg. reflexivity.
  - intros sc'. unfold load_tile_coords. cbn [uncached s_cache]. rewrite Hc, Hm. cbn [create_loop].
    unfold create_single, tm_is_stale. cbn [s_cache s_log]. rewrite Hc, Hg. cbn [negb].
    destruct (next_outcome sc' _) as [cb au v| | |]; [destruct au| | |]; cbn [s_log]; eexists; eexists; split; reflexivity.
Qed.

Example ex_request_placeholder_authorize_stale :
  load_tile_coords Ex.q Ex.m_rel Ex.ev (fun _ => UOk true true 502) Ex.single Ex.s0 [Ex.a0] =
  (mkSt Ex.c [[Ex.a0]], Served [Some 100]).
Proof. vm_compute. reflexivity. Qed.
