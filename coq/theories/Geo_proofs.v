(* Proofs about the georeferencing model Geo.v (C01). *)
From Coq Require Import ZArith QArith Qround Qabs Qfield List Bool Lia Lqa Arith ZifyBool.
Import ListNotations.
From MP Require Import Grid Grid_proofs Geo.
Local Open Scope Z_scope.

(* ================================================================== Part 1: the tile mosaic *)

(* ---- list plumbing: row-major lists *)
Lemma nth_error_flat_map_rows {A B} (f : A -> list B) (n : nat) (ys : list A) :
  (0 < n)%nat -> (forall y, length (f y) = n) ->
  forall i, nth_error (flat_map f ys) i =
            match nth_error ys (i / n) with Some y => nth_error (f y) (i mod n) | None => None end.
Proof.
  intros Hn Hlen. induction ys as [|y ys IH]; intros i.
  - cbn [flat_map]. destruct (i / n)%nat; destruct i; reflexivity.
  - cbn [flat_map]. destruct (Nat.lt_ge_cases i n) as [Hlt|Hge].
    + rewrite nth_error_app1 by (rewrite Hlen; exact Hlt).
      rewrite Nat.div_small, Nat.mod_small by exact Hlt. reflexivity.
    + rewrite nth_error_app2 by (rewrite Hlen; exact Hge). rewrite Hlen, IH.
      assert (Hi : i = ((i - n) + 1 * n)%nat) by lia.
      assert (Hd : (i / n = S ((i - n) / n))%nat).
      { rewrite Hi at 1. rewrite Nat.div_add by lia. lia. }
      assert (Hm : (i mod n = (i - n) mod n)%nat).
      { rewrite Hi at 1. rewrite Nat.mod_add by lia. reflexivity. }
      rewrite Hd, Hm. reflexivity.
Qed.

Lemma length_zrange a b : length (zrange a b) = Z.to_nat (b + 1 - a).
Proof. unfold zrange. rewrite map_length, seq_length. reflexivity. Qed.

Lemma nth_error_zrange a b k v :
  nth_error (zrange a b) k = Some v -> v = a + Z.of_nat k /\ a + Z.of_nat k <= b.
Proof.
  intros H. assert (Hk : (k < length (zrange a b))%nat) by (apply nth_error_Some; congruence).
  rewrite length_zrange in Hk. unfold zrange in H. rewrite nth_error_map in H.
  rewrite (nth_error_nth' _ 0%nat) in H by (rewrite seq_length; exact Hk).
  rewrite seq_nth in H by exact Hk. cbn in H. injection H as <-. lia.
Qed.

Lemma nth_error_rev_zrange a b k v :
  nth_error (rev (zrange a b)) k = Some v -> v = b - Z.of_nat k /\ a <= b - Z.of_nat k.
Proof.
  intros H. assert (Hk : (k < length (rev (zrange a b)))%nat) by (apply nth_error_Some; congruence).
  rewrite rev_length in Hk. rewrite (nth_error_nth' _ 0) in H by (rewrite rev_length; exact Hk).
  rewrite rev_nth in H by exact Hk. injection H as <-.
  pose proof Hk as Hk'. rewrite length_zrange in Hk'.
  assert (Hn : nth_error (zrange a b) (length (zrange a b) - S k) =
               Some (nth (length (zrange a b) - S k) (zrange a b) 0)) by (apply nth_error_nth'; lia).
  apply nth_error_zrange in Hn. rewrite length_zrange in Hn at 2 3. lia.
Qed.

Lemma nth_error_last {A} (x d : A) (r : list A) : nth_error (x :: r) (length r) = Some (last (x :: r) d).
Proof.
  revert x. induction r as [|y r IH]; intros x; [reflexivity|].
  cbn [length nth_error]. rewrite (IH y). destruct r; reflexivity.
Qed.

Lemma zrange_nonempty a b x r : zrange a b = x :: r -> a <= b /\ x = a /\ last (x :: r) x = b.
Proof.
  intros H. assert (Hl : length (zrange a b) = S (length r)) by (rewrite H; reflexivity).
  rewrite length_zrange in Hl. assert (Hab : a <= b) by lia. split; [exact Hab|].
  assert (H0 : nth_error (zrange a b) 0 = Some x) by (rewrite H; reflexivity).
  apply nth_error_zrange in H0. split; [lia|].
  assert (Hlast : nth_error (zrange a b) (length r) = Some (last (x :: r) x)).
  { rewrite H. apply nth_error_last. }
  apply nth_error_zrange in Hlast. lia.
Qed.

Lemma last_rev_cons {A} (l : list A) (x d : A) : last (rev (x :: l)) d = x.
Proof. cbn [rev]. apply last_last. Qed.

(* first and last element of a non-empty reversed range *)
Lemma rev_zrange_nonempty a b x r :
  rev (zrange a b) = x :: r -> a <= b /\ x = b /\ last (x :: r) x = a.
Proof.
  intros H. assert (Hl : length (rev (zrange a b)) = S (length r)) by (rewrite H; reflexivity).
  rewrite rev_length, length_zrange in Hl. assert (Hab : a <= b) by lia. split; [exact Hab|].
  assert (H0 : nth_error (rev (zrange a b)) 0 = Some x) by (rewrite H; reflexivity).
  apply nth_error_rev_zrange in H0. split; [lia|].
  destruct (zrange a b) as [|z zs] eqn:Ez; [discriminate|].
  apply zrange_nonempty in Ez. rewrite <- H. rewrite last_rev_cons. lia.
Qed.

Lemma length_create_tile_list xs ys l gs :
  length (create_tile_list xs ys l gs) = (length ys * length xs)%nat.
Proof.
  unfold create_tile_list. induction ys as [|y ys IH]; [reflexivity|].
  cbn [flat_map length]. rewrite app_length, map_length, IH. lia.
Qed.

(* the i-th entry of the row-major list is the tile in column i mod nx of row i / nx *)
Lemma nth_error_create_tile_list xs ys l gs i x y l' :
  nth_error (create_tile_list xs ys l gs) i = Some (Some (x, y, l')) ->
  l' = l /\ nth_error xs (i mod length xs) = Some x /\ nth_error ys (i / length xs) = Some y.
Proof.
  unfold create_tile_list. intros H.
  destruct xs as [|x0 xs'] eqn:Exs.
  { exfalso. clear -H. revert i H. induction ys; intros i H; [destruct i; discriminate|].
    cbn [flat_map map app] in H. eauto. }
  rewrite <- Exs in *.
  assert (Hn : (0 < length xs)%nat) by (rewrite Exs; cbn; lia).
  rewrite (nth_error_flat_map_rows _ (length xs)) in H; [|exact Hn|intros; apply map_length].
  destruct (nth_error ys (i / length xs)) as [yy|] eqn:Ey; [|discriminate].
  rewrite nth_error_map in H. destruct (nth_error xs (i mod length xs)) as [xx|] eqn:Ex; [|discriminate].
  cbn [option_map] in H. unfold tile_or_none in H.
  destruct ((xx <? 0) || (yy <? 0) || (fst gs <=? xx) || (snd gs <=? yy)); [discriminate|].
  injection H as -> -> ->. auto.
Qed.

(* ---- the georeference of the mosaic *)
Definition bbox_w (b : bbox) : Z := let '(x0, _, x1, _) := b in x1 - x0.
Definition bbox_h (b : bbox) : Z := let '(_, y0, _, y1) := b in y1 - y0.

(* shape of the result of affected_level_tiles *)
Lemma affected_shape g b l ab nx ny ts :
  wf g -> valid_level g l = true ->
  affected_level_tiles g b l = Affected ab nx ny ts ->
  exists tx0 ty_top (xs ys : list Z),
    ts = create_tile_list xs ys l (grid_size g l) /\
    nx = Z.of_nat (length xs) /\ ny = Z.of_nat (length ys) /\ 0 < nx /\ 0 < ny /\
    (forall k x, nth_error xs k = Some x -> x = tx0 + Z.of_nat k) /\
    (forall k y, nth_error ys k = Some y ->
                 y = if ul g then ty_top + Z.of_nat k else ty_top - Z.of_nat k) /\
    ab = (let '(x0, _, _, y1) := tile_bbox g tx0 ty_top l in
          (x0, y1 - ny * (res_at g l * th g), x0 + nx * (res_at g l * tw g), y1)).
Proof.
  intros Hwf Hv. pose proof (res_at_pos g l Hwf Hv) as Hr.
  destruct Hwf as (_ & _ & Htw & Hth & _).
  unfold affected_level_tiles. destruct b as [[[bx0 by0] bx1] by1].
  destruct (tile g (bx0 + res_at g l / 10) (by0 + res_at g l / 10) l) as [tx0 ty0].
  destruct (tile g (bx1 - res_at g l / 10) (by1 - res_at g l / 10) l) as [tx1 ty1].
  destruct (zrange tx0 tx1) as [|xf xr] eqn:Exs; [discriminate|].
  destruct (if ul g then zrange ty1 ty0 else rev (zrange ty0 ty1)) as [|yf yr] eqn:Eys; [discriminate|].
  remember (xf :: xr) as xs eqn:Hxs. remember (yf :: yr) as ys eqn:Hys.
  intros H. injection H as <- <- <- <-.
  exists tx0, ty1, xs, ys.
  pose proof Exs as Exs'. rewrite Hxs in Exs'.
  pose proof (zrange_nonempty _ _ _ _ Exs') as (Hx01 & Hxf & Hxl). rewrite <- Hxs in Hxl.
  assert (Hlx : Z.of_nat (length xs) = tx1 + 1 - tx0).
  { rewrite <- Exs, length_zrange. lia. }
  split; [reflexivity|]. split; [reflexivity|]. split; [reflexivity|].
  split; [rewrite Hxs; cbn [length]; lia|]. split; [rewrite Hys; cbn [length]; lia|].
  split. { intros k x Hk. rewrite <- Exs in Hk. apply nth_error_zrange in Hk. lia. }
  set (r := res_at g l) in *.
  assert (Hsx : 0 < r * tw g) by nia. assert (Hsy : 0 < r * th g) by nia.
  pose proof Eys as Eys'. rewrite Hys in Eys'.
  destruct (ul g) eqn:Eul.
  - pose proof (zrange_nonempty _ _ _ _ Eys') as (Hy01 & Hyf & Hyl). rewrite <- Hys in Hyl.
    assert (Hly : Z.of_nat (length ys) = ty0 + 1 - ty1).
    { rewrite <- Eys, length_zrange. lia. }
    split. { intros k y Hk. rewrite <- Eys in Hk. apply nth_error_zrange in Hk. lia. }
    rewrite Hxl, Hyl, Hxf, Hyf, Hlx, Hly. unfold tile_bbox, merge_bbox. rewrite Eul. fold r.
    assert (Hmx : tx0 * r * tw g <= tx1 * r * tw g)
      by (rewrite <- !Z.mul_assoc; apply Z.mul_le_mono_nonneg_r; lia).
    assert (Hmy : ty1 * r * th g <= ty0 * r * th g)
      by (rewrite <- !Z.mul_assoc; apply Z.mul_le_mono_nonneg_r; lia).
    replace ((ty0 + 1 - ty1) * (r * th g)) with (ty0 * r * th g + r * th g - ty1 * r * th g) by ring.
    replace ((tx1 + 1 - tx0) * (r * tw g)) with (tx1 * r * tw g + r * tw g - tx0 * r * tw g) by ring.
    f_equal; [f_equal; [f_equal|]|]; lia.
  - pose proof (rev_zrange_nonempty _ _ _ _ Eys') as (Hy01 & Hyf & Hyl). rewrite <- Hys in Hyl.
    assert (Hly : Z.of_nat (length ys) = ty1 + 1 - ty0).
    { rewrite <- Eys, rev_length, length_zrange. lia. }
    split. { intros k y Hk. rewrite <- Eys in Hk. apply nth_error_rev_zrange in Hk. lia. }
    rewrite Hxl, Hyl, Hxf, Hyf, Hlx, Hly. unfold tile_bbox, merge_bbox. rewrite Eul. fold r.
    assert (Hmx : tx0 * r * tw g <= tx1 * r * tw g)
      by (rewrite <- !Z.mul_assoc; apply Z.mul_le_mono_nonneg_r; lia).
    assert (Hmy : ty0 * r * th g <= ty1 * r * th g)
      by (rewrite <- !Z.mul_assoc; apply Z.mul_le_mono_nonneg_r; lia).
    replace ((ty1 + 1 - ty0) * (r * th g)) with (ty1 * r * th g + r * th g - ty0 * r * th g) by ring.
    replace ((tx1 + 1 - tx0) * (r * tw g)) with (tx1 * r * tw g + r * tw g - tx0 * r * tw g) by ring.
    f_equal; [f_equal; [f_equal|]|]; lia.
Qed.

(* The mosaic built by TileMerger has exactly the georeference src_bbox that get_affected_tiles reports:
   every tile that is pasted (entry i of the list) lands at the pixel offset where its own bbox lies inside
   src_bbox at the level resolution, and the mosaic size times the resolution is the extent of src_bbox. *)
Lemma mosaic_georef g b l ab nx ny ts :
  wf g -> valid_level g l = true ->
  affected_level_tiles g b l = Affected ab nx ny ts ->
  Z.of_nat (length ts) = nx * ny /\
  bbox_w ab = fst (src_size nx ny (tw g) (th g)) * res_at g l /\
  bbox_h ab = snd (src_size nx ny (tw g) (th g)) * res_at g l /\
  forall i x y l',
    nth_error ts i = Some (Some (x, y, l')) ->
    l' = l /\
    ul_offset_ground ab (tile_bbox g x y l) =
      (fst (tile_offset nx (tw g) (th g) (Z.of_nat i)) * res_at g l,
       snd (tile_offset nx (tw g) (th g) (Z.of_nat i)) * res_at g l).
Proof.
  intros Hwf Hv H.
  destruct (affected_shape g b l ab nx ny ts Hwf Hv H)
    as (tx0 & ty & xs & ys & Hts & Hnx & Hny & Hnx0 & Hny0 & Hxs & Hys & Hab).
  subst ts. split; [rewrite length_create_tile_list; lia|].
  unfold src_size, bbox_w, bbox_h. cbn [fst snd].
  assert (Eab : ab = (gx0 g + tx0 * res_at g l * tw g,
                      (if ul g then gy1 g - ty * res_at g l * th g
                       else gy0 g + ty * res_at g l * th g + res_at g l * th g) - ny * (res_at g l * th g),
                      gx0 g + tx0 * res_at g l * tw g + nx * (res_at g l * tw g),
                      (if ul g then gy1 g - ty * res_at g l * th g
                       else gy0 g + ty * res_at g l * th g + res_at g l * th g))).
  { rewrite Hab. unfold tile_bbox. destruct (ul g); reflexivity. }
  rewrite Eab. split; [lia|]. split; [lia|].
  intros i x y l' Hi. apply nth_error_create_tile_list in Hi. destruct Hi as (-> & Hx & Hy).
  split; [reflexivity|].
  apply Hxs in Hx. apply Hys in Hy.
  unfold tile_offset, ul_offset_ground, tile_bbox. cbn [fst snd].
  rewrite Hnx. rewrite <- Nat2Z.inj_mod, <- Nat2Z.inj_div.
  set (c := Z.of_nat (i mod length xs)) in *. set (rw := Z.of_nat (i / length xs)) in *.
  destruct (ul g); subst x y; f_equal; ring.
Qed.

(* non-vacuity: a 3 x 3 mosaic (last row outside the grid) on a grid numbered from the upper left corner *)
Example mosaic_georef_nonvacuous :
  let g := mkGrid (-1000) (-500) 1560 780 64 64 [40; 20; 10] true 23 20 4 1 in
  wf g /\ valid_level g 2 = true /\
  affected_level_tiles g (-900, -600, 700, 700) 2 =
    Affected (-1000, -1140, 920, 780) 3 3
             [Some (0, 0, 2); Some (1, 0, 2); Some (2, 0, 2);
              Some (0, 1, 2); Some (1, 1, 2); Some (2, 1, 2); None; None; None].
Proof.
  cbv zeta. split.
  - unfold wf, pos_res. cbn [gx0 gx1 gy0 gy1 tw th ress].
    split; [lia|]. split; [lia|]. split; [lia|]. split; [lia|].
    intros r [<-|[<-|[<-|[]]]]; lia.
  - split; [reflexivity|]. vm_compute. reflexivity.
Qed.

(* the same statement can be false for a wrong offset rule: with column-major offsets tile 1 of a 2 x 2
   mosaic would be pasted below instead of to the right *)
Example tile_offset_row_major : tile_offset 2 256 256 1 = (256, 0) /\ tile_offset 2 256 256 2 = (0, 256).
Proof. split; reflexivity. Qed.

(* ================================================================== Part 2: affine maps over Q *)
Local Open Scope Q_scope.

Definition qpt_eq (a b : qpt) : Prop := fst a == fst b /\ snd a == snd b.
Definition nondegenerate (b : qbbox) : Prop :=
  let '(b0, b1, b2, b3) := b in ~ b2 - b0 == 0 /\ ~ b3 - b1 == 0.

(* make_lin_transf(b, a) is the inverse of make_lin_transf(a, b) (the flip of the image y axis included) *)
Lemma lin_transf_inverse a b p :
  nondegenerate a -> nondegenerate b ->
  qpt_eq (lin_transf b a (lin_transf a b p)) p.
Proof.
  destruct a as [[[a0 a1] a2] a3], b as [[[b0 b1] b2] b3], p as [px py].
  intros [Ha1 Ha2] [Hb1 Hb2]. unfold qpt_eq, lin_transf. cbn [fst snd]. split; field; auto.
Qed.

(* corners go to corners: the upper left corner of the source rectangle is mapped to (d0, d1), the lower
   right corner to (d2, d3) - i.e. one side is a cartesian bbox, the other an image rectangle *)
Lemma lin_transf_corners s0 s1 s2 s3 d0 d1 d2 d3 :
  nondegenerate (s0, s1, s2, s3) ->
  qpt_eq (lin_transf (s0, s1, s2, s3) (d0, d1, d2, d3) (s0, s3)) (d0, d1) /\
  qpt_eq (lin_transf (s0, s1, s2, s3) (d0, d1, d2, d3) (s2, s1)) (d2, d3).
Proof.
  intros [H1 H2]. unfold qpt_eq, lin_transf. cbn [fst snd]. repeat split; field; auto.
Qed.

Example lin_transf_inverse_nonvacuous :
  nondegenerate (7, 50, 8, 51) /\ nondegenerate (200, 300, 700, 700) /\
  qpt_eq (lin_transf (7, 50, 8, 51) (200, 300, 700, 700) (15 # 2, 101 # 2)) (450, 500).
Proof. unfold nondegenerate, qpt_eq. cbn. repeat split; try (intro H; discriminate H); reflexivity. Qed.

(* ---- bbox axis order *)
Lemma switch_axis_involutive {A} (b : A * A * A * A) ne : switch_axis (switch_axis b ne) ne = b.
Proof. destruct b as [[[b0 b1] b2] b3], ne; reflexivity. Qed.

(* whatever the version of the client request and of the upstream request and whatever the axis order of
   the (common) SRS: the BBOX sent upstream denotes the rectangle the client's BBOX denotes *)
Lemma axis_order_roundtrip {A} (cv uv : wms_version) (ne : bool) (wire : A * A * A * A) :
  wire_rectangle uv ne (adapt_to_version uv ne (adapt_to_111 cv ne wire)) = wire_rectangle cv ne wire.
Proof. destruct wire as [[[a b] c] d], cv, uv, ne; reflexivity. Qed.

(* the internal bbox is always in x/y order *)
Lemma internal_bbox_is_xy {A} (cv : wms_version) (ne : bool) (wire : A * A * A * A) :
  adapt_to_111 cv ne wire = wire_rectangle cv ne wire.
Proof. destruct wire as [[[a b] c] d], cv, ne; reflexivity. Qed.

Lemma axis_order_all (cv uv : wms_version) (ne : bool) (wire : Q * Q * Q * Q) :
  wire_rectangle uv ne (adapt_to_version uv ne (adapt_to_111 cv ne wire)) = wire_rectangle cv ne wire /\
  adapt_to_111 cv ne wire = wire_rectangle cv ne wire /\
  switch_axis (switch_axis wire ne) ne = wire.
Proof.
  exact (conj (axis_order_roundtrip cv uv ne wire)
              (conj (internal_bbox_is_xy cv ne wire) (switch_axis_involutive wire ne))).
Qed.

Example axis_order_nonvacuous :
  adapt_to_version V130 true (adapt_to_111 V111 true (5, 45, 15, 55)) = (45, 5, 55, 15) /\
  adapt_to_version V111 true (adapt_to_111 V130 true (45, 5, 55, 15)) = (5, 45, 15, 55) /\
  adapt_to_version V130 false (adapt_to_111 V130 false (5, 45, 15, 55)) = (5, 45, 15, 55).
Proof. repeat split. Qed.

(* the pixel position of a feature info request is (column, row) on the wire for every version and both axis
   orders: what goes upstream is what the client sent, and together with axis_order_all the forwarded request
   denotes the same pixel of the same rectangle *)
Lemma info_pos_roundtrip (cv uv : wms_version) (ne : bool) (wire_bbox : Q * Q * Q * Q) (pos : Z * Z) :
  info_pos_to_version uv ne (info_pos_to_111 cv ne pos) = pos /\
  info_pos_to_111 cv ne pos = pos /\
  wire_rectangle uv ne (adapt_to_version uv ne (adapt_to_111 cv ne wire_bbox)) = wire_rectangle cv ne wire_bbox.
Proof. split; [reflexivity|]. split; [reflexivity|]. apply axis_order_roundtrip. Qed.

(* ---- feature info *)
(* InfoQuery.coord is the ground position of the upper left corner of the clicked pixel *)
Lemma info_coord_pixel_corner b0 b1 b2 b3 w h i j :
  (0 < w)%Z -> (0 < h)%Z ->
  qpt_eq (info_coord (b0, b1, b2, b3) w h (i, j))
         (b0 + inject_Z i * ((b2 - b0) / inject_Z w), b3 - inject_Z j * ((b3 - b1) / inject_Z h)).
Proof.
  intros Hw Hh. unfold qpt_eq, info_coord, lin_transf, img_rect. cbn [fst snd].
  assert (Hw0 : ~ inject_Z w == 0) by (unfold Qeq; cbn; lia).
  assert (Hh0 : ~ inject_Z h == 0) by (unfold Qeq; cbn; lia).
  split; field; repeat split;
    (intro E; ((apply Hw0; rewrite <- E; ring) || (apply Hh0; rewrite <- E; ring))).
Qed.

(* ================================================================== rounding *)
Local Open Scope Z_scope.
Ltac Zify.zify_post_hook ::= Z.to_euclidean_division_equations.

Lemma rhe_error n d : 0 < d -> 2 * Z.abs (rhe n d * d - n) <= d.
Proof.
  intros Hd. unfold rhe.
  destruct (2 * (n mod d) <? d) eqn:E1; [lia|].
  destruct (d <? 2 * (n mod d)) eqn:E2; [lia|].
  destruct (Z.even (n / d)); lia.
Qed.

Local Open Scope Q_scope.

(* |round(x) - x| <= 1/2 *)
Lemma qround_error q : Qabs (inject_Z (qround q) - q) <= 1 # 2.
Proof.
  destruct q as [n d]. unfold qround. cbn [Qnum Qden].
  pose proof (rhe_error n (Zpos d) ltac:(lia)) as H.
  apply Qabs_Qle_condition. unfold Qle, Qminus, Qplus, Qopp, inject_Z. cbn [Qnum Qden]. split; lia.
Qed.

(* 0 <= x - int(x) < 1 for x >= 0 *)
Lemma trunc_nonneg_error q : 0 <= q -> 0 <= q - inject_Z (trunc q) /\ q - inject_Z (trunc q) < 1.
Proof.
  destruct q as [n d]. unfold trunc, Qle, Qlt, Qminus, Qplus, Qopp, inject_Z. cbn [Qnum Qden]. intros Hn.
  rewrite Z.quot_div_nonneg by lia. split; lia.
Qed.

(* ================================================================== ImageTransformer *)

Definition pos_size (w h : Z) : Prop := (0 < w)%Z /\ (0 < h)%Z.

Lemma inject_Z_nonzero w : (0 < w)%Z -> ~ inject_Z w == 0.
Proof. intros H. unfold Qeq. cbn. lia. Qed.

Lemma img_rect_nondegenerate w h : pos_size w h -> nondegenerate (img_rect w h).
Proof.
  intros [Hw Hh]. unfold nondegenerate, img_rect. split; intro E.
  - apply (inject_Z_nonzero w Hw). rewrite <- E. ring.
  - apply (inject_Z_nonzero h Hh). rewrite <- E. ring.
Qed.

(* EXTENT path: the box handed to PIL is the exact pre-image of the output rectangle: its upper left corner is
   the source pixel coordinate of (d0, d3), its lower right corner that of (d2, d1) *)
Lemma extent_path_exact sw sh sb dw dh d0 d1 d2 d3 x0 y0 x1 y1 :
  pos_size sw sh -> nondegenerate sb ->
  transform_simple sw sh sb dw dh (d0, d1, d2, d3) = Extent x0 y0 x1 y1 ->
  qpt_eq (lin_transf (img_rect sw sh) sb (x0, y0)) (d0, d3) /\
  qpt_eq (lin_transf (img_rect sw sh) sb (x1, y1)) (d2, d1).
Proof.
  intros Hs Hsb. pose proof (img_rect_nondegenerate sw sh Hs) as Hr.
  destruct sb as [[[s0 s1] s2] s3]. unfold transform_simple.
  destruct (lin_transf (s0, s1, s2, s3) (img_rect sw sh) (d0, d3)) as [minx miny] eqn:E1.
  destruct (lin_transf (s0, s1, s2, s3) (img_rect sw sh) (d2, d1)) as [maxx maxy] eqn:E2.
  match goal with |- (if ?c then _ else _) = _ -> _ => destruct c end; [discriminate|].
  intros H. injection H as <- <- <- <-.
  rewrite <- E1, <- E2. split; apply lin_transf_inverse; assumption.
Qed.

(* crop path: the crop box has the output size, starts at round(minx), round(miny) where (minx, miny) is the
   exact source pixel position of the upper left output corner, and was chosen only because source and
   output resolution differ by less than 1/10 pixel over the whole image *)
Lemma crop_path_box sw sh s0 s1 s2 s3 dw dh d0 d1 d2 d3 x0 y0 x1 y1 :
  transform_simple sw sh (s0, s1, s2, s3) dw dh (d0, d1, d2, d3) = Crop x0 y0 x1 y1 ->
  let p := lin_transf (s0, s1, s2, s3) (img_rect sw sh) (d0, d3) in
  x0 = qround (fst p) /\ y0 = qround (snd p) /\ x1 = (x0 + dw)%Z /\ y1 = (y0 + dh)%Z /\
  Qabs ((s0 - s2) / inject_Z sw - (d0 - d2) / inject_Z dw) < Qabs ((d0 - d2) / inject_Z dw / (inject_Z dw * 10)) /\
  Qabs ((s1 - s3) / inject_Z sh - (d1 - d3) / inject_Z dh) < Qabs ((d1 - d3) / inject_Z dh / (inject_Z dh * 10)).
Proof.
  unfold transform_simple.
  destruct (lin_transf (s0, s1, s2, s3) (img_rect sw sh) (d0, d3)) as [minx miny] eqn:E1.
  destruct (lin_transf (s0, s1, s2, s3) (img_rect sw sh) (d2, d1)) as [maxx maxy] eqn:E2.
  match goal with |- (if ?c then _ else _) = _ -> _ => destruct c eqn:Ec end; [|discriminate].
  intros H. injection H as <- <- <- <-. cbn [fst snd].
  apply andb_prop in Ec. destruct Ec as [Ex Ey].
  unfold Qlt_b in Ex, Ey. apply negb_true_iff in Ex, Ey.
  repeat split; try reflexivity.
  - apply Qnot_le_lt. intro Hle. apply Qle_bool_iff in Hle. congruence.
  - apply Qnot_le_lt. intro Hle. apply Qle_bool_iff in Hle. congruence.
Qed.

(* the positional error of the crop path along one axis: output column i (0 <= i <= dw) has ground position
   d0 + i * dres; the source column copied into it, m + i, has ground position s0 + (m + i) * sres.  With
   m = round(minx), s0 + minx * sres = d0 and |sres - dres| < |dres| / (10 dw) they differ by at most half a
   source pixel plus a tenth of an output pixel. *)
Lemma crop_axis_error (s0 sres d0 dres minx : Q) (m i dw : Z) :
  0 < sres -> (0 < dw)%Z -> (0 <= i <= dw)%Z ->
  s0 + minx * sres == d0 ->
  m = qround minx ->
  Qabs (sres - dres) < Qabs dres / (inject_Z dw * 10) ->
  Qabs ((s0 + (inject_Z m + inject_Z i) * sres) - (d0 + inject_Z i * dres)) <= sres * (1 # 2) + Qabs dres * (1 # 10).
Proof.
  intros Hs Hdw Hi Hmin Hm Hres.
  assert (Hw0 : 0 < inject_Z dw) by (unfold Qlt; cbn; lia).
  assert (Hi0 : 0 <= inject_Z i) by (unfold Qle; cbn; lia).
  assert (Hiw : inject_Z i <= inject_Z dw) by (unfold Qle; cbn; lia).
  setoid_replace ((s0 + (inject_Z m + inject_Z i) * sres) - (d0 + inject_Z i * dres))
    with ((inject_Z m - minx) * sres + inject_Z i * (sres - dres)) by (rewrite <- Hmin; ring).
  eapply Qle_trans; [apply Qabs_triangle|]. rewrite !Qabs_Qmult.
  pose proof (qround_error minx) as Hr. rewrite <- Hm in Hr.
  rewrite (Qabs_pos sres) by lra. rewrite (Qabs_pos (inject_Z i)) by exact Hi0.
  pose proof (Qabs_nonneg (sres - dres)) as Ha. pose proof (Qabs_nonneg dres) as Hb.
  pose proof (Qabs_nonneg (inject_Z m - minx)) as Hc.
  assert (H1 : Qabs (inject_Z m - minx) * sres <= sres * (1 # 2)) by nra.
  assert (H2 : inject_Z i * Qabs (sres - dres) <= Qabs dres * (1 # 10)).
  { assert (H3 : Qabs (sres - dres) * (inject_Z dw * 10) < Qabs dres).
    { apply Qlt_shift_div_l in Hres || idtac.
      setoid_replace (Qabs dres) with (Qabs dres / (inject_Z dw * 10) * (inject_Z dw * 10)) by (field; lra).
      apply Qmult_lt_compat_r; [lra|exact Hres]. }
    nra. }
  lra.
Qed.

(* ================================================================== sub-extent placement *)

(* Convex-combination argument behind bbox_position_in_image: a sub image that covers the true pixel interval
   [P0, P2] of the output image is requested with o2 - o0 pixels and pasted at o0, where o0, o2 are P0, P2
   rounded down (or exact).  Then every pixel boundary k of the sub image (true position
   P0 + k/(o2-o0) * (P2 - P0)) is pasted at o0 + k, less than one output pixel to the left of / above its true
   position, never to the right / below. *)
Lemma paste_error (P0 P2 : Q) (o0 o2 k : Z) :
  0 <= P0 - inject_Z o0 -> P0 - inject_Z o0 < 1 -> 0 <= P2 - inject_Z o2 -> P2 - inject_Z o2 < 1 ->
  (0 < o2 - o0)%Z -> (0 <= k <= o2 - o0)%Z ->
  0 <= P0 + inject_Z k / inject_Z (o2 - o0) * (P2 - P0) - inject_Z (o0 + k) /\
  P0 + inject_Z k / inject_Z (o2 - o0) * (P2 - P0) - inject_Z (o0 + k) < 1.
Proof.
  intros He0 He0' He2 He2' Hn Hk.
  assert (Hn0 : 0 < inject_Z (o2 - o0)) by (unfold Qlt; cbn; lia).
  assert (Hk0 : 0 <= inject_Z k) by (unfold Qle; cbn; lia).
  assert (Hkn : inject_Z k <= inject_Z (o2 - o0)) by (unfold Qle; cbn; lia).
  set (n := inject_Z (o2 - o0)) in *. set (t := inject_Z k / n).
  assert (Ht0 : 0 <= t) by (apply Qle_shift_div_l; lra).
  assert (Ht1 : t <= 1) by (apply Qle_shift_div_r; lra).
  assert (Etn : t * n == inject_Z k) by (unfold t; field; lra).
  assert (En : n == inject_Z o2 - inject_Z o0).
  { unfold n. unfold Zminus. rewrite inject_Z_plus, inject_Z_opp. ring. }
  set (e0 := P0 - inject_Z o0) in *. set (e2 := P2 - inject_Z o2) in *.
  assert (E : P0 + t * (P2 - P0) - inject_Z (o0 + k) == e0 + t * (e2 - e0)).
  { rewrite inject_Z_plus. rewrite <- Etn. unfold e0, e2. rewrite En. ring. }
  rewrite E.
  assert (H1 : 0 <= (1 - t) * e0) by (apply Qmult_le_0_compat; lra).
  assert (H2 : 0 <= t * e2) by (apply Qmult_le_0_compat; lra).
  split; [nra|].
  destruct (Qlt_le_dec 0 t) as [Hpos|Hz].
  - assert (H3 : 0 < t * (1 - e2)) by (apply Qmult_lt_0_compat; lra).
    assert (H4 : 0 <= (1 - t) * (1 - e0)) by (apply Qmult_le_0_compat; lra). nra.
  - assert (Et : t == 0) by lra. rewrite Et. lra.
Qed.

Example paste_error_nonvacuous :
  (* bbox_position_in_image((-200,-50,200,100), (600,300), (-180,-90,180,90)): left edge at pixel 30, right at 570 *)
  bbox_position_in_image (-200, -50, 200, 100) 600 300 (-180, -90, 180, 90) =
    ((540, 280)%Z, (30, 20)%Z, (-180, -50, 180, 90)).
Proof. vm_compute. reflexivity. Qed.

(* ================================================================== feature info through a transformation *)

(* For ANY external transformation T / TB (PROJ): the pixel that WMSInfoClient._get_transformed_query sends
   upstream denotes (by its corner, as InfoQuery.coord does) a ground point within half an upstream pixel of
   T(clicked ground point), in both axes. *)
Lemma transformed_info_point (T : qpt -> qpt) (TB : qbbox -> qbbox) b w h pos i0 i1 i2 i3 iw ih px py :
  transformed_info_query T TB b w h pos = ((i0, i1, i2, i3), (iw, ih), (px, py)) ->
  (0 < iw)%Z -> (0 < ih)%Z -> nondegenerate (i0, i1, i2, i3) ->
  let tc := T (info_coord b w h pos) in
  let up := info_coord (i0, i1, i2, i3) iw ih (px, py) in
  (i0, i1, i2, i3) = TB b /\ iw = w /\
  Qabs (fst up - fst tc) <= (1 # 2) * Qabs ((i2 - i0) / inject_Z iw) /\
  Qabs (snd up - snd tc) <= (1 # 2) * Qabs ((i3 - i1) / inject_Z ih).
Proof.
  unfold transformed_info_query. destruct (TB b) as [[[j0 j1] j2] j3] eqn:ETB.
  intros H Hw Hh [Hx Hy]. injection H as -> -> -> -> <- Hih <- <-.
  cbv zeta. split; [reflexivity|]. split; [reflexivity|].
  set (tc := T (info_coord b w h pos)). rewrite Hih.
  pose proof (inject_Z_nonzero w Hw) as Hw0. pose proof (inject_Z_nonzero ih Hh) as Hh0.
  unfold info_coord. unfold lin_transf, img_rect. cbn [fst snd].
  set (ipx := 0 + (fst tc - i0) * (inject_Z w - 0) / (i2 - i0)).
  set (ipy := 0 + (i3 - snd tc) * (inject_Z ih - 0) / (i3 - i1)).
  split.
  - setoid_replace (i0 + (inject_Z (qround ipx) - 0) * (i2 - i0) / (inject_Z w - 0) - fst tc)
      with ((inject_Z (qround ipx) - ipx) * ((i2 - i0) / inject_Z w)).
    + rewrite Qabs_Qmult. pose proof (qround_error ipx). pose proof (Qabs_nonneg ((i2 - i0) / inject_Z w)). nra.
    + unfold ipx. field. repeat split; (assumption || (intro E; apply Hw0; rewrite <- E; ring)).
  - setoid_replace (i1 + (inject_Z ih - inject_Z (qround ipy)) * (i3 - i1) / (inject_Z ih - 0) - snd tc)
      with ((ipy - inject_Z (qround ipy)) * ((i3 - i1) / inject_Z ih)).
    + rewrite Qabs_Qmult. pose proof (qround_error ipy) as Hr.
      rewrite <- Qabs_opp in Hr. setoid_replace (- (inject_Z (qround ipy) - ipy)) with (ipy - inject_Z (qround ipy)) in Hr by ring.
      pose proof (Qabs_nonneg ((i3 - i1) / inject_Z ih)). nra.
    + unfold ipy. field. repeat split; (assumption || (intro E; apply Hh0; rewrite <- E; ring)).
Qed.

(* non-vacuity: T = scaling by 2 and a shift; the clicked pixel (100, 50) of a 256 x 256 map *)
Example transformed_info_point_nonvacuous :
  let T := fun p : qpt => (2 * fst p + 10, 2 * snd p - 6) in
  let TB := fun bb : qbbox => let '(b0, b1, b2, b3) := bb in (2 * b0 + 10, 2 * b1 - 6, 2 * b2 + 10, 2 * b3 - 6) in
  transformed_info_query T TB (0, 0, 256, 256) 256 256 (100, 50)%Z =
    ((2 * 0 + 10, 2 * 0 - 6, 2 * 256 + 10, 2 * 256 - 6), (256, 256)%Z, (100, 50)%Z).
Proof. vm_compute. reflexivity. Qed.

(* ================================================================== a request that is exactly one tile *)
Local Open Scope Z_scope.

Lemma zrange_single x : zrange x x = [x].
Proof.
  unfold zrange. replace (x + 1 - x) with 1 by lia. change (Z.to_nat 1) with 1%nat.
  cbn [seq map Z.of_nat]. rewrite Z.add_0_r. reflexivity.
Qed.

(* get_affected_level_tiles for the rectangle of a tile returns exactly that tile (a 1 x 1 "mosaic" whose
   src_bbox is the tile rectangle), for both origins; the 1/10 pixel inset keeps the neighbours out *)
Lemma single_tile_affected g x y l :
  wf g -> valid_level g l = true -> 10 <= res_at g l ->
  affected_level_tiles g (tile_bbox g x y l) l =
    Affected (tile_bbox g x y l) 1 1 [tile_or_none (fst (grid_size g l)) (snd (grid_size g l)) l x y].
Proof.
  intros Hwf Hv Hr10. pose proof (res_at_pos g l Hwf Hv) as Hr.
  pose proof Hwf as (_ & _ & Htw & Hth & _).
  unfold affected_level_tiles.
  destruct (tile_bbox g x y l) as [[[x0 y0] x1] y1] eqn:Eb.
  set (d := res_at g l / 10).
  assert (Hd : 0 < d /\ d * 10 <= res_at g l) by (unfold d; lia).
  assert (Hsz : x1 - x0 = res_at g l * tw g /\ y1 - y0 = res_at g l * th g).
  { pose proof (tile_bbox_size g x y l) as H. rewrite Eb in H. exact H. }
  assert (Hsx : res_at g l <= res_at g l * tw g) by nia.
  assert (Hsy : res_at g l <= res_at g l * th g) by nia.
  assert (E1 : tile g (x0 + d) (y0 + d) l = (x, y)).
  { apply tile_of_owned; try assumption. rewrite Eb. unfold owns.
    destruct (ul g); cbn [in_bbox_halfopen in_bbox_halfopen_ul]; lia. }
  assert (E2 : tile g (x1 - d) (y1 - d) l = (x, y)).
  { apply tile_of_owned; try assumption. rewrite Eb. unfold owns.
    destruct (ul g); cbn [in_bbox_halfopen in_bbox_halfopen_ul]; lia. }
  rewrite E1, E2. rewrite !zrange_single.
  assert (Eys : (if ul g then [y] else rev [y]) = [y]) by (destruct (ul g); reflexivity).
  rewrite Eys. cbn [last length Z.of_nat create_tile_list flat_map map app].
  rewrite Eb. unfold merge_bbox. rewrite !Z.min_id, !Z.max_id. reflexivity.
Qed.

Local Open Scope Q_scope.

(* ImageTransformer.transform returns the source image object itself when source and output rectangle are
   equal and the sizes are equal (same SRS) *)
Lemma same_bbox_untouched w h b0 b1 b2 b3 :
  pos_size w h -> b0 < b2 -> b1 < b3 ->
  transform true w h (b0, b1, b2, b3) w h (b0, b1, b2, b3) = Untouched.
Proof.
  intros [Hw Hh] Hx Hy. unfold transform, no_transformation_needed, bbox_equals.
  rewrite !Z.eqb_refl. cbn [andb].
  assert (Hw0 : 0 < inject_Z w) by (unfold Qlt; cbn; lia).
  assert (Hh0 : 0 < inject_Z h) by (unfold Qlt; cbn; lia).
  assert (Hxr : 0 < (b2 - b0) / inject_Z w / 10).
  { apply Qlt_shift_div_l; [lra|]. apply Qlt_shift_div_l; lra. }
  assert (Hyr : 0 < (b3 - b1) / inject_Z h / 10).
  { apply Qlt_shift_div_l; [lra|]. apply Qlt_shift_div_l; lra. }
  assert (Hb : forall a t, 0 < t -> Qlt_b (Qabs (a - a)) t = true).
  { intros a t Ht. unfold Qlt_b. apply negb_true_iff. destruct (Qle_bool t (Qabs (a - a))) eqn:E; [|reflexivity].
    apply Qle_bool_iff in E. setoid_replace (a - a) with 0 in E by ring. cbn in E. lra. }
  rewrite !Hb by assumption. reflexivity.
Qed.

(* ... and whenever it does so, sizes and SRS agree and each edge differs by less than a tenth of an output
   pixel (the code uses the x resolution for the lower left and the y resolution for the upper right corner) *)
Lemma untouched_only_if_equal same sw sh s0 s1 s2 s3 dw dh d0 d1 d2 d3 :
  transform same sw sh (s0, s1, s2, s3) dw dh (d0, d1, d2, d3) = Untouched ->
  same = true /\ sw = dw /\ sh = dh /\
  Qabs (s0 - d0) < (d2 - d0) / inject_Z dw / 10 /\ Qabs (s1 - d1) < (d2 - d0) / inject_Z dw / 10 /\
  Qabs (s2 - d2) < (d3 - d1) / inject_Z dh / 10 /\ Qabs (s3 - d3) < (d3 - d1) / inject_Z dh / 10.
Proof.
  unfold transform. destruct (no_transformation_needed same sw sh (s0, s1, s2, s3) dw dh (d0, d1, d2, d3)) eqn:E.
  2:{ destruct same; discriminate. }
  intros _. unfold no_transformation_needed, bbox_equals in E.
  apply andb_prop in E. destruct E as [E Eb].
  apply andb_prop in E. destruct E as [E Esame].
  apply andb_prop in E. destruct E as [Ew Eh].
  apply andb_prop in Eb. destruct Eb as [Eb E3].
  apply andb_prop in Eb. destruct Eb as [Eb E2].
  apply andb_prop in Eb. destruct Eb as [E0 E1].
  assert (Hb : forall a t, Qlt_b a t = true -> a < t).
  { intros a t H. unfold Qlt_b in H. apply negb_true_iff in H. apply Qnot_le_lt. intro Hle.
    apply Qle_bool_iff in Hle. congruence. }
  split; [exact Esame|]. split; [apply Z.eqb_eq; exact Ew|]. split; [apply Z.eqb_eq; exact Eh|].
  split; [apply Hb; exact E0|]. split; [apply Hb; exact E1|]. split; [apply Hb; exact E2|apply Hb; exact E3].
Qed.

(* ---- non-vacuity of the ImageTransformer / single tile statements *)
Example crop_path_nonvacuous :
  transform_simple 256 256 (0, 0, 256, 256) 128 128 (10 + (1 # 4), 10, 138 + (1 # 4), 138) = Crop 10 118 138 246.
Proof. vm_compute. reflexivity. Qed.

Example extent_path_nonvacuous :
  exists x0 y0 x1 y1, transform_simple 256 256 (0, 0, 256, 256) 128 128 (10, 10, 140, 140) = Extent x0 y0 x1 y1
                      /\ x0 == 10 /\ y0 == 116 /\ x1 == 140 /\ y1 == 246.
Proof. do 4 eexists. split; [vm_compute; reflexivity|]. repeat split; reflexivity. Qed.

Example single_tile_nonvacuous :
  let g := mkGrid (-1000) (-500) 1560 780 64 64 [40; 20; 10]%Z true 23 20 4 1 in
  (10 <= res_at g 2)%Z /\ tile_bbox g 1 1 2 = ((-360)%Z, (-500)%Z, 280%Z, 140%Z) /\
  affected_level_tiles g (tile_bbox g 1 1 2) 2 = Affected (tile_bbox g 1 1 2) 1 1 [Some (1, 1, 2)%Z].
Proof. cbv zeta. split; [vm_compute; discriminate|]. split; vm_compute; reflexivity. Qed.

Example untouched_nonvacuous :
  transform true 256 256 (0, 0, 256, 256) 256 256 (1 # 16, 0, 256 + (1 # 16), 256) = Untouched /\
  transform true 256 256 (0, 0, 256, 256) 256 256 (1 # 8, 0, 256 + (1 # 8), 256) = Simple (Crop 0 0 256 256).
Proof. split; vm_compute; reflexivity. Qed.

(* ================================================================== WMTS GetFeatureInfo uses the served tile *)
Local Open Scope Z_scope.

(* All four WMTS request classes carry origin = 'nw': the bbox used is the rectangle the WMTS address denotes, on
   grids of both origins, whenever the tiled area of the level ends at the top of the grid bbox (misalign = 0:
   what supports_access_with_origin('nw') checks before a grid is offered through WMTS). *)
Lemma wmts_bbox_is_rectangle g r col row l :
  misalign g l = 0 ->
  wmts_bbox g r col row l =
    match limit_tile g col row l with Some _ => Some (wmts_rectangle g col row l) | None => None end.
Proof.
  intros Hm. unfold wmts_bbox, internal_tile_coord, wmts_origin.
  unfold limit_tile. destruct (negb (valid_level g l)); [reflexivity|].
  destruct (grid_size g l) as [nx ny] eqn:Egs.
  destruct ((col <? 0) || (row <? 0) || (nx <=? col) || (ny <=? row)); [reflexivity|].
  destruct (ul g) eqn:Eul.
  - unfold wmts_rectangle, tile_bbox, nw_grid. cbn [ul gx0 gy0 gx1 gy1 tw th]. rewrite Eul.
    unfold res_at. cbn [ress]. reflexivity.
  - assert (Hflip : (let '(x, y, l') := flip_tile_coord g col row l in tile_bbox g x y l') = wmts_rectangle g col row l).
    { unfold flip_tile_coord, wmts_rectangle, tile_bbox, nw_grid. rewrite Egs. cbn [snd ul gx0 gy0 gx1 gy1 tw th].
      rewrite Eul. unfold misalign in Hm. rewrite Egs in Hm. cbn [snd] in Hm.
      unfold res_at in *. cbn [ress]. apply bbox_eq; nia. }
    destruct (flip_tile_coord g col row l) as [[x y] l']. rewrite Hflip. reflexivity.
Qed.

(* GetFeatureInfo, KVP or RESTful, is forwarded with the bbox of the tile that GetTile serves for the same
   address - on every grid, aligned or not (the request classes do not differ in their origin any more) *)
Lemma wmts_featureinfo_uses_served_tile g r r' col row l :
  wmts_bbox g r col row l = wmts_bbox g r' col row l.
Proof. reflexivity. Qed.

(* non-vacuity: the grid of the former defect (numbered from the south): RESTful GetFeatureInfo for column 0,
   row 0 of matrix 1 uses the north-west tile *)
Example wmts_featureinfo_nonvacuous :
  let g := mkGrid 0 0 51200 51200 64 64 [400; 200; 100]%Z false 23 20 4 1 in
  wf g /\ valid_level g 1 = true /\ misalign g 1 = 0 /\
  wmts_bbox g RestFeatureInfo 0 0 1 = Some (0, 38400, 12800, 51200) /\
  wmts_rectangle g 0 0 1 = (0, 38400, 12800, 51200).
Proof.
  cbv zeta. split.
  { unfold wf, pos_res. cbn [gx0 gx1 gy0 gy1 tw th ress].
    split; [lia|]. split; [lia|]. split; [lia|]. split; [lia|]. intros r [<-|[<-|[<-|[]]]]; lia. }
  split; [reflexivity|]. split; [reflexivity|]. split; vm_compute; reflexivity.
Qed.

(* ================================================================== sub-extent placement, instantiated *)
Local Open Scope Q_scope.

Lemma trunc_err_eq L t : L == t -> 0 <= t -> 0 <= t - inject_Z (trunc L) /\ t - inject_Z (trunc L) < 1.
Proof.
  intros E Ht. assert (H : 0 <= L) by (rewrite E; exact Ht).
  destruct (trunc_nonneg_error L H) as [A B]. split; lra.
Qed.

(* bbox_position_in_image along x: the request (b0..b2, w pixels) is cut down to the source extent (s0..s2) that
   meets it; the sub image is requested for (n0..n2) with sw pixels and pasted at column ox.  Every pixel
   boundary k of the sub image - ground position n0 + k/sw (n2 - n0), true output pixel position
   (X - b0) * w/(b2 - b0) - is pasted at column ox + k: less than one output pixel before its true position,
   never after it. *)
Lemma sub_extent_error_x b0 b1 b2 b3 w h s0 s1 s2 s3 sw sh ox oy n0 n1 n2 n3 k :
  b0 < b2 -> (0 < w)%Z ->
  s0 <= s2 -> s0 <= b2 -> b0 <= s2 ->
  bbox_position_in_image (b0, b1, b2, b3) w h (s0, s1, s2, s3) = ((sw, sh), (ox, oy), (n0, n1, n2, n3)) ->
  (0 < sw)%Z -> (0 <= k <= sw)%Z ->
  let c := inject_Z w / (b2 - b0) in
  let X := n0 + inject_Z k / inject_Z sw * (n2 - n0) in
  0 <= (X - b0) * c - inject_Z (ox + k) /\ (X - b0) * c - inject_Z (ox + k) < 1.
Proof.
  intros Hb Hw Hs Hsb Hbs H Hsw Hk. cbv zeta.
  assert (Hw0 : 0 < inject_Z w) by (unfold Qlt; cbn; lia).
  set (c := inject_Z w / (b2 - b0)).
  assert (Hc : 0 < c) by (unfold c; apply Qlt_shift_div_l; lra).
  assert (Hcw : (b2 - b0) * c == inject_Z w) by (unfold c; field; lra).
  unfold bbox_position_in_image in H.
  (* the literal pixel coordinates computed by the code *)
  set (L0 := fst (lin_transf (b0, b1, b2, b3) (img_rect w h) (s0, 0))) in H.
  set (L2 := fst (lin_transf (b0, b1, b2, b3) (img_rect w h) (s2, 0))) in H.
  assert (EL0 : L0 == (s0 - b0) * c) by (unfold L0, c, lin_transf, img_rect; cbn [fst snd]; field; lra).
  assert (EL2 : L2 == (s2 - b0) * c) by (unfold L2, c, lin_transf, img_rect; cbn [fst snd]; field; lra).
  assert (Hlt : forall a b, Qlt_b a b = true -> a < b).
  { intros a b E. unfold Qlt_b in E. apply negb_true_iff in E. apply Qnot_le_lt. intro Hle.
    apply Qle_bool_iff in Hle. congruence. }
  assert (Hge : forall a b, Qlt_b a b = false -> b <= a).
  { intros a b E. unfold Qlt_b in E. apply negb_false_iff in E. apply Qle_bool_iff. exact E. }
  (* facts about the two x offsets, whichever branch was taken *)
  assert (Hx : exists o0 o2 : Z,
             ox = o0 /\ sw = Z.abs (o2 - o0) /\ n0 <= n2 /\ b0 <= n0 /\
             0 <= (n0 - b0) * c - inject_Z o0 /\ (n0 - b0) * c - inject_Z o0 < 1 /\
             0 <= (n2 - b0) * c - inject_Z o2 /\ (n2 - b0) * c - inject_Z o2 < 1).
  { destruct (Qlt_b b0 s0) eqn:E0; destruct (Qlt_b s2 b2) eqn:E2;
      destruct (if Qlt_b b1 s1 then _ else _) as [o1 m1]; destruct (if Qlt_b s3 b3 then _ else _) as [o3 m3];
      injection H as <- _ <- _ <- _ <- _.
    - apply Hlt in E0, E2. exists (trunc L0), (trunc L2).
      destruct (trunc_err_eq L0 _ EL0 ltac:(nra)) as [A0 B0]. destruct (trunc_err_eq L2 _ EL2 ltac:(nra)) as [A2 B2].
      repeat split; try assumption; lra.
    - apply Hlt in E0. apply Hge in E2. exists (trunc L0), w.
      destruct (trunc_err_eq L0 _ EL0 ltac:(nra)) as [A0 B0].
      repeat split; try assumption; try lra; rewrite Hcw; lra.
    - apply Hge in E0. apply Hlt in E2. exists 0%Z, (trunc L2).
      destruct (trunc_err_eq L2 _ EL2 ltac:(nra)) as [A2 B2].
      repeat split; try assumption; try lra;
        setoid_replace ((b0 - b0) * c - inject_Z 0) with 0 by (unfold inject_Z; ring); lra.
    - apply Hge in E0, E2. exists 0%Z, w.
      repeat split; try lra;
        try (setoid_replace ((b0 - b0) * c - inject_Z 0) with 0 by (unfold inject_Z; ring); lra);
        rewrite Hcw; lra. }
  destruct Hx as (o0 & o2 & Eox & Esw & Hn & Hbn & A0 & B0 & A2 & B2). subst ox.
  (* the offsets are ordered because the true positions are *)
  assert (Hmono : (n0 - b0) * c <= (n2 - b0) * c) by nra.
  assert (Ho : (o0 <= o2)%Z).
  { assert (Hq : inject_Z o0 < inject_Z (o2 + 1)) by (rewrite inject_Z_plus; unfold inject_Z at 3; lra).
    rewrite <- Zlt_Qlt in Hq. lia. }
  assert (Esw' : sw = (o2 - o0)%Z) by lia. clear Esw. subst sw.
  pose proof (paste_error ((n0 - b0) * c) ((n2 - b0) * c) o0 o2 k A0 B0 A2 B2 Hsw Hk) as [P1 P2].
  assert (Hn0 : ~ inject_Z (o2 - o0) == 0) by (apply inject_Z_nonzero; exact Hsw).
  assert (E : (n0 + inject_Z k / inject_Z (o2 - o0) * (n2 - n0) - b0) * c ==
              (n0 - b0) * c + inject_Z k / inject_Z (o2 - o0) * ((n2 - b0) * c - (n0 - b0) * c)) by (field; exact Hn0).
  rewrite E. split; assumption.
Qed.

(* the same along y (rows are counted from the top: offset oy is the row of the upper edge n3) *)
Lemma sub_extent_error_y b0 b1 b2 b3 w h s0 s1 s2 s3 sw sh ox oy n0 n1 n2 n3 k :
  b1 < b3 -> (0 < h)%Z ->
  s1 <= s3 -> s1 <= b3 -> b1 <= s3 ->
  bbox_position_in_image (b0, b1, b2, b3) w h (s0, s1, s2, s3) = ((sw, sh), (ox, oy), (n0, n1, n2, n3)) ->
  (0 < sh)%Z -> (0 <= k <= sh)%Z ->
  let c := inject_Z h / (b3 - b1) in
  let Y := n3 - inject_Z k / inject_Z sh * (n3 - n1) in
  0 <= (b3 - Y) * c - inject_Z (oy + k) /\ (b3 - Y) * c - inject_Z (oy + k) < 1.
Proof.
  intros Hb Hw Hs Hsb Hbs H Hsw Hk. cbv zeta.
  assert (Hw0 : 0 < inject_Z h) by (unfold Qlt; cbn; lia).
  set (c := inject_Z h / (b3 - b1)).
  assert (Hc : 0 < c) by (unfold c; apply Qlt_shift_div_l; lra).
  assert (Hcw : (b3 - b1) * c == inject_Z h) by (unfold c; field; lra).
  unfold bbox_position_in_image in H.
  set (L1 := snd (lin_transf (b0, b1, b2, b3) (img_rect w h) (0, s1))) in H.
  set (L3 := snd (lin_transf (b0, b1, b2, b3) (img_rect w h) (0, s3))) in H.
  assert (EL1 : L1 == (b3 - s1) * c) by (unfold L1, c, lin_transf, img_rect; cbn [fst snd]; field; lra).
  assert (EL3 : L3 == (b3 - s3) * c) by (unfold L3, c, lin_transf, img_rect; cbn [fst snd]; field; lra).
  assert (Hlt : forall a b, Qlt_b a b = true -> a < b).
  { intros a b E. unfold Qlt_b in E. apply negb_true_iff in E. apply Qnot_le_lt. intro Hle.
    apply Qle_bool_iff in Hle. congruence. }
  assert (Hge : forall a b, Qlt_b a b = false -> b <= a).
  { intros a b E. unfold Qlt_b in E. apply negb_false_iff in E. apply Qle_bool_iff. exact E. }
  assert (Hy : exists o3 o1 : Z,
             oy = o3 /\ sh = Z.abs (o1 - o3) /\ n1 <= n3 /\ n3 <= b3 /\
             0 <= (b3 - n3) * c - inject_Z o3 /\ (b3 - n3) * c - inject_Z o3 < 1 /\
             0 <= (b3 - n1) * c - inject_Z o1 /\ (b3 - n1) * c - inject_Z o1 < 1).
  { destruct (if Qlt_b b0 s0 then _ else _) as [o0 m0];
      destruct (Qlt_b b1 s1) eqn:E1;
      destruct (if Qlt_b s2 b2 then _ else _) as [o2 m2];
      destruct (Qlt_b s3 b3) eqn:E3;
      injection H as _ <- _ <- _ <- _ <-.
    - apply Hlt in E1, E3. exists (trunc L3), (trunc L1).
      destruct (trunc_err_eq L1 _ EL1 ltac:(nra)) as [A1 B1]. destruct (trunc_err_eq L3 _ EL3 ltac:(nra)) as [A3 B3].
      repeat split; try assumption; lra.
    - apply Hlt in E1. apply Hge in E3. exists 0%Z, (trunc L1).
      destruct (trunc_err_eq L1 _ EL1 ltac:(nra)) as [A1 B1].
      repeat split; try assumption; try lra;
        setoid_replace ((b3 - b3) * c - inject_Z 0) with 0 by (unfold inject_Z; ring); lra.
    - apply Hge in E1. apply Hlt in E3. exists (trunc L3), h.
      destruct (trunc_err_eq L3 _ EL3 ltac:(nra)) as [A3 B3].
      repeat split; try assumption; try lra; rewrite Hcw; lra.
    - apply Hge in E1, E3. exists 0%Z, h.
      repeat split; try lra;
        try (setoid_replace ((b3 - b3) * c - inject_Z 0) with 0 by (unfold inject_Z; ring); lra);
        rewrite Hcw; lra. }
  destruct Hy as (o3 & o1 & Eoy & Esh & Hn & Hbn & A3 & B3 & A1 & B1). subst oy.
  assert (Hmono : (b3 - n3) * c <= (b3 - n1) * c) by nra.
  assert (Ho : (o3 <= o1)%Z).
  { assert (Hq : inject_Z o3 < inject_Z (o1 + 1)) by (rewrite inject_Z_plus; unfold inject_Z at 3; lra).
    rewrite <- Zlt_Qlt in Hq. lia. }
  assert (Esh' : sh = (o1 - o3)%Z) by lia. clear Esh. subst sh.
  pose proof (paste_error ((b3 - n3) * c) ((b3 - n1) * c) o3 o1 k A3 B3 A1 B1 Hsw Hk) as [P1 P2].
  assert (Hn0 : ~ inject_Z (o1 - o3) == 0) by (apply inject_Z_nonzero; exact Hsw).
  assert (E : (b3 - (n3 - inject_Z k / inject_Z (o1 - o3) * (n3 - n1))) * c ==
              (b3 - n3) * c + inject_Z k / inject_Z (o1 - o3) * ((b3 - n1) * c - (b3 - n3) * c)) by (field; exact Hn0).
  rewrite E. split; assumption.
Qed.

(* non-vacuity: the doctest of bbox_position_in_image with an extent edge that is not on the pixel lattice *)
Example sub_extent_error_nonvacuous :
  bbox_position_in_image (586400, 196400, 752800, 362800) 256 256 (586400, 196400, 752800, 350000) =
    ((256, 237)%Z, (0, 19)%Z, (586400, 196400, 752800, 350000)).
Proof. vm_compute. reflexivity. Qed.

(* ================================================================== the single-tile chain: level selection *)
Local Open Scope Z_scope.

(* a request with the resolution of level l selects level l (stretch factor >= 1, strictly decreasing resolutions) *)
Lemma single_tile_level g l :
  wf g -> decreasing_res g -> valid_level g l = true -> 0 < sf_d g <= sf_n g ->
  closest_level g (res_at g l * tw g) (tw g) = l.
Proof.
  intros Hwf Hdec Hv Hsf. pose proof (res_at_pos g l Hwf Hv) as Hr.
  pose proof Hwf as (_ & _ & Htw & _ & _).
  assert (Hl : 0 <= l < levels g) by (unfold valid_level in Hv; lia).
  apply (closest_level_spec_unique g (res_at g l * tw g) (tw g)).
  - apply closest_level_spec; try assumption; nia.
  - unfold closest_level_spec_of. split; [exact Hl|]. left. split.
    + unfold level_within. split; [lia|]. nia.
    + intros j Hj [Hw _]. pose proof (Hdec l j ltac:(lia) ltac:(lia) ltac:(lia)) as Hlt. nia.
Qed.

(* a tile of the grid meets the grid bbox *)
Lemma valid_tile_intersects g x y l :
  wf g -> valid_level g l = true -> limit_tile g x y l = Some (x, y, l) ->
  bbox_intersects (gx0 g, gy0 g, gx1 g, gy1 g) (tile_bbox g x y l) = true.
Proof.
  intros Hwf Hv Hlim. pose proof (res_at_pos g l Hwf Hv) as Hr.
  pose proof (grid_size_cover g l Hwf Hv) as Hc.
  pose proof Hwf as (Hx & Hy & Htw & Hth & _).
  unfold limit_tile in Hlim. rewrite Hv in Hlim. cbn [negb] in Hlim.
  destruct (grid_size g l) as [nx ny]. cbv zeta in Hc.
  destruct ((x <? 0) || (y <? 0) || (nx <=? x) || (ny <=? y)) eqn:E; [discriminate|].
  assert (Hxy : 0 <= x < nx /\ 0 <= y < ny) by lia.
  destruct Hc as (_ & _ & _ & Hcx & _ & Hcy).
  set (r := res_at g l) in *.
  assert (Hsx : 0 < r * tw g) by nia. assert (Hsy : 0 < r * th g) by nia.
  assert (Hx1 : x * r * tw g <= (nx - 1) * (r * tw g)) by nia.
  assert (Hy1 : y * r * th g <= (ny - 1) * (r * th g)) by nia.
  assert (Hx0 : 0 <= x * r * tw g) by nia. assert (Hy0 : 0 <= y * r * th g) by nia.
  unfold bbox_intersects, tile_bbox. fold r. destruct (ul g); lia.
Qed.

(* The whole chain for a WMS request that is exactly one tile of the cache: CacheMapLayer._image selects the level
   of the tile, the affected tiles are that tile alone and src_bbox is the request rectangle (so that
   ImageTransformer.transform returns the stored image untouched: single_tile_unresampled). *)
Lemma single_tile_plan g x y l :
  wf g -> decreasing_res g -> valid_level g l = true -> 10 <= res_at g l ->
  0 < sf_d g <= sf_n g -> 0 < shr_d g <= shr_n g ->
  limit_tile g x y l = Some (x, y, l) ->
  cache_map_plan g (tile_bbox g x y l) (tw g) (th g) = Mosaic l (tile_bbox g x y l) 1 1 [Some (x, y, l)].
Proof.
  intros Hwf Hdec Hv Hr10 Hsf Hshr Hlim. pose proof (res_at_pos g l Hwf Hv) as Hr.
  pose proof Hwf as (_ & _ & Htw & Hth & _).
  assert (Hl : 0 <= l < levels g) by (unfold valid_level in Hv; lia).
  unfold cache_map_plan, affected_level.
  rewrite (valid_tile_intersects g x y l Hwf Hv Hlim). cbn [negb].
  pose proof (tile_bbox_size g x y l) as Hsz.
  assert (Hres : get_resolution (tile_bbox g x y l) (tw g) (th g) = (res_at g l * tw g, tw g)).
  { destruct (tile_bbox g x y l) as [[[x0 y0] x1] y1]. destruct Hsz as [Hw Hh]. unfold get_resolution.
    replace (Z.abs (x0 - x1)) with (res_at g l * tw g) by nia.
    replace (Z.abs (y0 - y1)) with (res_at g l * th g) by nia.
    replace (res_at g l * tw g * th g <=? res_at g l * th g * tw g) with true by (symmetry; apply Z.leb_le; nia).
    reflexivity. }
  rewrite Hres. rewrite (single_tile_level g l Hwf Hdec Hv Hsf).
  assert (Hr0 : res_at g l <= res_at g 0).
  { destruct (Z.eq_dec l 0) as [->|Hne]; [lia|]. pose proof (Hdec 0 l ltac:(lia) ltac:(lia) ltac:(lia)). lia. }
  assert (Hshr1 : res_at g l * tw g <= res_at g 0 * tw g) by nia.
  assert (Hshr2 : res_at g l * tw g * shr_d g <= res_at g 0 * tw g * shr_n g).
  { apply Z.mul_le_mono_nonneg; nia. }
  replace (res_at g 0 * shr_n g * tw g <? res_at g l * tw g * shr_d g) with false by (symmetry; apply Z.ltb_ge; lia).
  rewrite (single_tile_affected g x y l Hwf Hv Hr10).
  unfold limit_tile in Hlim. rewrite Hv in Hlim. cbn [negb] in Hlim.
  destruct (grid_size g l) as [nx ny]. cbn [fst snd]. unfold tile_or_none.
  destruct ((x <? 0) || (y <? 0) || (nx <=? x) || (ny <=? y)); [discriminate|]. reflexivity.
Qed.

Example single_tile_plan_nonvacuous :
  let g := mkGrid (-1000) (-500) 1560 780 64 64 [40; 20; 10] true 23 20 4 1 in
  wf g /\ decreasing_res g /\ limit_tile g 1 1 2 = Some (1, 1, 2) /\
  cache_map_plan g (tile_bbox g 1 1 2) 64 64 = Mosaic 2 (-360, -500, 280, 140) 1 1 [Some (1, 1, 2)].
Proof.
  cbv zeta. split.
  { unfold wf, pos_res. cbn [gx0 gx1 gy0 gy1 tw th ress].
    split; [lia|]. split; [lia|]. split; [lia|]. split; [lia|]. intros r [<-|[<-|[<-|[]]]]; lia. }
  split.
  { unfold decreasing_res. intros i j Hi Hij Hj. unfold levels in Hj. cbn in Hj.
    assert (Hc : (i = 0 /\ j = 1) \/ (i = 0 /\ j = 2) \/ (i = 1 /\ j = 2)) by lia.
    destruct Hc as [[-> ->]|[[-> ->]|[-> ->]]]; vm_compute; reflexivity. }
  split; vm_compute; reflexivity.
Qed.

(* ================================================================== meta tiles: georeference along x *)
Local Open Scope Z_scope.

Lemma rhe_exact q d : 0 < d -> rhe (q * d) d = q.
Proof.
  intros Hd. unfold rhe. rewrite Z.div_mul by lia. rewrite Z.mod_mul by lia.
  replace (2 * 0 <? d) with true by (symmetry; apply Z.ltb_lt; lia). reflexivity.
Qed.

Lemma round5_int_exact q r : 0 < r -> round5_int (q * r) r = q.
Proof.
  intros Hr. unfold round5_int. replace (q * r * 100000) with (q * 100000 * r) by ring.
  rewrite rhe_exact by exact Hr. apply Z.quot_mul. lia.
Qed.

Lemma nth_error_combine_seq {A} (l : list A) : forall s k,
  nth_error (combine (seq s (length l)) l) k = option_map (fun t => ((s + k)%nat, t)) (nth_error l k).
Proof.
  induction l as [|a l IH]; intros s k; [destruct k; reflexivity|].
  cbn [length seq combine]. destruct k as [|k]; cbn [nth_error option_map].
  - rewrite Nat.add_0_r. reflexivity.
  - rewrite IH. replace (S s + k)%nat with (s + S k)%nat by lia. reflexivity.
Qed.

Lemma meta_size_pos m l :
  wf (mg m) -> valid_level (mg m) l = true -> 0 < msx m -> 0 < msy m ->
  0 < fst (meta_size m l) /\ 0 < snd (meta_size m l).
Proof.
  intros Hwf Hv Hx Hy. pose proof (grid_size_cover (mg m) l Hwf Hv) as Hc. unfold meta_size.
  destruct (grid_size (mg m) l) as [nx ny]. cbv zeta in Hc. cbn [fst snd]. lia.
Qed.

(* MetaGrid.meta_tile: every tile of the meta tile is cut out of the meta image at the column where its own
   tile_bbox lies inside the (buffered, limited) meta bbox at the level resolution - exactly, with or without
   buffer, whether or not the buffer is cut at the left edge of the grid bbox (the cut is a whole number of
   pixels there because tile edges are on the pixel lattice that starts at the left grid edge). *)
Lemma meta_tile_georef_x m x y l mb sz pats k tx ty tl ox oy :
  wf (mg m) -> valid_level (mg m) l = true -> 0 < msx m -> 0 < msy m ->
  meta_tile m x y l = (mb, sz, pats) ->
  nth_error pats k = Some (Some (tx, ty, tl), (ox, oy)) ->
  tl = l /\ fst (ul_offset_ground mb (tile_bbox (mg m) tx ty tl)) = ox * res_at (mg m) l.
Proof.
  intros Hwf Hv Hmx Hmy H Hk. set (g := mg m) in *.
  pose proof (res_at_pos g l Hwf Hv) as Hr. pose proof Hwf as (_ & _ & Htw & Hth & _).
  destruct (meta_size_pos m l Hwf Hv Hmx Hmy) as [Hsx Hsy].
  unfold meta_tile in H. fold g in H.
  destruct (main_tile m x y l) as [[x0 y0] l0] eqn:Emain.
  assert (Ex0 : x0 = x / fst (meta_size m l) * fst (meta_size m l)).
  { unfold main_tile in Emain. destruct (meta_size m l) as [sx sy]. injection Emain as <- _ _. reflexivity. }
  assert (Eidem : main_tile m x0 y0 l = (x0, y0, l)).
  { unfold main_tile in *. destruct (meta_size m l) as [sx sy]. cbn [fst snd] in *.
    injection Emain as <- <- _. rewrite !Z.div_mul by lia. reflexivity. }
  destruct (buffered_bbox m (unbuffered_meta_bbox m x0 y0 l) l) as [mb' buffers] eqn:Ebuf.
  injection H as <- _ <-.
  rewrite nth_error_map, nth_error_combine_seq in Hk.
  destruct (nth_error (meta_tile_list m x0 y0 l (meta_size m l)) k) as [ot|] eqn:Et; [|discriminate].
  cbn [option_map fst snd] in Hk. injection Hk as -> Hoff.
  (* which tile *)
  unfold meta_tile_list in Et. rewrite Eidem in Et. fold g in Et.
  apply nth_error_create_tile_list in Et. destruct Et as (-> & Hx & _).
  split; [reflexivity|].
  destruct (meta_size m l) as [sx sy] eqn:Ems. cbn [fst snd] in *.
  assert (Hlen : Z.of_nat (length (zrange x0 (x0 + sx - 1))) = sx) by (rewrite length_zrange; lia).
  apply nth_error_zrange in Hx. destruct Hx as [Hx _].
  rewrite Nat2Z.inj_mod, Hlen in Hx.
  (* the offset *)
  destruct buffers as [[[bl bb] br] bt]. unfold pattern_offset in Hoff. cbn [fst] in Hoff.
  injection Hoff as <- _.
  (* the left edge of the meta bbox and the left buffer *)
  assert (Hleft : fst (fst (fst mb')) + bl * res_at g l = gx0 g + x0 * res_at g l * tw g).
  { unfold buffered_bbox, unbuffered_meta_bbox in Ebuf. rewrite Ems in Ebuf. fold g in Ebuf.
    set (r := res_at g l) in *.
    assert (Hsp : 0 < r * tw g) by nia.
    assert (Hmin : Z.min (gx0 g + x0 * r * tw g) (gx0 g + (x0 + sx - 1) * r * tw g) = gx0 g + x0 * r * tw g).
    { apply Z.min_l. nia. }
    destruct (tile_bbox g x0 y0 l) as [[[a0 a1] a2] a3] eqn:Ea.
    destruct (tile_bbox g (x0 + sx - 1) (y0 + sy - 1) l) as [[[c0 c1] c2] c3] eqn:Ec.
    assert (Ea0 : a0 = gx0 g + x0 * r * tw g) by (unfold tile_bbox in Ea; fold r in Ea; destruct (ul g); injection Ea as <- _ _ _; reflexivity).
    assert (Ec0 : c0 = gx0 g + (x0 + sx - 1) * r * tw g) by (unfold tile_bbox in Ec; fold r in Ec; destruct (ul g); injection Ec as <- _ _ _; reflexivity).
    unfold merge_bbox in Ebuf. rewrite Ea0, Ec0, Hmin in Ebuf.
    destruct (mbuf m <=? 0) eqn:Eb0.
    - injection Ebuf as <- <- _ _ _. cbn [fst]. ring.
    - destruct (gx0 g + x0 * r * tw g - mbuf m * r <? gx0 g) eqn:Eclip;
        repeat match type of Ebuf with
               | context [if ?c then ?a else ?b] => destruct (if c then a else b) as [? ?]
               end;
        injection Ebuf as <- <- _ _ _; cbn [fst].
      + replace (gx0 g - (gx0 g + x0 * r * tw g - mbuf m * r)) with ((mbuf m - x0 * tw g) * r) by ring.
        rewrite round5_int_exact by exact Hr. ring.
      + ring. }
  unfold ul_offset_ground. destruct mb' as [[[m0 m1] m2] m3]. cbn [fst] in Hleft.
  unfold tile_bbox. fold g. set (r := res_at g l) in *.
  destruct (ul g); cbn [fst]; rewrite Hx; nia.
Qed.

Example meta_tile_georef_nonvacuous :
  (* 2 x 2 meta tiles, buffer 10, at the left edge of the grid: the buffer is cut to 0 *)
  let m := mkMeta (mkGrid (-1000) (-500) 1560 780 64 64 [40; 20; 10] true 23 20 4 1) 2 2 10 in
  exists mb sz pats, meta_tile m 1 1 2 = (mb, sz, pats) /\
                     nth_error pats 1 = Some (Some (1, 0, 2), (64, 0)) /\ mb = (-1000, -500, 380, 780).
Proof. cbv zeta. do 3 eexists. split; [vm_compute; reflexivity|]. split; reflexivity. Qed.

(* ================================================================== rescaled tiles (downscale_tiles / upscale_tiles) *)
Local Open Scope Z_scope.

Lemma nth_error_mask_missing avail ts i t :
  nth_error (mask_missing avail ts) i = Some (Some t) -> nth_error ts i = Some (Some t) /\ avail t = true.
Proof.
  unfold mask_missing. rewrite nth_error_map. destruct (nth_error ts i) as [[t'|]|]; cbn [option_map]; try discriminate.
  destruct (avail t') eqn:E; [|discriminate]. intros H. injection H as <-. auto.
Qed.

(* A tile built from the neighbouring level: the list handed to TiledImage has one entry per cell of the mosaic
   (missing source tiles keep their cell as None), the mosaic has exactly the extent src_bbox, and every source
   tile that is present is pasted where its own bbox lies inside src_bbox. *)
Lemma scaled_tile_georef g avail b sl ab nx ny ts :
  wf g -> valid_level g sl = true ->
  scaled_tile_sources g avail b sl = Affected ab nx ny ts ->
  Z.of_nat (length ts) = nx * ny /\
  bbox_w ab = fst (src_size nx ny (tw g) (th g)) * res_at g sl /\
  bbox_h ab = snd (src_size nx ny (tw g) (th g)) * res_at g sl /\
  forall i x y l',
    nth_error ts i = Some (Some (x, y, l')) ->
    l' = sl /\ avail (x, y, l') = true /\
    ul_offset_ground ab (tile_bbox g x y sl) =
      (fst (tile_offset nx (tw g) (th g) (Z.of_nat i)) * res_at g sl,
       snd (tile_offset nx (tw g) (th g) (Z.of_nat i)) * res_at g sl).
Proof.
  intros Hwf Hv. unfold scaled_tile_sources.
  destruct (affected_level_tiles g b sl) as [ab' nx' ny' ts'|] eqn:E; [|discriminate].
  intros H. injection H as <- <- <- <-.
  destruct (mosaic_georef g b sl ab' nx' ny' ts' Hwf Hv E) as (Hlen & Hw & Hh & Hi).
  split; [unfold mask_missing; rewrite map_length; exact Hlen|]. split; [exact Hw|]. split; [exact Hh|].
  intros i x y l' Hn. apply nth_error_mask_missing in Hn. destruct Hn as [Hn Ha].
  destruct (Hi i x y l' Hn) as [-> Hoff]. auto.
Qed.

Example scaled_tile_nonvacuous :
  (* tile (0,0,1) of a 3-level pyramid built from level 2; the coverage ends in the middle: two of the four source
     tiles are missing and keep their cells *)
  let g := mkGrid 0 0 5120 5120 64 64 [40; 20; 10] false 23 20 4 1 in
  scaled_tile_sources g (avail_in_coverage g (0, 0, 600, 5120)) (tile_bbox g 0 0 1) 2 =
    Affected (0, 0, 1280, 1280) 2 2 [Some (0, 1, 2); None; Some (0, 0, 2); None].
Proof. vm_compute. reflexivity. Qed.

Local Open Scope Z_scope.
Ltac Zify.zify_post_hook ::= Z.to_euclidean_division_equations.

(* ================================================================== MESH path: divide_quad partitions the quad *)

(* int(a + b / 2) for integers a, b *)
Lemma trunc_half a b : trunc (inject_Z a + inject_Z b / 2)%Q = Z.quot (a * 2 + b) 2.
Proof.
  unfold trunc, Qplus, Qdiv, Qmult, Qinv, inject_Z. cbn [Qnum Qden Z.mul Pos.mul].
  rewrite !Z.mul_1_r. reflexivity.
Qed.

(* Every pixel of the quad lies in exactly one of the quads divide_quad returns, every other pixel in none:
   the recursion of transform_meshes always works on a partition of the output image. *)
Lemma divide_quad_partition q0 q1 q2 q3 i j :
  q0 <= q2 -> q1 <= q3 ->
  length (filter (fun s => in_quadb s i j) (divide_quad (q0, q1, q2, q3))) =
  if in_quadb (q0, q1, q2, q3) i j then 1%nat else 0%nat.
Proof.
  intros Hx Hy. unfold divide_quad. rewrite !trunc_half.
  set (xc := Z.quot (q0 * 2 + (q2 - q0)) 2). set (yc := Z.quot (q1 * 2 + (q3 - q1)) 2).
  assert (Hxc : q0 <= xc <= q2) by (unfold xc; lia).
  assert (Hyc : q1 <= yc <= q3) by (unfold yc; lia).
  clearbody xc yc.
  destruct (2 * (q3 - q1) <? q2 - q0); [|destruct (2 * (q2 - q0) <? q3 - q1)];
    cbn [filter in_quadb];
    repeat match goal with
           | |- context [if ?c then _ else _] => destruct c eqn:?
           end; cbn [length]; lia.
Qed.

(* the pieces stay inside the quad *)
Lemma divide_quad_inside q0 q1 q2 q3 s :
  q0 <= q2 -> q1 <= q3 -> In s (divide_quad (q0, q1, q2, q3)) ->
  let '(s0, s1, s2, s3) := s in q0 <= s0 <= s2 /\ s2 <= q2 /\ q1 <= s1 <= s3 /\ s3 <= q3.
Proof.
  intros Hx Hy. unfold divide_quad. rewrite !trunc_half.
  set (xc := Z.quot (q0 * 2 + (q2 - q0)) 2). set (yc := Z.quot (q1 * 2 + (q3 - q1)) 2).
  assert (Hxc : q0 <= xc <= q2) by (unfold xc; lia).
  assert (Hyc : q1 <= yc <= q3) by (unfold yc; lia).
  clearbody xc yc.
  destruct (2 * (q3 - q1) <? q2 - q0); [|destruct (2 * (q2 - q0) <? q3 - q1)];
    cbn [In]; intros H; repeat (destruct H as [<-|H]; [lia|]); contradiction.
Qed.

Example divide_quad_nonvacuous :
  divide_quad (0, 0, 500, 500) = [(0, 0, 250, 250); (250, 0, 500, 250); (0, 250, 250, 500); (250, 250, 500, 500)] /\
  divide_quad (100, 200, 200, 500) = [(100, 200, 200, 350); (100, 350, 200, 500)].
Proof. split; vm_compute; reflexivity. Qed.

Local Open Scope Q_scope.
(* the source pixel coordinates computed for a corner of a mesh quad denote exactly the ground point
   T(ground point of that corner of the output image): the affine maps around the external transformation are
   exact inverses of the georeferences of the two images *)
Lemma mesh_corner_exact (T : qpt -> qpt) sb sw sh db dw dh off q c :
  pos_size sw sh -> nondegenerate sb ->
  In c (dst_quad_to_src T sb sw sh db dw dh off q) ->
  exists i j : Z,
    (let '(q0, q1, q2, q3) := q in (i = q0 \/ i = q2) /\ (j = q1 \/ j = q3)) /\
    qpt_eq (lin_transf (img_rect sw sh) sb c)
           (T (lin_transf (img_rect dw dh) db (inject_Z i + off, inject_Z j + off))).
Proof.
  intros Hs Hsb. pose proof (img_rect_nondegenerate sw sh Hs) as Hr.
  destruct q as [[[q0 q1] q2] q3]. unfold dst_quad_to_src. cbn [map In fst snd].
  intros [<-|[<-|[<-|[<-|[]]]]];
    [exists q0, q1|exists q0, q3|exists q2, q3|exists q2, q1];
    (split; [tauto|apply lin_transf_inverse; assumption]).
Qed.
Local Open Scope Z_scope.

(* the same along y for grids numbered from the top (origin ul / nw): rows are cut exactly where the tile lies below
   the top edge of the meta bbox, also when the buffer is cut at the top edge of the grid bbox *)
Lemma meta_tile_georef_y_ul m x y l mb sz pats k tx ty tl ox oy :
  wf (mg m) -> valid_level (mg m) l = true -> 0 < msx m -> 0 < msy m -> ul (mg m) = true ->
  meta_tile m x y l = (mb, sz, pats) ->
  nth_error pats k = Some (Some (tx, ty, tl), (ox, oy)) ->
  tl = l /\ snd (ul_offset_ground mb (tile_bbox (mg m) tx ty tl)) = oy * res_at (mg m) l.
Proof.
  intros Hwf Hv Hmx Hmy Hul H Hk. set (g := mg m) in *.
  pose proof (res_at_pos g l Hwf Hv) as Hr. pose proof Hwf as (_ & _ & Htw & Hth & _).
  destruct (meta_size_pos m l Hwf Hv Hmx Hmy) as [Hsx Hsy].
  unfold meta_tile in H. fold g in H.
  destruct (main_tile m x y l) as [[x0 y0] l0] eqn:Emain.
  assert (Eidem : main_tile m x0 y0 l = (x0, y0, l)).
  { unfold main_tile in *. destruct (meta_size m l) as [sx sy]. cbn [fst snd] in *.
    injection Emain as <- <- _. rewrite !Z.div_mul by lia. reflexivity. }
  destruct (buffered_bbox m (unbuffered_meta_bbox m x0 y0 l) l) as [mb' buffers] eqn:Ebuf.
  injection H as <- _ <-.
  rewrite nth_error_map, nth_error_combine_seq in Hk.
  destruct (nth_error (meta_tile_list m x0 y0 l (meta_size m l)) k) as [ot|] eqn:Et; [|discriminate].
  cbn [option_map fst snd] in Hk. injection Hk as -> Hoff.
  unfold meta_tile_list in Et. rewrite Eidem in Et. fold g in Et. rewrite Hul in Et.
  apply nth_error_create_tile_list in Et. destruct Et as (-> & _ & Hy).
  split; [reflexivity|].
  destruct (meta_size m l) as [sx sy] eqn:Ems. cbn [fst snd] in *.
  assert (Hlen : Z.of_nat (length (zrange x0 (x0 + sx - 1))) = sx) by (rewrite length_zrange; lia).
  apply nth_error_zrange in Hy. destruct Hy as [Hy _].
  rewrite Nat2Z.inj_div, Hlen in Hy.
  destruct buffers as [[[bl bb] br] bt]. unfold pattern_offset in Hoff. cbn [fst] in Hoff.
  injection Hoff as _ <-.
  assert (Htop : snd mb' - bt * res_at g l = gy1 g - y0 * res_at g l * th g).
  { unfold buffered_bbox, unbuffered_meta_bbox in Ebuf. rewrite Ems in Ebuf. fold g in Ebuf.
    set (r := res_at g l) in *.
    assert (Hsp : 0 < r * th g) by nia.
    assert (Hmax : Z.max (gy1 g - y0 * r * th g) (gy1 g - (y0 + sy - 1) * r * th g) = gy1 g - y0 * r * th g).
    { apply Z.max_l. nia. }
    destruct (tile_bbox g x0 y0 l) as [[[a0 a1] a2] a3] eqn:Ea.
    destruct (tile_bbox g (x0 + sx - 1) (y0 + sy - 1) l) as [[[c0 c1] c2] c3] eqn:Ec.
    assert (Ea3 : a3 = gy1 g - y0 * r * th g) by (unfold tile_bbox in Ea; fold r in Ea; rewrite Hul in Ea; injection Ea as _ _ _ <-; reflexivity).
    assert (Ec3 : c3 = gy1 g - (y0 + sy - 1) * r * th g) by (unfold tile_bbox in Ec; fold r in Ec; rewrite Hul in Ec; injection Ec as _ _ _ <-; reflexivity).
    unfold merge_bbox in Ebuf. rewrite Ea3, Ec3, Hmax in Ebuf.
    destruct (mbuf m <=? 0) eqn:Eb0.
    - injection Ebuf as <- _ _ _ <-. cbn [snd]. ring.
    - destruct (gy1 g <? gy1 g - y0 * r * th g + mbuf m * r) eqn:Eclip;
        repeat match type of Ebuf with
               | context [if ?c then ?a else ?b] => destruct (if c then a else b) as [? ?]
               end;
        injection Ebuf as <- _ _ _ <-; cbn [snd].
      + replace (gy1 g - y0 * r * th g + mbuf m * r - gy1 g) with ((mbuf m - y0 * th g) * r) by ring.
        rewrite round5_int_exact by exact Hr. ring.
      + ring. }
  unfold ul_offset_ground. destruct mb' as [[[m0 m1] m2] m3]. cbn [snd] in Htop.
  unfold tile_bbox. fold g. rewrite Hul. set (r := res_at g l) in *.
  cbn [snd]. rewrite Hy. nia.
Qed.

Local Open Scope Z_scope.

(* ================================================================== the recursion of transform_meshes *)
Definition quad_wf (q : quad) : Prop := let '(q0, q1, q2, q3) := q in q0 <= q2 /\ q1 <= q3.
Definition count_in (qs : list quad) (i j : Z) : nat := length (filter (fun s => in_quadb s i j) qs).

Lemma count_in_app a b i j : count_in (a ++ b) i j = (count_in a i j + count_in b i j)%nat.
Proof. unfold count_in. rewrite filter_app, app_length. reflexivity. Qed.

Lemma divide_quad_wf q s : quad_wf q -> In s (divide_quad q) -> quad_wf s.
Proof.
  destruct q as [[[q0 q1] q2] q3]. intros [Hx Hy] Hin.
  pose proof (divide_quad_inside q0 q1 q2 q3 s Hx Hy Hin) as H.
  destruct s as [[[s0 s1] s2] s3]. unfold quad_wf. lia.
Qed.

(* Whatever the external transformation and whatever is_good decides: the quads produced by the recursion never
   overlap and never leave the quads they were made from - a pixel of the output image lies in at most as many
   mesh quads as start quads (one: the whole image) - and every mesh quad carries exactly the source corners
   dst_quad_to_src computes for it. *)
Lemma add_meshes_sound fuel T Tinv sb sw sh db dw dh off max_err : forall quads i j,
  (forall q, In q quads -> quad_wf q) ->
  (count_in (map fst (add_meshes fuel T Tinv sb sw sh db dw dh off max_err quads)) i j <= count_in quads i j)%nat /\
  (forall q sq, In (q, sq) (add_meshes fuel T Tinv sb sw sh db dw dh off max_err quads) ->
                sq = dst_quad_to_src T sb sw sh db dw dh off q).
Proof.
  induction fuel as [|fuel IH]; intros quads i j Hwf.
  - cbn [add_meshes map]. split; [unfold count_in at 1; cbn; lia|intros q sq []].
  - cbn [add_meshes]. induction quads as [|q quads IHq].
    + cbn. split; [lia|intros q sq []].
    + cbn [flat_map]. rewrite map_app, count_in_app.
      assert (Hq : quad_wf q) by (apply Hwf; left; reflexivity).
      destruct (IHq (fun q' H => Hwf q' (or_intror H))) as [Hc Hs].
      change (q :: quads) with ([q] ++ quads). rewrite count_in_app.
      destruct (mesh_is_good Tinv sb sw sh db dw dh max_err q (dst_quad_to_src T sb sw sh db dw dh off q)) eqn:Eg.
      * split.
        -- cbn [map fst]. lia.
        -- intros q' sq' Hin. apply in_app_or in Hin. destruct Hin as [[Heq|[]]|Hin]; [|exact (Hs q' sq' Hin)].
           injection Heq as <- <-. reflexivity.
      * destruct (IH (divide_quad q) i j (fun s Hs' => divide_quad_wf q s Hq Hs')) as [Hc' Hs'].
        split.
        -- assert (Hd : (count_in (divide_quad q) i j = count_in [q] i j)%nat).
           { destruct q as [[[q0 q1] q2] q3]. destruct Hq as [Hx Hy]. unfold count_in.
             rewrite (divide_quad_partition q0 q1 q2 q3 i j Hx Hy). cbn [filter].
             destruct (in_quadb (q0, q1, q2, q3) i j); reflexivity. }
           lia.
        -- intros q' sq' Hin. apply in_app_or in Hin. destruct Hin as [Hin|Hin]; [exact (Hs' q' sq' Hin)|exact (Hs q' sq' Hin)].
Qed.

Lemma transform_meshes_sound T Tinv sb sw sh db dw dh off mpe i j :
  0 <= dw -> 0 <= dh ->
  (count_in (map fst (transform_meshes T Tinv sb sw sh db dw dh off mpe)) i j <= 1)%nat /\
  (forall q sq, In (q, sq) (transform_meshes T Tinv sb sw sh db dw dh off mpe) ->
                sq = dst_quad_to_src T sb sw sh db dw dh off q).
Proof.
  intros Hw Hh. unfold transform_meshes. destruct db as [[[d0 d1] d2] d3].
  destruct (add_meshes_sound 40 T Tinv sb sw sh (d0, d1, d2, d3) dw dh off (mpe * ((d2 - d0) / inject_Z dw)) [(0, 0, dw, dh)] i j) as [Hc Hs].
  { intros q [<-|[]]. unfold quad_wf. lia. }
  split; [|exact Hs]. eapply Nat.le_trans; [exact Hc|]. unfold count_in. cbn [filter].
  destruct (in_quadb (0, 0, dw, dh) i j); cbn; lia.
Qed.

Local Open Scope Q_scope.
Example transform_meshes_nonvacuous :
  let T := fun p : qpt => (fst p + (1 # 524288) * snd p * snd p * snd p, snd p) in
  let Ti := fun p : qpt => (fst p - (1 # 524288) * snd p * snd p * snd p, snd p) in
  (* symmetric about y = 0: no error at the centre of the image, still divided *)
  length (transform_meshes T Ti (-100, -214, 500, 214) 600 428 (0, -150, 400, 150) 400 300 0 1) = 16%nat.
Proof. vm_compute. reflexivity. Qed.

(* ================================================================== georeference of the answer (GeoTIFF) *)
Local Open Scope Q_scope.

(* Whatever extent is configured for the SRS of the request (bbox_srs) and however the request is cut down to it:
   the georeference written into the answer is that of the requested rectangle, i.e. tie point + (i, j) * pixel
   scale is the ground position of the corner of pixel (i, j) of the answer (the same point InfoQuery.coord names). *)
Lemma answer_georef_is_request b0 b1 b2 b3 w h ext i j :
  (0 < w)%Z -> (0 < h)%Z ->
  let '(_, (tie, scale)) := wms_map_answer (b0, b1, b2, b3) w h ext in
  qpt_eq (fst tie + inject_Z i * fst scale, snd tie - inject_Z j * snd scale)
         (info_coord (b0, b1, b2, b3) w h (i, j)).
Proof.
  intros Hw Hh.
  assert (E : snd (wms_map_answer (b0, b1, b2, b3) w h ext) = ((b0, b3), ((b2 - b0) / inject_Z w, (b3 - b1) / inject_Z h))).
  { unfold wms_map_answer. destruct ext as [[[[e0 e1] e2] e3]|]; [|reflexivity].
    destruct (Qle_bool e0 b0 && Qle_bool e1 b1 && Qle_bool b2 e2 && Qle_bool b3 e3); [reflexivity|].
    destruct (bbox_position_in_image (b0, b1, b2, b3) w h (e0, e1, e2, e3)) as [[sz off] sub]. reflexivity. }
  destruct (wms_map_answer (b0, b1, b2, b3) w h ext) as [r [tie scale]]. cbn [snd] in E. injection E as -> ->.
  cbn [fst snd]. pose proof (info_coord_pixel_corner b0 b1 b2 b3 w h i j Hw Hh) as [Hx Hy].
  unfold qpt_eq in *. cbn [fst snd] in *. split; [rewrite Hx|rewrite Hy]; reflexivity.
Qed.

Example answer_georef_nonvacuous :
  (* request 300 x 200 px reaching over the extent (0, 0, 40960, 40960): rendered part and georeference *)
  wms_map_answer (30000, 30000, 45000, 40000) 300 200 (Some (0, 0, 40960, 40960)) =
    (((30000, 30000, 40960, 40000), (219, 200)%Z, (0, 0)%Z), ((30000, 40000), ((45000 - 30000) / 300, (40000 - 30000) / 200))).
Proof. vm_compute. reflexivity. Qed.

(* ---- _load_tile_coords: every created tile lands in the cell of its own coordinate ---- *)
Section LoadAssignProofs.
Local Open Scope Z_scope.
Context {A : Type}.
Lemma lcoord_eqb_eq a b : lcoord_eqb a b = true <-> a = b.
Proof.
  destruct a as [[x y] z], b as [[x' y'] z']; simpl.
  rewrite !andb_true_iff, !Z.eqb_eq. split.
  - intros [[-> ->] ->]; reflexivity.
  - intros H; inversion H; auto.
Qed.

Lemma coll_store_coords (cells : list (lcell A)) c v : map fst (fst (coll_store cells c v)) = map fst cells.
Proof.
  induction cells as [|[c' s] r IH]; simpl; [reflexivity|].
  destruct (coll_store r c v) as [r' d]; simpl in *.
  destruct d; [|destruct (ocoord_is c c')]; simpl; rewrite IH; reflexivity.
Qed.

Lemma coll_store_done (cells : list (lcell A)) c v : snd (coll_store cells c v) = existsb (ocoord_is c) (map fst cells).
Proof.
  induction cells as [|[c' s] r IH]; simpl; [reflexivity|].
  destruct (coll_store r c v) as [r' d]; simpl in *. rewrite <- IH.
  destruct d; simpl; [rewrite orb_true_r; reflexivity|].
  destruct (ocoord_is c c'); reflexivity.
Qed.

Lemma coll_store_other (cells : list (lcell A)) c v k oc s :
  nth_error cells k = Some (oc, s) -> ocoord_is c oc = false ->
  nth_error (fst (coll_store cells c v)) k = Some (oc, s).
Proof.
  revert k; induction cells as [|[c' s'] r IH]; intros k Hk Hoc; [destruct k; discriminate|].
  simpl. specialize (IH (pred k)).
  destruct (coll_store r c v) as [r' d]; simpl in *.
  destruct k as [|k]; simpl in *.
  - inversion Hk; subst. destruct d; simpl; [reflexivity|]. rewrite Hoc. reflexivity.
  - specialize (IH Hk Hoc). destruct d; [|destruct (ocoord_is c c')]; simpl; exact IH.
Qed.

Lemma coll_store_own (cells : list (lcell A)) c v k s :
  nth_error cells k = Some (Some c, s) ->
  (forall j, nth_error (map fst cells) j = Some (Some c) -> j = k) ->
  nth_error (fst (coll_store cells c v)) k = Some (Some c, Some v).
Proof.
  revert k; induction cells as [|[c' s'] r IH]; intros k Hk Hu; [destruct k; discriminate|].
  simpl. pose proof (coll_store_done r c v) as Hd. specialize (IH (pred k)).
  destruct (coll_store r c v) as [r' d]; simpl in *.
  destruct k as [|k]; simpl in *.
  - injection Hk as Hc Hs; subst c' s'.
    assert (d = false) as ->.
    { rewrite Hd. apply not_true_is_false. intros He. apply existsb_exists in He.
      destruct He as [o [Hin Ho]]. destruct o as [c2|]; simpl in Ho; [|discriminate].
      apply lcoord_eqb_eq in Ho; subst c2. apply In_nth_error in Hin. destruct Hin as [j Hj].
      specialize (Hu (S j) Hj). discriminate. }
    simpl. assert (lcoord_eqb c c = true) as -> by (apply lcoord_eqb_eq; reflexivity). reflexivity.
  - assert (ocoord_is c c' = false) as Hc'.
    { apply not_true_is_false. intros He. destruct c' as [c2|]; simpl in He; [|discriminate].
      apply lcoord_eqb_eq in He; subst c2. specialize (Hu 0%nat eq_refl). discriminate. }
    assert (nth_error (fst (r', d)) k = Some (Some c, Some v)) as IH'.
    { apply IH; [exact Hk|]. intros j Hj. specialize (Hu (S j) Hj). lia. }
    simpl in IH'. destruct d; simpl; [exact IH'|]. rewrite Hc'. simpl. exact IH'.
Qed.

Lemma load_assign_own created : forall (cells : list (lcell A)) k c v,
  nth_error (map fst cells) k = Some (Some c) ->
  (forall j, nth_error (map fst cells) j = Some (Some c) -> j = k) ->
  (forall v', In (c, v') created -> v' = v) ->
  (In (c, v) created \/ nth_error cells k = Some (Some c, Some v)) ->
  nth_error (load_assign cells created) k = Some (Some c, Some v).
Proof.
  induction created as [|[c1 v1] cr IH]; intros cells k c v Hk Hu Hf Hin.
  - simpl. destruct Hin as [[]|H]; exact H.
  - unfold load_assign; simpl. fold (load_assign (fst (coll_store cells c1 v1)) cr).
    apply IH.
    + rewrite coll_store_coords; exact Hk.
    + rewrite coll_store_coords; exact Hu.
    + intros v' H; apply Hf; right; exact H.
    + destruct (lcoord_eqb c c1) eqn:E.
      * apply lcoord_eqb_eq in E; subst c1. assert (v1 = v) as -> by (apply Hf; left; reflexivity).
        right. assert (exists s, nth_error cells k = Some (Some c, s)) as [s Hc].
        { clear - Hk. revert k Hk. induction cells as [|[oc s] r IHr]; intros [|k] Hk; simpl in *; try discriminate.
          - injection Hk as ->. eexists; reflexivity.
          - apply IHr; exact Hk. }
        eapply coll_store_own; eauto.
      * destruct Hin as [[H|H]|H].
        -- inversion H; subst. assert (lcoord_eqb c c = true) by (apply lcoord_eqb_eq; reflexivity). congruence.
        -- left; exact H.
        -- right. apply coll_store_other; [exact H|]. simpl. exact E.
Qed.
End LoadAssignProofs.

Lemma load_assign_created_own (A : Type) (created : list (lcoord * A)) (cells : list (lcell A)) k c v :
  nth_error (map fst cells) k = Some (Some c) ->
  (forall j, nth_error (map fst cells) j = Some (Some c) -> j = k) ->
  (forall v', In (c, v') created -> v' = v) ->
  In (c, v) created ->
  nth_error (load_assign cells created) k = Some (Some c, Some v).
Proof. intros; eapply load_assign_own; eauto. Qed.

Example load_assign_nonvacuous :
  load_assign [(Some (0, 0, 1)%Z, None); (Some (1, 0, 1)%Z, None); (Some (0, 1, 1)%Z, None); (Some (1, 1, 1)%Z, None); (None, None)]
              [((0, 0, 1)%Z, 10%nat); ((0, 1, 1)%Z, 12%nat); ((1, 0, 1)%Z, 11%nat); ((1, 1, 1)%Z, 13%nat); ((5, 5, 1)%Z, 99%nat)]
  = [(Some (0, 0, 1)%Z, Some 10%nat); (Some (1, 0, 1)%Z, Some 11%nat); (Some (0, 1, 1)%Z, Some 12%nat); (Some (1, 1, 1)%Z, Some 13%nat); (None, None)].
Proof. vm_compute. reflexivity. Qed.
