(* Steps of different requesters that touch different things commute (C08, different_meta_tiles_independent). *)
From Coq Require Import ZArith List Bool Arith Lia Permutation.
Import ListNotations.
From MP Require Import Base Creator Creator_proofs.

(* what the next step of a requester touches *)
Inductive fprint := FNone | FRead (t : coord) | FWrite (t : coord) | FLock (k : coord) | FFetch.

Definition fp (S : sys) (pr : proc) : fprint :=
  match p_pc pr with
  | Load (t :: _) | Check (t :: _) | Recheck _ (t :: _) _ | LoadAfter _ (t :: _) _ => FRead t
  | Reload t _ => FRead t
  | LoadUnder m _ => FRead m
  | Lock m _ | Unlock m _ _ => FLock (o_key S m)
  | Fetch _ (_ :: _) _ => FFetch
  | Store _ (t :: _) _ => FWrite t
  | _ => FNone
  end.

(* two steps are independent: not a read and a write (or two writes) of one tile, not two operations on one lock file *)
Definition indep (a b : fprint) : Prop :=
  match a, b with
  | FRead t, FWrite t' | FWrite t, FRead t' | FWrite t, FWrite t' => t <> t'
  | FLock k, FLock k' => k <> k'
  | _, _ => True
  end.

Lemma indep_sym a b : indep a b -> indep b a.
Proof. destruct a, b; cbn; auto. Qed.

(* the part of the shared world a step looks at *)
Definition agree (a : fprint) (c c2 : list (coord * Z)) (l l2 : list (coord * nat)) : Prop :=
  match a with
  | FRead t | FWrite t => lookup c t = lookup c2 t
  | FLock k => lookup l k = lookup l2 k
  | _ => True
  end.

(* effects of a step on the shared world *)
Definition eff_c (S : sys) (pr : proc) : list (coord * Z) :=
  match p_pc pr with Store _ (t :: _) _ => [(t, o_up S t)] | _ => [] end.
Definition eff_f (pr : proc) : list coord :=
  match p_pc pr with Fetch _ (q :: _) _ => [q] | _ => [] end.
Definition eff_l (S : sys) (p : nat) (pr : proc) (l : list (coord * nat)) : list (coord * nat) :=
  match p_pc pr with
  | Lock m _ => match lookup l (o_key S m) with Some _ => l | None => (o_key S m, p) :: l end
  | Unlock m _ _ => remove_key l (o_key S m)
  | _ => l
  end.
(* new local state and observation *)
Definition lnext (S : sys) (p : nat) (c : list (coord * Z)) (l : list (coord * nat)) (pr : proc) : proc * obs :=
  let '(_, _, _, pr', o) := lstep S p c l [] pr in (pr', o).

Lemma lstep_eff S p c l f pr :
  lstep S p c l f pr = (eff_c S pr ++ c, eff_l S p pr l, eff_f pr ++ f, fst (lnext S p c l pr), snd (lnext S p c l pr)).
Proof.
  unfold lnext, lstep, eff_c, eff_l, eff_f.
  destruct (p_pc pr) as [todo|todo|t rtodo|m rest|m todo rest|m todo rest|m todo rest|m rest|m a rest|m todo rest|];
    try destruct todo as [|t' todo]; try reflexivity.
  - destruct (file S c t'); reflexivity.
  - destruct (cached c t'); reflexivity.
  - destruct (lookup l (o_key S m)); reflexivity.
  - destruct (cached c t'); reflexivity.
  - destruct (has_src (p_src pr) m); reflexivity.
Qed.

Lemma cached_agree c c2 t : lookup c t = lookup c2 t -> cached c t = cached c2 t.
Proof. unfold cached. intros ->. reflexivity. Qed.
Lemma file_agree S c c2 t : lookup c t = lookup c2 t -> file S c t = file S c2 t.
Proof. unfold file. intros ->. reflexivity. Qed.

(* a step depends on the shared world only through what it touches *)
Lemma lnext_agree S p c c2 l l2 pr :
  agree (fp S pr) c c2 l l2 -> lnext S p c l pr = lnext S p c2 l2 pr.
Proof.
  unfold lnext, lstep, fp, agree.
  destruct (p_pc pr) as [todo|todo|t rtodo|m rest|m todo rest|m todo rest|m todo rest|m rest|m a rest|m todo rest|];
    try destruct todo as [|t' todo]; intros H; try reflexivity.
  - rewrite (file_agree S _ _ _ H). destruct (file S c2 t'); reflexivity.
  - rewrite (cached_agree _ _ _ H). destruct (cached c2 t'); reflexivity.
  - rewrite (file_agree S _ _ _ H). reflexivity.
  - rewrite H. destruct (lookup l2 (o_key S m)); reflexivity.
  - rewrite (cached_agree _ _ _ H). destruct (cached c2 t'); reflexivity.
  - destruct (has_src (p_src pr) m); [reflexivity|]. rewrite (file_agree S _ _ _ H). reflexivity.
  - rewrite (file_agree S _ _ _ H). reflexivity.
Qed.

Lemma eff_l_agree S p pr l l2 : agree (fp S pr) [] [] l l2 -> forall k, lookup l k = lookup l2 k -> lookup (eff_l S p pr l) k = lookup (eff_l S p pr l2) k.
Proof.
  unfold eff_l, fp, agree.
  destruct (p_pc pr) as [todo|todo|t rtodo|m rest|m todo rest|m todo rest|m todo rest|m rest|m a rest|m todo rest|];
    try destruct todo as [|t' todo]; intros H k Hk; try exact Hk.
  - rewrite H. destruct (lookup l2 (o_key S m)); [exact Hk|].
    destruct (coord_eq_dec (o_key S m) k) as [<-|Hn]; [rewrite !lookup_cons_eq; reflexivity | rewrite !lookup_cons_neq by exact Hn; exact Hk].
  - destruct (coord_eq_dec (o_key S m) k) as [<-|Hn]; [rewrite !lookup_remove_eq; reflexivity | rewrite !lookup_remove_neq by exact Hn; exact Hk].
Qed.

(* the effects of a step leave alone what an independent step looks at *)
Lemma eff_preserve S p pr c l a :
  indep (fp S pr) a -> agree a c (eff_c S pr ++ c) l (eff_l S p pr l).
Proof.
  unfold fp, eff_c, eff_l, agree, indep.
  destruct (p_pc pr) as [todo|todo|t rtodo|m rest|m todo rest|m todo rest|m todo rest|m rest|m a' rest|m todo rest|];
    try destruct todo as [|t' todo]; destruct a as [|u|u|k|]; cbn [app]; intros H; try reflexivity.
  - destruct (lookup l (o_key S m)); [reflexivity|]. rewrite lookup_cons_neq by exact H. reflexivity.
  - rewrite lookup_cons_neq by exact H. reflexivity.
  - rewrite lookup_cons_neq by exact H. reflexivity.
  - rewrite lookup_remove_neq by exact H. reflexivity.
Qed.

(* lock table after a step, key by key *)
Definition lkop (S : sys) (pr : proc) : option (bool * coord) :=
  match p_pc pr with
  | Lock m _ => Some (true, o_key S m)
  | Unlock m _ _ => Some (false, o_key S m)
  | _ => None
  end.
Definition lk_after (S : sys) (p : nat) (pr : proc) (g : coord -> option nat) (k : coord) : option nat :=
  match lkop S pr with
  | Some (true, kp) => if coord_eqb kp k then (match g kp with Some x => Some x | None => Some p end) else g k
  | Some (false, kp) => if coord_eqb kp k then None else g k
  | None => g k
  end.

Lemma eff_l_lookup S p pr l k : lookup (eff_l S p pr l) k = lk_after S p pr (lookup l) k.
Proof.
  unfold eff_l, lk_after, lkop.
  destruct (p_pc pr) as [todo|todo|t rtodo|m rest|m todo rest|m todo rest|m todo rest|m rest|m a' rest|m todo rest|]; try reflexivity.
  - destruct (coord_eqb_spec (o_key S m) k) as [<-|Hn].
    + destruct (lookup l (o_key S m)) eqn:E; [exact E | apply lookup_cons_eq].
    + destruct (lookup l (o_key S m)); [reflexivity | apply lookup_cons_neq; exact Hn].
  - destruct (coord_eqb_spec (o_key S m) k) as [<-|Hn]; [apply lookup_remove_eq | apply lookup_remove_neq; exact Hn].
Qed.

Lemma lkop_fp S pr b k : lkop S pr = Some (b, k) -> fp S pr = FLock k.
Proof.
  unfold lkop, fp. destruct (p_pc pr) as [todo|todo|t rtodo|m rest|m todo rest|m todo rest|m todo rest|m rest|m a' rest|m todo rest|];
    try discriminate; intros H; injection H as _ <-; reflexivity.
Qed.

Lemma lk_after_comm S p q prp prq g k :
  indep (fp S prp) (fp S prq) ->
  lk_after S q prq (lk_after S p prp g) k = lk_after S p prp (lk_after S q prq g) k.
Proof.
  intros Hi. unfold lk_after.
  destruct (lkop S prp) as [[bp kp]|] eqn:Ep; destruct (lkop S prq) as [[bq kq]|] eqn:Eq;
    try (destruct bp); try (destruct bq); try reflexivity.
  all: rewrite (lkop_fp _ _ _ _ Ep), (lkop_fp _ _ _ _ Eq) in Hi; cbn in Hi.
  all: destruct (coord_eqb_spec kp kq) as [->|Hpq]; [contradiction|].
  all: destruct (coord_eqb_spec kq kp) as [->|Hqp]; [contradiction|].
  all: destruct (coord_eqb_spec kp k) as [E1|H1]; destruct (coord_eqb_spec kq k) as [E2|H2]; try (exfalso; congruence); try reflexivity.
Qed.

Lemma lk_after_ext S p pr g g' k : (forall x, g x = g' x) -> lk_after S p pr g k = lk_after S p pr g' k.
Proof. intros H. unfold lk_after. destruct (lkop S pr) as [[[|] kp]|]; rewrite ?H; reflexivity. Qed.

Lemma lookup_app {V} (a b : list (coord * V)) t :
  lookup (a ++ b) t = match lookup a t with Some v => Some v | None => lookup b t end.
Proof.
  induction a as [|[k v] a IH]; cbn [app lookup]; [reflexivity|]. destruct (coord_eqb k t); [reflexivity | exact IH].
Qed.

Lemma eff_c_val S pr t v : lookup (eff_c S pr) t = Some v -> v = o_up S t.
Proof.
  unfold eff_c. destruct (p_pc pr) as [todo|todo|t0 rtodo|m rest|m todo rest|m todo rest|m todo rest|m rest|m a' rest|m todo rest|];
    try discriminate. destruct todo as [|t' todo]; [discriminate|]. cbn [lookup].
  destruct (coord_eqb_spec t' t) as [->|]; [|discriminate]. intros H. injection H as <-. reflexivity.
Qed.

Lemma set_nth_comm {A} (l : list A) n m x y : n <> m -> set_nth (set_nth l n x) m y = set_nth (set_nth l m y) n x.
Proof.
  revert n m. induction l as [|z r IH]; intros [|n] [|m] H; cbn [set_nth]; try reflexivity; try congruence.
  f_equal. apply IH. congruence.
Qed.

(* states that differ only in the order in which independent effects were recorded *)
Definition sequiv (s s' : state) : Prop :=
  (forall t, lookup (cache s) t = lookup (cache s') t) /\
  (forall k, lookup (locks s) k = lookup (locks s') k) /\
  Permutation (fetched s) (fetched s') /\
  procs s = procs s'.

(* Independent steps of two requesters commute: either order gives each of them the same observation and the same
   local state, and the same cache, lock table and upstream log (as maps / up to the order of the two log entries). *)
Theorem step_commute S s p q prp prq :
  p <> q -> nth_error (procs s) p = Some prp -> nth_error (procs s) q = Some prq ->
  indep (fp S prp) (fp S prq) ->
  snd (step S (fst (step S s p)) q) = snd (step S s q) /\
  snd (step S (fst (step S s q)) p) = snd (step S s p) /\
  sequiv (fst (step S (fst (step S s p)) q)) (fst (step S (fst (step S s q)) p)).
Proof.
  intros Hpq Hp Hq Hi.
  pose proof (indep_sym _ _ Hi) as Hi'.
  rewrite (step_lstep _ _ _ _ Hp), (step_lstep _ _ _ _ Hq), !lstep_eff. cbn [fst snd].
  assert (Hq1 : nth_error (procs (mk_state (eff_c S prp ++ cache s) (eff_l S p prp (locks s)) (eff_f prp ++ fetched s)
                                           (set_nth (procs s) p (fst (lnext S p (cache s) (locks s) prp))))) q = Some prq).
  { cbn [procs]. rewrite nth_set_nth_neq by exact Hpq. exact Hq. }
  assert (Hp2 : nth_error (procs (mk_state (eff_c S prq ++ cache s) (eff_l S q prq (locks s)) (eff_f prq ++ fetched s)
                                           (set_nth (procs s) q (fst (lnext S q (cache s) (locks s) prq))))) p = Some prp).
  { cbn [procs]. rewrite nth_set_nth_neq by congruence. exact Hp. }
  rewrite (step_lstep _ _ _ _ Hq1), (step_lstep _ _ _ _ Hp2), !lstep_eff. cbn [fst snd cache locks fetched procs].
  rewrite <- (lnext_agree S q _ _ _ _ prq (eff_preserve S p prp (cache s) (locks s) _ Hi)).
  rewrite <- (lnext_agree S p _ _ _ _ prp (eff_preserve S q prq (cache s) (locks s) _ Hi')).
  split; [reflexivity|]. split; [reflexivity|].
  unfold sequiv. cbn [cache locks fetched procs]. repeat split.
  - intros t. rewrite !lookup_app.
    destruct (lookup (eff_c S prq) t) as [v|] eqn:E1; destruct (lookup (eff_c S prp) t) as [w|] eqn:E2; try reflexivity.
    rewrite (eff_c_val _ _ _ _ E1), (eff_c_val _ _ _ _ E2). reflexivity.
  - intros k. rewrite !eff_l_lookup.
    rewrite (lk_after_ext S q prq _ (lk_after S p prp (lookup (locks s))) k (fun x => eff_l_lookup S p prp (locks s) x)).
    rewrite (lk_after_ext S p prp _ (lk_after S q prq (lookup (locks s))) k (fun x => eff_l_lookup S q prq (locks s) x)).
    apply lk_after_comm. exact Hi.
  - rewrite !app_assoc. apply Permutation_app_tail. apply Permutation_app_comm.
  - apply set_nth_comm. exact Hpq.
Qed.

(* ------------------------------------------------------------------ requesters working on different meta tiles *)

(* the unit (tile / meta tile) a requester is creating or waiting for *)
Definition working (c : pc) : option coord :=
  match c with
  | Lock m _ | Recheck m _ _ | Fetch m _ _ | Store m _ _ | LoadUnder m _ | Unlock m _ _ | LoadAfter m _ _ => Some m
  | _ => None
  end.

(* structural invariant: inside the loop over the units a requester only looks at / writes tiles of its unit *)
Definition wpc (S : sys) (c : pc) : Prop :=
  match c with
  | Recheck m todo _ | Store m todo _ | LoadAfter m todo _ => incl todo (o_members S m)
  | LoadUnder _ _ => o_single S = true
  | _ => True
  end.
Definition WInv (S : sys) (s : state) : Prop := forall p pr, nth_error (procs s) p = Some pr -> wpc S (p_pc pr).

Lemma wpc_next_unit S rest : wpc S (next_unit rest).
Proof. destruct rest; exact I. Qed.

Lemma winv_step S s p : WInv S s -> WInv S (fst (step S s p)).
Proof.
  intros HW. destruct (nth_error (procs s) p) as [pr|] eqn:Hp; [|rewrite step_none by exact Hp; exact HW].
  rewrite (step_lstep _ _ _ _ Hp), lstep_eff. cbn [fst]. intros q prq Hq. cbn [procs] in Hq.
  destruct (Nat.eq_dec q p) as [->|Hn]; [|rewrite nth_set_nth_neq in Hq by congruence; exact (HW _ _ Hq)].
  rewrite (nth_set_nth_eq _ _ _ _ Hp) in Hq. injection Hq as <-.
  pose proof (HW _ _ Hp) as Hw. unfold lnext, lstep.
  destruct (p_pc pr) as [todo|todo|t rtodo|m rest|m todo rest|m todo rest|m todo rest|m rest|m a rest|m todo rest|] eqn:Hpc;
    try destruct todo as [|t' todo]; cbn [wpc] in Hw; cbn [fst p_pc with_pc with_src wpc]; try exact I; try apply wpc_next_unit.
  - destruct (file S (cache s) t'); exact I.
  - destruct (cached (cache s) t'); cbn [fst p_pc with_pc]; [|exact I]. destruct (has_src (p_src pr) t'); [exact I|]. destruct (o_reload S); exact I.
  - destruct (lookup (locks s) (o_key S m)); cbn [fst p_pc with_pc]; [rewrite Hpc; exact I|].
    destruct (o_recheck S); cbn [wpc]; [apply incl_refl | exact I].
  - destruct (o_single S) eqn:Es; cbn [wpc]; [exact Es | exact I].
  - destruct (cached (cache s) t'); cbn [fst p_pc with_pc wpc]; [|exact I]. intros u Hu. apply Hw. right. exact Hu.
  - apply incl_refl.
  - intros u Hu. apply Hw. right. exact Hu.
  - destruct (has_src (p_src pr) m); exact I.
  - destruct a; cbn [wpc]; [apply incl_refl | apply wpc_next_unit].
  - intros u Hu. apply Hw. right. exact Hu.
  - rewrite Hpc. exact I.
Qed.

Lemma winv_init S c0 reqs : WInv S (init c0 reqs).
Proof.
  intros p pr Hp. cbn [init procs] in Hp. apply nth_error_In in Hp. apply in_map_iff in Hp. destruct Hp as [r [<- _]]. exact I.
Qed.

(* what a requester working on unit m touches lies inside m *)
Definition fp_in (g : gconf) (a : fprint) (m : coord) : Prop :=
  match a with
  | FRead t | FWrite t => In t (g_members g m)
  | FLock k => k = g_key g m
  | _ => True
  end.

Lemma fp_in_unit g rc rl up ex old bulk pr m :
  let S := grid_sys_b g rc rl up ex old bulk in
  wpc S (p_pc pr) -> working (p_pc pr) = Some m -> fp_in g (fp S pr) m.
Proof.
  intros S Hw Hm. unfold fp. 
  destruct (p_pc pr) as [todo|todo|t rtodo|m' rest|m' todo rest|m' todo rest|m' todo rest|m' rest|m' a rest|m' todo rest|];
    try discriminate Hm; injection Hm as ->; try destruct todo as [|t' todo]; cbn [fp_in wpc] in *; try exact I; try reflexivity.
  - apply Hw. left. reflexivity.
  - apply Hw. left. reflexivity.
  - cbn [S grid_sys_b o_single] in Hw. unfold g_members. destruct (g_meta g); [discriminate | left; reflexivity].
  - apply Hw. left. reflexivity.
Qed.

Lemma units_independent g a b rp rq :
  valid_gconf g -> in_grid g rp = true -> in_grid g rq = true -> g_main g rp <> g_main g rq ->
  fp_in g a (g_main g rp) -> fp_in g b (g_main g rq) -> indep a b.
Proof.
  intros Hg Hp Hq Hne Ha Hb.
  assert (Hd : forall t t', In t (g_members g (g_main g rp)) -> In t' (g_members g (g_main g rq)) -> t <> t').
  { intros t t' Ht Ht' ->. apply Hne. rewrite <- (grid_members_main g rp t' Hg Ht), <- (grid_members_main g rq t' Hg Ht'). reflexivity. }
  destruct a, b; cbn in *; auto.
  subst. rewrite !grid_key_main by assumption. exact Hne.
Qed.

Lemma working_unit S c0 valid reqs s p pr m :
  GInv S c0 valid reqs s -> nth_error (procs s) p = Some pr -> working (p_pc pr) = Some m ->
  exists r, valid r /\ m = o_main S r.
Proof.
  intros HG Hp Hm. destruct (g_pi _ _ _ _ _ HG _ _ Hp) as [_ [Hunc [Hval Hpc]]].
  assert (Hu : units_ok S (p_unc pr) [m] -> exists r, valid r /\ m = o_main S r).
  { intros H. destruct (H m (or_introl eq_refl)) as [r [Hr ->]]. exists r. split; [apply Hval; apply (Hunc r Hr) | reflexivity]. }
  apply Hu. intros x [<-|[]].
  destruct (p_pc pr) as [todo|todo|t rtodo|m' rest|m' todo rest|m' todo rest|m' todo rest|m' rest|m' a rest|m' todo rest|];
    try discriminate Hm; injection Hm as ->; cbn [PIpc] in Hpc.
  - apply (proj1 Hpc). left. reflexivity.
  - apply (proj1 Hpc). left. reflexivity.
  - apply (proj1 Hpc). left. reflexivity.
  - apply (proj1 Hpc). left. reflexivity.
  - apply (proj1 (proj2 Hpc)). left. reflexivity.
  - apply (proj1 Hpc). left. reflexivity.
  - apply (proj1 Hpc). left. reflexivity.
Qed.

(* Requests for different meta tiles are independent: at every reachable state, the next steps of two requesters that
   are creating / waiting for different meta tiles commute - either order gives both the same observations and local
   states and the same cache, lock table and upstream log. *)
Theorem grid_units_commute g reload up expire old bulk c0 reqs sched p q prp prq mp mq :
  valid_gconf g -> valid_reqs g reqs -> content_ok up c0 -> old_ok expire old ->
  let S := grid_sys_b g true reload up expire old bulk in
  let s := run S (init c0 reqs) sched in
  p <> q -> nth_error (procs s) p = Some prp -> nth_error (procs s) q = Some prq ->
  working (p_pc prp) = Some mp -> working (p_pc prq) = Some mq -> mp <> mq ->
  snd (step S (fst (step S s p)) q) = snd (step S s q) /\
  snd (step S (fst (step S s q)) p) = snd (step S s p) /\
  sequiv (fst (step S (fst (step S s p)) q)) (fst (step S (fst (step S s q)) p)).
Proof.
  intros Hg Hr Hc Ho S s Hpq Hp Hq Hwp Hwq Hne.
  destruct (grid_reach g reload up expire old bulk c0 reqs sched Hg Hr Hc Ho) as [_ [_ HG]]. fold S in HG. fold s in HG.
  assert (HW : WInv S s) by (apply (run_inv S (WInv S)); [intros; apply winv_step; assumption | apply winv_init]).
  destruct (working_unit _ _ _ _ _ _ _ _ HG Hp Hwp) as [rp [Hvp Hmp]].
  destruct (working_unit _ _ _ _ _ _ _ _ HG Hq Hwq) as [rq [Hvq Hmq]].
  cbn [S grid_sys_x o_main] in Hmp, Hmq. subst mp mq.
  apply (step_commute S s p q prp prq Hpq Hp Hq).
  apply (units_independent g _ _ rp rq Hg Hvp Hvq Hne).
  - exact (fp_in_unit g true reload up expire old bulk prp _ (HW _ _ Hp) Hwp).
  - exact (fp_in_unit g true reload up expire old bulk prq _ (HW _ _ Hq) Hwq).
Qed.

(* non-vacuity: in the run nv_run requester 0 works on meta tile (2,2,2) and requester 2 on (0,0,2) after 8 rounds *)
Example nv_units_commute :
  let S := grid_sys_x meta_grid true true up0 false (fun _ => None) in
  let s := run S (init nv_c0 nv_reqs) (round_robin 3 8) in
  option_map (fun pr => working (p_pc pr)) (nth_error (procs s) 0) = Some (Some (2, 2, 2)%Z) /\
  option_map (fun pr => working (p_pc pr)) (nth_error (procs s) 2) = Some (Some (0, 0, 2)%Z).
Proof. vm_compute. split; reflexivity. Qed.
