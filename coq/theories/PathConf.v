(* C09  Serving requests never touches files outside the cache and lock directories.

   Model of the code that turns request-derived text into file names:
     mapproxy/cache/path.py      _path_component, dimensions_part, level_location, tile_location_<layout>
                                 (the six layout functions are taken from gen/Gen_path.v and rendered to text here;
                                 the escape table and the string constants come from gen/Gen_pathconf.v)
     mapproxy/request/base.py    NoCaseMultiDict (construction, keys, get), Request.pop_path
     mapproxy/cache/base.py      TileLocker.lock_filename
     mapproxy/multiapp.py        DirectoryConfLoader.filename_from_app_name
     mapproxy/service/demo.py    the /demo/static/ file name
     posixpath.join              (os.path.join on the platform the check runs on)
   and of what the operating system does with the resulting text (`resolve`: split at '/', skip empty and '.'
   components, '..' pops; symbolic links are not modelled).

   Strings are lists of code points (Z), so that the theorems quantify over arbitrary text (NUL, '/', '\',
   non-ASCII, even numbers that are no code points).  No proofs in this file. *)
From Coq Require Import ZArith List Bool String Ascii Arith.
Import ListNotations.
From MP Require Import Base Gen_path Gen_pathconf.
Local Open Scope Z_scope.

Definition str := list Z.
Definition str_eqb (a b : str) : bool := list_eqb Z.eqb a b.

Fixpoint s2z (s : string) : str :=
  match s with
  | EmptyString => []
  | String a r => Z.of_N (N_of_ascii a) :: s2z r
  end.

(* ------------------------------------------------------------------ _path_component *)
(* name.replace(char, escaped) for a one-character pattern *)
Definition replace1 (c : Z) (esc : str) (s : str) : str :=
  flat_map (fun x => if Z.eqb x c then esc else [x]) s.

(* (('%', '%25'), ('/', '%2F'), ('\\', '%5C'), ('\0', '%00')): the table is regenerated from the source on every run
   (gen/Gen_pathconf.v, translator/specs/pathconf.py); today it is
   [(37, [37; 50; 53]); (47, [37; 50; 70]); (92, [37; 53; 67]); (0, [37; 48; 48])] *)
Definition escapes : list (Z * str) := gen_escapes.

(* for char, escaped in (...): name = name.replace(char, escaped) *)
Definition path_component (name : str) : str :=
  fold_left (fun n ce => replace1 (fst ce) (snd ce) n) escapes name.

(* the same function written as one pass (proved equal in PathConf_proofs) *)
Definition enc1 (x : Z) : str :=
  if x =? 37 then [37; 50; 53] else
  if x =? 47 then [37; 50; 70] else
  if x =? 92 then [37; 53; 67] else
  if x =? 0 then [37; 48; 48] else [x].
Definition encode (s : str) : str := flat_map enc1 s.

(* ------------------------------------------------------------------ posixpath.join *)
Definition starts47 (s : str) : bool := match s with c :: _ => c =? 47 | [] => false end.
Fixpoint ends47 (s : str) : bool :=
  match s with
  | [] => false
  | c :: r => match r with [] => c =? 47 | _ :: _ => ends47 r end
  end.
Definition is_nil (s : str) : bool := match s with [] => true | _ => false end.

(* one round of the loop `for b in p` *)
Definition join1 (path b : str) : str :=
  if starts47 b then b
  else if is_nil path || ends47 path then path ++ b
  else path ++ 47 :: b.
Definition posix_join (a : str) (ps : list str) : str := fold_left join1 ps a.
(* os.path.join( *l ) *)
Definition posix_join_list (l : list str) : str :=
  match l with [] => [] | a :: ps => posix_join a ps end.

(* ------------------------------------------------------------------ what the OS does with a path *)
Fixpoint split47 (s : str) : list str :=
  match s with
  | [] => [[]]
  | c :: r => if c =? 47 then [] :: split47 r
              else match split47 r with [] => [[c]] | h :: t => (c :: h) :: t end
  end.

Definition dot : str := [46].
Definition dotdot : str := [46; 46].

(* the directory stack is kept innermost-first *)
Definition step (st : list str) (c : str) : list str :=
  if is_nil c || str_eqb c dot then st
  else if str_eqb c dotdot then tl st
  else c :: st.

(* components (innermost first) of the directory entry a path names, for a process whose working
   directory has the components cwd (innermost first) *)
Definition resolve_rev (cwd : list str) (p : str) : list str :=
  fold_left step (split47 p) (if starts47 p then [] else cwd).
Definition resolve (cwd : list str) (p : str) : list str := rev (resolve_rev (rev cwd) p).

Fixpoint is_prefix (a b : list str) : bool :=
  match a, b with
  | [], _ => true
  | _ :: _, [] => false
  | x :: a', y :: b' => str_eqb x y && is_prefix a' b'
  end.

(* ------------------------------------------------------------------ NoCaseMultiDict, dimensions_part *)
Fixpoint str_ltb (a b : str) : bool :=
  match a, b with
  | _, [] => false
  | [], _ :: _ => true
  | x :: a', y :: b' => if x <? y then true else if y <? x then false else str_ltb a' b'
  end.
Fixpoint insert (k : str) (l : list str) : list str :=
  match l with
  | [] => [k]
  | h :: t => if str_ltb h k then h :: insert k t else k :: h :: t
  end.
(* sorted(keys): the keys of a dict are distinct, so stability does not matter *)
Definition sort (l : list str) : list str := fold_right insert [] l.

Fixpoint starts_with (p s : str) : bool :=
  match p, s with
  | [], _ => true
  | _ :: _, [] => false
  | x :: p', y :: s' => (x =? y) && starts_with p' s'
  end.

(* string constants of dimensions_part / lock_filename, extracted from the (pinned) source by the translator *)
Definition dim_prefix : str := gen_dim_prefix.    (* 'dim_' *)
Definition default_str : str := gen_default.      (* 'default' *)
Definition dash : Z := gen_dash.                  (* '-' = 45 *)

Definition dims := list (str * str).   (* the items of the python dict, in dict order; values after str() *)

Section Dims.
  (* str.lower: the theorems hold for every function; the correspondence uses py_lower below *)
  Variable lower : str -> str.

  Definition has_key (k : str) (d : dims) : bool := existsb (fun kv => str_eqb (fst kv) k) d.

  (* NoCaseMultiDict._gen_dict: tmp.setdefault(key.lower(), (key, []))[1].append(value); only the first
     value of a lower-cased key is ever read by dimensions_part *)
  Fixpoint ncmd (acc : dims) (d : dims) : dims :=
    match d with
    | [] => acc
    | (k, v) :: r => let lk := lower k in
                     if has_key lk acc then ncmd acc r else ncmd (acc ++ [(lk, v)]) r
    end.

  (* dims.get(k, 'default'): __getitem__ lower-cases the key again *)
  Definition ncmd_get (d : dims) (k : str) : str :=
    match find (fun kv => str_eqb (fst kv) (lower k)) d with
    | Some kv => snd kv
    | None => default_str
    end.

  Definition dim_keys (d : dims) : list str :=
    let keys := map fst d in
    sort (filter (fun k => negb (starts_with dim_prefix k)) keys) ++ sort (filter (starts_with dim_prefix) keys).

  (* the arguments of os.path.join in dimensions_part *)
  Definition dims_components (dm : dims) : list str :=
    let d := ncmd [] dm in
    map (fun k => path_component (k ++ dash :: ncmd_get d k)) (dim_keys d).

  Definition dimensions_part (dm : dims) : str :=
    match dm with
    | [] => []
    | _ :: _ => posix_join_list (dims_components dm)
    end.

  (* ---------------------------------------------------------------- text of numbers *)
End Dims.

Definition digit_char (d : Z) : Z := if d <? 10 then 48 + d else 87 + d.
Fixpoint digits_fuel (fuel : nat) (base n : Z) (acc : str) : str :=
  match fuel with
  | O => acc
  | S f => let acc' := digit_char (n mod base) :: acc in
           if n <? base then acc' else digits_fuel f base (n / base) acc'
  end.
(* digits of n >= 0 in base 10 / 16 *)
Definition nat_str (base n : Z) : str := digits_fuel (S (Z.to_nat (Z.log2 n))) base n [].
(* str(n) *)
Definition dec_str (n : Z) : str := if n <? 0 then 45 :: nat_str 10 (- n) else nat_str 10 n.
(* '%0<w>d' % n and '%0<w>x' % n: sign, zero padding up to width w, digits *)
Definition pad (base : Z) (w : nat) (n : Z) : str :=
  let sign := if n <? 0 then [45] else [] in
  let d := nat_str base (Z.abs n) in
  sign ++ repeat 48 (w - List.length sign - List.length d) ++ d.

(* ------------------------------------------------------------------ rendering of gen/Gen_path.v *)
Definition render_tok (t : tok) : str :=
  match t with
  | TLit s => s2z s
  | TStr s => s2z s
  | TDec n => dec_str n
  | TPadDec w n => pad 10 w n
  | TPadHex w n => pad 16 w n
  | TCatDec l => flat_map dec_str l
  end.
Definition render_comp (root dimsp : str) (c : comp) : str :=
  match c with
  | CRoot => root
  | CDims => dimsp
  | CTok l => flat_map render_tok l
  end.

(* name of the level directory per directory_layout (second component of location_funcs): tc, mp: level_location
   ("%02d" % level); tms: level_location_tms = level_location(str(level), ...); arcgis: level_location('L%02d' % z, ...);
   reverse_tms: None (level clean-ups disabled); quadkey: no_level_location raises *)
Definition level_name (layout : string) (level : Z) : option str :=
  if (String.eqb layout "tc" || String.eqb layout "mp")%bool then Some (pad 10 2 level)
  else if String.eqb layout "tms" then Some (dec_str level)
  else if String.eqb layout "arcgis" then Some (76 :: pad 10 2 level)
  else None.

Section Paths.
  Variable lower : str -> str.

  (* FileCache(cache_dir=root, directory_layout=layout).level_location(level, dimensions=dm); None where python raises *)
  Definition file_level_location (layout : string) (root : str) (dm : dims) (level : Z) : option str :=
    match level_name layout level with
    | Some n => Some (posix_join root [dimensions_part lower dm; n])
    | None => None
    end.

  (* tile_location_<layout>(Tile((x, y, z)), cache_dir, file_ext, dimensions=dm) for a tile without location *)
  Definition tile_path (f : Z -> Z -> Z -> string -> list comp) (root : str) (dm : dims) (x y z : Z)
             (ext : string) : str :=
    posix_join_list (map (render_comp root (dimensions_part lower dm)) (f x y z ext)).

  (* level_location(level, cache_dir, dimensions) for an integer level *)
  Definition level_location (root : str) (dm : dims) (level : Z) : str :=
    posix_join root [dimensions_part lower dm; pad 10 2 level].
End Paths.

(* ------------------------------------------------------------------ TileLocker.lock_filename *)
Definition lck : str := gen_lck.      (* '.lck' *)
Definition lock_name (cache_id : str) (x y z : Z) : str :=
  cache_id ++ dash :: (dec_str x ++ dash :: dec_str y ++ dash :: dec_str z) ++ lck.
Definition lock_filename (lock_dir cache_id : str) (x y z : Z) : str :=
  posix_join lock_dir [lock_name cache_id x y z].

(* ------------------------------------------------------------------ util/fs.py: ensure_directory, write_atomic *)
(* A directory is the list of its names, innermost first ([] is '/'); absolute, normalised paths only (what
   FileCache / FileLock pass once cache_dir / lock_dir are absolute).  Single process: the EEXIST branch of a
   concurrent mkdir is not modelled. *)
Inductive fsop :=
| Mkdir (d : list str)
| Chmod (d : list str).
Definition fsop_dir (o : fsop) : list str := match o with Mkdir d => d | Chmod d => d end.

Section EnsureDir.
  Variable isdir : list str -> bool.   (* os.path.isdir when ensure_directory is entered *)
  Variable perm : bool.                (* directory_permissions is configured *)

  (* ensure_directory(file_name) with d = dirname(file_name): if not isdir(d): ('/' -> return);
     ensure_directory(d) [i.e. the same for dirname(d)]; mkdir(d); if directory_permissions: chmod(d) *)
  Fixpoint ensure_dir_ops (d : list str) : list fsop :=
    match d with
    | [] => []
    | c :: parent =>
      if isdir (c :: parent) then []
      else ensure_dir_ops parent ++ Mkdir (c :: parent) :: (if perm then [Chmod (c :: parent)] else [])
    end.
End EnsureDir.

(* write_atomic: path_tmp = filename + '.tmp-' + str(random.randint(0, 99999999)) *)
Definition tmp_suffix (r : Z) : str := [46; 116; 109; 112; 45] ++ dec_str r.     (* '.tmp-' *)

(* ------------------------------------------------------------------ FileCache._store_single_color_tile: the link text *)
(* os.path.relpath(path, start) for absolute normalised names given as component lists (outermost first): drop the common
   leading components, go up once per remaining component of start, then down the rest of path.  (The python function answers
   '.' when nothing is left; a file is never its own directory, so that case does not occur for the link.) *)
Fixpoint strip_common (a b : list str) : list str * list str :=
  match a, b with
  | x :: a', y :: b' => if str_eqb x y then strip_common a' b' else (a, b)
  | _, _ => (a, b)
  end.
Definition relpath_comps (path start : list str) : list str :=
  let '(p, s) := strip_common path start in repeat dotdot (List.length s) ++ p.

(* ------------------------------------------------------------------ cache/legend.py: LegendCache.store / load *)
(* legend.location = os.path.join(self.cache_dir, hash) + '.' + self.file_ext, hash = legend_hash(id, scale) = the md5 hex
   digest of the legend identifier and str(scale) (scale: float or None, see WMSLegendGraphicRequestParams._get_scale) *)
Definition legend_location (cache_dir hash : str) (ext : string) : str := join1 cache_dir hash ++ 46 :: s2z ext.

(* ------------------------------------------------------------------ cache/file.py: FileCache._single_color_tile_location *)
(* os.path.join(self.cache_dir, 'single_color_tiles', ''.join('%02x' % v for v in color) + '.' + self.file_ext) - built from the
   cache directory alone, never from the location of the tile that links to it.  The colour is a tuple of bytes (a PIL pixel,
   0..255 each); '%02x' of a byte is two hex digits. *)
Definition hex2 (v : Z) : str := [digit_char (v / 16); digit_char (v mod 16)].
Definition sct_name : str := s2z "single_color_tiles".
Definition single_color_location (cache_dir : str) (color : list Z) (ext : string) : str :=
  posix_join cache_dir [sct_name; flat_map hex2 color ++ 46 :: s2z ext].

(* ------------------------------------------------------------------ multiapp *)
Fixpoint lstrip47 (s : str) : str :=
  match s with
  | [] => []
  | c :: r => if c =? 47 then lstrip47 r else s
  end.
Fixpoint until47 (s : str) : str :=
  match s with
  | [] => []
  | c :: r => if c =? 47 then [] else c :: until47 r
  end.
(* Request.pop_path: the first segment of the path *)
Definition pop_path (p : str) : str := until47 (lstrip47 p).
Definition yaml : str := [46; 121; 97; 109; 108].   (* '.yaml' *)
(* DirectoryConfLoader.filename_from_app_name *)
Definition app_filename (base_dir app_name : str) : str := posix_join base_dir [app_name ++ yaml].

(* ------------------------------------------------------------------ demo static files *)
(* '..' in req.path *)
Fixpoint has_dotdot (s : str) : bool :=
  match s with
  | [] => false
  | c :: r => match r with
              | [] => false
              | d :: _ => ((c =? 46) && (d =? 46)) || has_dotdot r
              end
  end.
(* os.path.join(template_dir, req.path.lstrip('/')); None = request refused *)
Definition demo_static_filename (template_dir p : str) : option str :=
  if has_dotdot p then None else Some (posix_join template_dir [lstrip47 p]).

(* ------------------------------------------------------------------ str.lower on the alphabet of the check *)
(* ASCII, Latin-1 and Greek/Cyrillic basic ranges, U+0130 (the one code point of the alphabet whose lower
   case has two code points), U+212A KELVIN SIGN; identity elsewhere.  The harness only generates keys over
   an alphabet on which this table is str.lower (which the correspondence itself re-checks). *)
Definition lower_cp (c : Z) : str :=
  if (65 <=? c) && (c <=? 90) then [c + 32]
  else if (192 <=? c) && (c <=? 222) && negb (c =? 215) then [c + 32]
  else if c =? 304 then [105; 775]
  else if c =? 8490 then [107]
  else if (913 <=? c) && (c <=? 937) && negb (c =? 930) && negb (c =? 931) then [c + 32]
  else if (1040 <=? c) && (c <=? 1071) then [c + 32]
  else [c].
Definition py_lower (s : str) : str := flat_map lower_cp s.
