(* C05  Injectivity of the address -> path / bundle slot functions, proved on the definitions GENERATED from
   mapproxy/cache/path.py (gen/Gen_path.v) and compact.py (gen/Gen_compact.v): an edit of a modulus, digit
   group, format width or separator in the Python source changes the generated definitions and re-opens
   these proofs. *)
From Coq Require Import ZArith NArith List Bool String Ascii Arith Lia.
From Coq Require Decimal Hexadecimal DecimalString HexadecimalString DecimalN HexadecimalN.
Import ListNotations.
From MP Require Import Base Gen_path Gen_compact CacheMap CacheMap_proofs.
Local Open Scope Z_scope.

(* ------------------------------------------------------------------ lists *)
Lemma app_sep_inj {A} (c : A) : forall l1 l2 r1 r2,
  ~ In c l1 -> ~ In c l2 -> l1 ++ c :: r1 = l2 ++ c :: r2 -> l1 = l2 /\ r1 = r2.
Proof.
  induction l1 as [|x l1 IH]; intros [|y l2] r1 r2 H1 H2 E; cbn [app] in E.
  - injection E as ->. split; reflexivity.
  - injection E as -> _. exfalso. apply H2. left. reflexivity.
  - injection E as -> _. exfalso. apply H1. left. reflexivity.
  - injection E as -> E. destruct (IH l2 r1 r2) as [-> ->]; try assumption.
    + intros H. apply H1. right. exact H.
    + intros H. apply H2. right. exact H.
    + split; reflexivity.
Qed.

Lemma app_len_inj {A} : forall (l1 l2 r1 r2 : list A),
  List.length l1 = List.length l2 -> l1 ++ r1 = l2 ++ r2 -> l1 = l2 /\ r1 = r2.
Proof.
  induction l1 as [|x l1 IH]; intros [|y l2] r1 r2 L E; cbn [List.length app] in *; try discriminate.
  - split; [reflexivity | exact E].
  - injection E as -> E. injection L as L. destruct (IH l2 r1 r2 L E) as [-> ->]. split; reflexivity.
Qed.

Lemma app_tail_len_inj {A} : forall (l1 l2 r1 r2 : list A),
  List.length r1 = List.length r2 -> l1 ++ r1 = l2 ++ r2 -> l1 = l2 /\ r1 = r2.
Proof.
  intros l1 l2 r1 r2 L E. apply app_len_inj; [|exact E].
  apply (f_equal (@List.length A)) in E. rewrite !app_length in E. lia.
Qed.

(* ------------------------------------------------------------------ text of numbers *)
Lemma s2t_inj : forall a b, s2t a = s2t b -> a = b.
Proof.
  unfold s2t. intros a b E. apply (f_equal string_of_list_ascii) in E.
  rewrite !string_of_list_ascii_of_string in E. exact E.
Qed.

Lemma dec_string_inj : forall a b,
  DecimalString.NilEmpty.string_of_uint a = DecimalString.NilEmpty.string_of_uint b -> a = b.
Proof.
  intros a b E. apply (f_equal DecimalString.NilEmpty.uint_of_string) in E.
  rewrite !DecimalString.NilEmpty.usu in E. injection E as ->. reflexivity.
Qed.

Lemma hex_string_inj : forall a b,
  HexadecimalString.NilEmpty.string_of_uint a = HexadecimalString.NilEmpty.string_of_uint b -> a = b.
Proof.
  intros a b E. apply (f_equal HexadecimalString.NilEmpty.uint_of_string) in E.
  rewrite !HexadecimalString.NilEmpty.usu in E. injection E as ->. reflexivity.
Qed.

Lemma of_uint_iter_D0 : forall k d, N.of_uint (Nat.iter k Decimal.D0 d) = N.of_uint d.
Proof. induction k as [|k IH]; intros d; cbn [Nat.iter nat_rect]; [reflexivity|]. unfold N.of_uint in *. cbn [Pos.of_uint]. apply IH. Qed.

Lemma of_hex_uint_iter_D0 : forall k d, N.of_hex_uint (Nat.iter k Hexadecimal.D0 d) = N.of_hex_uint d.
Proof. induction k as [|k IH]; intros d; cbn [Nat.iter nat_rect]; [reflexivity|]. unfold N.of_hex_uint in *. cbn [Pos.of_hex_uint]. apply IH. Qed.

Lemma pad_dec_inj : forall w1 w2 n m, pad_dec w1 n = pad_dec w2 m -> n = m.
Proof.
  unfold pad_dec. intros w1 w2 n m E. apply s2t_inj, dec_string_inj in E.
  apply (f_equal N.of_uint) in E. rewrite !of_uint_iter_D0, !DecimalN.Unsigned.of_to in E. exact E.
Qed.

Lemma pad_hex_inj : forall w1 w2 n m, pad_hex w1 n = pad_hex w2 m -> n = m.
Proof.
  unfold pad_hex. intros w1 w2 n m E. apply s2t_inj, hex_string_inj in E.
  apply (f_equal N.of_hex_uint) in E. rewrite !of_hex_uint_iter_D0, !HexadecimalN.Unsigned.of_to in E. exact E.
Qed.

Lemma render_dec_inj : forall w1 w2 n m, 0 <= n -> 0 <= m ->
  render_int pad_dec w1 n = render_int pad_dec w2 m -> n = m.
Proof.
  unfold render_int. intros w1 w2 n m Hn Hm E.
  destruct (Z.ltb_spec n 0); [lia|]. destruct (Z.ltb_spec m 0); [lia|].
  apply pad_dec_inj in E. lia.
Qed.

Lemma render_hex_inj : forall w1 w2 n m, 0 <= n -> 0 <= m ->
  render_int pad_hex w1 n = render_int pad_hex w2 m -> n = m.
Proof.
  unfold render_int. intros w1 w2 n m Hn Hm E.
  destruct (Z.ltb_spec n 0); [lia|]. destruct (Z.ltb_spec m 0); [lia|].
  apply pad_hex_inj in E. lia.
Qed.

(* the characters of a rendered number *)
Definition is_lhex (c : ascii) : bool :=
  existsb (Ascii.eqb c) (s2t "0123456789abcdef").

Lemma dec_chars : forall d, Forall (fun c => is_lhex c = true) (s2t (DecimalString.NilEmpty.string_of_uint d)).
Proof.
  unfold s2t. induction d; cbn [DecimalString.NilEmpty.string_of_uint list_ascii_of_string];
    constructor; try assumption; reflexivity.
Qed.

Lemma hex_chars : forall d, Forall (fun c => is_lhex c = true) (s2t (HexadecimalString.NilEmpty.string_of_uint d)).
Proof.
  unfold s2t. induction d; cbn [HexadecimalString.NilEmpty.string_of_uint list_ascii_of_string];
    constructor; try assumption; reflexivity.
Qed.

Lemma render_dec_chars : forall w n, 0 <= n -> Forall (fun c => is_lhex c = true) (render_int pad_dec w n).
Proof. unfold render_int, pad_dec. intros w n H. destruct (Z.ltb_spec n 0); [lia|]. apply dec_chars. Qed.

Lemma render_hex_chars : forall w n, 0 <= n -> Forall (fun c => is_lhex c = true) (render_int pad_hex w n).
Proof. unfold render_int, pad_hex. intros w n H. destruct (Z.ltb_spec n 0); [lia|]. apply hex_chars. Qed.

Lemma not_in_lhex : forall c l, is_lhex c = false -> Forall (fun c => is_lhex c = true) l -> ~ In c l.
Proof.
  intros c l Hc Hl Hin. rewrite Forall_forall in Hl. apply Hl in Hin. rewrite Hin in Hc. discriminate.
Qed.

(* <number><sep><rest> determines the number when sep is not a (lower case hex) digit *)
Lemma dec_sep_inj : forall sep w1 w2 n m r1 r2, is_lhex sep = false -> 0 <= n -> 0 <= m ->
  render_int pad_dec w1 n ++ sep :: r1 = render_int pad_dec w2 m ++ sep :: r2 -> n = m /\ r1 = r2.
Proof.
  intros sep w1 w2 n m r1 r2 Hs Hn Hm E.
  apply app_sep_inj in E; try (apply not_in_lhex; [exact Hs | apply render_dec_chars; assumption]).
  destruct E as [E ->]. split; [|reflexivity]. apply render_dec_inj in E; assumption.
Qed.

Lemma hex_sep_inj : forall sep w1 w2 n m r1 r2, is_lhex sep = false -> 0 <= n -> 0 <= m ->
  render_int pad_hex w1 n ++ sep :: r1 = render_int pad_hex w2 m ++ sep :: r2 -> n = m /\ r1 = r2.
Proof.
  intros sep w1 w2 n m r1 r2 Hs Hn Hm E.
  apply app_sep_inj in E; try (apply not_in_lhex; [exact Hs | apply render_hex_chars; assumption]).
  destruct E as [E ->]. split; [|reflexivity]. apply render_hex_inj in E; assumption.
Qed.

(* ------------------------------------------------------------------ digit groups *)
Lemma digits3_inj : forall x x', 0 <= x -> 0 <= x' ->
  Z.quot x 1000000 = Z.quot x' 1000000 ->
  (Z.quot x 1000) mod 1000 = (Z.quot x' 1000) mod 1000 ->
  x mod 1000 = x' mod 1000 -> x = x'.
Proof.
  intros x x' H H' E1 E2 E3.
  rewrite !Z.quot_div_nonneg in * by lia.
  assert (Q : forall a, a / 1000000 = a / 1000 / 1000) by (intros; rewrite Z.div_div by lia; reflexivity).
  rewrite !Q in E1.
  rewrite (Z.div_mod x 1000), (Z.div_mod x' 1000) by lia.
  rewrite (Z.div_mod (x / 1000) 1000), (Z.div_mod (x' / 1000) 1000) by lia.
  rewrite E1, E2, E3. reflexivity.
Qed.

Lemma digits2_inj : forall x x', 0 <= x -> 0 <= x' ->
  Z.quot x 10000 = Z.quot x' 10000 -> x mod 10000 = x' mod 10000 -> x = x'.
Proof.
  intros x x' H H' E1 E2. rewrite !Z.quot_div_nonneg in * by lia.
  rewrite (Z.div_mod x 10000), (Z.div_mod x' 10000) by lia. rewrite E1, E2. reflexivity.
Qed.

Lemma quot_nonneg : forall a b, 0 <= a -> 0 < b -> 0 <= Z.quot a b.
Proof. intros. rewrite Z.quot_div_nonneg by lia. apply Z.div_pos; lia. Qed.

(* ------------------------------------------------------------------ escaping of dimension components *)
Lemma esc_char_nonempty : forall c, esc_char c <> [].
Proof.
  intros c. unfold esc_char.
  destruct (Ascii.eqb c "%"); [discriminate|]. destruct (Ascii.eqb c "/"); [discriminate|].
  destruct (Ascii.eqb c "\"); [discriminate|]. destruct (Ascii.eqb c zero); discriminate.
Qed.

Lemma esc_char_inj_app : forall c1 c2 r1 r2,
  esc_char c1 ++ r1 = esc_char c2 ++ r2 -> c1 = c2 /\ r1 = r2.
Proof.
  intros c1 c2 r1 r2. unfold esc_char.
  destruct (Ascii.eqb c1 "%") eqn:A1; [apply Ascii.eqb_eq in A1; subst c1|];
  [|destruct (Ascii.eqb c1 "/") eqn:A2; [apply Ascii.eqb_eq in A2; subst c1|];
    [|destruct (Ascii.eqb c1 "\") eqn:A3; [apply Ascii.eqb_eq in A3; subst c1|];
      [|destruct (Ascii.eqb c1 zero) eqn:A4; [apply Ascii.eqb_eq in A4; subst c1|]]]];
  (destruct (Ascii.eqb c2 "%") eqn:B1; [apply Ascii.eqb_eq in B1; subst c2|];
   [|destruct (Ascii.eqb c2 "/") eqn:B2; [apply Ascii.eqb_eq in B2; subst c2|];
     [|destruct (Ascii.eqb c2 "\") eqn:B3; [apply Ascii.eqb_eq in B3; subst c2|];
       [|destruct (Ascii.eqb c2 zero) eqn:B4; [apply Ascii.eqb_eq in B4; subst c2|]]]]);
  cbn [s2t list_ascii_of_string app]; intros E;
  try (injection E as E; split; [reflexivity | assumption]);
  try discriminate E;
  try (injection E as E1 E; subst; cbn in *; discriminate).
  - injection E as -> E. split; [reflexivity | exact E].
Qed.

Lemma esc_inj : forall a b, esc a = esc b -> a = b.
Proof.
  unfold esc. induction a as [|c a IH]; intros [|d b] E; cbn [map List.concat] in E.
  - reflexivity.
  - exfalso. symmetry in E. apply app_eq_nil in E. destruct E as [E _]. exact (esc_char_nonempty d E).
  - exfalso. apply app_eq_nil in E. destruct E as [E _]. exact (esc_char_nonempty c E).
  - apply esc_char_inj_app in E. destruct E as [-> E]. f_equal. apply IH. exact E.
Qed.

(* ------------------------------------------------------------------ dimensions_part is injective in the values *)
Lemma In_insert_sorted : forall k l x, In x (insert_sorted k l) <-> x = k \/ In x l.
Proof.
  induction l as [|h r IH]; intros x; cbn [insert_sorted In].
  - intuition.
  - destruct (text_leb k h); cbn [In]; [intuition|]. rewrite IH. intuition.
Qed.

Lemma In_sort_texts : forall l x, In x (sort_texts l) <-> In x l.
Proof.
  induction l as [|h r IH]; intros x; cbn [sort_texts fold_right In]; [reflexivity|].
  rewrite In_insert_sorted. fold (sort_texts r). rewrite IH. intuition.
Qed.

Lemma In_dim_keys : forall ks k, In k ks -> In k (dim_keys ks).
Proof.
  intros ks k H. unfold dim_keys. apply in_or_app. rewrite !In_sort_texts, !filter_In.
  destruct (is_custom_dim k); [right | left]; split; auto.
Qed.

Lemma text_eqb_refl : forall t, text_eqb t t = true.
Proof. intros. apply text_eqb_eq. reflexivity. Qed.

Lemma dims_eq_of_get : forall d1 d2,
  map fst d1 = map fst d2 -> NoDup (map fst d1) ->
  (forall k, In k (map fst d1) -> dim_get d1 k = dim_get d2 k) -> d1 = d2.
Proof.
  induction d1 as [|[k v] r IH]; intros [|[k' v'] r'] Hk Hn Hg; cbn [map fst] in *; try discriminate; [reflexivity|].
  injection Hk as <- Hk. inversion Hn as [|? ? Hnotin Hn']; subst.
  assert (v = v').
  { specialize (Hg k (or_introl eq_refl)). cbn [dim_get] in Hg. rewrite text_eqb_refl in Hg. exact Hg. }
  subst v'. f_equal. apply IH; try assumption.
  intros k2 Hin. specialize (Hg k2 (or_intror Hin)). cbn [dim_get] in Hg.
  destruct (text_eqb k k2) eqn:E; [|exact Hg].
  apply text_eqb_eq in E. subst k2. contradiction.
Qed.

Lemma dims_part_inj : forall d1 d2,
  map fst d1 = map fst d2 -> NoDup (map fst d1) -> dims_part d1 = dims_part d2 -> d1 = d2.
Proof.
  intros d1 d2 Hk Hn E. apply dims_eq_of_get; try assumption.
  intros k Hin. unfold dims_part in E. rewrite <- Hk in E.
  assert (Hc : dim_component d1 k = dim_component d2 k).
  { apply In_dim_keys in Hin. revert Hin E. generalize (dim_keys (map fst d1)) as L.
    induction L as [|h L IHL]; intros Hin E; [destruct Hin|].
    cbn [map] in E. injection E as E1 E2. destruct Hin as [->|Hin]; [exact E1 | apply IHL; assumption]. }
  unfold dim_component in Hc. apply esc_inj in Hc. apply app_inv_head in Hc. injection Hc as Hc. exact Hc.
Qed.

Lemma dims_part_length : forall d1 d2, map fst d1 = map fst d2 -> List.length (dims_part d1) = List.length (dims_part d2).
Proof. intros d1 d2 E. unfold dims_part. rewrite !map_length, E. reflexivity. Qed.

(* ------------------------------------------------------------------ the file layouts *)
Definition coords_ok (a : addr) : Prop := 0 <= ax a /\ 0 <= ay a /\ 0 <= az a.
(* all addresses of one cache carry the same dimension keys (the dimensions of the layer), values are free *)
Definition file_valid (ks : list text) (a : addr) : Prop := coords_ok a /\ map fst (adims a) = ks.

Lemma rt_dec1 : forall w n, render_toks [TPadDec w n] = render_int pad_dec w n.
Proof. intros. unfold render_toks. cbn [map render_tok List.concat]. apply app_nil_r. Qed.
Lemma rt_dec1' : forall n, render_toks [TDec n] = render_int pad_dec 0 n.
Proof. intros. unfold render_toks. cbn [map render_tok List.concat]. apply app_nil_r. Qed.
Lemma rt_dec_ext : forall w n e, render_toks [TPadDec w n; TLit "."; TStr e] = render_int pad_dec w n ++ "."%char :: s2t e.
Proof. intros. unfold render_toks. cbn [map render_tok List.concat s2t list_ascii_of_string app]. rewrite app_nil_r. reflexivity. Qed.
Lemma rt_dec_ext' : forall n e, render_toks [TDec n; TLit "."; TStr e] = render_int pad_dec 0 n ++ "."%char :: s2t e.
Proof. intros. unfold render_toks. cbn [map render_tok List.concat s2t list_ascii_of_string app]. rewrite app_nil_r. reflexivity. Qed.

Lemma dot_not_hex : is_lhex "."%char = false.
Proof. reflexivity. Qed.

Ltac split_dims Hn :=
  match goal with
  | E : dims_part ?d1 ++ _ = dims_part ?d2 ++ _ |- _ =>
    apply app_tail_len_inj in E; [|reflexivity];
    let Ed := fresh "Ed" in destruct E as [Ed E];
    apply dims_part_inj in Ed; [subst | congruence | congruence]
  end.

Theorem file_key_tc_inj : forall ks ext a b, NoDup ks -> file_valid ks a -> file_valid ks b ->
  file_key tile_location_tc ext a = file_key tile_location_tc ext b -> a = b.
Proof.
  intros ks ext [x y z d] [x' y' z' d'] Hn [[Hx [Hy Hz]] Hd] [[Hx' [Hy' Hz']] Hd'] E.
  cbn [ax ay az adims] in *. unfold file_key, tile_location_tc, render_path in E.
  cbn [ax ay az adims flat_map render_comp app] in E. rewrite ?app_nil_r in E.
  rewrite !rt_dec1, !rt_dec_ext in E.
  split_dims Hn.
  injection E as E1 E2 E3 E4 E5 E6 E7.
  apply dec_sep_inj in E7; try apply dot_not_hex; try (apply Z.mod_pos_bound; lia). destruct E7 as [E7 _].
  apply render_dec_inj in E1; try lia. subst z'.
  apply render_dec_inj in E2; try (apply quot_nonneg; lia).
  apply render_dec_inj in E3; try (apply Z.mod_pos_bound; lia).
  apply render_dec_inj in E4; try (apply Z.mod_pos_bound; lia).
  apply render_dec_inj in E5; try (apply quot_nonneg; lia).
  apply render_dec_inj in E6; try (apply Z.mod_pos_bound; lia).
  rewrite (digits3_inj x x') by assumption. rewrite (digits3_inj y y') by assumption. reflexivity.
Qed.

Theorem file_key_mp_inj : forall ks ext a b, NoDup ks -> file_valid ks a -> file_valid ks b ->
  file_key tile_location_mp ext a = file_key tile_location_mp ext b -> a = b.
Proof.
  intros ks ext [x y z d] [x' y' z' d'] Hn [[Hx [Hy Hz]] Hd] [[Hx' [Hy' Hz']] Hd'] E.
  cbn [ax ay az adims] in *. unfold file_key, tile_location_mp, render_path in E.
  cbn [ax ay az adims flat_map render_comp app] in E. rewrite ?app_nil_r in E.
  rewrite !rt_dec1, !rt_dec_ext in E.
  split_dims Hn.
  injection E as E1 E2 E3 E4 E5.
  apply dec_sep_inj in E5; try apply dot_not_hex; try (apply Z.mod_pos_bound; lia). destruct E5 as [E5 _].
  apply render_dec_inj in E1; try lia. subst z'.
  apply render_dec_inj in E2; try (apply quot_nonneg; lia).
  apply render_dec_inj in E3; try (apply Z.mod_pos_bound; lia).
  apply render_dec_inj in E4; try (apply quot_nonneg; lia).
  rewrite (digits2_inj x x') by assumption. rewrite (digits2_inj y y') by assumption. reflexivity.
Qed.

Theorem file_key_tms_inj : forall ks ext a b, NoDup ks -> file_valid ks a -> file_valid ks b ->
  file_key tile_location_tms ext a = file_key tile_location_tms ext b -> a = b.
Proof.
  intros ks ext [x y z d] [x' y' z' d'] Hn [[Hx [Hy Hz]] Hd] [[Hx' [Hy' Hz']] Hd'] E.
  cbn [ax ay az adims] in *. unfold file_key, tile_location_tms, render_path in E.
  cbn [ax ay az adims flat_map render_comp app] in E. rewrite ?app_nil_r in E.
  rewrite !rt_dec1', !rt_dec_ext' in E.
  split_dims Hn.
  injection E as E1 E2 E3.
  apply dec_sep_inj in E3; try apply dot_not_hex; try lia. destruct E3 as [E3 _].
  apply render_dec_inj in E1; try lia. apply render_dec_inj in E2; try lia. subst. reflexivity.
Qed.

Theorem file_key_reverse_tms_inj : forall ks ext a b, NoDup ks -> file_valid ks a -> file_valid ks b ->
  file_key tile_location_reverse_tms ext a = file_key tile_location_reverse_tms ext b -> a = b.
Proof.
  intros ks ext [x y z d] [x' y' z' d'] Hn [[Hx [Hy Hz]] Hd] [[Hx' [Hy' Hz']] Hd'] E.
  cbn [ax ay az adims] in *. unfold file_key, tile_location_reverse_tms, render_path in E.
  cbn [ax ay az adims flat_map render_comp app] in E. rewrite ?app_nil_r in E.
  rewrite !rt_dec1', !rt_dec_ext' in E.
  split_dims Hn.
  injection E as E1 E2 E3.
  apply dec_sep_inj in E3; try apply dot_not_hex; try lia. destruct E3 as [E3 _].
  apply render_dec_inj in E1; try lia. apply render_dec_inj in E2; try lia. subst. reflexivity.
Qed.

(* arcgis and quadkey do not put the dimensions into the path (finding F4): injective only among addresses
   that carry the same dimension values d0 *)
Definition nodim_valid (d0 : dims) (a : addr) : Prop := coords_ok a /\ adims a = d0.

Lemma rt_L_dec : forall w n, render_toks [TLit "L"; TPadDec w n] = "L"%char :: render_int pad_dec w n.
Proof. intros. unfold render_toks. cbn [map render_tok List.concat s2t list_ascii_of_string app]. rewrite app_nil_r. reflexivity. Qed.
Lemma rt_R_hex : forall w n, render_toks [TLit "R"; TPadHex w n] = "R"%char :: render_int pad_hex w n.
Proof. intros. unfold render_toks. cbn [map render_tok List.concat s2t list_ascii_of_string app]. rewrite app_nil_r. reflexivity. Qed.
Lemma rt_C_hex_ext : forall w n e,
  render_toks [TLit "C"; TPadHex w n; TLit "."; TStr e] = "C"%char :: render_int pad_hex w n ++ "."%char :: s2t e.
Proof. intros. unfold render_toks. cbn [map render_tok List.concat s2t list_ascii_of_string app]. rewrite app_nil_r. reflexivity. Qed.

Theorem file_key_arcgis_inj : forall d0 ext a b, nodim_valid d0 a -> nodim_valid d0 b ->
  file_key tile_location_arcgiscache ext a = file_key tile_location_arcgiscache ext b -> a = b.
Proof.
  intros d0 ext [x y z d] [x' y' z' d'] [[Hx [Hy Hz]] Hd] [[Hx' [Hy' Hz']] Hd'] E.
  cbn [ax ay az adims] in *. subst d d'. unfold file_key, tile_location_arcgiscache, render_path in E.
  cbn [ax ay az adims flat_map render_comp app] in E.
  rewrite !rt_L_dec, !rt_R_hex, !rt_C_hex_ext in E.
  injection E as E1 E2 E3.
  apply hex_sep_inj in E3; try apply dot_not_hex; try lia. destruct E3 as [E3 _].
  apply render_dec_inj in E1; try lia. apply render_hex_inj in E2; try lia. subst. reflexivity.
Qed.

(* ------------------------------------------------------------------ quadkey *)
Definition quad_valid (d0 : dims) (a : addr) : Prop :=
  0 <= az a /\ 0 <= ax a < 2 ^ az a /\ 0 <= ay a < 2 ^ az a /\ adims a = d0.

Lemma land_pow2_zero : forall x j, 0 <= j -> (Z.land x (Z.shiftl 1 j) =? 0) = negb (Z.testbit x j).
Proof.
  intros x j Hj. rewrite Z.shiftl_mul_pow2, Z.mul_1_l by lia.
  destruct (Z.testbit x j) eqn:T; cbn [negb].
  - apply Z.eqb_neq. intros E. apply (f_equal (fun v => Z.testbit v j)) in E.
    rewrite Z.land_spec, T, Z.pow2_bits_eqb, Z.eqb_refl, Z.bits_0 in E by lia. discriminate.
  - apply Z.eqb_eq. apply Z.bits_inj'. intros n Hn.
    rewrite Z.land_spec, Z.pow2_bits_eqb, Z.bits_0 by lia.
    destruct (Z.eqb_spec j n); [subst; rewrite T; reflexivity | apply andb_false_r].
Qed.

Definition bit (x j : Z) : Z := if Z.testbit x j then 1 else 0.

Lemma quadkey_digit_bits : forall x y z i, 1 <= i -> quadkey_digit x y z i = bit x (i - 1) + 2 * bit y (i - 1).
Proof.
  intros x y z i Hi. unfold quadkey_digit, bit. rewrite !land_pow2_zero by lia.
  destruct (Z.testbit x (i - 1)), (Z.testbit y (i - 1)); reflexivity.
Qed.

Lemma bit_range : forall x j, bit x j = 0 \/ bit x j = 1.
Proof. intros. unfold bit. destruct (Z.testbit x j); auto. Qed.

(* a digit 0..3 is rendered as one character, different digits as different characters, never as '.' *)
Definition qchar (d : Z) : ascii :=
  if d =? 0 then "0" else if d =? 1 then "1" else if d =? 2 then "2" else "3".

Lemma render_qdigit : forall d, 0 <= d <= 3 -> render_int pad_dec 0 d = [qchar d].
Proof. intros d H. assert (d = 0 \/ d = 1 \/ d = 2 \/ d = 3) as [->|[->|[->| ->]]] by lia; reflexivity. Qed.

Lemma qchar_inj : forall a b, 0 <= a <= 3 -> 0 <= b <= 3 -> qchar a = qchar b -> a = b.
Proof.
  intros a b Ha Hb. assert (a = 0 \/ a = 1 \/ a = 2 \/ a = 3) as [->|[->|[->| ->]]] by lia;
    assert (b = 0 \/ b = 1 \/ b = 2 \/ b = 3) as [->|[->|[->| ->]]] by lia; cbn; intros E; try reflexivity; discriminate.
Qed.

Lemma qchar_not_dot : forall d, qchar d <> "."%char.
Proof. intros d. unfold qchar. destruct (d =? 0); [discriminate|]. destruct (d =? 1); [discriminate|]. destruct (d =? 2); discriminate. Qed.

Lemma catdec_digits : forall l, Forall (fun d => 0 <= d <= 3) l ->
  List.concat (map (render_int pad_dec 0) l) = map qchar l.
Proof.
  induction l as [|d l IH]; intros H; [reflexivity|]. inversion H; subst.
  cbn [map List.concat]. rewrite render_qdigit by assumption. rewrite IH by assumption. reflexivity.
Qed.

Lemma map_qchar_inj : forall l1 l2, Forall (fun d => 0 <= d <= 3) l1 -> Forall (fun d => 0 <= d <= 3) l2 ->
  map qchar l1 = map qchar l2 -> l1 = l2.
Proof.
  induction l1 as [|a l1 IH]; intros [|b l2] H1 H2 E; cbn [map] in E; try discriminate; [reflexivity|].
  inversion H1; inversion H2; subst. injection E as E1 E2. f_equal; [apply qchar_inj; assumption | apply IH; assumption].
Qed.

Lemma digits_range : forall x y z l, Forall (fun i => 1 <= i) l ->
  Forall (fun d => 0 <= d <= 3) (map (quadkey_digit x y z) l).
Proof.
  induction l as [|i l IH]; intros H; cbn [map]; constructor; inversion H; subst.
  - rewrite quadkey_digit_bits by assumption. destruct (bit_range x (i - 1)), (bit_range y (i - 1)); lia.
  - apply IH. assumption.
Qed.

Lemma range_down_nat_ge : forall n, Forall (fun i => 1 <= i) (range_down_nat n 0).
Proof. induction n as [|n IH]; cbn [range_down_nat]; constructor; [lia | exact IH]. Qed.

Lemma range_down_nat_length : forall n lo, List.length (range_down_nat n lo) = n.
Proof. induction n as [|n IH]; intros; cbn [range_down_nat List.length]; [reflexivity | rewrite IH; reflexivity]. Qed.

(* the digit string determines the low n bits of x and y *)
Lemma testbit_split : forall x n, 0 <= n -> 0 <= x < 2 ^ (n + 1) -> x = bit x n * 2 ^ n + x mod 2 ^ n.
Proof.
  intros x n Hn Hx. unfold bit. rewrite Z.testbit_eqb by lia.
  assert (P : 0 < 2 ^ n) by (apply Z.pow_pos_nonneg; lia).
  rewrite Z.pow_add_r, Z.pow_1_r in Hx by lia.
  assert (Q : 0 <= x / 2 ^ n < 2) by (split; [apply Z.div_pos; lia | apply Z.div_lt_upper_bound; lia]).
  pose proof (Z.div_mod x (2 ^ n) ltac:(lia)) as D.
  assert (x / 2 ^ n = 0 \/ x / 2 ^ n = 1) as [E|E] by lia; rewrite E in D |- *;
    [change (0 mod 2 =? 1) with false | change (1 mod 2 =? 1) with true]; cbv iota; lia.
Qed.

Lemma digits_low : forall x y z x' y' z' n,
  map (quadkey_digit x y z) (range_down_nat n 0) = map (quadkey_digit x' y' z') (range_down_nat n 0) ->
  x mod 2 ^ Z.of_nat n = x' mod 2 ^ Z.of_nat n /\ y mod 2 ^ Z.of_nat n = y' mod 2 ^ Z.of_nat n.
Proof.
  induction n as [|n IH]; intros E.
  - cbn [Z.of_nat]. rewrite Z.pow_0_r, !Z.mod_1_r. split; reflexivity.
  - cbn [range_down_nat map] in E. injection E as E1 E2. destruct (IH E2) as [Ex Ey].
    rewrite !quadkey_digit_bits in E1 by lia.
    replace (Z.pos (Pos.of_succ_nat n) - 1) with (Z.of_nat n) in E1 by lia.
    assert (Bx : bit x (Z.of_nat n) = bit x' (Z.of_nat n) /\ bit y (Z.of_nat n) = bit y' (Z.of_nat n)).
    { destruct (bit_range x (Z.of_nat n)), (bit_range x' (Z.of_nat n)),
        (bit_range y (Z.of_nat n)), (bit_range y' (Z.of_nat n)); lia. }
    destruct Bx as [Bx By].
    assert (P : 0 < 2 ^ Z.of_nat n) by (apply Z.pow_pos_nonneg; lia).
    assert (S1 : forall v, v mod 2 ^ Z.of_nat (S n) = bit v (Z.of_nat n) * 2 ^ Z.of_nat n + v mod 2 ^ Z.of_nat n).
    { intros v. replace (Z.of_nat (S n)) with (Z.of_nat n + 1) by lia.
      assert (R : 0 <= v mod 2 ^ (Z.of_nat n + 1) < 2 ^ (Z.of_nat n + 1))
        by (apply Z.mod_pos_bound; apply Z.pow_pos_nonneg; lia).
      rewrite (testbit_split (v mod 2 ^ (Z.of_nat n + 1)) (Z.of_nat n)) at 1 by lia.
      f_equal.
      - unfold bit. rewrite Z.mod_pow2_bits_low by lia. reflexivity.
      - rewrite Z.pow_add_r, Z.pow_1_r by lia.
        rewrite (Z.rem_mul_r v (2 ^ Z.of_nat n) 2) by lia.
        rewrite (Z.mul_comm (2 ^ Z.of_nat n) ((v / 2 ^ Z.of_nat n) mod 2)).
        rewrite Z.mod_add by lia. apply Z.mod_mod. lia. }
    rewrite !S1. split; congruence.
Qed.

Lemma rt_cat_ext : forall l e, render_toks [TCatDec l; TLit "."; TStr e] =
  List.concat (map (render_int pad_dec 0) l) ++ "."%char :: s2t e.
Proof. intros. unfold render_toks. cbn [map render_tok List.concat s2t list_ascii_of_string app]. rewrite app_nil_r. reflexivity. Qed.

Theorem file_key_quadkey_inj : forall d0 ext a b, quad_valid d0 a -> quad_valid d0 b ->
  file_key tile_location_quadkey ext a = file_key tile_location_quadkey ext b -> a = b.
Proof.
  intros d0 ext [x y z d] [x' y' z' d'] [Hz [Hx [Hy Hd]]] [Hz' [Hx' [Hy' Hd']]] E.
  cbn [ax ay az adims] in *. subst d d'. unfold file_key, tile_location_quadkey, render_path in E.
  cbn [ax ay az adims flat_map render_comp app] in E. rewrite !rt_cat_ext in E.
  injection E as E. unfold range_down in E.
  rewrite !catdec_digits in E by (apply digits_range; apply range_down_nat_ge).
  apply app_sep_inj in E.
  2,3: (intros Hin; apply in_map_iff in Hin; destruct Hin as [v [Hv _]]; exact (qchar_not_dot v Hv)).
  destruct E as [E _].
  apply map_qchar_inj in E; try (apply digits_range; apply range_down_nat_ge).
  assert (L : Z.to_nat (z - 0) = Z.to_nat (z' - 0)).
  { apply (f_equal (@List.length Z)) in E. rewrite !map_length, !range_down_nat_length in E. exact E. }
  assert (z = z') by lia. subst z'.
  apply digits_low in E. rewrite Z2Nat.id in E by lia. replace (z - 0) with z in E by lia.
  destruct E as [Ex Ey]. rewrite !Z.mod_small in Ex, Ey by lia. subst. reflexivity.
Qed.

(* ------------------------------------------------------------------ compact caches: bundle file and index slot *)
Lemma rt_R_hex_C_hex : forall w1 n1 w2 n2,
  render_toks [TLit "R"; TPadHex w1 n1; TLit "C"; TPadHex w2 n2] =
  "R"%char :: render_int pad_hex w1 n1 ++ "C"%char :: render_int pad_hex w2 n2.
Proof. intros. unfold render_toks. cbn [map render_tok List.concat s2t list_ascii_of_string app]. rewrite app_nil_r. reflexivity. Qed.

Lemma upper_C_not_hex : is_lhex "C"%char = false.
Proof. reflexivity. Qed.

Lemma bundle_path_inj : forall x y z x' y' z',
  0 <= x -> 0 <= y -> 0 <= z -> 0 <= x' -> 0 <= y' -> 0 <= z' ->
  render_path [] (bundle_fname x y z) = render_path [] (bundle_fname x' y' z') ->
  z = z' /\ x / 128 = x' / 128 /\ y / 128 = y' / 128.
Proof.
  intros x y z x' y' z' Hx Hy Hz Hx' Hy' Hz' E.
  unfold bundle_fname, render_path, BUNDLEX_V1_GRID_WIDTH, BUNDLEX_V1_GRID_HEIGHT in E. cbv zeta in E.
  cbn [flat_map render_comp app] in E. rewrite !rt_L_dec, !rt_R_hex_C_hex in E.
  injection E as E1 E2.
  assert (Dx : 0 <= x / 128) by (apply Z.div_pos; lia). assert (Dy : 0 <= y / 128) by (apply Z.div_pos; lia).
  assert (Dx' : 0 <= x' / 128) by (apply Z.div_pos; lia). assert (Dy' : 0 <= y' / 128) by (apply Z.div_pos; lia).
  apply hex_sep_inj in E2; try apply upper_C_not_hex; try lia. destruct E2 as [E2 E3].
  apply render_hex_inj in E3; try lia. apply render_dec_inj in E1; lia.
Qed.

Definition compact_valid (d0 : dims) (a : addr) : Prop := coords_ok a /\ adims a = d0.

Theorem compact_key_inj : forall v2 d0 a b, compact_valid d0 a -> compact_valid d0 b ->
  compact_key v2 a = compact_key v2 b -> a = b.
Proof.
  intros v2 d0 [x y z d] [x' y' z' d'] [[Hx [Hy Hz]] Hd] [[Hx' [Hy' Hz']] Hd'] E.
  cbn [ax ay az adims] in *. subst d d'. unfold compact_key in E. cbn [ax ay az] in E.
  assert (E1 := f_equal fst E). assert (E2 := f_equal snd E). cbn [fst snd] in E1, E2. clear E.
  apply bundle_path_inj in E1; try assumption. destruct E1 as [-> [Qx Qy]].
  assert (Mx : 0 <= x mod 128 < 128) by (apply Z.mod_pos_bound; lia).
  assert (My : 0 <= y mod 128 < 128) by (apply Z.mod_pos_bound; lia).
  assert (Mx' : 0 <= x' mod 128 < 128) by (apply Z.mod_pos_bound; lia).
  assert (My' : 0 <= y' mod 128 < 128) by (apply Z.mod_pos_bound; lia).
  pose proof (Z.div_mod x 128 ltac:(lia)). pose proof (Z.div_mod y 128 ltac:(lia)).
  pose proof (Z.div_mod x' 128 ltac:(lia)). pose proof (Z.div_mod y' 128 ltac:(lia)).
  assert (x mod 128 = x' mod 128 /\ y mod 128 = y' mod 128) as [Rx Ry].
  { destruct v2;
      unfold v2_rel_tile_coord, v2_tile_idx_offset, v1_rel_tile_coord, v1_tile_index_offset,
        BUNDLE_V2_GRID_WIDTH, BUNDLE_V2_GRID_HEIGHT, BUNDLE_V2_HEADER_SIZE,
        BUNDLEX_V1_GRID_WIDTH, BUNDLEX_V1_GRID_HEIGHT, BUNDLEX_V1_HEADER_SIZE in E2; lia. }
  assert (x = x') by lia. assert (y = y') by lia. subst. reflexivity.
Qed.

(* the borders 127 / 128 of a bundle: neighbours across the border live in different files, the slot repeats *)
Example bundle_border_example :
  fst (compact_key true (A 127 0 3 [])) <> fst (compact_key true (A 128 0 3 [])) /\
  snd (compact_key true (A 0 0 3 [])) = snd (compact_key true (A 128 0 3 [])).
Proof. split; [intros E; vm_compute in E; discriminate | reflexivity]. Qed.

(* ------------------------------------------------------------------ dimensions_part does not depend on the key order *)
(* the dimensions argument is a python dict: the same (key, value) pairs inserted in another order are the same
   address.  dimensions_part sorts the keys (both groups), so the path is the same. *)
From Coq Require Import Permutation Sorted.

Ltac nlt_hyps := repeat match goal with
  | H : N.ltb _ _ = true |- _ => apply N.ltb_lt in H
  | H : N.ltb _ _ = false |- _ => apply N.ltb_ge in H end.

Lemma text_leb_total : forall a b, text_leb a b = true \/ text_leb b a = true.
Proof.
  induction a as [|x a IH]; intros [|y b]; cbn [text_leb]; cbv zeta; auto.
  destruct (N.ltb (N_of_ascii x) (N_of_ascii y)) eqn:E1; destruct (N.ltb (N_of_ascii y) (N_of_ascii x)) eqn:E2; auto.
Qed.

Lemma text_leb_antisym : forall a b, text_leb a b = true -> text_leb b a = true -> a = b.
Proof.
  induction a as [|x a IH]; intros [|y b]; cbn [text_leb]; cbv zeta; intros H1 H2; try discriminate; [reflexivity|].
  destruct (N.ltb (N_of_ascii x) (N_of_ascii y)) eqn:E1; destruct (N.ltb (N_of_ascii y) (N_of_ascii x)) eqn:E2;
    try discriminate; nlt_hyps; try (exfalso; lia).
  assert (E : N_of_ascii x = N_of_ascii y) by lia.
  apply (f_equal ascii_of_N) in E. rewrite !ascii_N_embedding in E. subst y. f_equal. apply IH; assumption.
Qed.

Lemma text_leb_trans : forall a b c, text_leb a b = true -> text_leb b c = true -> text_leb a c = true.
Proof.
  induction a as [|x a IH]; intros [|y b] [|z c]; cbn [text_leb]; cbv zeta; intros H1 H2; try discriminate; try reflexivity.
  destruct (N.ltb (N_of_ascii x) (N_of_ascii y)) eqn:E1; destruct (N.ltb (N_of_ascii y) (N_of_ascii x)) eqn:E2;
    try discriminate;
    destruct (N.ltb (N_of_ascii y) (N_of_ascii z)) eqn:E3; destruct (N.ltb (N_of_ascii z) (N_of_ascii y)) eqn:E4;
    try discriminate;
    destruct (N.ltb (N_of_ascii x) (N_of_ascii z)) eqn:E5; try reflexivity;
    destruct (N.ltb (N_of_ascii z) (N_of_ascii x)) eqn:E6; nlt_hyps; try (exfalso; lia).
  eapply IH; eassumption.
Qed.

Definition tle (a b : text) : Prop := text_leb a b = true.

Lemma insert_sorted_perm : forall k l, Permutation (insert_sorted k l) (k :: l).
Proof.
  induction l as [|h r IH]; cbn [insert_sorted]; [apply Permutation_refl|].
  destruct (text_leb k h); [apply Permutation_refl|].
  eapply perm_trans; [apply perm_skip; exact IH | apply perm_swap].
Qed.

Lemma sort_texts_perm : forall l, Permutation (sort_texts l) l.
Proof.
  induction l as [|h r IH]; cbn [sort_texts fold_right]; [constructor|]. fold (sort_texts r).
  eapply perm_trans; [apply insert_sorted_perm | apply perm_skip; exact IH].
Qed.

Lemma insert_sorted_ss : forall k l, StronglySorted tle l -> StronglySorted tle (insert_sorted k l).
Proof.
  induction l as [|h r IH]; intros S; cbn [insert_sorted].
  - constructor; constructor.
  - inversion S as [|? ? S' F]; subst. destruct (text_leb k h) eqn:E.
    + constructor; [exact S|]. constructor; [exact E|].
      eapply Forall_impl; [|exact F]. intros c Hc. unfold tle in *. eapply text_leb_trans; eassumption.
    + constructor; [apply IH; exact S'|]. apply Forall_forall. intros c Hc. apply In_insert_sorted in Hc.
      destruct Hc as [->|Hc].
      * unfold tle. destruct (text_leb_total k h) as [T|T]; [congruence | exact T].
      * rewrite Forall_forall in F. apply F. exact Hc.
Qed.

Lemma sort_texts_ss : forall l, StronglySorted tle (sort_texts l).
Proof.
  induction l as [|h r IH]; cbn [sort_texts fold_right]; [constructor|]. apply insert_sorted_ss. exact IH.
Qed.

Lemma ss_perm_eq : forall l1 l2, StronglySorted tle l1 -> StronglySorted tle l2 -> Permutation l1 l2 -> l1 = l2.
Proof.
  induction l1 as [|a l1 IH]; intros [|b l2] S1 S2 P.
  - reflexivity.
  - apply Permutation_nil in P. discriminate.
  - apply Permutation_sym in P. apply Permutation_nil in P. discriminate.
  - inversion S1 as [|? ? S1' F1]; inversion S2 as [|? ? S2' F2]; subst.
    assert (Eab : a = b).
    { assert (Ia : In a (b :: l2)) by (eapply Permutation_in; [exact P | left; reflexivity]).
      assert (Ib : In b (a :: l1)) by (eapply Permutation_in; [apply Permutation_sym; exact P | left; reflexivity]).
      destruct Ia as [Ia|Ia]; [symmetry; exact Ia|]. destruct Ib as [Ib|Ib]; [exact Ib|].
      rewrite Forall_forall in F1, F2. apply text_leb_antisym; [apply F1; exact Ib | apply F2; exact Ia]. }
    subst b. f_equal. apply IH; try assumption. eapply Permutation_cons_inv; exact P.
Qed.

Lemma filter_perm : forall (f : text -> bool) l1 l2, Permutation l1 l2 -> Permutation (filter f l1) (filter f l2).
Proof.
  intros f l1 l2 P. induction P; cbn [filter].
  - constructor.
  - destruct (f x); [apply perm_skip|]; assumption.
  - destruct (f x); destruct (f y); try apply Permutation_refl. apply perm_swap.
  - eapply perm_trans; eassumption.
Qed.

Lemma dim_keys_perm : forall k1 k2, Permutation k1 k2 -> dim_keys k1 = dim_keys k2.
Proof.
  intros k1 k2 P. unfold dim_keys.
  f_equal; apply ss_perm_eq; try apply sort_texts_ss;
    (eapply perm_trans; [apply sort_texts_perm|]; eapply perm_trans; [apply filter_perm; exact P|];
     apply Permutation_sym; apply sort_texts_perm).
Qed.

Lemma dim_get_perm : forall d1 d2, Permutation d1 d2 -> NoDup (map fst d1) -> forall k, dim_get d1 k = dim_get d2 k.
Proof.
  intros d1 d2 P. induction P; intros Hn k.
  - reflexivity.
  - destruct x as [k' v]. cbn [dim_get]. destruct (text_eqb k' k); [reflexivity|]. apply IHP.
    cbn [map fst] in Hn. inversion Hn; assumption.
  - destruct x as [k1 v1], y as [k2 v2]. cbn [dim_get].
    destruct (text_eqb k2 k) eqn:E2; destruct (text_eqb k1 k) eqn:E1; try reflexivity.
    apply text_eqb_eq in E1. apply text_eqb_eq in E2. subst k1 k2. cbn [map fst] in Hn.
    inversion Hn as [|? ? Hnotin _]; subst. exfalso. apply Hnotin. left. reflexivity.
  - rewrite IHP1 by exact Hn. apply IHP2. eapply Permutation_NoDup; [|exact Hn]. apply Permutation_map. exact P1.
Qed.

Lemma dims_part_perm : forall d1 d2, Permutation d1 d2 -> NoDup (map fst d1) -> dims_part d1 = dims_part d2.
Proof.
  intros d1 d2 P Hn. unfold dims_part.
  rewrite (dim_keys_perm (map fst d1) (map fst d2)) by (apply Permutation_map; exact P).
  apply map_ext. intros k. unfold dim_component. rewrite (dim_get_perm d1 d2 P Hn k). reflexivity.
Qed.

(* every layout function: the key of an address depends on the dimensions as a set of (key, value) pairs *)
Lemma file_key_perm : forall f ext x y z d1 d2, Permutation d1 d2 -> NoDup (map fst d1) ->
  file_key f ext (mkAddr x y z d1) = file_key f ext (mkAddr x y z d2).
Proof.
  intros f ext x y z d1 d2 P Hn. unfold file_key. cbn [ax ay az adims]. unfold render_path.
  apply flat_map_ext. intros c. destruct c; cbn [render_comp]; try reflexivity. apply dims_part_perm; assumption.
Qed.

(* ... and two dimension dicts with the same distinct keys name the same directory only if they are permutations of
   each other (same values) *)
Lemma dims_part_same_only_if_perm : forall d1 d2,
  NoDup (map fst d1) -> Permutation (map fst d1) (map fst d2) -> dims_part d1 = dims_part d2 ->
  forall k, In k (map fst d1) -> dim_get d1 k = dim_get d2 k.
Proof.
  intros d1 d2 Hn P E k Hin. unfold dims_part in E. rewrite <- (dim_keys_perm _ _ P) in E.
  assert (Hc : dim_component d1 k = dim_component d2 k).
  { apply In_dim_keys in Hin. revert Hin E. generalize (dim_keys (map fst d1)) as L.
    induction L as [|h L IHL]; intros Hin E; [destruct Hin|].
    cbn [map] in E. injection E as E1 E2. destruct Hin as [->|Hin]; [exact E1 | apply IHL; assumption]. }
  unfold dim_component in Hc. apply esc_inj in Hc. apply app_inv_head in Hc. injection Hc as Hc. exact Hc.
Qed.
