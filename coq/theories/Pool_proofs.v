(* Proofs about the thread-pool model (C15). *)
From Coq Require Import ZArith List Bool Arith Lia.
Import ListNotations.
From MP Require Import Pool.

Definition memb (i : nat) (l : list nat) : bool := existsb (Nat.eqb i) l.

Lemma memb_In i l : memb i l = true <-> In i l.
Proof.
  unfold memb. rewrite existsb_exists. split.
  - intros [x [Hx He]]. apply Nat.eqb_eq in He. subst. exact Hx.
  - intros H. exists i. split; [exact H | apply Nat.eqb_refl].
Qed.

Lemma memb_false i l : memb i l = false <-> ~ In i l.
Proof.
  rewrite <- memb_In. destruct (memb i l); split; intros H; try congruence;
    try (exfalso; apply H; reflexivity).
Qed.

Lemma lookup_remove_eq p i : lookup (remove p i) i = None.
Proof.
  induction p as [|[k v] r IH]; simpl; [reflexivity|].
  destruct (Nat.eqb k i) eqn:E; [exact IH|]. simpl. rewrite E. exact IH.
Qed.

Lemma lookup_remove_neq p i j : i <> j -> lookup (remove p i) j = lookup p j.
Proof.
  intros Hn. induction p as [|[k v] r IH]; simpl; [reflexivity|].
  destruct (Nat.eqb k i) eqn:E.
  - apply Nat.eqb_eq in E. subst k.
    destruct (Nat.eqb i j) eqn:E2; [apply Nat.eqb_eq in E2; contradiction | exact IH].
  - simpl. destruct (Nat.eqb k j); [reflexivity | exact IH].
Qed.

Lemma length_remove_le p i : length (remove p i) <= length p.
Proof.
  induction p as [|[k v] r IH]; simpl; [lia|]. destruct (Nat.eqb k i); simpl; lia.
Qed.

Lemma length_remove_lt p i v : lookup p i = Some v -> length (remove p i) < length p.
Proof.
  induction p as [|[k w] r IH]; simpl; [discriminate|].
  destruct (Nat.eqb k i) eqn:E; intros H.
  - pose proof (length_remove_le r i). lia.
  - simpl. apply IH in H. lia.
Qed.

Section Reseq.
  Variable value : nat -> val.

  (* the `results` dictionary holds exactly the consumed indices that are >= next *)
  Definition PendSpec (consumed : list nat) (next : nat) (p : pending) : Prop :=
    forall i, lookup p i = if (next <=? i) && memb i consumed then Some (value i) else None.

  Lemma memb_cons k i l : memb k (i :: l) = Nat.eqb k i || memb k l.
  Proof. reflexivity. Qed.

  Lemma pendspec_advance consumed next p :
    PendSpec consumed next p -> ~ In next consumed -> PendSpec (next :: consumed) (S next) p.
  Proof.
    intros HS Hnn k. rewrite (HS k), memb_cons.
    destruct (Nat.eq_dec k next) as [->|Hne].
    - replace (S next <=? next) with false by (symmetry; apply Nat.leb_gt; lia).
      rewrite Nat.leb_refl. cbn [andb].
      destruct (memb next consumed) eqn:EM; [apply memb_In in EM; contradiction | reflexivity].
    - replace (Nat.eqb k next) with false by (symmetry; apply Nat.eqb_neq; exact Hne). cbn [orb].
      destruct (Nat.leb_spec next k), (Nat.leb_spec (S next) k); try lia; reflexivity.
  Qed.

  Lemma pendspec_insert consumed next p i :
    PendSpec consumed next p -> next <= i ->
    PendSpec (i :: consumed) next (insert p i (value i)).
  Proof.
    intros HS Hge k. unfold insert. cbn [lookup]. rewrite memb_cons.
    destruct (Nat.eqb i k) eqn:E2.
    - apply Nat.eqb_eq in E2. subst k. rewrite Nat.eqb_refl. cbn [orb].
      replace (next <=? i) with true by (symmetry; apply Nat.leb_le; lia). reflexivity.
    - apply Nat.eqb_neq in E2. rewrite (lookup_remove_neq _ _ _ E2).
      replace (Nat.eqb k i) with false by (symmetry; apply Nat.eqb_neq; lia). cbn [orb].
      apply HS.
  Qed.

  Lemma drain_spec fuel : forall consumed next p,
    PendSpec consumed next p -> length p <= fuel ->
    exists ys n' p', drain fuel next p = (ys, n', p') /\
      PendSpec consumed n' p' /\ ~ In n' consumed /\ next <= n' /\
      (forall i, next <= i < n' -> In i consumed) /\
      ys = map value (seq next (n' - next)).
  Proof.
    induction fuel as [|f IH]; intros consumed next p HS Hl.
    - exists [], next, p. simpl. split; [reflexivity|]. split; [exact HS|].
      destruct p; [|simpl in Hl; lia].
      specialize (HS next). simpl in HS. rewrite Nat.leb_refl in HS. simpl in HS.
      split.
      + destruct (memb next consumed) eqn:E; [discriminate|]. apply memb_false. exact E.
      + split; [lia|]. split; [intros i Hi; lia|]. rewrite Nat.sub_diag. reflexivity.
    - simpl. destruct (lookup p next) as [v|] eqn:EL.
      + pose proof (HS next) as Hn. rewrite EL, Nat.leb_refl in Hn. simpl in Hn.
        destruct (memb next consumed) eqn:EM; [|discriminate]. injection Hn as Hv.
        assert (HS' : PendSpec consumed (S next) (remove p next)).
        { intros i. destruct (Nat.eq_dec next i) as [->|Hne].
          - rewrite lookup_remove_eq.
            replace (S i <=? i) with false by (symmetry; apply Nat.leb_gt; lia). reflexivity.
          - rewrite (lookup_remove_neq _ _ _ Hne). rewrite (HS i).
            destruct (Nat.leb_spec next i), (Nat.leb_spec (S next) i); try lia; reflexivity. }
        pose proof (length_remove_lt _ _ _ EL) as Hlt.
        destruct (IH consumed (S next) (remove p next) HS' ltac:(lia))
          as (ys & n' & p' & Hd & HS'' & Hni & Hle & Hall & Hys).
        rewrite Hd. exists (v :: ys), n', p'. split; [reflexivity|].
        split; [exact HS''|]. split; [exact Hni|]. split; [lia|]. split.
        * intros i Hi. destruct (Nat.eq_dec i next) as [->|Hne]; [apply memb_In; exact EM | apply Hall; lia].
        * replace (n' - next) with (S (n' - S next)) by lia. simpl. rewrite Hv, Hys. reflexivity.
      + exists [], next, p. split; [reflexivity|]. split; [exact HS|].
        pose proof (HS next) as Hn. rewrite EL, Nat.leb_refl in Hn. simpl in Hn.
        split.
        * destruct (memb next consumed) eqn:E; [discriminate|]. apply memb_false. exact E.
        * split; [lia|]. split; [intros i Hi; lia|]. rewrite Nat.sub_diag. reflexivity.
  Qed.

  (* invariant of the consumer between two arrivals *)
  Definition Inv (consumed : list nat) (next : nat) (p : pending) : Prop :=
    PendSpec consumed next p /\ ~ In next consumed /\ (forall i, i < next -> In i consumed).

  Definition no_exc_or_transport (raise_exc : bool) (arr : list nat) : Prop :=
    raise_exc = true -> forall i, In i arr -> exists v, value i = Ok v.

  Lemma seq_app_map (a b c : nat) : a <= b -> b <= c ->
    map value (seq a (c - a)) = map value (seq a (b - a)) ++ map value (seq b (c - b)).
  Proof.
    intros H1 H2. replace (c - a) with ((b - a) + (c - b)) by lia.
    rewrite seq_app, map_app. replace (a + (b - a)) with b by lia. reflexivity.
  Qed.

  (* processing a list of distinct, not yet consumed arrivals without a raise *)
  Lemma get_results_spec raise_exc : forall arr consumed next p,
    Inv consumed next p ->
    NoDup arr -> (forall i, In i arr -> ~ In i consumed) ->
    no_exc_or_transport raise_exc arr ->
    exists ys n' p',
      get_results raise_exc next p (map (fun i => (i, value i)) arr) = (ys, n', p', None) /\
      Inv (rev arr ++ consumed) n' p' /\ next <= n' /\
      ys = map value (seq next (n' - next)).
  Proof.
    induction arr as [|i arr IH]; intros consumed next p HI Hnd Hnew Hexc.
    - exists [], next, p. simpl. split; [reflexivity|]. split; [exact HI|]. split; [lia|].
      rewrite Nat.sub_diag. reflexivity.
    - destruct HI as (HS & Hnn & Hlt).
      assert (Hic : ~ In i consumed) by (apply Hnew; left; reflexivity).
      assert (Hge : next <= i).
      { destruct (le_lt_dec next i) as [H|H]; [exact H|]. exfalso. apply Hic, Hlt, H. }
      inversion Hnd as [|? ? Hni Hnd']; subst.
      assert (Hnew' : forall j, In j arr -> ~ In j (i :: consumed)).
      { intros j Hj [He|Hc]; [subst; contradiction | exact (Hnew j (or_intror Hj) Hc)]. }
      assert (Hexc' : no_exc_or_transport raise_exc arr).
      { intros Hr j Hj. apply (Hexc Hr). right. exact Hj. }
      assert (Hbranch : forall T (a b : T),
                 match value i, raise_exc with Exc _, true => a | _, _ => b end = b).
      { intros T a b. destruct raise_exc.
        - destruct (Hexc eq_refl i (or_introl eq_refl)) as [v Hv]. rewrite Hv. reflexivity.
        - destruct (value i); reflexivity. }
      cbn [map get_results].
      set (rest := map (fun i0 => (i0, value i0)) arr).
      assert (Hstep :
        get_results raise_exc next p ((i, value i) :: rest) =
        if Nat.eqb i next then
          let '(ys, n', p') := drain (length p) (S next) p in
          let '(zs, n'', p'', r) := get_results raise_exc n' p' rest in
          (value i :: ys ++ zs, n'', p'', r)
        else get_results raise_exc next (insert p i (value i)) rest).
      { cbn [get_results]. destruct (value i) eqn:Ev; destruct raise_exc; try reflexivity.
        exfalso. destruct (Hexc eq_refl i (or_introl eq_refl)) as [v Hv]. congruence. }
      fold rest. cbn [get_results] in Hstep. rewrite Hstep. clear Hstep Hbranch.
      destruct (Nat.eqb i next) eqn:E.
      + apply Nat.eqb_eq in E. subst i.
        pose proof (pendspec_advance _ _ _ HS Hnn) as HS1.
        destruct (drain_spec (length p) (next :: consumed) (S next) p HS1 (le_n _))
          as (ys & n1 & p1 & Hd & HS2 & Hn1 & Hle1 & Hall1 & Hys).
        rewrite Hd.
        assert (HI1 : Inv (next :: consumed) n1 p1).
        { split; [exact HS2|]. split; [exact Hn1|]. intros k Hk.
          destruct (lt_eq_lt_dec k next) as [[H|H]|H].
          - right. apply Hlt. exact H.
          - left. symmetry. exact H.
          - apply Hall1. lia. }
        destruct (IH (next :: consumed) n1 p1 HI1 Hnd' Hnew' Hexc')
          as (zs & n2 & p2 & Hg & HI2 & Hle2 & Hzs).
        unfold rest. rewrite Hg. exists (value next :: ys ++ zs), n2, p2.
        split; [reflexivity|]. split.
        * simpl. rewrite <- app_assoc. simpl. exact HI2.
        * split; [lia|].
          replace (n2 - next) with (S (n2 - S next)) by lia. cbn [seq map]. f_equal.
          rewrite (seq_app_map (S next) n1 n2) by lia. rewrite Hys, Hzs. reflexivity.
      + apply Nat.eqb_neq in E.
        assert (HI1 : Inv (i :: consumed) next (insert p i (value i))).
        { split; [|split].
          - apply pendspec_insert; assumption.
          - intros [He|Hc]; [lia | contradiction].
          - intros k Hk. right. apply Hlt. exact Hk. }
        destruct (IH (i :: consumed) next (insert p i (value i)) HI1 Hnd' Hnew' Hexc')
          as (zs & n2 & p2 & Hg & HI2 & Hle2 & Hzs).
        unfold rest. rewrite Hg. exists zs, n2, p2. split; [reflexivity|]. split.
        * simpl. rewrite <- app_assoc. simpl. exact HI2.
        * split; [exact Hle2 | exact Hzs].
  Qed.
End Reseq.

(* arrival order = a permutation of the indices 0..n-1 *)
Definition is_perm (arr : list nat) (n : nat) : Prop :=
  NoDup arr /\ forall i, In i arr <-> i < n.

Lemma map_value_seq items : map (value_of items) (seq 0 (length items)) = items.
Proof.
  unfold value_of. induction items as [|x l IH]; [reflexivity|].
  cbn [length seq map nth]. f_equal. rewrite <- seq_shift, map_map. exact IH.
Qed.

Lemma NoDup_app_inv (a b : list nat) :
  NoDup (a ++ b) -> NoDup a /\ NoDup b /\ (forall i, In i b -> ~ In i a).
Proof.
  induction a as [|x a IH]; simpl; intros H.
  - split; [constructor|]. split; [exact H|]. intros i _ [].
  - inversion H as [|? ? Hx Hnd]; subst. destruct (IH Hnd) as (Ha & Hb & Hd).
    split; [constructor; [intros Hin; apply Hx; apply in_or_app; left; exact Hin | exact Ha]|].
    split; [exact Hb|]. intros i Hi [->|Hin].
    + apply Hx. apply in_or_app. right. exact Hi.
    + exact (Hd i Hi Hin).
Qed.

Lemma NoDup_app_remove_r (a b : list nat) : NoDup (a ++ b) -> NoDup a.
Proof. intros H. apply NoDup_app_inv in H. tauto. Qed.

Lemma In_firstn_or_skipn (k : nat) (l : list nat) i : In i (firstn k l) \/ In i (skipn k l) -> In i l.
Proof. intros H. rewrite <- (firstn_skipn k l). apply in_or_app. exact H. Qed.

Lemma firstn_skipn_perm (arr : list nat) k :
  NoDup arr -> NoDup (firstn k arr) /\ NoDup (skipn k arr) /\
  (forall i, In i (skipn k arr) -> ~ In i (rev (firstn k arr) ++ [])).
Proof.
  intros Hnd. rewrite <- (firstn_skipn k arr) in Hnd.
  destruct (NoDup_app_inv _ _ Hnd) as (Ha & Hb & Hd).
  split; [exact Ha|]. split; [exact Hb|].
  intros i Hi Hin. rewrite app_nil_r in Hin. apply in_rev in Hin. exact (Hd i Hi Hin).
Qed.

(* map_each without a raise: every result exactly once, in input order, for every completion
   order and every point at which the first drain phase gives way to the second. *)
Lemma map_each_all raise_exc items arr split :
  is_perm arr (length items) ->
  (raise_exc = true -> forall i, In i arr -> exists v, value_of items i = Ok v) ->
  map_each raise_exc (map (fun i => (i, value_of items i)) arr) split = (items, None).
Proof.
  intros [Hnd Hall] Hexc. unfold map_each.
  rewrite firstn_map, skipn_map.
  destruct (firstn_skipn_perm arr split Hnd) as (Hnd1 & Hnd2 & Hdisj).
  assert (HI0 : Inv (value_of items) [] 0 []).
  { split; [|split].
    - intros i. cbn [lookup memb existsb]. rewrite andb_false_r. reflexivity.
    - intros [].
    - intros i Hi. lia. }
  destruct (get_results_spec (value_of items) raise_exc (firstn split arr) [] 0 [] HI0 Hnd1
              (fun _ _ H => H))
    as (ys1 & n1 & p1 & Hg1 & HI1 & _ & Hys1).
  { intros Hr i Hi. apply (Hexc Hr). apply (In_firstn_or_skipn split). left. exact Hi. }
  rewrite Hg1.
  assert (Hlen : length ys1 = n1).
  { rewrite Hys1, map_length, seq_length. lia. }
  rewrite Hlen.
  destruct (get_results_spec (value_of items) raise_exc (skipn split arr) _ n1 p1 HI1 Hnd2 Hdisj)
    as (ys2 & n2 & p2 & Hg2 & HI2 & Hle & Hys2).
  { intros Hr i Hi. apply (Hexc Hr). apply (In_firstn_or_skipn split). right. exact Hi. }
  rewrite Hg2. f_equal.
  destruct HI2 as (_ & Hn2 & Hlt2).
  assert (Hcons : forall i, In i (rev (skipn split arr) ++ rev (firstn split arr) ++ []) <-> i < length items).
  { intros i. rewrite app_nil_r, <- rev_app_distr, <- in_rev. rewrite <- Hall.
    rewrite <- (firstn_skipn split arr) at 3. rewrite !in_app_iff. tauto. }
  assert (Hn2eq : n2 = length items).
  { destruct (lt_eq_lt_dec n2 (length items)) as [[H|H]|H].
    - exfalso. apply Hn2. apply Hcons. exact H.
    - exact H.
    - exfalso. assert (Hin : In (length items) (rev (skipn split arr) ++ rev (firstn split arr) ++ []))
        by (apply Hlt2; exact H). apply Hcons in Hin. lia. }
  rewrite Hys1, Hys2.
  pose proof (seq_app_map (value_of items) 0 n1 n2 ltac:(lia) Hle) as Hsplit.
  rewrite <- Hsplit, Nat.sub_0_r, Hn2eq. apply map_value_seq.
Qed.

(* ---- sequential branch *)
Definition all_ok (items : list val) : Prop := forall v, In v items -> exists z, v = Ok z.

Lemma seq_each_transport items : seq_each false items = (items, None).
Proof.
  induction items as [|[v|e] r IH]; simpl; [reflexivity| |]; rewrite IH; reflexivity.
Qed.

Lemma seq_each_all_ok items : all_ok items -> seq_each true items = (items, None).
Proof.
  induction items as [|[v|e] r IH]; intros H; simpl; [reflexivity| |].
  - rewrite IH; [reflexivity|]. intros w Hw. apply H. right. exact Hw.
  - exfalso. destruct (H (Exc e) (or_introl eq_refl)) as [z Hz]. discriminate.
Qed.

(* raise mode, sequential: the results before the first failing item, then that item's exception *)
Lemma seq_each_first_exc pre e post :
  all_ok pre -> seq_each true (pre ++ Exc e :: post) = (pre, Some e).
Proof.
  induction pre as [|[v|x] r IH]; intros H; simpl; [reflexivity| |].
  - rewrite IH; [reflexivity|]. intros w Hw. apply H. right. exact Hw.
  - exfalso. destruct (H (Exc x) (or_introl eq_refl)) as [z Hz]. discriminate.
Qed.

(* ---- raise mode in the pool: the first *arriving* exception is raised, what was yielded before is a
   prefix of the input consisting of successful results only *)
Lemma get_results_exc_general (value : nat -> val) j e post : value j = Exc e ->
  forall arr consumed next p,
             Inv value consumed next p -> NoDup arr ->
             (forall i, In i arr -> ~ In i consumed) ->
             (forall i, In i arr -> exists v, value i = Ok v) ->
             ~ In j arr -> ~ In j consumed ->
             exists zs n' p',
               get_results true next p (map (fun i => (i, value i)) arr ++ (j, value j) :: map (fun i => (i, value i)) post)
               = (zs, n', p', Some e) /\ zs = map value (seq next (n' - next)) /\ next <= n' /\ n' <= j.
Proof.
  intros Hj. induction arr as [|i arr IH]; intros consumed next p HI Hnda Hnew Hok Hja Hjc.
    - simpl. rewrite Hj. exists [], next, p. split; [reflexivity|].
      rewrite Nat.sub_diag. split; [reflexivity|]. split; [lia|].
      destruct HI as (_ & _ & Hlt). destruct (le_lt_dec next j) as [H|H]; [exact H|].
      exfalso. apply Hjc, Hlt, H.
    - destruct HI as (HS & Hnn & Hlt).
      assert (Hic : ~ In i consumed) by (apply Hnew; left; reflexivity).
      assert (Hge : next <= i).
      { destruct (le_lt_dec next i) as [H|H]; [exact H|]. exfalso. apply Hic, Hlt, H. }
      inversion Hnda as [|? ? Hni Hnd']; subst.
      destruct (Hok i (or_introl eq_refl)) as [vi Hvi].
      assert (Hij : i <> j) by (intros ->; apply Hja; left; reflexivity).
      cbn [map app get_results]. rewrite Hvi.
      destruct (Nat.eqb i next) eqn:E.
      + apply Nat.eqb_eq in E. subst i.
        pose proof (pendspec_advance value _ _ _ HS Hnn) as HS1.
        destruct (drain_spec value (length p) (next :: consumed) (S next) p HS1 (le_n _))
          as (ys & n1 & p1 & Hd & HS2 & Hn1 & Hle1 & Hall1 & Hys).
        rewrite Hd.
        assert (HI1 : Inv value (next :: consumed) n1 p1).
        { split; [exact HS2|]. split; [exact Hn1|]. intros k Hk.
          destruct (lt_eq_lt_dec k next) as [[H|H]|H].
          - right. apply Hlt. exact H.
          - left. symmetry. exact H.
          - apply Hall1. lia. }
        destruct (IH (next :: consumed) n1 p1 HI1 Hnd') as (zs & n2 & p2 & Hg & Hzs & Hle2 & Hlej).
        { intros k Hk [He|Hc]; [subst; contradiction | exact (Hnew k (or_intror Hk) Hc)]. }
        { intros k Hk. apply Hok. right. exact Hk. }
        { intros H. apply Hja. right. exact H. }
        { intros [He|Hc]; [congruence | contradiction]. }
        rewrite Hg. exists (Ok vi :: ys ++ zs), n2, p2. split; [reflexivity|]. split.
        * replace (n2 - next) with (S (n2 - S next)) by lia. cbn [seq map]. rewrite Hvi. f_equal.
          rewrite (seq_app_map value (S next) n1 n2) by lia. rewrite Hys, Hzs. reflexivity.
        * split; [lia | exact Hlej].
      + apply Nat.eqb_neq in E.
        assert (HI1 : Inv value (i :: consumed) next (insert p i (Ok vi))).
        { split; [|split].
          - rewrite <- Hvi. apply pendspec_insert; assumption.
          - intros [He|Hc]; [lia | contradiction].
          - intros k Hk. right. apply Hlt. exact Hk. }
        destruct (IH (i :: consumed) next (insert p i (Ok vi)) HI1 Hnd') as (zs & n2 & p2 & Hg & Hzs & Hle2 & Hlej).
        { intros k Hk [He|Hc]; [subst; contradiction | exact (Hnew k (or_intror Hk) Hc)]. }
        { intros k Hk. apply Hok. right. exact Hk. }
        { intros H. apply Hja. right. exact H. }
        { intros [He|Hc]; [congruence | contradiction]. }
        rewrite Hg. exists zs, n2, p2. split; [reflexivity|]. split; [exact Hzs|]. split; [exact Hle2 | exact Hlej].
Qed.

Lemma inv_init (value : nat -> val) : Inv value [] 0 [].
Proof.
  split; [|split].
  - intros i. cbn [lookup memb existsb]. rewrite andb_false_r. reflexivity.
  - intros [].
  - intros i Hi. lia.
Qed.

Lemma map_value_seq_firstn items n : n <= length items ->
  map (value_of items) (seq 0 n) = firstn n items.
Proof.
  unfold value_of. revert n. induction items as [|x l IH]; intros n Hn.
  - simpl in Hn. replace n with 0 by lia. reflexivity.
  - destruct n as [|n]; [reflexivity|]. cbn [seq map nth firstn]. f_equal.
    rewrite <- seq_shift, map_map. apply IH. simpl in Hn. lia.
Qed.

(* raise mode with a failing item: for every completion order pre ++ j :: post in which j is the first
   failing item to complete, and every phase split, the caller receives an input-order prefix of
   successful results (not reaching j) and then exactly j's exception. *)
Lemma map_each_raise items pre j e post split :
  is_perm (pre ++ j :: post) (length items) ->
  value_of items j = Exc e ->
  (forall i, In i pre -> exists v, value_of items i = Ok v) ->
  exists k, k <= j /\
    map_each true (map (fun i => (i, value_of items i)) (pre ++ j :: post)) split
    = (firstn k items, Some e).
Proof.
  intros [Hnd Hall] Hj Hpre. unfold map_each.
  assert (Hjlt : j < length items) by (apply Hall; apply in_or_app; right; left; reflexivity).
  rewrite firstn_map, skipn_map.
  destruct (le_lt_dec split (length pre)) as [Hs|Hs].
  - (* the first phase ends before j arrives *)
    assert (Hf : firstn split (pre ++ j :: post) = firstn split pre).
    { rewrite firstn_app. replace (split - length pre) with 0 by lia. simpl. apply app_nil_r. }
    assert (Hk : skipn split (pre ++ j :: post) = skipn split pre ++ j :: post).
    { rewrite skipn_app. replace (split - length pre) with 0 by lia. reflexivity. }
    rewrite Hf, Hk.
    pose proof Hnd as Hnd0.
    rewrite <- (firstn_skipn split pre) in Hnd. rewrite <- app_assoc in Hnd.
    destruct (NoDup_app_inv _ _ Hnd) as (Hnd1 & Hnd2 & Hdisj).
    destruct (get_results_spec (value_of items) true (firstn split pre) [] 0 [] (inv_init _) Hnd1
                (fun _ _ H => H))
      as (ys1 & n1 & p1 & Hg1 & HI1 & _ & Hys1).
    { intros _ i Hi. apply Hpre. apply (In_firstn_or_skipn split). left. exact Hi. }
    rewrite Hg1.
    assert (Hlen : length ys1 = n1) by (rewrite Hys1, map_length, seq_length; lia).
    rewrite Hlen, map_app. cbn [map].
    destruct (NoDup_app_inv _ _ Hnd2) as (Hnd3 & Hnd4 & Hdisj2).
    destruct (get_results_exc_general (value_of items) j e post Hj (skipn split pre)
                (rev (firstn split pre) ++ []) n1 p1 HI1 Hnd3)
      as (zs & n2 & p2 & Hg2 & Hzs & Hle & Hlej).
    { intros i Hi Hin. rewrite app_nil_r in Hin. apply in_rev in Hin.
      apply (Hdisj i); [apply in_or_app; left; exact Hi | exact Hin]. }
    { intros i Hi. apply Hpre. apply (In_firstn_or_skipn split). right. exact Hi. }
    { intros Hin. apply (Hdisj2 j); [left; reflexivity | exact Hin]. }
    { intros Hin. rewrite app_nil_r in Hin. apply in_rev in Hin.
      apply (Hdisj j); [apply in_or_app; right; left; reflexivity | exact Hin]. }
    rewrite Hg2. exists n2. split; [exact Hlej|]. f_equal.
    rewrite Hys1, Hzs. rewrite <- (seq_app_map (value_of items) 0 n1 n2) by lia.
    rewrite Nat.sub_0_r. apply map_value_seq_firstn. lia.
  - (* j arrives during the first phase *)
    assert (Hf : firstn split (pre ++ j :: post) = pre ++ j :: firstn (split - length pre - 1) post).
    { rewrite firstn_app. rewrite (firstn_all2 (n := split)) by lia.
      destruct (split - length pre) as [|m] eqn:E; [lia|]. cbn [firstn].
      replace (S m - 1) with m by lia. reflexivity. }
    rewrite Hf, map_app. cbn [map].
    destruct (NoDup_app_inv _ _ Hnd) as (Hnd1 & Hnd2 & Hdisj).
    destruct (get_results_exc_general (value_of items) j e (firstn (split - length pre - 1) post) Hj pre
                [] 0 [] (inv_init _) Hnd1 (fun _ _ H => H) Hpre)
      as (zs & n2 & p2 & Hg2 & Hzs & Hle & Hlej).
    { intros Hin. apply (Hdisj j); [left; reflexivity | exact Hin]. }
    { intros []. }
    rewrite Hg2. exists n2. split; [exact Hlej|]. f_equal.
    rewrite Hzs, Nat.sub_0_r. apply map_value_seq_firstn. lia.
Qed.

(* ---- the public entry point *)
Lemma imap_result_objects pool_size items arr split :
  is_perm arr (length items) ->
  imap pool_size true items arr split = (items, None).
Proof.
  intros Hp. unfold imap.
  assert (Hgen : (if Nat.ltb pool_size 2 then seq_each (negb true) items
                  else map_each (negb true) (map (fun i => (i, value_of items i)) arr) split) = (items, None)).
  { destruct (Nat.ltb pool_size 2); cbn [negb].
    - apply seq_each_transport.
    - apply map_each_all; [exact Hp | discriminate]. }
  destruct items as [|v [|w r]]; try exact Hgen.
  destruct v; reflexivity.
Qed.

Lemma all_ok_value items : all_ok items -> forall i, i < length items -> exists v, value_of items i = Ok v.
Proof. intros H i Hi. apply H. unfold value_of. apply nth_In. exact Hi. Qed.

Lemma imap_raise_all_ok pool_size items arr split :
  is_perm arr (length items) -> all_ok items ->
  imap pool_size false items arr split = (items, None).
Proof.
  intros Hp Hok. unfold imap.
  assert (Hgen : (if Nat.ltb pool_size 2 then seq_each (negb false) items
                  else map_each (negb false) (map (fun i => (i, value_of items i)) arr) split) = (items, None)).
  { destruct (Nat.ltb pool_size 2); cbn [negb].
    - apply seq_each_all_ok. exact Hok.
    - apply map_each_all; [exact Hp|]. intros _ i Hi. apply all_ok_value; [exact Hok|].
      apply Hp. exact Hi. }
  destruct items as [|v [|w r]]; try exact Hgen.
  destruct (Hok v (or_introl eq_refl)) as [z ->]. reflexivity.
Qed.

(* raise mode, pool of at least two workers, at least two items *)
Lemma imap_raise_first_arriving pool_size items pre j e post split :
  2 <= pool_size -> 2 <= length items ->
  is_perm (pre ++ j :: post) (length items) ->
  value_of items j = Exc e ->
  (forall i, In i pre -> exists v, value_of items i = Ok v) ->
  exists k, k <= j /\ imap pool_size false items (pre ++ j :: post) split = (firstn k items, Some e).
Proof.
  intros Hps Hlen Hp Hj Hpre. unfold imap.
  replace (Nat.ltb pool_size 2) with false by (symmetry; apply Nat.ltb_ge; exact Hps).
  destruct items as [|v [|w r]]; try (simpl in Hlen; lia).
  cbn [negb]. apply map_each_raise; assumption.
Qed.

(* raise mode without a pool (size < 2, or a single item): the exception of the first failing input *)
Lemma imap_raise_sequential pool_size pre e post arr split :
  pool_size < 2 \/ length (pre ++ Exc e :: post) = 1 ->
  all_ok pre ->
  imap pool_size false (pre ++ Exc e :: post) arr split = (pre, Some e).
Proof.
  intros Hps Hok. unfold imap.
  destruct (pre ++ Exc e :: post) as [|v [|w r]] eqn:E.
  - destruct pre; discriminate.
  - destruct pre as [|x pre]; [|destruct pre; discriminate].
    injection E as <- _. reflexivity.
  - destruct Hps as [Hps|Hps]; [|simpl in Hps; lia].
    replace (Nat.ltb pool_size 2) with true by (symmetry; apply Nat.ltb_lt; exact Hps).
    cbn [negb]. rewrite <- E. apply seq_each_first_exc. exact Hok.
Qed.

(* non-vacuity *)
Example perm_example : is_perm [2; 0; 3; 1] 4.
Proof.
  split.
  - repeat constructor; simpl; intuition lia.
  - intros i. simpl. lia.
Qed.

Example imap_example :
  imap 3 false [Ok 10; Ok 11; Exc 7; Exc 8]%Z ([0] ++ 3 :: [1; 2]) 2 = (firstn 1 [Ok 10; Ok 11; Exc 7; Exc 8]%Z, Some 8%Z).
Proof. vm_compute. reflexivity. Qed.
