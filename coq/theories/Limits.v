(* C16  Invalid or oversized requests are refused before they cost anything.
   Control-flow model of the request paths that can reach a tile cache or an upstream server:
     TileServer.map (TMS and /tiles), KMLServer.map, WMTSServer.tile / featureinfo (KVP and REST),
     TileLayer.render / _internal_tile_coord / checked_dimensions, TileServiceGrid.internal_tile_coord,
     WMSServer.check_map_request, CacheMapLayer.get_map / _check_tiled / _image (incl. WMS-C tiled=true),
     TileManager.load_tile_coords / TileCreator (single tiles and meta tiles without buffer).
   Every function returns (answer, effects); effects = the cache and upstream operations of the request.
   Formats, dimension names and dimension values are small integers (the harness numbers the strings; value
   id 0 is the literal "default"); an address component is None when its text is not a decimal integer.
   The grid arithmetic is Grid.v (exact integers).  No proofs here. *)
From Coq Require Import ZArith List Bool.
Import ListNotations.
From MP Require Import Grid.
Local Open Scope Z_scope.

Definition coord := (Z * Z * Z)%type.

Inductive effect :=
| ERead (c : coord)                 (* cache load_tile(s) of a requested tile *)
| EProbe (c : coord)                (* cache is_cached probe *)
| EStore (c : coord)                (* cache write *)
| EUp (b : bbox) (w h : Z)          (* upstream GetMap *)
| EInfo (b : bbox) (i j : Z).       (* upstream GetFeatureInfo *)

Inductive err :=
| BadRequest          (* path / parameters do not parse (RequestError "invalid request") *)
| Internal            (* int() of a non-numeric KVP value: uncaught ValueError, answered 500 *)
| UnknownLayer
| UnknownMatrixSet
| UnknownInfoFormat
| InvalidFormat
| OutOfRange
| InvalidDimension
| NotQueryable
| TooLarge            (* check_map_request: more pixels than max_output_pixels *)
| TooManyTiles        (* _image: num_tiles >= max_tile_limit *)
| InvalidBBox         (* GridError *)
| BadTileFormat       (* _check_tiled *)
| BadTileSize         (* _check_tiled *)
| NotSingleTile
| NotAligned.

Inductive answer := Ok | Err (e : err).

Record layer := mkLayer {
  lg : grid;
  lfmt : Z;                              (* the format of the cache (png = 1; any other id for jpeg, mixed, ...) *)
  ldims : list (Z * (list Z * Z));       (* dimension -> (offered values, default value) *)
  lmx : Z; lmy : Z;                      (* meta_size (meta_buffer = 0) *)
  lskip_first : bool; lskip_odd : bool;  (* TileServiceGrid._skip_first_level / _skip_odd_level *)
  lqueryable : bool;                     (* has info_sources *)
  lmax_tiles : option Z;                 (* max_tile_limit (None or 0: no limit) *)
  lmixed : bool;                         (* cache `format: mixed` (request_format image/png) *)
  lminimize : bool;                      (* cache `minimize_meta_requests: true` *)
  lbuf : Z                               (* meta_buffer in pixels (0: none) *)
}.

(* TileLayer.format / format_mime_type: a layer on a mixed cache offers image/png and nothing else (the stored tile
   may be png or jpeg, the answer type is sniffed from the tile); the format of its tile manager stays "mixed", so
   WMS-C (tiled=true) requests for png or jpeg are refused by _check_tiled *)
Definition fmt_png : Z := 1.
Definition offered_format (ly : layer) : Z := if lmixed ly then fmt_png else lfmt ly.

Definition coord_in (c : coord) (l : list coord) : bool := existsb (coord_eqb c) l.
Definition zin (v : Z) (l : list Z) : bool := existsb (Z.eqb v) l.

(* ---- TileManager.load_tile_coords with a live source: `cached` = the tiles present (and fresh) in the cache *)

(* MetaGrid._meta_size *)
Definition meta_size (ly : layer) (l : Z) : Z * Z :=
  let '(nx, ny) := grid_size (lg ly) l in (Z.min (lmx ly) nx, Z.min (lmy ly) ny).

(* MetaGrid.main_tile *)
Definition main_tile (ly : layer) (c : coord) : coord :=
  let '(x, y, l) := c in
  let '(mx, my) := meta_size ly l in (x / mx * mx, y / my * my, l).

(* MetaGrid._meta_tile_list: the tiles of the meta tile, None outside the grid *)
Definition meta_members (ly : layer) (m : coord) : list (option coord) :=
  let '(x0, y0, l) := m in
  let '(mx, my) := meta_size ly l in
  let xs := zrange x0 (x0 + mx - 1) in
  let ys := if ul (lg ly) then zrange y0 (y0 + my - 1) else rev (zrange y0 (y0 + my - 1)) in
  create_tile_list xs ys l (grid_size (lg ly) l).

(* MetaGrid.unbuffered_meta_bbox *)
Definition meta_bbox (ly : layer) (m : coord) : bbox :=
  let '(x0, y0, l) := m in
  let '(mx, my) := meta_size ly l in
  merge_bbox (tile_bbox (lg ly) x0 y0 l) (tile_bbox (lg ly) (x0 + mx - 1) (y0 + my - 1) l).

(* Python round(n / d) for d > 0: to the nearest integer, halves to the even one *)
Definition round_half_even (n d : Z) : Z :=
  let q := n / d in
  let r := n mod d in
  if 2 * r <? d then q else if d <? 2 * r then q + 1 else if Z.even q then q else q + 1.

(* MetaGrid._buffered_bbox (limit_to_grid_bbox): meta_buffer pixels are added on every side, then the box is cut
   down to the grid bbox; without a buffer the box is left as it is (it may reach over the grid bbox) *)
Definition buffered_bbox (ly : layer) (l : Z) (b : bbox) : bbox :=
  if lbuf ly <=? 0 then b
  else
    let d := lbuf ly * res_at (lg ly) l in
    let '(x0, y0, x1, y1) := b in
    (Z.max (gx0 (lg ly)) (x0 - d), Z.max (gy0 (lg ly)) (y0 - d), Z.min (gx1 (lg ly)) (x1 + d), Z.min (gy1 (lg ly)) (y1 + d)).

(* MetaGrid._size_from_buffered_bbox *)
Definition bbox_px (ly : layer) (l : Z) (b : bbox) : Z * Z :=
  let '(x0, y0, x1, y1) := b in
  (round_half_even (x1 - x0) (res_at (lg ly) l), round_half_even (y1 - y0) (res_at (lg ly) l)).

Fixpoint somes {A} (l : list (option A)) : list A :=
  match l with
  | [] => []
  | Some a :: r => a :: somes r
  | None :: r => somes r
  end.

Fixpoint dedup_coords (l : list coord) : list coord :=
  match l with
  | [] => []
  | c :: r => if coord_in c r then dedup_coords r else c :: dedup_coords r
  end.

Definition cx (c : coord) : Z := fst (fst c).
Definition cy (c : coord) : Z := snd (fst c).
Definition cl (c : coord) : Z := snd c.

(* the upstream request for the (meta) tile block ub of level l *)
Definition up_request (ly : layer) (l : Z) (ub : bbox) : effect :=
  let bb := buffered_bbox ly l ub in
  let '(w, h) := bbox_px ly l bb in EUp bb w h.

(* one meta tile: upstream request for its buffered bbox, store of every member inside the grid *)
Definition create_meta (ly : layer) (m : coord) : list effect :=
  let mem := somes (meta_members ly m) in
  map EProbe mem ++ [up_request ly (cl m) (meta_bbox ly m)] ++ map EStore mem.

(* MetaGrid.minimal_meta_tile + TileCreator._create_meta_tile (minimize_meta_requests, more than one missing tile):
   one upstream request for the bounding block of the missing tiles (level of the last one, as _full_tile_list
   takes it), every tile of the block is stored *)
Definition minimal_meta (ly : layer) (missing : list coord) : list effect :=
  match rev missing with
  | [] => []
  | c0 :: _ =>
    let z := cl c0 in
    let minx := fold_right Z.min (cx c0) (map cx missing) in
    let maxx := fold_right Z.max (cx c0) (map cx missing) in
    let miny := fold_right Z.min (cy c0) (map cy missing) in
    let maxy := fold_right Z.max (cy c0) (map cy missing) in
    let xs := zrange minx maxx in
    let ys := if ul (lg ly) then zrange miny maxy else rev (zrange miny maxy) in
    let mem := somes (create_tile_list xs ys z (maxx + 1, maxy + 1)) in
    map EProbe mem ++
    [up_request ly z (merge_bbox (tile_bbox (lg ly) minx miny z) (tile_bbox (lg ly) maxx maxy z))] ++
    map EStore mem
  end.

(* TileCreator.create_tiles: no meta grid (meta_size 1x1 and no meta_buffer) -> single tiles; minimize_meta_requests and
   more than one missing tile -> one minimal meta tile; else one request per distinct meta tile *)
Definition has_meta_grid (ly : layer) : bool := (0 <? lbuf ly) || negb ((lmx ly =? 1) && (lmy ly =? 1)).

Definition load_tile_coords (ly : layer) (cached : list coord) (cs : list (option coord)) : list effect :=
  let req := somes cs in
  let missing := filter (fun c => negb (coord_in c cached)) req in
  let metas := dedup_coords (map (main_tile ly) missing) in
  map ERead req ++ map EProbe req ++
  (if has_meta_grid ly && lminimize ly && (1 <? Z.of_nat (length missing)) then minimal_meta ly missing
   else flat_map (create_meta ly) metas).

(* ---- TileServiceGrid.internal_tile_coord *)
(* how a service reads the public level: (use_profiles, all_levels).  TMS counts the levels of a global profile
   from the second one; WMTS (all four request kinds, all_levels = True) addresses every level of the grid, the
   other services see every second level of a sqrt2 grid *)
Definition level_mode := (bool * bool)%type.
Definition mode_tms : level_mode := (true, false).
Definition mode_plain : level_mode := (false, false).
Definition mode_wmts : level_mode := (false, true).

Definition internal_level (ly : layer) (use_profiles : level_mode) (z : Z) : Z :=
  let z1 := if fst use_profiles && lskip_first ly then z + 1 else z in
  if lskip_odd ly && negb (snd use_profiles) then z1 * 2 else z1.

Definition internal_tile_coord (ly : layer) (use_profiles : level_mode) (x y z : Z) : option coord :=
  if z <? 0 then None else limit_tile (lg ly) x y (internal_level ly use_profiles z).

(* TileLayer._internal_tile_coord: request origin None / Some false = 'sw' / Some true = 'nw' *)
Definition request_tile_coord (ly : layer) (use_profiles : level_mode) (origin : option bool) (x y z : Z) : option coord :=
  match internal_tile_coord ly use_profiles x y z with
  | None => None
  | Some (x', y', l) =>
    match origin with
    | Some true => if negb (ul (lg ly)) then Some (flip_tile_coord (lg ly) x' y' l) else Some (x', y', l)
    | Some false => if ul (lg ly) then Some (flip_tile_coord (lg ly) x' y' l) else Some (x', y', l)
    | None => Some (x', y', l)
    end
  end.

(* TileLayer.checked_dimensions: requested value None = absent or empty, Some 0 = "default" *)
Fixpoint lookup {A} (k : Z) (l : list (Z * A)) : option A :=
  match l with
  | [] => None
  | (k', v) :: r => if k =? k' then Some v else lookup k r
  end.

Definition dimension_ok (rdims : list (Z * Z)) (d : Z * (list Z * Z)) : bool :=
  let '(name, (vals, _)) := d in
  match lookup name rdims with
  | None => true
  | Some v => zin v vals || (v =? 0)
  end.
Definition dimensions_ok (ly : layer) (rdims : list (Z * Z)) : bool := forallb (dimension_ok rdims) (ldims ly).

(* TileLayer.render *)
Definition render (ly : layer) (cached : list coord) (use_profiles : level_mode) (origin : option bool)
           (fmt : Z) (rdims : list (Z * Z)) (x y z : Z) : answer * list effect :=
  if negb (fmt =? offered_format ly) then (Err InvalidFormat, [])
  else match request_tile_coord ly use_profiles origin x y z with
       | None => (Err OutOfRange, [])
       | Some c =>
         if negb (dimensions_ok ly rdims) then (Err InvalidDimension, [])
         else (Ok, load_tile_coords ly cached [Some c])
       end.

(* ---- the tile services *)
Inductive svc := TMS | Tiles | KML | WmtsKvp | WmtsRest | WmtsKvpFI | WmtsRestFI.

Record treq := mkReq {
  rsvc : svc;
  rx : option Z; ry : option Z; rz : option Z;   (* None: the text is not of the form -?[0-9]+ *)
  rfmt : option Z;                               (* None: absent (WMTS) *)
  rorigin : option bool;                         (* /tiles only: ?origin=nw (Some true), sw (Some false) *)
  rdims : list (Z * Z);
  rlayer_ok : bool; rset_ok : bool; rinfo_ok : bool;
  ri : Z; rj : Z
}.

Definition featureinfo (ly : layer) (origin : option bool) (q : treq) (x y z : Z) : answer * list effect :=
  match request_tile_coord ly mode_wmts origin x y z with
  | None => (Err OutOfRange, [])
  | Some (x', y', l) =>
    if negb (dimensions_ok ly (rdims q)) then (Err InvalidDimension, [])   (* checked_dimensions, as GetTile *)
    else if negb (lqueryable ly) then (Err NotQueryable, [])
    else (Ok, [EInfo (tile_bbox (lg ly) x' y' l) (ri q) (rj q)])
  end.

(* wmts_layer_ok: the layer is offered by WMTS at all (grid.supports_access_with_origin('nw')) *)
Definition wmts_layer_ok (ly : layer) : bool := supports_access_with_origin (lg ly) true.

Definition serve_tile (ly : layer) (cached : list coord) (q : treq) : answer * list effect :=
  match rsvc q with
  | TMS | Tiles | KML =>
    match rx q, ry q, rz q, rfmt q with
    | Some x, Some y, Some z, Some f =>
      if negb (rlayer_ok q && rset_ok q) then (Err UnknownLayer, [])   (* layers are keyed (layer, grid name) *)
      else match rsvc q with
           | TMS => render ly cached mode_tms (Some false) f [] x y z
           | Tiles => render ly cached mode_plain (rorigin q) f [] x y z
           | _ => render ly cached mode_plain (Some false) f [] x y z
           end
    | _, _, _, _ => (Err BadRequest, [])
    end
  | WmtsKvp | WmtsKvpFI =>
    match rfmt q with
    | None => (Err BadRequest, [])                 (* request validation: "missing parameters" *)
    | Some f =>
      match rx q, ry q, rz q with
      | Some x, Some y, Some z =>
        if negb (rlayer_ok q && wmts_layer_ok ly) then (Err UnknownLayer, [])
        else if negb (rset_ok q) then (Err UnknownMatrixSet, [])
        else match rsvc q with
             | WmtsKvp => render ly cached mode_wmts (Some true) f (rdims q) x y z
             | _ => if negb (rinfo_ok q) then (Err UnknownInfoFormat, [])
                    else featureinfo ly (Some true) q x y z
             end
      | _, _, _ => (Err Internal, [])
      end
    end
  | WmtsRest | WmtsRestFI =>
    match rx q, ry q, rz q with
    | Some x, Some y, Some z =>
      if z <? 0 then (Err BadRequest, [])          (* TileMatrix must match [0-9]+ *)
      else if negb (rlayer_ok q && wmts_layer_ok ly) then (Err UnknownLayer, [])
      else if negb (rset_ok q) then (Err UnknownMatrixSet, [])
      else match rsvc q with
           | WmtsRest => render ly cached mode_wmts (Some true)
                                (match rfmt q with Some f => f | None => offered_format ly end) (rdims q) x y z
           | _ => if negb (rinfo_ok q) then (Err UnknownInfoFormat, [])
                  else featureinfo ly (Some true) q x y z
           end
    | _, _, _ => (Err BadRequest, [])
    end
  end.

(* ---- WMS GetMap on a cached layer (request SRS = grid SRS) *)
Record mreq := mkMap {
  mb : bbox; mw : Z; mh : Z;
  mfmt : Z;                   (* requested image format *)
  mtiled : bool               (* tiled=true (WMS-C) *)
}.

(* bbox_equals(bbox, src_bbox, |w/sx/10|, |h/sy/10|) - the x tolerance is applied to the first two values
   and the y tolerance to the last two, as in the code *)
Definition tiled_aligned (q : mreq) (src : bbox) : bool :=
  let '(b0, b1, b2, b3) := mb q in
  let '(s0, s1, s2, s3) := src in
  (Z.abs (b0 - s0) * (mw q * 10) <? Z.abs (b2 - b0)) &&
  (Z.abs (b1 - s1) * (mw q * 10) <? Z.abs (b2 - b0)) &&
  (Z.abs (b2 - s2) * (mh q * 10) <? Z.abs (b3 - b1)) &&
  (Z.abs (b3 - s3) * (mh q * 10) <? Z.abs (b3 - b1)).

Definition over_tile_limit (ly : layer) (n : Z) : bool :=
  match lmax_tiles ly with
  | Some m => negb (m =? 0) && (m <=? n)
  | None => false
  end.

(* CacheMapLayer._image *)
Definition cache_image (ly : layer) (cached : list coord) (q : mreq) : answer * list effect :=
  if negb (bbox_intersects (gx0 (lg ly), gy0 (lg ly), gx1 (lg ly), gy1 (lg ly)) (mb q)) then (Ok, [])   (* NoTiles *)
  else if (mw q =? 0) || (mh q =? 0) then (Err Internal, [])     (* get_resolution divides by the size: uncaught, 500 *)
  else
  match affected_level (lg ly) (mb q) (mw q) (mh q) with
  | None => (Ok, [])                                   (* NoTiles -> blank image *)
  | Some l =>
    match affected_level_tiles (lg ly) (mb q) l with
    | InvalidBBOX => (Err InvalidBBox, [])
    | Affected src nx ny tiles =>
      if over_tile_limit ly (nx * ny) then (Err TooManyTiles, [])
      else if mtiled q && (1 <? nx * ny) then (Err NotSingleTile, [])
      else if mtiled q && negb (tiled_aligned q src) then (Err NotAligned, [])
      else (Ok, load_tile_coords ly cached tiles)
    end
  end.

(* WMSServer.check_map_request (pixel limit; max_pixels None or 0: no limit) + CacheMapLayer.get_map *)
Definition over_pixel_limit (max_pixels : option Z) (q : mreq) : bool :=
  match max_pixels with
  | Some m => negb (m =? 0) && (m <? mw q * mh q)
  | None => false
  end.

(* grid.bbox_contains(extent, bbox): tolerance |extent width| / 10e12 *)
Definition ten13 : Z := 10000000000000.
Definition extent_contains (e b : bbox) : bool :=
  let '(a0, a1, a2, a3) := e in
  let '(b0, b1, b2, b3) := b in
  (a0 * ten13 <=? b0 * ten13 + Z.abs (a2 - a0)) && (b2 * ten13 - Z.abs (a2 - a0) <=? a2 * ten13) &&
  (a1 * ten13 <=? b1 * ten13 + Z.abs (a3 - a1)) && (b3 * ten13 - Z.abs (a3 - a1) <=? a3 * ten13).

(* image.bbox_position_in_image(bbox, size, extent): size and bbox of the part of the request inside the extent
   (int() of the pixel position = truncation) *)
Definition clip_to_extent (e : bbox) (q : mreq) : mreq :=
  let '(e0, e1, e2, e3) := e in
  let '(b0, b1, b2, b3) := mb q in
  let px := fun X => Z.quot ((X - b0) * mw q) (b2 - b0) in
  let py := fun Y => Z.quot ((b3 - Y) * mh q) (b3 - b1) in
  let '(s0, o0) := if b0 <? e0 then (e0, px e0) else (b0, 0) in
  let '(s1, o1) := if b1 <? e1 then (e1, py e1) else (b1, mh q) in
  let '(s2, o2) := if e2 <? b2 then (e2, px e2) else (b2, mw q) in
  let '(s3, o3) := if e3 <? b3 then (e3, py e3) else (b3, 0) in
  mkMap (s0, s1, s2, s3) (Z.abs (o2 - o0)) (Z.abs (o1 - o3)) (mfmt q) (mtiled q).

Definition layer_extent (ly : layer) : bbox := (gx0 (lg ly), gy0 (lg ly), gx1 (lg ly), gy1 (lg ly)).

(* CacheMapLayer.get_map: the query that reaches _image (None: BlankImage, nothing is loaded) *)
Definition effective_query (ly : layer) (q : mreq) : option mreq :=
  if mtiled q then Some q
  else if extent_contains (layer_extent ly) (mb q) then Some q
  else if negb (bbox_intersects (layer_extent ly) (mb q)) then None
  else
    let q' := clip_to_extent (layer_extent ly) q in
    if (mw q' =? 0) || (mh q' =? 0) then None else Some q'.

(* number of tiles of the tile grid that _image computes for a query (None: no tiles / invalid bbox) *)
Definition tile_count (ly : layer) (q : mreq) : option Z :=
  if (mw q =? 0) || (mh q =? 0) then None else
  match affected_level (lg ly) (mb q) (mw q) (mh q) with
  | None => None
  | Some l =>
    match affected_level_tiles (lg ly) (mb q) l with
    | InvalidBBOX => None
    | Affected _ nx ny _ => Some (nx * ny)
    end
  end.

(* src_bbox of get_affected_tiles for the query that reaches _image: the rectangle of the affected tiles (of the one
   tile a tiled=true request addresses) *)
Definition tile_source (ly : layer) (q : mreq) : option bbox :=
  if (mw q =? 0) || (mh q =? 0) then None else
  match affected_level (lg ly) (mb q) (mw q) (mh q) with
  | None => None
  | Some l =>
    match affected_level_tiles (lg ly) (mb q) l with
    | InvalidBBOX => None
    | Affected src _ _ _ => Some src
    end
  end.

(* CacheMapLayer.get_map on the query that WMSServer.map hands to the layer *)
Definition layer_map (ly : layer) (cached : list coord) (q : mreq) : answer * list effect :=
  if mtiled q && negb (mfmt q =? lfmt ly) then (Err BadTileFormat, [])   (* _check_tiled compares with the tile manager format: "mixed" for a mixed cache *)
  else if mtiled q && negb ((mw q =? tw (lg ly)) && (mh q =? th (lg ly))) then (Err BadTileSize, [])
  else match effective_query ly q with
       | None => (Ok, [])
       | Some q' => cache_image ly cached q'
       end.

(* WMSServer.map: a request reaching beyond the extent configured for its SRS (services.wms.bbox_srs with an
   explicit bbox; se = None: no such extent) is cut down to that extent; the new query is a plain one (the
   tiled=true flag is not carried over); None: nothing of the request lies inside, a blank image is answered *)
Definition srs_limited (se : option bbox) (q : mreq) : option mreq :=
  match se with
  | None => Some q
  | Some e =>
    if extent_contains e (mb q) then Some q
    else if negb (bbox_intersects e (mb q)) then None
    else let q' := clip_to_extent e q in Some (mkMap (mb q') (mw q') (mh q') (mfmt q') false)
  end.

(* WMSServer.check_map_request (the pixel limit is checked first, on the requested size) + WMSServer.map *)
Definition serve_map (max_pixels : option Z) (se : option bbox) (ly : layer) (cached : list coord) (q : mreq)
  : answer * list effect :=
  if over_pixel_limit max_pixels q then (Err TooLarge, [])
  else match srs_limited se q with
       | None => (Ok, [])
       | Some q1 => layer_map ly cached q1
       end.

(* WMS GetMap on a layer that is backed directly by a WMS source (no cache: DirectMapLayer): the query - cut down
   to the SRS extent - is forwarded as it is; the tiled flag means nothing to such a layer, so the pixel limit of
   check_map_request is the only bound on its size.  (Queries with a non-zero size.) *)
Definition serve_direct (max_pixels : option Z) (se : option bbox) (q : mreq) : answer * list effect :=
  if over_pixel_limit max_pixels q then (Err TooLarge, [])
  else match srs_limited se q with
       | None => (Ok, [])
       | Some q1 => (Ok, [EUp (mb q1) (mw q1) (mh q1)])
       end.

(* ---- comparison helpers for the correspondence: effects are compared as sets per class, upstream requests
   and stores also by number *)
Definition effect_eqb (tol : Z) (a b : effect) : bool :=
  match a, b with
  | ERead c, ERead d => coord_eqb c d
  | EProbe c, EProbe d => coord_eqb c d
  | EStore c, EStore d => coord_eqb c d
  | EUp b1 w1 h1, EUp b2 w2 h2 => bbox_close tol b1 b2 && (w1 =? w2) && (h1 =? h2)
  | EInfo b1 i1 j1, EInfo b2 i2 j2 => bbox_close tol b1 b2 && (i1 =? i2) && (j1 =? j2)
  | _, _ => false
  end.

Definition is_probe (e : effect) : bool := match e with EProbe _ => true | _ => false end.
Definition subset (tol : Z) (a b : list effect) : bool := forallb (fun e => existsb (effect_eqb tol e) b) a.
Definition err_eqb (a b : err) : bool :=
  match a, b with
  | BadRequest, BadRequest | Internal, Internal | UnknownLayer, UnknownLayer | UnknownMatrixSet, UnknownMatrixSet
  | UnknownInfoFormat, UnknownInfoFormat | InvalidFormat, InvalidFormat | OutOfRange, OutOfRange
  | InvalidDimension, InvalidDimension | NotQueryable, NotQueryable | TooLarge, TooLarge
  | TooManyTiles, TooManyTiles | InvalidBBox, InvalidBBox | BadTileFormat, BadTileFormat
  | BadTileSize, BadTileSize | NotSingleTile, NotSingleTile | NotAligned, NotAligned => true
  | _, _ => false
  end.
Definition answer_eqb (a b : answer) : bool :=
  match a, b with
  | Ok, Ok => true
  | Err x, Err y => err_eqb x y
  | _, _ => false
  end.

(* model result vs observation: same answer; loads, upstream requests and stores agree as sets and in number;
   every observed is_cached probe is one the model lists (the code stops probing a meta tile at the first
   uncached member) *)
Definition result_matches (tol : Z) (model obs : answer * list effect) : bool :=
  let '(ma, me) := model in
  let '(oa, oe) := obs in
  let mw' := filter (fun e => negb (is_probe e)) me in
  let ow := filter (fun e => negb (is_probe e)) oe in
  answer_eqb ma oa && subset tol mw' ow && subset tol ow mw' && (Z.of_nat (length mw') =? Z.of_nat (length ow))
  && subset tol (filter is_probe oe) me.
