(* C05  The batching of the sqlite bulk load (MBTilesCache.load_tiles / GeopackageCache.load_tiles), proved for the
   constants extracted from the source (gen/Gen_sqlbatch.v): every requested coordinate is bound in exactly one
   SELECT, every SELECT binds whole (x, y, level) triples and at most 999 values. *)
From Coq Require Import ZArith NArith List Bool Arith Lia.
Import ListNotations.
From MP Require Import Base Gen_sqlbatch CacheMap SqlCache.

Definition tri (c : coord) : list Z := sel [0%Z; 1%Z; 2%Z] c.

Lemma tri_length : forall c, length (tri c) = 3.
Proof. intros [[x y] l]. reflexivity. Qed.

Lemma firstn_flat_tri : forall k cs, firstn (3 * k) (flat_map tri cs) = flat_map tri (firstn k cs).
Proof.
  induction k as [|k IH]; intros cs; [reflexivity|].
  destruct cs as [|[[x y] l] cs]; [reflexivity|].
  replace (3 * S k) with (S (S (S (3 * k)))) by lia. cbn [flat_map firstn tri sel map csel1 app Z.eqb].
  cbn. f_equal. f_equal. f_equal. apply IH.
Qed.

Lemma skipn_flat_tri : forall k cs, skipn (3 * k) (flat_map tri cs) = flat_map tri (skipn k cs).
Proof.
  induction k as [|k IH]; intros cs; [reflexivity|].
  destruct cs as [|[[x y] l] cs]; [reflexivity|].
  replace (3 * S k) with (S (S (S (3 * k)))) by lia. cbn. apply IH.
Qed.

(* the request cut into parts of k tiles *)
Fixpoint parts (fuel k : nat) (cs : list coord) : list (list coord) :=
  match cs with
  | [] => []
  | _ :: _ => match fuel with O => [] | S f => firstn k cs :: parts f k (skipn k cs) end
  end.

Lemma parts_concat : forall fuel k cs, 0 < k -> length cs <= fuel -> concat (parts fuel k cs) = cs.
Proof.
  induction fuel as [|f IH]; intros k cs Hk H.
  - destruct cs; [reflexivity | cbn in H; lia].
  - destruct cs as [|c cs]; [reflexivity|]. cbn [parts concat].
    rewrite IH; [apply firstn_skipn | exact Hk |].
    rewrite skipn_length. cbn [length] in *. lia.
Qed.

Lemma parts_sizes : forall fuel k cs, 0 < k -> Forall (fun p => 0 < length p <= k) (parts fuel k cs).
Proof.
  induction fuel as [|f IH]; intros k cs Hk; destruct cs as [|c cs]; cbn [parts]; try constructor.
  - rewrite firstn_length. cbn [length]. lia.
  - apply IH. exact Hk.
Qed.

Lemma flat_tri_nil : forall cs, flat_map tri cs = [] -> cs = [].
Proof. intros [|[[x y] l] cs] E; [reflexivity | discriminate]. Qed.

Lemma batches_flat : forall fuel k cs, 0 < k -> length cs < fuel ->
  batches fuel (3 * k) (3 * k) (flat_map tri cs) = Some (map (flat_map tri) (parts fuel k cs)).
Proof.
  induction fuel as [|f IH]; intros k cs Hk H; [lia|].
  destruct cs as [|c cs]; [reflexivity|].
  assert (N : exists h t, flat_map tri (c :: cs) = h :: t) by (destruct c as [[x y] l]; eexists; eexists; reflexivity).
  destruct N as [h [t N]]. cbn [batches]. rewrite N, <- N.
  rewrite skipn_flat_tri, firstn_flat_tri. rewrite IH.
  - reflexivity.
  - exact Hk.
  - rewrite skipn_length. cbn [length] in *. lia.
Qed.

(* for the extracted constants *)
Definition good_params (p : bparams) : Prop :=
  bp_take p = bp_drop p /\ bp_take p = (3 * 333)%Z /\ bp_group p = 3%Z /\
  bp_app p = [0; 1; 2]%Z /\ bp_dkey p = [0; 1; 2]%Z /\ bp_rkey p = [0; 1; 2]%Z.

Lemma mbtiles_params_good : good_params mbtiles_params.
Proof. repeat split. Qed.
Lemma gpkg_params_good : good_params gpkg_params.
Proof. repeat split. Qed.

Theorem batching_complete : forall p cs, good_params p ->
  exists ps,
    batches (S (length (flat_map (sel (bp_app p)) cs))) (Z.to_nat (bp_take p)) (Z.to_nat (bp_drop p))
            (flat_map (sel (bp_app p)) cs) = Some (map (flat_map (sel [0; 1; 2]%Z)) ps) /\
    concat ps = cs /\
    Forall (fun part => 0 < length part <= 333) ps /\
    Forall (fun b => length b = 3 * (length b / 3) /\ length b <= 999) (map (flat_map (sel [0; 1; 2]%Z)) ps).
Proof.
  intros p cs [E1 [E2 [E3 [E4 _]]]]. rewrite <- E1, E2, E4.
  change (Z.to_nat (3 * 333)) with (3 * 333). fold tri.
  set (fuel := S (length (flat_map tri cs))).
  assert (L : length (flat_map tri cs) = 3 * length cs).
  { clear. induction cs as [|c cs IH]; [reflexivity|]. cbn [flat_map]. rewrite app_length, tri_length, IH. cbn [length]. lia. }
  exists (parts fuel 333 cs). split; [|split; [|split]].
  - apply batches_flat; unfold fuel; lia.
  - apply parts_concat; unfold fuel; lia.
  - apply parts_sizes. lia.
  - pose proof (parts_sizes fuel 333 cs ltac:(lia)) as S. induction S as [|part rest [Hp1 Hp2] S IH]; cbn [map]; constructor.
    + assert (Lp : length (flat_map tri part) = 3 * length part).
      { clear. induction part as [|c cs IH]; [reflexivity|]. cbn [flat_map]. rewrite app_length, tri_length, IH. cbn [length]. lia. }
      change (sel [0%Z; 1%Z; 2%Z]) with tri. rewrite Lp. split; [|lia]. rewrite Nat.mul_comm, Nat.div_mul by lia. lia.
    + exact IH.
Qed.

(* non-vacuity: 700 tiles are queried in three statements of 333, 333 and 34 tiles *)
Example batching_example :
  let cs := map (fun i => (Z.of_nat i, 0%Z, 3%Z)) (seq 0 700) in
  option_map (map (@length Z)) (batches (S (length (flat_map (sel (bp_app mbtiles_params)) cs)))
      (Z.to_nat (bp_take mbtiles_params)) (Z.to_nat (bp_drop mbtiles_params)) (flat_map (sel (bp_app mbtiles_params)) cs))
  = Some [999; 999; 102].
Proof. vm_compute. reflexivity. Qed.

(* ====================================================================== the bulk load equals the per-tile loads *)
From MP Require Import CacheMap_proofs.

Definition inb (part : list coord) (k : coord) : bool := existsb (Z3_eqb k) part.

Lemma Z3_eqb_refl : forall k, Z3_eqb k k = true.
Proof. intros. apply Z3_eqb_eq. reflexivity. Qed.

Lemma inb_In : forall part k, inb part k = true <-> In k part.
Proof.
  intros. unfold inb. rewrite existsb_exists. split.
  - intros [x [Hx E]]. apply Z3_eqb_eq in E. subst. exact Hx.
  - intros H. exists k. split; [exact H | apply Z3_eqb_refl].
Qed.

Lemma inb_false : forall part k, ~ In k part -> inb part k = false.
Proof. intros part k H. destruct (inb part k) eqn:E; [apply inb_In in E; contradiction | reflexivity]. Qed.

Lemma zs_tri : forall a b, zs_eqb (tri a) (tri b) = Z3_eqb a b.
Proof.
  intros [[x y] l] [[x' y'] l']. unfold zs_eqb, tri, sel, Z3_eqb. cbn [map csel1 Z.eqb list_eqb].
  rewrite andb_true_r, andb_assoc. reflexivity.
Qed.

Lemma existsb_tri : forall k part, existsb (zs_eqb (tri k)) (map tri part) = inb part k.
Proof.
  intros k part. unfold inb. induction part as [|c r IH]; [reflexivity|].
  cbn [map existsb]. rewrite zs_tri, IH. reflexivity.
Qed.

(* ---- the first tile of every key *)
Fixpoint dd (seen : list coord) (cs : list coord) : list coord :=
  match cs with
  | [] => []
  | c :: r => if inb seen c then dd seen r else c :: dd (c :: seen) r
  end.

Lemma firsts_dd : forall p, bp_dkey p = [0; 1; 2]%Z -> forall cs seen, firsts p (map tri seen) cs = dd seen cs.
Proof.
  intros p E. induction cs as [|c r IH]; intros seen; [reflexivity|].
  cbn [firsts dd]. rewrite E. fold (tri c). rewrite existsb_tri.
  destruct (inb seen c); [apply IH|]. f_equal. apply (IH (c :: seen)).
Qed.

Lemma dd_In : forall cs seen c, In c (dd seen cs) <-> In c cs /\ ~ In c seen.
Proof.
  induction cs as [|x r IH]; intros seen c; cbn [dd In]; [tauto|].
  destruct (inb seen x) eqn:E.
  - apply inb_In in E. rewrite IH. split; [tauto|]. intros [[->|H] N]; [contradiction | tauto].
  - assert (N : ~ In x seen) by (intros H; apply inb_In in H; rewrite H in E; discriminate).
    cbn [In]. rewrite IH. cbn [In]. split.
    + intros [->|[H1 H2]]; [tauto|]. split; [tauto|]. intros H3. apply H2. right. exact H3.
    + intros [[->|H1] H2]; [tauto|]. destruct (Z3_eqb x c) eqn:Q.
      * apply Z3_eqb_eq in Q. left. exact Q.
      * right. split; [exact H1|]. intros [->|H3]; [rewrite Z3_eqb_refl in Q; discriminate | contradiction].
Qed.

Lemma dd_NoDup : forall cs seen, NoDup (dd seen cs).
Proof.
  induction cs as [|x r IH]; intros seen; cbn [dd]; [constructor|].
  destruct (inb seen x); [apply IH|]. constructor; [|apply IH].
  rewrite dd_In. intros [_ H]. apply H. left. reflexivity.
Qed.

(* ---- one SELECT *)
Lemma chunks_flat_tri : forall fuel part, length part <= fuel -> chunks fuel 3 (flat_map tri part) = map tri part.
Proof.
  induction fuel as [|f IH]; intros part H.
  - destruct part; [reflexivity | cbn in H; lia].
  - destruct part as [|[[x y] l] r]; [reflexivity|]. cbn [flat_map chunks].
    change (tri (x, y, l)) with [x; y; l]. cbn [app firstn skipn map]. f_equal. apply IH. cbn [length] in H. lia.
Qed.

Lemma flat_tri_length : forall part, length (flat_map tri part) = 3 * length part.
Proof. induction part as [|c r IH]; [reflexivity|]. cbn [flat_map]. rewrite app_length, tri_length, IH. cbn [length]. lia. Qed.

Lemma query_good : forall p d part, bp_group p = 3%Z ->
  query p d (flat_map tri part) = Some (filter (fun row => inb part (fst row)) d).
Proof.
  intros p d part E. unfold query. rewrite E, flat_tri_length.
  replace (Z.of_nat (3 * length part)) with (Z.of_nat (length part) * 3)%Z by lia.
  rewrite Z.div_mul by lia.
  replace (Z.of_nat (length part) * 3 =? 3 * Z.of_nat (length part))%Z with true by (symmetry; apply Z.eqb_eq; lia).
  cbn [andb Z.ltb Z.compare]. rewrite chunks_flat_tri by lia. f_equal.
  apply filter_ext. intros row. fold (tri (fst row)). apply existsb_tri.
Qed.

Lemma queries_good : forall p d ps, bp_group p = 3%Z ->
  all_some_l (map (query p d) (map (flat_map tri) ps)) = Some (map (fun part => filter (fun row => inb part (fst row)) d) ps).
Proof.
  intros p d ps E. induction ps as [|part r IH]; [reflexivity|].
  cbn [map all_some_l]. rewrite query_good by exact E. rewrite IH. reflexivity.
Qed.

(* ---- the rows of one key *)
Definition keyis (k : coord) (row : coord * bytes) : bool := Z3_eqb (fst row) k.

Lemma filter_key_filter : forall part k d,
  filter (keyis k) (filter (fun row => inb part (fst row)) d) = if inb part k then filter (keyis k) d else [].
Proof.
  intros part k. induction d as [|row d IH]; cbn [filter]; [destruct (inb part k); reflexivity|].
  destruct (keyis k row) eqn:K.
  - unfold keyis in K. apply Z3_eqb_eq in K. rewrite K. destruct (inb part k) eqn:I.
    + cbn [filter]. unfold keyis at 1. rewrite K, Z3_eqb_refl. rewrite IH. reflexivity.
    + exact IH.
  - destruct (inb part (fst row)); [cbn [filter]; rewrite K|]; exact IH.
Qed.

Definition db_wf (d : db) : Prop := NoDup (map fst d).

Lemma filter_key_absent : forall k d, ~ In k (map fst d) -> filter (keyis k) d = [].
Proof.
  intros k. induction d as [|[k' v] d IH]; intros H; [reflexivity|]. cbn [filter map fst In] in *.
  unfold keyis at 1. cbn [fst]. destruct (Z3_eqb k' k) eqn:E; [apply Z3_eqb_eq in E; tauto|]. apply IH. tauto.
Qed.

Lemma db_get_absent : forall k d, ~ In k (map fst d) -> db_get d k = None.
Proof.
  intros k. induction d as [|[k' v] d IH]; intros H; [reflexivity|]. cbn [map fst In] in H.
  unfold db_get in *. cbn [kv_get]. destruct (Z3_eqb k' k) eqn:E; [apply Z3_eqb_eq in E; tauto|]. apply IH. tauto.
Qed.

Lemma filter_key_db : forall k d, db_wf d ->
  filter (keyis k) d = match db_get d k with Some v => [(k, v)] | None => [] end.
Proof.
  intros k. induction d as [|[k' v] d IH]; intros H; [reflexivity|].
  unfold db_wf in H. cbn [map fst] in H. inversion H as [|? ? Hn Hd]; subst.
  cbn [filter]. unfold keyis at 1. unfold db_get. cbn [fst kv_get]. destruct (Z3_eqb k' k) eqn:E.
  - apply Z3_eqb_eq in E. subst k'. rewrite filter_key_absent by exact Hn. reflexivity.
  - apply IH. exact Hd.
Qed.

Lemma nodup_app_parts : forall {A} (a b : list A), NoDup (a ++ b) ->
  NoDup a /\ NoDup b /\ (forall x, In x a -> ~ In x b).
Proof.
  induction a as [|x a IH]; intros b H; cbn [app] in *.
  - split; [constructor | split; [exact H | intros x []]].
  - inversion H as [|? ? Hx Hr]; subst. destruct (IH b Hr) as [Ha [Hb Hd]]. split; [|split].
    + constructor; [|exact Ha]. intros Hin. apply Hx. apply in_or_app. left. exact Hin.
    + exact Hb.
    + intros y [->|Hy]; [intros Hin; apply Hx; apply in_or_app; right; exact Hin | apply Hd; exact Hy].
Qed.

Definition rows_of (d : db) (ps : list (list coord)) : list (coord * bytes) :=
  List.concat (map (fun part => filter (fun row => inb part (fst row)) d) ps).

Lemma inb_app : forall a b k, inb (a ++ b) k = inb a k || inb b k.
Proof. intros. unfold inb. apply existsb_app. Qed.

Lemma rows_key : forall d ps k, NoDup (List.concat ps) ->
  filter (keyis k) (rows_of d ps) = if inb (List.concat ps) k then filter (keyis k) d else [].
Proof.
  intros d ps k. unfold rows_of. induction ps as [|part r IH]; intros H; [reflexivity|].
  cbn [map List.concat] in *. rewrite filter_app, filter_key_filter, inb_app.
  destruct (nodup_app_parts _ _ H) as [_ [Hr Hd]].
  rewrite IH by exact Hr. destruct (inb part k) eqn:I; cbn [orb app].
  - apply inb_In in I. rewrite inb_false; [apply app_nil_r | apply Hd; exact I].
  - reflexivity.
Qed.

Lemma find_last_none : forall {A} (f : A -> bool) l, filter f l = [] -> find_last f l = None.
Proof.
  induction l as [|x l IH]; intros H; [reflexivity|]. cbn [filter find_last] in *.
  destruct (f x); [discriminate|]. rewrite IH by exact H. reflexivity.
Qed.

Lemma find_last_single : forall {A} (f : A -> bool) l y, filter f l = [y] -> find_last f l = Some y.
Proof.
  induction l as [|x l IH]; intros y H; [discriminate|]. cbn [filter find_last] in *.
  destruct (f x) eqn:F.
  - injection H as -> H. rewrite find_last_none by exact H. reflexivity.
  - rewrite (IH y H). reflexivity.
Qed.

Lemma find_last_ext : forall {A} (f g : A -> bool) l, (forall x, f x = g x) -> find_last f l = find_last g l.
Proof. intros A f g l H. induction l as [|x l IH]; [reflexivity|]. cbn [find_last]. rewrite IH, H. reflexivity. Qed.

(* the data a tile receives *)
Lemma tile_result : forall d ps c, db_wf d -> NoDup (List.concat ps) -> In c (List.concat ps) ->
  match find_last (keyis c) (rows_of d ps) with Some row => Some (snd row) | None => None end = db_get d c.
Proof.
  intros d ps c Hw Hn Hin.
  pose proof (rows_key d ps c Hn) as R. rewrite (proj2 (inb_In _ _) Hin) in R. rewrite (filter_key_db c d Hw) in R.
  destruct (db_get d c) as [v|].
  - rewrite (find_last_single _ _ _ R). reflexivity.
  - rewrite (find_last_none _ _ R). reflexivity.
Qed.

(* ---- the return value *)
Definition has (d : db) (c : coord) : bool := is_some (db_get d c).

Lemma filter_or_len : forall {A} (f g : A -> bool) l, (forall x, In x l -> f x = true -> g x = false) ->
  length (filter (fun x => f x || g x) l) = length (filter f l) + length (filter g l).
Proof.
  induction l as [|x l IH]; intros H; [reflexivity|]. cbn [filter].
  assert (IH' := IH (fun y Hy => H y (or_intror Hy))).
  destruct (f x) eqn:F; cbn [orb].
  - rewrite (H x (or_introl eq_refl) F). cbn [length]. rewrite IH'. lia.
  - destruct (g x); cbn [length]; rewrite IH'; lia.
Qed.

Lemma part_rows_length : forall d part, db_wf d -> NoDup part ->
  length (filter (fun row => inb part (fst row)) d) = length (filter (has d) part).
Proof.
  intros d part Hw. induction part as [|c r IH]; intros Hn.
  - cbn [filter]. induction d as [|row d IHd]; [reflexivity|]. cbn [filter inb existsb]. apply IHd.
    unfold db_wf in *. cbn [map] in Hw. inversion Hw; assumption.
  - inversion Hn as [|? ? Hc Hr]; subst.
    rewrite (filter_ext _ (fun row => keyis c row || inb r (fst row))) by (intros row; reflexivity).
    rewrite filter_or_len.
    + rewrite IH by exact Hr. rewrite filter_key_db by exact Hw. cbn [filter]. unfold has at 2.
      destruct (db_get d c); reflexivity.
    + intros row _ K. unfold keyis in K. apply Z3_eqb_eq in K. rewrite K. apply inb_false. exact Hc.
Qed.

Lemma rows_length : forall d ps, db_wf d -> NoDup (List.concat ps) ->
  length (rows_of d ps) = length (filter (has d) (List.concat ps)).
Proof.
  intros d ps Hw. unfold rows_of. induction ps as [|part r IH]; intros Hn; [reflexivity|].
  cbn [map List.concat] in *. rewrite app_length, filter_app, app_length.
  destruct (nodup_app_parts _ _ Hn) as [Hp [Hr _]].
  rewrite part_rows_length by assumption. rewrite IH by exact Hr. reflexivity.
Qed.

Lemma filter_len_le : forall {A} (f : A -> bool) l, length (filter f l) <= length l.
Proof. induction l as [|x l IH]; [constructor|]. cbn [filter]. destruct (f x); cbn [length]; lia. Qed.

Lemma filter_length_all : forall {A} (f : A -> bool) l, Nat.eqb (length (filter f l)) (length l) = forallb f l.
Proof.
  intros A f l. assert (B : length (filter f l) <= length l) by apply filter_len_le.
  induction l as [|x l IH]; [reflexivity|]. cbn [filter forallb length] in *.
  assert (B' : length (filter f l) <= length l) by apply filter_len_le.
  destruct (f x); cbn [length andb].
  - apply IH. exact B'.
  - apply Nat.eqb_neq. lia.
Qed.

Lemma forallb_same_members : forall {A} (f : A -> bool) l1 l2, (forall x, In x l1 <-> In x l2) -> forallb f l1 = forallb f l2.
Proof.
  intros A f l1 l2 H. destruct (forallb f l1) eqn:E1, (forallb f l2) eqn:E2; try reflexivity.
  - rewrite forallb_forall in E1. assert (forallb f l2 = true) by (apply forallb_forall; intros x Hx; apply E1, H, Hx). congruence.
  - rewrite forallb_forall in E2. assert (forallb f l1 = true) by (apply forallb_forall; intros x Hx; apply E2, H, Hx). congruence.
Qed.

Lemma forallb_map' : forall {A B} (f : B -> bool) (g : A -> B) l, forallb f (map g l) = forallb (fun x => f (g x)) l.
Proof. induction l as [|x l IH]; [reflexivity|]. cbn [map forallb]. rewrite IH. reflexivity. Qed.

(* ---- the theorem *)
Theorem bulk_load_correct : forall p d cs, good_params p -> db_wf d ->
  bulk_load p d cs = Some (forallb is_some (map (db_get d) cs), map (db_get d) cs).
Proof.
  intros p d cs G Hw. destruct cs as [|c0 cs0]; [reflexivity|]. set (cs := c0 :: cs0).
  assert (G' := G). destruct G' as [E1 [E2 [E3 [E4 [E5 E6]]]]].
  unfold bulk_load. fold cs. change (match cs with [] => Some (true, []) | _ :: _ => ?X end) with X.
  pose proof (firsts_dd p E5 cs []) as FD. cbn [map] in FD. rewrite FD. clear FD. set (ds := dd [] cs).
  assert (Hds : NoDup ds) by apply dd_NoDup.
  assert (Hmem : forall c, In c ds <-> In c cs) by (intros c; unfold ds; rewrite dd_In; cbn [In]; tauto).
  destruct (batching_complete p ds G) as [ps [B [Hc [_ _]]]]. rewrite B.
  change (sel [0%Z; 1%Z; 2%Z]) with tri. rewrite queries_good by exact E3. fold (rows_of d ps).
  rewrite E5, E6. change (sel [0%Z; 1%Z; 2%Z]) with tri.
  assert (Hn : NoDup (List.concat ps)) by (rewrite Hc; exact Hds).
  (* no KeyError *)
  assert (K : forallb (fun row => existsb (zs_eqb (tri (fst row))) (map tri cs)) (rows_of d ps) = true).
  { apply forallb_forall. intros row Hr. rewrite existsb_tri. apply inb_In. apply Hmem. rewrite <- Hc.
    unfold rows_of in Hr. apply in_concat in Hr. destruct Hr as [l [Hl Hr]].
    apply in_map_iff in Hl. destruct Hl as [part [<- Hp]]. apply filter_In in Hr. destruct Hr as [_ Hr].
    apply inb_In in Hr. apply in_concat. exists part. split; assumption. }
  rewrite K. f_equal. f_equal.
  - rewrite rows_length by assumption. rewrite Hc. rewrite filter_length_all.
    rewrite (forallb_same_members (has d) ds cs Hmem). unfold has. rewrite forallb_map'. reflexivity.
  - apply map_ext_in. intros c Hin.
    rewrite (find_last_ext _ (keyis c)) by (intros row; apply zs_tri).
    apply tile_result; try assumption. rewrite Hc. apply Hmem. exact Hin.
Qed.

(* ---- the unique index is an invariant of the row store *)
Lemma del_keys : forall (s : db) k k', In k' (map fst (db_del s k)) -> In k' (map fst s) /\ Z3_eqb k' k = false.
Proof.
  induction s as [|[k0 v] s IH]; intros k k' H; [destruct H|]. unfold db_del in *. cbn [kv_del] in H.
  destruct (Z3_eqb k0 k) eqn:E.
  - destruct (IH k k' H) as [H1 H2]. split; [right; exact H1 | exact H2].
  - cbn [map fst In] in H. destruct H as [<-|H]; [split; [left; reflexivity | exact E]|].
    destruct (IH k k' H) as [H1 H2]. split; [right; exact H1 | exact H2].
Qed.

Lemma db_wf_del : forall d k, db_wf d -> db_wf (db_del d k).
Proof.
  unfold db_wf. induction d as [|[k0 v] d IH]; intros k H; [constructor|]. unfold db_del in *. cbn [kv_del].
  cbn [map fst] in H. inversion H as [|? ? Hn Hd]; subst. destruct (Z3_eqb k0 k); [apply IH; exact Hd|].
  cbn [map fst]. constructor; [|apply IH; exact Hd]. intros Hin. apply del_keys in Hin. tauto.
Qed.

Lemma db_wf_put : forall d k v, db_wf d -> db_wf (db_put d k v).
Proof.
  intros d k v H. unfold db_wf, db_put, kv_put. cbn [map fst]. constructor; [|apply db_wf_del; exact H].
  intros Hin. apply del_keys in Hin. rewrite Z3_eqb_refl in Hin. destruct Hin. discriminate.
Qed.

Lemma db_wf_fold_put : forall (l : list (addr * bytes)) d, db_wf d ->
  db_wf (fold_left (fun d ab => db_put d (coord_of (fst ab)) (snd ab)) l d).
Proof. induction l as [|ab l IH]; intros d H; [exact H|]. cbn [fold_left]. apply IH. apply db_wf_put. exact H. Qed.

(* ---- one database per level: the bulk load of a level cache equals the per-tile loads *)
Section LevelBulk.
  Variable p : bparams.
  Hypothesis Gp : good_params p.
  Variable s : ldb.
  Hypothesis Hw : forall l, db_wf (ldb_get s l).
  Variable cs : list coord.

  Definition lg (c : coord) : option bytes := db_get (ldb_get s (snd c)) c.
  Definition sub_in (l : Z) (x : list coord) : list coord := filter (fun c => Z.eqb (snd c) l) x.
  Notation levels := (znodup (map (fun c : coord => snd c) cs)).

  Lemma znodup_In : forall (l : list Z) x, In x (znodup l) <-> In x l.
  Proof.
    induction l as [|y l IH]; intros x; cbn [znodup In]; [tauto|]. rewrite filter_In, IH.
    destruct (Z.eqb_spec x y); [subst; tauto|]. split; [tauto|]. intros [->|H]; [tauto|]. right. split; [exact H | reflexivity].
  Qed.

  Lemma level_results_eq : level_results p s cs =
    map (fun l => (l, Some (forallb is_some (map lg (sub_in l cs)), map lg (sub_in l cs)))) levels.
  Proof.
    unfold level_results. apply map_ext. intros l. rewrite (bulk_load_correct p _ _ Gp (Hw l)).
    fold (sub_in l cs).
    assert (E : map (db_get (ldb_get s l)) (sub_in l cs) = map lg (sub_in l cs)).
    { apply map_ext_in. intros c Hc. unfold sub_in in Hc. apply filter_In in Hc. destruct Hc as [_ Hc].
      apply Z.eqb_eq in Hc. unfold lg. rewrite Hc. reflexivity. }
    rewrite E. reflexivity.
  Qed.

  Notation rs := (map (fun l => (l, Some (forallb is_some (map lg (sub_in l cs)), map lg (sub_in l cs)))) levels).

  Lemma lr_get_levels : forall (L : list Z) l, In l L ->
    lr_get (map (fun l => (l, Some (forallb is_some (map lg (sub_in l cs)), map lg (sub_in l cs)))) L) l = map lg (sub_in l cs).
  Proof.
    induction L as [|x L IH]; intros l H; [destruct H|]. cbn [map lr_get].
    destruct (Z.eqb_spec x l) as [->|N]; [reflexivity|]. apply IH. destruct H; [contradiction | assumption].
  Qed.

  Lemma nth_middle_map : forall (A B : list coord) c,
    nth (length A) (map lg (A ++ c :: B)) None = lg c.
  Proof. induction A as [|a A IH]; intros B c; [reflexivity|]. cbn [length app map nth]. apply IH. Qed.

  Lemma scatter_ok : forall t pre seen, cs = pre ++ t ->
    (forall l, length (filter (Z.eqb l) seen) = length (sub_in l pre)) ->
    scatter rs seen t = map lg t.
  Proof.
    induction t as [|c t IH]; intros pre seen E Hcnt; [reflexivity|]. cbn [scatter map]. f_equal.
    - rewrite lr_get_levels.
      + rewrite Hcnt, E. unfold sub_in. rewrite filter_app. cbn [filter]. rewrite Z.eqb_refl. apply nth_middle_map.
      + apply znodup_In. apply in_map_iff. exists c. split; [reflexivity|]. rewrite E. apply in_or_app. right. left. reflexivity.
    - apply (IH (pre ++ [c])).
      + rewrite <- app_assoc. exact E.
      + intros l. specialize (Hcnt l). unfold sub_in in *. rewrite filter_app, app_length. cbn [filter].
        rewrite (Z.eqb_sym l (snd c)). destruct (Z.eqb (snd c) l); simpl length; rewrite Hcnt; [rewrite Nat.add_1_r | rewrite Nat.add_0_r]; reflexivity.
  Qed.

  Lemma level_flags : forallb (fun r : Z * option (bool * list (option bytes)) =>
                                 match snd r with Some (ok, _) => ok | None => false end) rs
                      = forallb is_some (map lg cs).
  Proof.
    rewrite forallb_map'. cbn [snd].
    destruct (forallb is_some (map lg cs)) eqn:R.
    - apply forallb_forall. intros l _. rewrite forallb_map'. apply forallb_forall. intros c Hc.
      rewrite forallb_map' in R. rewrite forallb_forall in R. apply R. unfold sub_in in Hc. apply filter_In in Hc. tauto.
    - destruct (forallb (fun l => forallb is_some (map lg (sub_in l cs))) levels) eqn:L; [|reflexivity].
      exfalso. rewrite forallb_forall in L.
      assert (forallb is_some (map lg cs) = true); [|congruence].
      rewrite forallb_map'. apply forallb_forall. intros c Hc.
      assert (Hl : In (snd c) levels) by (apply znodup_In; apply in_map_iff; exists c; split; [reflexivity | exact Hc]).
      specialize (L _ Hl). rewrite forallb_map' in L. rewrite forallb_forall in L. apply L.
      unfold sub_in. apply filter_In. split; [exact Hc | apply Z.eqb_refl].
  Qed.

  Theorem level_bulk_load_correct : level_bulk_load p s cs = load_many_out (map lg cs).
  Proof.
    unfold level_bulk_load. rewrite level_results_eq.
    assert (A : forallb (fun r : Z * option (bool * list (option bytes)) => is_some (snd r)) rs = true).
    { apply forallb_forall. intros r Hr. apply in_map_iff in Hr. destruct Hr as [l [<- _]]. reflexivity. }
    rewrite A. rewrite level_flags. rewrite (scatter_ok cs [] []); [reflexivity | reflexivity | intros l; reflexivity].
  Qed.
End LevelBulk.
