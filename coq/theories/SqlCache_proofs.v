(* C05  The batching of the sqlite bulk load (MBTilesCache.load_tiles / GeopackageCache.load_tiles), proved for the
   constants extracted from the source (gen/Gen_sqlbatch.v): every requested coordinate is bound in exactly one
   SELECT, every SELECT binds whole (x, y, level) triples and at most 999 values. *)
From Coq Require Import ZArith NArith List Bool Arith Lia.
Import ListNotations.
From MP Require Import Base Gen_sqlbatch CacheMap SqlCache.

Definition tri (c : coord) : list Z := sel [0%Z; 1%Z; 2%Z] c.

Lemma tri_length : forall c, length (tri c) = 3.
Proof. intros [[x y] l]. reflexivity. Qed.

Lemma firstn_flat_tri : forall k cs, firstn (3 * k) (flat_map tri cs) = flat_map tri (firstn k cs).
Proof.
  induction k as [|k IH]; intros cs; [reflexivity|].
  destruct cs as [|[[x y] l] cs]; [reflexivity|].
  replace (3 * S k) with (S (S (S (3 * k)))) by lia. cbn [flat_map firstn tri sel map csel1 app Z.eqb].
  cbn. f_equal. f_equal. f_equal. apply IH.
Qed.

Lemma skipn_flat_tri : forall k cs, skipn (3 * k) (flat_map tri cs) = flat_map tri (skipn k cs).
Proof.
  induction k as [|k IH]; intros cs; [reflexivity|].
  destruct cs as [|[[x y] l] cs]; [reflexivity|].
  replace (3 * S k) with (S (S (S (3 * k)))) by lia. cbn. apply IH.
Qed.

(* the request cut into parts of k tiles *)
Fixpoint parts (fuel k : nat) (cs : list coord) : list (list coord) :=
  match cs with
  | [] => []
  | _ :: _ => match fuel with O => [] | S f => firstn k cs :: parts f k (skipn k cs) end
  end.

Lemma parts_concat : forall fuel k cs, 0 < k -> length cs <= fuel -> concat (parts fuel k cs) = cs.
Proof.
  induction fuel as [|f IH]; intros k cs Hk H.
  - destruct cs; [reflexivity | cbn in H; lia].
  - destruct cs as [|c cs]; [reflexivity|]. cbn [parts concat].
    rewrite IH; [apply firstn_skipn | exact Hk |].
    rewrite skipn_length. cbn [length] in *. lia.
Qed.

Lemma parts_sizes : forall fuel k cs, 0 < k -> Forall (fun p => 0 < length p <= k) (parts fuel k cs).
Proof.
  induction fuel as [|f IH]; intros k cs Hk; destruct cs as [|c cs]; cbn [parts]; try constructor.
  - rewrite firstn_length. cbn [length]. lia.
  - apply IH. exact Hk.
Qed.

Lemma flat_tri_nil : forall cs, flat_map tri cs = [] -> cs = [].
Proof. intros [|[[x y] l] cs] E; [reflexivity | discriminate]. Qed.

Lemma batches_flat : forall fuel k cs, 0 < k -> length cs < fuel ->
  batches fuel (3 * k) (3 * k) (flat_map tri cs) = Some (map (flat_map tri) (parts fuel k cs)).
Proof.
  induction fuel as [|f IH]; intros k cs Hk H; [lia|].
  destruct cs as [|c cs]; [reflexivity|].
  assert (N : exists h t, flat_map tri (c :: cs) = h :: t) by (destruct c as [[x y] l]; eexists; eexists; reflexivity).
  destruct N as [h [t N]]. cbn [batches]. rewrite N, <- N.
  rewrite skipn_flat_tri, firstn_flat_tri. rewrite IH.
  - reflexivity.
  - exact Hk.
  - rewrite skipn_length. cbn [length] in *. lia.
Qed.

(* for the extracted constants *)
Definition good_params (p : bparams) : Prop :=
  bp_take p = bp_drop p /\ bp_take p = (3 * 333)%Z /\ bp_group p = 3%Z /\
  bp_app p = [0; 1; 2]%Z /\ bp_dkey p = [0; 1; 2]%Z /\ bp_rkey p = [0; 1; 2]%Z.

Lemma mbtiles_params_good : good_params mbtiles_params.
Proof. repeat split. Qed.
Lemma gpkg_params_good : good_params gpkg_params.
Proof. repeat split. Qed.

Theorem batching_complete : forall p cs, good_params p ->
  exists ps,
    batches (S (length (flat_map (sel (bp_app p)) cs))) (Z.to_nat (bp_take p)) (Z.to_nat (bp_drop p))
            (flat_map (sel (bp_app p)) cs) = Some (map (flat_map (sel [0; 1; 2]%Z)) ps) /\
    concat ps = cs /\
    Forall (fun part => 0 < length part <= 333) ps /\
    Forall (fun b => length b = 3 * (length b / 3) /\ length b <= 999) (map (flat_map (sel [0; 1; 2]%Z)) ps).
Proof.
  intros p cs [E1 [E2 [E3 [E4 _]]]]. rewrite <- E1, E2, E4.
  change (Z.to_nat (3 * 333)) with (3 * 333). fold tri.
  set (fuel := S (length (flat_map tri cs))).
  assert (L : length (flat_map tri cs) = 3 * length cs).
  { clear. induction cs as [|c cs IH]; [reflexivity|]. cbn [flat_map]. rewrite app_length, tri_length, IH. cbn [length]. lia. }
  exists (parts fuel 333 cs). split; [|split; [|split]].
  - apply batches_flat; unfold fuel; lia.
  - apply parts_concat; unfold fuel; lia.
  - apply parts_sizes. lia.
  - pose proof (parts_sizes fuel 333 cs ltac:(lia)) as S. induction S as [|part rest [Hp1 Hp2] S IH]; cbn [map]; constructor.
    + assert (Lp : length (flat_map tri part) = 3 * length part).
      { clear. induction part as [|c cs IH]; [reflexivity|]. cbn [flat_map]. rewrite app_length, tri_length, IH. cbn [length]. lia. }
      change (sel [0%Z; 1%Z; 2%Z]) with tri. rewrite Lp. split; [|lia]. rewrite Nat.mul_comm, Nat.div_mul by lia. lia.
    + exact IH.
Qed.

(* non-vacuity: 700 tiles are queried in three statements of 333, 333 and 34 tiles *)
Example batching_example :
  let cs := map (fun i => (Z.of_nat i, 0%Z, 3%Z)) (seq 0 700) in
  option_map (map (@length Z)) (batches (S (length (flat_map (sel (bp_app mbtiles_params)) cs)))
      (Z.to_nat (bp_take mbtiles_params)) (Z.to_nat (bp_drop mbtiles_params)) (flat_map (sel (bp_app mbtiles_params)) cs))
  = Some [999; 999; 102].
Proof. vm_compute. reflexivity. Qed.
