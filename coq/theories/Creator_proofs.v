(* Proofs about the tile creation protocol model Creator.v (C08). *)
From Coq Require Import ZArith List Bool Arith Lia FinFun.
Import ListNotations.
From MP Require Import Base Creator.

(* ------------------------------------------------------------------ basics *)

Lemma coord_eqb_spec a b : reflect (a = b) (coord_eqb a b).
Proof.
  destruct a as [[a1 a2] a3], b as [[b1 b2] b3]. unfold coord_eqb, Z3_eqb.
  destruct (Z.eqb_spec a1 b1), (Z.eqb_spec a2 b2), (Z.eqb_spec a3 b3); cbn; constructor; congruence.
Qed.

Lemma coord_eqb_refl a : coord_eqb a a = true.
Proof. destruct (coord_eqb_spec a a); congruence. Qed.

Lemma coord_eq_dec (a b : coord) : {a = b} + {a <> b}.
Proof. destruct (coord_eqb_spec a b); [left | right]; assumption. Qed.

Lemma lookup_cons_eq {V} (l : list (coord * V)) t v : lookup ((t, v) :: l) t = Some v.
Proof. cbn [lookup]. rewrite coord_eqb_refl. reflexivity. Qed.

Lemma lookup_cons_neq {V} (l : list (coord * V)) t t' v : t' <> t -> lookup ((t', v) :: l) t = lookup l t.
Proof. intros H. cbn [lookup]. destruct (coord_eqb_spec t' t); [contradiction | reflexivity]. Qed.

Lemma lookup_remove_eq {V} (l : list (coord * V)) k : lookup (remove_key l k) k = None.
Proof.
  induction l as [|[k' v] r IH]; cbn [remove_key lookup]; [reflexivity|].
  destruct (coord_eqb_spec k' k); [exact IH|]. cbn [lookup].
  destruct (coord_eqb_spec k' k); [contradiction | exact IH].
Qed.

Lemma lookup_remove_neq {V} (l : list (coord * V)) k k' : k <> k' -> lookup (remove_key l k) k' = lookup l k'.
Proof.
  intros Hn. induction l as [|[k2 v] r IH]; cbn [remove_key lookup]; [reflexivity|].
  destruct (coord_eqb_spec k2 k).
  - subst. destruct (coord_eqb_spec k k'); [contradiction | exact IH].
  - cbn [lookup]. destruct (coord_eqb_spec k2 k'); [reflexivity | exact IH].
Qed.

Lemma lookup_In {V} (l : list (coord * V)) t v : lookup l t = Some v -> In (t, v) l.
Proof.
  induction l as [|[k w] r IH]; cbn [lookup]; [discriminate|].
  destruct (coord_eqb_spec k t); intros H.
  - injection H as <-. subst. left. reflexivity.
  - right. apply IH. exact H.
Qed.

Lemma lookup_app_map (f : coord -> option Z) (l : list coord) (r : list (coord * option Z)) t :
  lookup (map (fun u => (u, f u)) l ++ r) t = if mem t l then Some (f t) else lookup r t.
Proof.
  induction l as [|u l IH]; cbn [map app lookup mem existsb]; [reflexivity|].
  destruct (coord_eqb_spec u t).
  - subst. rewrite coord_eqb_refl. reflexivity.
  - destruct (coord_eqb_spec t u); [congruence|]. cbn [orb]. exact IH.
Qed.

Lemma mem_In t l : mem t l = true <-> In t l.
Proof.
  unfold mem. rewrite existsb_exists. split.
  - intros [x [Hx He]]. destruct (coord_eqb_spec t x); [subst; exact Hx | discriminate].
  - intros H. exists t. split; [exact H | apply coord_eqb_refl].
Qed.

Lemma mem_false t l : mem t l = false <-> ~ In t l.
Proof.
  rewrite <- mem_In. destruct (mem t l); split; intros H; try congruence; try reflexivity.
Qed.

Lemma cached_cons c t v u : cached c u = true -> cached ((t, v) :: c) u = true.
Proof.
  unfold cached. cbn [lookup]. destruct (coord_eqb t u); [reflexivity | auto].
Qed.

Lemma cached_cons_eq c t v : cached ((t, v) :: c) t = true.
Proof. unfold cached. rewrite lookup_cons_eq. reflexivity. Qed.

Lemma cached_lookup c t : cached c t = true -> exists v, lookup c t = Some v.
Proof. unfold cached. destruct (lookup c t) as [v|]; [eauto | discriminate]. Qed.

Lemma lookup_cached c t v : lookup c t = Some v -> cached c t = true.
Proof. unfold cached. intros ->. reflexivity. Qed.

Lemma length_set_nth {A} (l : list A) n x : length (set_nth l n x) = length l.
Proof. revert n. induction l as [|y r IH]; intros [|n]; cbn [set_nth length]; auto. Qed.

Lemma nth_set_nth_eq {A} (l : list A) n x y : nth_error l n = Some y -> nth_error (set_nth l n x) n = Some x.
Proof.
  revert n. induction l as [|z r IH]; intros [|n]; cbn [set_nth nth_error]; try discriminate; auto.
Qed.

Lemma nth_set_nth_neq {A} (l : list A) n m x : n <> m -> nth_error (set_nth l n x) m = nth_error l m.
Proof.
  revert n m. induction l as [|z r IH]; intros [|n] [|m] H; cbn [set_nth nth_error]; try reflexivity; try congruence.
  apply IH. congruence.
Qed.

Lemma set_nth_same {A} (l : list A) n x : nth_error l n = Some x -> set_nth l n x = l.
Proof.
  revert n. induction l as [|z r IH]; intros [|n]; cbn [set_nth nth_error]; try discriminate.
  - intros H. injection H as ->. reflexivity.
  - intros H. rewrite (IH _ H). reflexivity.
Qed.

Lemma dedup_In l : forall seen x, In x l -> In x (dedup l seen) \/ In x seen.
Proof.
  induction l as [|y r IH]; intros seen x H; [destruct H|].
  cbn [dedup]. destruct (mem y seen) eqn:E.
  - destruct H as [->|H]; [right; apply mem_In; exact E | apply IH; exact H].
  - destruct H as [->|H]; [left; left; reflexivity|].
    destruct (IH (y :: seen) x H) as [H1|[H1|H1]]; [left; right; exact H1 | left; left; exact H1 | right; exact H1].
Qed.

Lemma dedup_incl l : forall seen x, In x (dedup l seen) -> In x l.
Proof.
  induction l as [|y r IH]; intros seen x H; [destruct H|].
  cbn [dedup] in H. destruct (mem y seen).
  - right. eapply IH. exact H.
  - destruct H as [->|H]; [left; reflexivity | right; eapply IH; exact H].
Qed.

(* ------------------------------------------------------------------ the step, seen from one requester *)

Definition lstep (S : sys) (p : nat) (c : list (coord * Z)) (l : list (coord * nat)) (f : list coord) (pr : proc)
  : list (coord * Z) * list (coord * nat) * list coord * proc * obs :=
  match p_pc pr with
  | Load [] => (c, l, f, with_pc pr (Check (filter (fun t => o_expire S || negb (has_src (p_src pr) t)) (p_req pr))), OSilent)
  | Load (t :: todo) =>
    match file S c t with
    | Some v => (c, l, f, with_src pr (Load todo) ((t, Some v) :: p_src pr), ORead t true)
    | None => (c, l, f, with_pc pr (Load todo), ORead t false)
    end
  | Check [] => (c, l, f, with_pc pr (next_unit (units S (p_unc pr))), OSilent)
  | Check (t :: todo) =>
    if cached c t
    then (c, l, f, with_pc pr (if has_src (p_src pr) t then Check todo
                               else if o_reload S then Reload t todo else Check todo), ORead t true)
    else (c, l, f, mk_proc (Check todo) (p_req pr) (p_src pr) (p_unc pr ++ [t]), ORead t false)
  | Reload t todo => (c, l, f, with_src pr (Check todo) ((t, file S c t) :: p_src pr), ORead t (is_some (file S c t)))
  | Lock m rest =>
    match lookup l (o_key S m) with
    | Some _ => (c, l, f, pr, OLock (o_key S m) false)
    | None => (c, (o_key S m, p) :: l, f,
               with_pc pr (if o_recheck S then Recheck m (o_members S m) rest else Fetch m (queries S m) rest),
               OLock (o_key S m) true)
    end
  | Recheck m [] rest => (c, l, f, with_pc pr (if o_single S then LoadUnder m rest else Unlock m true rest), OSilent)
  | Recheck m (t :: todo) rest =>
    if cached c t then (c, l, f, with_pc pr (Recheck m todo rest), ORead t true)
    else (c, l, f, with_pc pr (Fetch m (queries S m) rest), ORead t false)
  | Fetch m (q :: qs) rest => (c, l, q :: f, with_pc pr (Fetch m qs rest), OFetch q)
  | Fetch m [] rest =>
    (c, l, f, with_src pr (Store m (o_members S m) rest) (map (fun t => (t, Some (o_up S t))) (o_members S m) ++ p_src pr),
     OSilent)
  | Store m [] rest => (c, l, f, with_pc pr (Unlock m false rest), OSilent)
  | Store m (t :: todo) rest => ((t, o_up S t) :: c, l, f, with_pc pr (Store m todo rest), OWrite t (o_up S t))
  | LoadUnder m rest =>
    if has_src (p_src pr) m then (c, l, f, with_pc pr (Unlock m false rest), OSilent)
    else (c, l, f, with_src pr (Unlock m false rest) ((m, file S c m) :: p_src pr), ORead m (is_some (file S c m)))
  | Unlock m after rest =>
    (c, remove_key l (o_key S m), f,
     with_pc pr (if after then LoadAfter m (o_members S m) rest else next_unit rest), OUnlock (o_key S m))
  | LoadAfter m [] rest => (c, l, f, with_pc pr (next_unit rest), OSilent)
  | LoadAfter m (t :: todo) rest =>
    (c, l, f, with_src pr (LoadAfter m todo rest) ((t, file S c t) :: p_src pr), ORead t (is_some (file S c t)))
  | Done => (c, l, f, pr, OSkip)
  end.

Lemma step_lstep S s p pr :
  nth_error (procs s) p = Some pr ->
  step S s p =
  let '(c', l', f', pr', o) := lstep S p (cache s) (locks s) (fetched s) pr in
  (mk_state c' l' f' (set_nth (procs s) p pr'), o).
Proof.
  intros H. unfold step, lstep. rewrite H. destruct s as [c l f ps]. cbn [cache locks fetched procs] in *.
  unfold set_proc. cbn [cache locks fetched procs].
  destruct (p_pc pr) as [todo|todo|t todo|m rest|m todo rest|m todo rest|m todo rest|m rest|m a rest|m todo rest|];
    try destruct todo as [|t' todo]; try reflexivity.
  - destruct (file S c t'); reflexivity.
  - destruct (cached c t'); reflexivity.
  - destruct (lookup l (o_key S m)); [|reflexivity]. rewrite (set_nth_same _ _ _ H). reflexivity.
  - destruct (cached c t'); reflexivity.
  - destruct (has_src (p_src pr) m); reflexivity.
  - rewrite (set_nth_same _ _ _ H). reflexivity.
Qed.

Lemma step_none S s p : nth_error (procs s) p = None -> step S s p = (s, OSkip).
Proof. intros H. unfold step. rewrite H. reflexivity. Qed.

(* a property of states that holds initially and is kept by every step holds after every schedule *)
Lemma run_inv S (P : state -> Prop) :
  (forall s p, P s -> P (fst (step S s p))) -> forall sched s, P s -> P (run S s sched).
Proof.
  intros Hs. induction sched as [|p r IH]; intros s H; cbn [run]; [exact H|]. apply IH. apply Hs. exact H.
Qed.

(* the lock held while a requester is in a control state *)
Definition holds (c : pc) : option coord :=
  match c with
  | Recheck m _ _ | Fetch m _ _ | Store m _ _ | LoadUnder m _ | Unlock m _ _ => Some m
  | _ => None
  end.

Section Proto.
  Variable S : sys.

  (* ---------------------------------------------------------------- lock table *)

  Definition LockInv (s : state) : Prop :=
    (forall p pr m, nth_error (procs s) p = Some pr -> holds (p_pc pr) = Some m ->
                    lookup (locks s) (o_key S m) = Some p) /\
    (forall k q, lookup (locks s) k = Some q ->
                 exists pr m, nth_error (procs s) q = Some pr /\ holds (p_pc pr) = Some m /\ o_key S m = k).

  Lemma holds_next_unit rest : holds (next_unit rest) = None.
  Proof. destruct rest; reflexivity. Qed.

  (* what one step does to the lock table and to the lock the stepping requester holds *)
  Lemma lstep_locks p c l f pr c' l' f' pr' o :
    lstep S p c l f pr = (c', l', f', pr', o) ->
    (l' = l /\ holds (p_pc pr') = holds (p_pc pr))
    \/ (exists m, holds (p_pc pr) = None /\ lookup l (o_key S m) = None /\ l' = (o_key S m, p) :: l
                  /\ holds (p_pc pr') = Some m)
    \/ (exists m, holds (p_pc pr) = Some m /\ l' = remove_key l (o_key S m) /\ holds (p_pc pr') = None).
  Proof.
    unfold lstep.
    destruct (p_pc pr) as [todo|todo|t todo|m rest|m todo rest|m todo rest|m todo rest|m rest|m a rest|m todo rest|] eqn:Hpc;
      try destruct todo as [|t' todo].
    all: try (intros H; injection H as <- <- <- <- <-; left; split; [reflexivity|]; cbn [p_pc with_pc with_src];
              rewrite ?holds_next_unit; try reflexivity).
    - destruct (file S c t'); intros H; injection H as <- <- <- <- <-; left; split; reflexivity.
    - destruct (cached c t'); intros H; injection H as <- <- <- <- <-; left; split; try reflexivity.
      cbn [p_pc with_pc]. destruct (has_src (p_src pr) t'); [reflexivity|]. destruct (o_reload S); reflexivity.
    - destruct (lookup l (o_key S m)) eqn:E; intros H; injection H as <- <- <- <- <-.
      + left. split; [reflexivity | rewrite Hpc; reflexivity].
      + right. left. exists m. repeat split; try assumption. cbn [p_pc with_pc]. destruct (o_recheck S); reflexivity.
    - destruct (o_single S); reflexivity.
    - destruct (cached c t'); intros H; injection H as <- <- <- <- <-; left; split; reflexivity.
    - destruct (has_src (p_src pr) m); intros H; injection H as <- <- <- <- <-; left; split; reflexivity.
    - intros H; injection H as <- <- <- <- <-. right. right. exists m. repeat split.
      cbn [p_pc with_pc]. destruct a; [reflexivity | apply holds_next_unit].
    - rewrite Hpc. reflexivity.
  Qed.

  Lemma lock_inv_step s p : LockInv s -> LockInv (fst (step S s p)).
  Proof.
    intros [H1 H2]. destruct (nth_error (procs s) p) as [pr|] eqn:Hp; [|rewrite step_none by exact Hp; split; assumption].
    rewrite (step_lstep _ _ _ _ Hp).
    destruct (lstep S p (cache s) (locks s) (fetched s) pr) as [[[[c' l'] f'] pr'] o] eqn:E. cbn [fst].
    apply lstep_locks in E.
    assert (Hnth : forall q, nth_error (set_nth (procs s) p pr') q = if Nat.eqb q p then Some pr' else nth_error (procs s) q).
    { intros q. destruct (Nat.eqb_spec q p) as [->|Hn]; [eapply nth_set_nth_eq; exact Hp | apply nth_set_nth_neq; congruence]. }
    destruct E as [[-> Hh]|[[m [Hh0 [Hfree [-> Hh]]]]|[m [Hh0 [-> Hh]]]]]; split; cbn [procs locks].
    - intros q prq mq Hq Hm. rewrite Hnth in Hq. destruct (Nat.eqb_spec q p) as [->|Hn].
      + injection Hq as <-. rewrite Hh in Hm. eapply H1; eassumption.
      + eapply H1; eassumption.
    - intros k q Hk. destruct (H2 _ _ Hk) as [prq [mq [Hq [Hm Hkey]]]].
      destruct (Nat.eq_dec q p) as [->|Hn].
      + exists pr', mq. rewrite Hnth, Nat.eqb_refl. rewrite Hp in Hq. injection Hq as <-. rewrite Hh. auto.
      + exists prq, mq. rewrite Hnth. destruct (Nat.eqb_spec q p); [contradiction|]. auto.
    - intros q prq mq Hq Hm. rewrite Hnth in Hq. destruct (Nat.eqb_spec q p) as [->|Hn].
      + injection Hq as <-. rewrite Hh in Hm. injection Hm as <-. apply lookup_cons_eq.
      + pose proof (H1 _ _ _ Hq Hm) as HL. rewrite lookup_cons_neq; [exact HL|]. intros Heq. rewrite Heq in Hfree. congruence.
    - intros k q Hk. destruct (coord_eq_dec (o_key S m) k) as [<-|Hne].
      + rewrite lookup_cons_eq in Hk. injection Hk as <-. exists pr', m. rewrite Hnth, Nat.eqb_refl. auto.
      + rewrite lookup_cons_neq in Hk by exact Hne. destruct (H2 _ _ Hk) as [prq [mq [Hq [Hm Hkey]]]].
        exists prq, mq. rewrite Hnth. destruct (Nat.eqb_spec q p) as [->|Hn]; [|auto].
        rewrite Hp in Hq. injection Hq as <-. congruence.
    - intros q prq mq Hq Hm. rewrite Hnth in Hq. destruct (Nat.eqb_spec q p) as [->|Hn].
      + injection Hq as <-. congruence.
      + pose proof (H1 _ _ _ Hq Hm) as HL. pose proof (H1 _ _ _ Hp Hh0) as HLp.
        rewrite lookup_remove_neq; [exact HL|]. intros Heq. rewrite Heq in HLp. congruence.
    - intros k q Hk. destruct (coord_eq_dec (o_key S m) k) as [<-|Hne].
      + rewrite lookup_remove_eq in Hk. discriminate.
      + rewrite lookup_remove_neq in Hk by exact Hne. destruct (H2 _ _ Hk) as [prq [mq [Hq [Hm Hkey]]]].
        exists prq, mq. rewrite Hnth. destruct (Nat.eqb_spec q p) as [->|Hn]; [|auto].
        rewrite Hp in Hq. injection Hq as <-. congruence.
  Qed.

  Lemma lock_inv_init c0 reqs : LockInv (init c0 reqs).
  Proof.
    split; cbn [init procs locks].
    - intros p pr m Hp Hm. apply nth_error_In in Hp. apply in_map_iff in Hp. destruct Hp as [r [<- _]]. discriminate.
    - intros k q H. discriminate.
  Qed.

  (* two requesters that hold a lock hold locks of different units *)
  Lemma holders_differ s p q prp prq m :
    LockInv s -> nth_error (procs s) p = Some prp -> nth_error (procs s) q = Some prq ->
    holds (p_pc prp) = Some m -> holds (p_pc prq) = Some m -> p = q.
  Proof.
    intros [H1 _] Hp Hq Hmp Hmq. pose proof (H1 _ _ _ Hp Hmp). pose proof (H1 _ _ _ Hq Hmq). congruence.
  Qed.

  (* ---------------------------------------------------------------- one upstream call per unit *)

  Hypothesis Hrecheck : o_recheck S = true.

  Definition allc (c : list (coord * Z)) (m : coord) : Prop :=
    forall u, In u (o_members S m) -> cached c u = true.

  (* ---------------------------------------------------------------- what each requester knows *)

  Variable c0 : list (coord * Z).
  Variable valid : coord -> Prop.
  Hypothesis HA : forall r, valid r -> In r (o_members S (o_main S r)).
  Hypothesis HS : o_single S = true -> forall r, valid r -> o_main S r = r.
  (* without an expire timestamp no file counts as expired *)
  Hypothesis Hold : o_expire S = false -> forall t, o_old S t = None.

  Definition cache_ok (c : list (coord * Z)) : Prop := forall t v, lookup c t = Some v -> v = o_up S t.
  Definition src_ok (src : list (coord * option Z)) : Prop :=
    forall t v, lookup src t = Some (Some v) -> v = o_up S t \/ o_old S t = Some v.

  Lemma file_cached c t : cached c t = true -> file S c t = lookup c t.
  Proof. unfold cached, file. destruct (lookup c t); [reflexivity | discriminate]. Qed.

  (* tile r is settled for this requester: it is in the cache and (repaired protocol) the requester has its image *)
  Definition G (c : list (coord * Z)) (src : list (coord * option Z)) (r : coord) : Prop :=
    cached c r = true /\ (o_reload S = true -> has_src src r = true).

  Definition units_ok (unc : list coord) (l : list coord) : Prop :=
    forall m, In m l -> exists r, In r unc /\ m = o_main S r.

  Definition todo_units (c : list (coord * Z)) (req : list coord) (src : list (coord * option Z)) (m : coord) (rest : list coord) : Prop :=
    forall r, In r req -> G c src r \/ o_main S r = m \/ In (o_main S r) rest.

  Definition PIpc (c : list (coord * Z)) (f : list coord) (k : pc) (req : list coord) (src : list (coord * option Z))
             (unc : list coord) : Prop :=
    match k with
    | Load todo => forall r, In r req -> has_src src r = true -> cached c r = true \/ o_expire S = true
    | Check todo => incl todo req /\ forall r, In r req -> G c src r \/ In r todo \/ In r unc
    | Reload t todo => In t req /\ incl todo req /\ cached c t = true /\
                       forall r, In r req -> G c src r \/ r = t \/ In r todo \/ In r unc
    | Lock m rest => units_ok unc (m :: rest) /\ todo_units c req src m rest
    | Fetch m qs rest =>
      units_ok unc (m :: rest) /\ incl qs (queries S m) /\ (forall q, In q (queries S m) -> ~ In q qs -> In q f) /\
      todo_units c req src m rest
    | Recheck m todo rest =>
      units_ok unc (m :: rest) /\ (forall u, In u (o_members S m) -> ~ In u todo -> cached c u = true) /\
      todo_units c req src m rest
    | Store m todo rest =>
      units_ok unc (m :: rest) /\ incl todo (o_members S m) /\ (forall q, In q (queries S m) -> In q f) /\
      forall r, In r req -> G c src r \/ (has_src src r = true /\ In r todo) \/ In (o_main S r) rest
    | LoadUnder m rest => o_single S = true /\ units_ok unc (m :: rest) /\ allc c m /\ todo_units c req src m rest
    | Unlock m after rest =>
      units_ok unc (m :: rest) /\
      if after then allc c m /\ todo_units c req src m rest
      else forall r, In r req -> G c src r \/ In (o_main S r) rest
    | LoadAfter m todo rest =>
      units_ok unc (m :: rest) /\ (forall u, In u todo -> cached c u = true) /\
      forall r, In r req -> G c src r \/ (o_main S r = m /\ In r todo) \/ In (o_main S r) rest
    | Done => forall r, In r req -> G c src r
    end.

  Definition PI (c : list (coord * Z)) (f : list coord) (pr : proc) : Prop :=
    src_ok (p_src pr) /\
    (forall r, In r (p_unc pr) -> In r (p_req pr) /\ cached c0 r = false) /\
    (forall r, In r (p_req pr) -> valid r) /\
    PIpc c f (p_pc pr) (p_req pr) (p_src pr) (p_unc pr).

  Lemma G_mono c c' src r : (forall t, cached c t = true -> cached c' t = true) -> G c src r -> G c' src r.
  Proof. intros Hm [H1 H2]. split; auto. Qed.

  Lemma PI_mono c f c' f' pr :
    (forall t, cached c t = true -> cached c' t = true) -> incl f f' -> PI c f pr -> PI c' f' pr.
  Proof.
    intros Hm Hf [H1 [H2 [H3 H4]]]. split; [exact H1|]. split; [exact H2|]. split; [exact H3|].
    unfold PIpc, todo_units, allc in *.
    destruct (p_pc pr) as [todo|todo|t rtodo|m rest|m todo rest|m todo rest|m todo rest|m rest|m a rest|m todo rest|].
    - intros r Hr Hs. destruct (H4 r Hr Hs); auto.
    - destruct H4 as [Hi H4]. split; [exact Hi|]. intros r Hr. destruct (H4 r Hr) as [H|H]; [left; eapply G_mono; eauto | right; exact H].
    - destruct H4 as [Ht [Hi [Hc H4]]]. repeat split; auto. intros r Hr.
      destruct (H4 r Hr) as [H|H]; [left; eapply G_mono; eauto | right; exact H].
    - destruct H4 as [Hu H4]. split; [exact Hu|]. intros r Hr.
      destruct (H4 r Hr) as [H|H]; [left; eapply G_mono; eauto | right; exact H].
    - destruct H4 as [Hu [Hc H4]]. repeat split; auto. intros r Hr.
      destruct (H4 r Hr) as [H|H]; [left; eapply G_mono; eauto | right; exact H].
    - destruct H4 as [Hu [Hi [Hq H4]]]. split; [exact Hu|]. split; [exact Hi|]. split; [intros q H5 H6; apply Hf; auto|]. intros r Hr.
      destruct (H4 r Hr) as [H|H]; [left; eapply G_mono; eauto | right; exact H].
    - destruct H4 as [Hu [Hi [Hin H4]]]. split; [exact Hu|]. split; [exact Hi|]. split; [intros q H5; apply Hf; auto|]. intros r Hr.
      destruct (H4 r Hr) as [H|H]; [left; eapply G_mono; eauto | right; exact H].
    - destruct H4 as [Hsg [Hu [Hc H4]]]. repeat split; auto. intros r Hr.
      destruct (H4 r Hr) as [H|H]; [left; eapply G_mono; eauto | right; exact H].
    - destruct H4 as [Hu H4]. split; [exact Hu|]. destruct a.
      + destruct H4 as [Hc H4]. split; [auto|]. intros r Hr.
        destruct (H4 r Hr) as [H|H]; [left; eapply G_mono; eauto | right; exact H].
      + intros r Hr. destruct (H4 r Hr) as [H|H]; [left; eapply G_mono; eauto | right; exact H].
    - destruct H4 as [Hu [Hc H4]]. repeat split; auto. intros r Hr.
      destruct (H4 r Hr) as [H|H]; [left; eapply G_mono; eauto | right; exact H].
    - intros r Hr. eapply G_mono; eauto.
  Qed.

  Lemma src_of_cons_eq src t v : src_of ((t, Some v) :: src) t = Some v.
  Proof. unfold src_of. rewrite lookup_cons_eq. reflexivity. Qed.

  Lemma has_src_cons_neq src t x r : t <> r -> has_src ((t, x) :: src) r = has_src src r.
  Proof. intros H. unfold has_src, src_of. rewrite lookup_cons_neq by exact H. reflexivity. Qed.

  Lemma has_src_cons_some src t v r : has_src src r = true -> has_src ((t, Some v) :: src) r = true.
  Proof.
    intros H. destruct (coord_eq_dec t r) as [->|Hn]; [|rewrite has_src_cons_neq by exact Hn; exact H].
    unfold has_src. rewrite src_of_cons_eq. reflexivity.
  Qed.

  Lemma has_src_cons_cached c src t r :
    cached c t = true -> has_src src r = true -> has_src ((t, lookup c t) :: src) r = true.
  Proof. intros Hc H. destruct (cached_lookup _ _ Hc) as [v ->]. apply has_src_cons_some. exact H. Qed.

  Lemma has_src_cons_cached_eq c src t : cached c t = true -> has_src ((t, lookup c t) :: src) t = true.
  Proof. intros Hc. destruct (cached_lookup _ _ Hc) as [v ->]. unfold has_src. rewrite src_of_cons_eq. reflexivity. Qed.

  Lemma has_src_app_map l src r :
    has_src (map (fun t => (t, Some (o_up S t))) l ++ src) r = mem r l || has_src src r.
  Proof.
    unfold has_src, src_of. rewrite (lookup_app_map (fun u => Some (o_up S u))). destruct (mem r l); reflexivity.
  Qed.

  Lemma G_cons_some c src t v r : G c src r -> G c ((t, Some v) :: src) r.
  Proof. intros [H1 H2]. split; [exact H1|]. intros Hr. apply has_src_cons_some. auto. Qed.

  Lemma G_cons_cached c src t r : cached c t = true -> G c src r -> G c ((t, lookup c t) :: src) r.
  Proof. intros Hc [H1 H2]. split; [exact H1|]. intros Hr. apply has_src_cons_cached; auto. Qed.

  Lemma G_cons_cached_eq c src t : cached c t = true -> G c ((t, lookup c t) :: src) t.
  Proof. intros Hc. split; [exact Hc|]. intros _. apply has_src_cons_cached_eq. exact Hc. Qed.

  Lemma src_ok_cons_cached c src t : cache_ok c -> src_ok src -> src_ok ((t, lookup c t) :: src).
  Proof.
    intros Hc Hs u v. cbn [lookup]. destruct (coord_eqb_spec t u) as [->|Hn]; [|exact (Hs u v)].
    intros H. injection H as H. left. apply Hc. exact H.
  Qed.

  Lemma units_ok_units unc : units_ok unc (units S unc).
  Proof.
    intros m Hm. unfold units in Hm. destruct (o_single S).
    - apply in_map_iff in Hm. destruct Hm as [r [<- Hr]]. eauto.
    - apply dedup_incl in Hm. apply in_map_iff in Hm. destruct Hm as [r [<- Hr]]. eauto.
  Qed.

  Lemma units_cover unc r : In r unc -> In (o_main S r) (units S unc).
  Proof.
    intros Hr. unfold units. destruct (o_single S).
    - apply in_map. exact Hr.
    - destruct (dedup_In (map (o_main S) unc) [] (o_main S r) (in_map _ _ _ Hr)) as [H|[]]. exact H.
  Qed.

  (* entering the loop over the units *)
  Lemma PIpc_next_unit c f req src unc l :
    units_ok unc l -> (forall r, In r req -> G c src r \/ In (o_main S r) l) ->
    PIpc c f (next_unit l) req src unc.
  Proof.
    intros Hu H. destruct l as [|m rest]; cbn [next_unit PIpc].
    - intros r Hr. destruct (H r Hr) as [HG|[]]. exact HG.
    - split; [exact Hu|]. intros r Hr. destruct (H r Hr) as [HG|[<-|Hin]]; auto.
  Qed.

  Lemma units_ok_tail unc m rest : units_ok unc (m :: rest) -> units_ok unc rest.
  Proof. intros H x Hx. apply H. right. exact Hx. Qed.

  Lemma G_cons_neq c src t x r : t <> r -> G c src r -> G c ((t, x) :: src) r.
  Proof. intros Hn [H1 H2]. split; [exact H1|]. intros Hr. rewrite has_src_cons_neq by exact Hn. auto. Qed.

  (* is some requested tile in unit m? (decidable: finite list, decidable equality) *)
  Lemma classic_main req m : (exists r, In r req /\ o_main S r = m) \/ (forall r, In r req -> o_main S r <> m).
  Proof.
    induction req as [|x req IH]; [right; intros r []|].
    destruct (coord_eq_dec (o_main S x) m) as [He|Hne]; [left; exists x; split; [left; reflexivity | exact He]|].
    destruct IH as [[r [Hr Hm]]|Hn]; [left; exists r; split; [right; exact Hr | exact Hm]|].
    right. intros r [<-|Hr]; auto.
  Qed.

  Ltac keep3 := split; [try assumption | split; [try assumption | split; [try assumption|]]].

  Lemma PI_step p c l f pr c' l' f' pr' o :
    cache_ok c -> (forall t, cached c0 t = true -> cached c t = true) -> PI c f pr ->
    lstep S p c l f pr = (c', l', f', pr', o) -> PI c' f' pr'.
  Proof.
    intros Hok H0 HPI E. unfold PI in *. destruct pr as [k req src unc]. cbn [p_pc p_req p_src p_unc with_pc with_src] in *.
    destruct HPI as [Hsrc [Hunc [Hval Hpc]]]. unfold lstep in E. cbn [p_pc p_req p_src p_unc with_pc with_src] in E.
    destruct k as [todo|todo|t rtodo|m rest|m todo rest|m todo rest|m todo rest|m rest|m a rest|m todo rest|];
      try destruct todo as [|t' todo]; cbn [PIpc] in Hpc.
    - (* Load [] *) injection E as <- <- <- <- <-. cbn [p_pc p_req p_src p_unc with_pc with_src]. keep3. cbn [PIpc]. split.
      + intros x Hx. apply filter_In in Hx. tauto.
      + intros r Hr. destruct (o_expire S) eqn:Ee; [right; left; apply filter_In; auto|].
        destruct (has_src src r) eqn:Eh.
        * left. destruct (Hpc r Hr Eh) as [H|H]; [split; auto | discriminate].
        * right. left. apply filter_In. rewrite Eh. auto.
    - (* Load *) destruct (file S c t') as [v|] eqn:El; injection E as <- <- <- <- <-; cbn [p_pc p_req p_src p_unc with_pc with_src]; keep3; cbn [PIpc].
      + intros u w. cbn [lookup]. destruct (coord_eqb_spec t' u) as [->|Hn]; [|exact (Hsrc u w)].
        intros H. injection H as <-. unfold file in El. destruct (lookup c u) as [v'|] eqn:El2; [|right; exact El].
        injection El as <-. left. apply Hok. exact El2.
      + intros r Hr Hs. destruct (coord_eq_dec t' r) as [<-|Hn].
        * unfold file in El. destruct (lookup c t') as [v'|] eqn:El2; [left; eapply lookup_cached; exact El2|].
          destruct (o_expire S) eqn:Ee; [right; reflexivity|]. rewrite (Hold eq_refl) in El. discriminate.
        * rewrite has_src_cons_neq in Hs by exact Hn. auto.
      + intros r Hr Hs. auto.
    - (* Check [] *) injection E as <- <- <- <- <-. cbn [p_pc p_req p_src p_unc with_pc with_src]. keep3.
      destruct Hpc as [_ Hpc]. apply PIpc_next_unit; [apply units_ok_units|].
      intros r Hr. destruct (Hpc r Hr) as [H|[[]|H]]; [left; exact H | right; apply units_cover; exact H].
    - (* Check *) destruct Hpc as [Hincl Hpc]. destruct (cached c t') eqn:Ec; injection E as <- <- <- <- <-; cbn [p_pc p_req p_src p_unc with_pc with_src]; keep3.
      + destruct (has_src src t') eqn:Ehs; [cbn [PIpc]; split; [intros x Hx; apply Hincl; right; exact Hx|];
          intros r Hr; destruct (Hpc r Hr) as [H|[[<-|H]|H]]; auto; left; split; auto|].
        destruct (o_reload S) eqn:Er; cbn [PIpc].
        * split; [apply Hincl; left; reflexivity|]. split; [intros x Hx; apply Hincl; right; exact Hx|]. split; [exact Ec|].
          intros r Hr. destruct (Hpc r Hr) as [H|[[<-|H]|H]]; auto.
        * split; [intros x Hx; apply Hincl; right; exact Hx|].
          intros r Hr. destruct (Hpc r Hr) as [H|[[<-|H]|H]]; auto. left. split; [exact Ec | intros; congruence].
      + intros r H. apply in_app_or in H. destruct H as [H|[<-|[]]]; [apply Hunc; exact H|].
        split; [apply Hincl; left; reflexivity|].
        destruct (cached c0 t') eqn:E0; [|reflexivity]. apply H0 in E0. congruence.
      + cbn [PIpc]. split; [intros x Hx; apply Hincl; right; exact Hx|].
        intros r' Hr. destruct (Hpc r' Hr) as [H|[[<-|H]|H]]; auto.
        * right. right. apply in_or_app. right. left. reflexivity.
        * right. right. apply in_or_app. left. exact H.
    - (* Reload *) destruct Hpc as [Ht [Hincl [Hc Hpc]]]. rewrite (file_cached _ _ Hc) in E. injection E as <- <- <- <- <-. cbn [p_pc p_req p_src p_unc with_pc with_src]. keep3.
      + apply src_ok_cons_cached; assumption.
      + cbn [PIpc]. split; [exact Hincl|].
        intros r Hr. destruct (Hpc r Hr) as [H|[->|[H|H]]]; auto.
        * left. apply G_cons_cached; assumption.
        * left. apply G_cons_cached_eq. exact Hc.
    - (* Lock *) destruct (lookup l (o_key S m)); injection E as <- <- <- <- <-; cbn [p_pc p_req p_src p_unc with_pc with_src]; keep3.
      + exact Hpc.
      + rewrite Hrecheck. cbn [PIpc]. destruct Hpc as [Hu Hpc]. split; [exact Hu|]. split; [|exact Hpc].
        intros u Hu1 Hu2. contradiction.
    - (* Recheck [] *) destruct Hpc as [Hu [Hc Hpc]]. injection E as <- <- <- <- <-. cbn [p_pc p_req p_src p_unc with_pc with_src]. keep3.
      assert (Hall : allc c m) by (intros u Hm; apply Hc; [exact Hm | intros []]).
      destruct (o_single S) eqn:Es; cbn [PIpc]; auto.
    - (* Recheck *) destruct Hpc as [Hu [Hc Hpc]]. destruct (cached c t') eqn:Ec; injection E as <- <- <- <- <-;
        cbn [p_pc p_req p_src p_unc with_pc with_src]; keep3; cbn [PIpc].
      2:{ split; [exact Hu|]. split; [apply incl_refl|]. split; [intros q H1 H2; contradiction | exact Hpc]. }
      split; [exact Hu|]. split; [|exact Hpc].
      intros u Hm Hn. destruct (coord_eq_dec t' u) as [<-|Hne]; [exact Ec|]. apply Hc; [exact Hm|]. intros [H|H]; contradiction.
    - (* Fetch [] *) destruct Hpc as [Hu [Hi [Hq Hpc]]]. injection E as <- <- <- <- <-. cbn [p_pc p_req p_src p_unc with_pc with_src]. keep3.
      + intros u w. rewrite (lookup_app_map (fun x => Some (o_up S x))). destruct (mem u (o_members S m)); [|exact (Hsrc u w)].
        intros H. injection H as <-. left. reflexivity.
      + cbn [PIpc]. split; [exact Hu|]. split; [apply incl_refl|]. split; [intros q H1; apply Hq; [exact H1 | intros []]|].
        intros r Hr. destruct (Hpc r Hr) as [[H1 H2]|[H|H]]; auto.
        * left. split; [exact H1|]. intros Hrl. rewrite has_src_app_map, (H2 Hrl). apply orb_true_r.
        * right. left. assert (Hin : In r (o_members S m)) by (rewrite <- H; apply HA; auto).
          split; [|exact Hin]. rewrite has_src_app_map. apply mem_In in Hin. rewrite Hin. reflexivity.
    - (* Fetch *) destruct Hpc as [Hu [Hi [Hq Hpc]]]. injection E as <- <- <- <- <-. cbn [p_pc p_req p_src p_unc with_pc with_src]. keep3.
      cbn [PIpc]. split; [exact Hu|]. split; [intros x Hx; apply Hi; right; exact Hx|]. split; [|exact Hpc].
      intros q H1 H2. destruct (coord_eq_dec t' q) as [->|Hn]; [left; reflexivity|]. right. apply Hq; [exact H1|].
      intros [H|H]; contradiction.
    - (* Store [] *) destruct Hpc as [Hu [Hi [Hf Hpc]]]. injection E as <- <- <- <- <-. cbn [p_pc p_req p_src p_unc with_pc with_src]. keep3.
      cbn [PIpc]. split; [exact Hu|]. intros r Hr. destruct (Hpc r Hr) as [H|[[_ []]|H]]; auto.
    - (* Store *) destruct Hpc as [Hu [Hi [Hf Hpc]]]. injection E as <- <- <- <- <-. cbn [p_pc p_req p_src p_unc with_pc with_src]. keep3.
      cbn [PIpc]. split; [exact Hu|]. split; [intros x Hx; apply Hi; right; exact Hx|]. split; [exact Hf|].
      intros r Hr. destruct (Hpc r Hr) as [H|[[Hs [<-|Hin]]|H]]; auto.
      + left. eapply G_mono; [|exact H]. intros u. apply cached_cons.
      + left. split; [apply cached_cons_eq | intros _; exact Hs].
    - (* LoadUnder *) destruct Hpc as [Hsg [Hu [Hc Hpc]]].
      assert (Hcm : forall r, In r req -> o_main S r = m -> r = m /\ cached c m = true).
      { intros r Hr H. assert (r = m) by (rewrite <- H; symmetry; apply HS; auto). subst r. split; [reflexivity|].
        apply Hc. pose proof (HA m (Hval m Hr)) as HA'. rewrite H in HA'. exact HA'. }
      destruct (has_src src m) eqn:Ehs.
      { injection E as <- <- <- <- <-. cbn [p_pc p_req p_src p_unc with_pc with_src]. keep3. cbn [PIpc]. split; [exact Hu|].
        intros r Hr. destruct (Hpc r Hr) as [H|[H|H]]; auto. left. destruct (Hcm r Hr H) as [-> Hcc]. split; auto. }
      assert (Hfile : forall r, In r req -> o_main S r = m -> file S c m = lookup c m).
      { intros r Hr H. apply file_cached. apply (Hcm r Hr H). }
      destruct (classic_main req m) as [[r0 [Hr0 Hm0]]|Hnone].
      2:{ injection E as <- <- <- <- <-. cbn [p_pc p_req p_src p_unc with_pc with_src]. keep3.
          - intros u w. cbn [lookup]. destruct (coord_eqb_spec m u) as [->|Hn]; [|exact (Hsrc u w)].
            intros H. injection H as H. unfold file in H. destruct (lookup c u) as [v'|] eqn:El2; [|right; exact H].
            injection H as <-. left. apply Hok. exact El2.
          - cbn [PIpc]. split; [exact Hu|]. intros r Hr. destruct (Hpc r Hr) as [H|[H|H]]; auto.
            + left. destruct (coord_eq_dec m r) as [->|Hn]; [exfalso; apply (Hnone r Hr); apply HS; auto | apply G_cons_neq; assumption].
            + exfalso. apply (Hnone r Hr H). }
      rewrite (Hfile r0 Hr0 Hm0) in E.
      injection E as <- <- <- <- <-. cbn [p_pc p_req p_src p_unc with_pc with_src]. keep3.
      + apply src_ok_cons_cached; assumption.
      + cbn [PIpc]. split; [exact Hu|].
        intros r Hr. destruct (Hpc r Hr) as [H|[H|H]]; auto.
        * left. destruct (coord_eq_dec m r) as [->|Hn]; [apply G_cons_cached_eq; apply H | apply G_cons_neq; assumption].
        * left. assert (r = m) by (rewrite <- H; symmetry; apply HS; auto). subst r.
          apply G_cons_cached_eq. apply Hc. pose proof (HA m (Hval m Hr)) as HA'. rewrite H in HA'. exact HA'.
    - (* Unlock *) destruct Hpc as [Hu Hpc]. injection E as <- <- <- <- <-. cbn [p_pc p_req p_src p_unc with_pc with_src]. keep3.
      destruct a; cbn [PIpc].
      + destruct Hpc as [Hc Hpc]. split; [exact Hu|]. split; [exact Hc|].
        intros r Hr. destruct (Hpc r Hr) as [H|[H|H]]; auto.
        right. left. split; [exact H|]. rewrite <- H. apply HA. auto.
      + apply PIpc_next_unit; [eapply units_ok_tail; exact Hu | exact Hpc].
    - (* LoadAfter [] *) destruct Hpc as [Hu [Hc Hpc]]. injection E as <- <- <- <- <-. cbn [p_pc p_req p_src p_unc with_pc with_src]. keep3.
      apply PIpc_next_unit; [eapply units_ok_tail; exact Hu|].
      intros r Hr. destruct (Hpc r Hr) as [H|[[_ []]|H]]; auto.
    - (* LoadAfter *) destruct Hpc as [Hu [Hc Hpc]].
      assert (Hct : cached c t' = true) by (apply Hc; left; reflexivity).
      rewrite (file_cached _ _ Hct) in E.
      injection E as <- <- <- <- <-. cbn [p_pc p_req p_src p_unc with_pc with_src].
      keep3.
      + apply src_ok_cons_cached; assumption.
      + cbn [PIpc]. split; [exact Hu|]. split; [intros u Hin; apply Hc; right; exact Hin|].
        intros r Hr. destruct (Hpc r Hr) as [H|[[Hm [<-|Hin]]|H]]; auto.
        * left. apply G_cons_cached; assumption.
        * left. apply G_cons_cached_eq. exact Hct.
    - (* Done *) injection E as <- <- <- <- <-. cbn [p_pc p_req p_src p_unc with_pc with_src]. keep3. exact Hpc.
  Qed.

  (* ---------------------------------------------------------------- the global invariant *)

  Ltac fin_same := cbn [p_req with_pc with_src]; split; [reflexivity|]; split; left; reflexivity.

  Lemma lstep_world p c l f pr c' l' f' pr' o :
    lstep S p c l f pr = (c', l', f', pr', o) ->
    p_req pr' = p_req pr /\
    (c' = c \/ exists t m todo rest, p_pc pr = Store m (t :: todo) rest /\ c' = (t, o_up S t) :: c) /\
    (f' = f \/ exists q m qs rest, p_pc pr = Fetch m (q :: qs) rest /\ f' = q :: f).
  Proof.
    unfold lstep.
    destruct (p_pc pr) as [todo|todo|t rtodo|m rest|m todo rest|m todo rest|m todo rest|m rest|m a rest|m todo rest|] eqn:Hpc;
      try destruct todo as [|t' todo].
    all: try (intros H; injection H as <- <- <- <- <-; fin_same).
    - destruct (file S c t'); intros H; injection H as <- <- <- <- <-; fin_same.
    - destruct (cached c t'); intros H; injection H as <- <- <- <- <-; fin_same.
    - destruct (lookup l (o_key S m)); intros H; injection H as <- <- <- <- <-; fin_same.
    - destruct (cached c t'); intros H; injection H as <- <- <- <- <-; fin_same.
    - intros H; injection H as <- <- <- <- <-; cbn [p_req with_pc with_src]; split; [reflexivity|]; split; [left; reflexivity|].
      right. exists t', m, todo, rest. split; reflexivity.
    - intros H; injection H as <- <- <- <- <-; cbn [p_req with_pc with_src]; split; [reflexivity|]; split; [|left; reflexivity].
      right. exists t', m, todo, rest. split; reflexivity.
    - destruct (has_src (p_src pr) m); intros H; injection H as <- <- <- <- <-; fin_same.
  Qed.

  Lemma map_set_nth {A B} (g : A -> B) (l : list A) n x y :
    nth_error l n = Some y -> g x = g y -> map g (set_nth l n x) = map g l.
  Proof.
    revert n. induction l as [|z r IH]; intros [|n]; cbn [set_nth nth_error map]; try discriminate.
    - intros H Hg. injection H as ->. rewrite Hg. reflexivity.
    - intros H Hg. rewrite (IH _ H Hg). reflexivity.
  Qed.

  Definition isunit (m : coord) : Prop := exists r, valid r /\ m = o_main S r.

  Lemma queries_nonempty r : valid r -> exists q, In q (queries S (o_main S r)).
  Proof.
    intros Hv. unfold queries. destruct (o_bulk S); [exists r; apply HA; exact Hv | exists (o_main S r); left; reflexivity].
  Qed.

  Record GInv (reqs : list (list coord)) (s : state) : Prop := mk_GInv {
    g_ok : cache_ok (cache s);
    g_c0 : forall t, cached c0 t = true -> cached (cache s) t = true;
    g_pi : forall p pr, nth_error (procs s) p = Some pr -> PI (cache s) (fetched s) pr;
    g_req : map p_req (procs s) = reqs;
    g_dom : forall t, cached (cache s) t = true ->
                      cached c0 t = true \/
                      exists m q, isunit m /\ In q (fetched s) /\ In q (queries S m) /\ In t (o_members S m);
    g_why : forall q, In q (fetched s) ->
                      exists p pr r, nth_error (procs s) p = Some pr /\ In r (p_req pr) /\ cached c0 r = false /\
                                     In q (queries S (o_main S r))
  }.

  Lemma ginv_step reqs s p : GInv reqs s -> GInv reqs (fst (step S s p)).
  Proof.
    intros HG. destruct (nth_error (procs s) p) as [pr|] eqn:Hp; [|rewrite step_none by exact Hp; exact HG].
    rewrite (step_lstep _ _ _ _ Hp).
    destruct (lstep S p (cache s) (locks s) (fetched s) pr) as [[[[c' l'] f'] pr'] o] eqn:E. cbn [fst].
    pose proof (PI_step _ _ _ _ _ _ _ _ _ _ (g_ok _ _ HG) (g_c0 _ _ HG) (g_pi _ _ HG _ _ Hp) E) as HPI'.
    destruct (lstep_world _ _ _ _ _ _ _ _ _ _ E) as [Hreq [Hc Hf]].
    assert (Hnth : forall q, nth_error (set_nth (procs s) p pr') q = if Nat.eqb q p then Some pr' else nth_error (procs s) q).
    { intros q. destruct (Nat.eqb_spec q p) as [->|Hn]; [eapply nth_set_nth_eq; exact Hp | apply nth_set_nth_neq; congruence]. }
    assert (Hcm : forall t, cached (cache s) t = true -> cached c' t = true).
    { destruct Hc as [->|[t [m [todo [rest [_ ->]]]]]]; [auto | intros u; apply cached_cons]. }
    assert (Hfm : incl (fetched s) f').
    { destruct Hf as [->|[q0 [m [qs [rest [_ ->]]]]]]; [apply incl_refl | apply incl_tl, incl_refl]. }
    pose proof (g_pi _ _ HG _ _ Hp) as [_ [Hunc [Hval Hpipc]]].
    constructor; cbn [cache fetched procs].
    - destruct Hc as [->|[t [m [todo [rest [_ ->]]]]]]; [apply (g_ok _ _ HG)|].
      intros u v. cbn [lookup]. destruct (coord_eqb_spec t u) as [->|Hn]; [|apply (g_ok _ _ HG)].
      intros H. injection H as <-. reflexivity.
    - intros t Ht. apply Hcm. apply (g_c0 _ _ HG). exact Ht.
    - intros q prq Hq. rewrite Hnth in Hq. destruct (Nat.eqb_spec q p) as [->|Hn].
      + injection Hq as <-. exact HPI'.
      + eapply PI_mono; [exact Hcm | exact Hfm | apply (g_pi _ _ HG _ _ Hq)].
    - rewrite <- (g_req _ _ HG). eapply map_set_nth; eassumption.
    - assert (Hkeep : forall u, cached (cache s) u = true -> cached c0 u = true \/
                        exists m q, isunit m /\ In q f' /\ In q (queries S m) /\ In u (o_members S m)).
      { intros u Hu. destruct (g_dom _ _ HG u Hu) as [H|[m [q [Hm [Hq [Hqm Hin]]]]]]; [left; exact H|].
        right. exists m, q. repeat split; auto. }
      intros u Hu. destruct Hc as [->|[t [m [todo [rest [Hpc ->]]]]]]; [apply Hkeep; exact Hu|].
      destruct (coord_eq_dec t u) as [<-|Hn].
      + right. rewrite Hpc in Hpipc. cbn [PIpc] in Hpipc. destruct Hpipc as [Hu' [Hi [Hm _]]].
        destruct (Hu' m (or_introl eq_refl)) as [r [Hr Hmr]]. destruct (Hunc r Hr) as [Hrr _].
        destruct (queries_nonempty r (Hval r Hrr)) as [q Hq]. rewrite <- Hmr in Hq.
        exists m, q. split; [exists r; split; [apply Hval; exact Hrr | exact Hmr]|].
        split; [apply Hfm; apply Hm; exact Hq|]. split; [exact Hq | apply Hi; left; reflexivity].
      + unfold cached in Hu. rewrite lookup_cons_neq in Hu by exact Hn. apply Hkeep. exact Hu.
    - assert (Hprev : forall q, In q (fetched s) -> exists p0 pr0 r, nth_error (set_nth (procs s) p pr') p0 = Some pr0 /\
                       In r (p_req pr0) /\ cached c0 r = false /\ In q (queries S (o_main S r))).
      { intros m Hm. destruct (g_why _ _ HG m Hm) as [q [prq [r [Hq [Hr [H0 Hmr]]]]]].
        destruct (Nat.eq_dec q p) as [->|Hn].
        - exists p, pr', r. rewrite Hnth, Nat.eqb_refl. rewrite Hp in Hq. injection Hq as <-. rewrite Hreq. auto.
        - exists q, prq, r. rewrite Hnth. destruct (Nat.eqb_spec q p); [contradiction | auto]. }
      destruct Hf as [->|[q0 [m [qs [rest [Hpc ->]]]]]]; [exact Hprev|].
      intros q' [<-|Hm']; [|apply Hprev; exact Hm'].
      rewrite Hpc in Hpipc. cbn [PIpc] in Hpipc. destruct Hpipc as [Hu [Hi _]].
      destruct (Hu m (or_introl eq_refl)) as [r [Hr Hmr]]. destruct (Hunc r Hr) as [Hrr H0].
      exists p, pr', r. rewrite Hnth, Nat.eqb_refl, Hreq. repeat split; auto. rewrite <- Hmr. apply Hi. left. reflexivity.
  Qed.

  Lemma ginv_init reqs :
    cache_ok c0 -> (forall req r, In req reqs -> In r req -> valid r) -> GInv reqs (init c0 reqs).
  Proof.
    intros Hok Hv. constructor; cbn [init cache fetched procs].
    - exact Hok.
    - auto.
    - intros p pr Hp. apply nth_error_In in Hp. apply in_map_iff in Hp. destruct Hp as [req [<- Hin]].
      unfold PI, init_proc. cbn [p_pc p_req p_src p_unc PIpc]. split; [intros t v H; discriminate|].
      split; [intros r []|]. split; [intros r Hr; eapply Hv; eassumption|]. intros r Hr H. discriminate.
    - rewrite map_map. cbn [init_proc p_req]. apply map_id.
    - auto.
    - intros m [].
  Qed.

  (* ---------------------------------------------------------------- every upstream request is made once *)

  (* different units ask the upstream different things; a unit does not ask the same thing twice *)
  Hypothesis HQ : forall r r' q, valid r -> valid r' ->
    In q (queries S (o_main S r)) -> In q (queries S (o_main S r')) -> o_main S r = o_main S r'.
  Hypothesis HQnd : forall r, valid r -> NoDup (queries S (o_main S r)).

  Lemma pc_unit reqs s p pr m :
    GInv reqs s -> nth_error (procs s) p = Some pr -> holds (p_pc pr) = Some m -> isunit m.
  Proof.
    intros HG Hp Hm. destruct (g_pi _ _ HG _ _ Hp) as [_ [Hunc [Hval Hpc]]].
    assert (Hu : units_ok (p_unc pr) [m] -> isunit m).
    { intros H. destruct (H m (or_introl eq_refl)) as [r [Hr ->]]. exists r. split; [apply Hval; apply (Hunc r Hr) | reflexivity]. }
    apply Hu. intros x [<-|[]].
    destruct (p_pc pr) as [todo|todo|t rtodo|m' rest|m' todo rest|m' todo rest|m' todo rest|m' rest|m' a rest|m' todo rest|];
      try discriminate Hm; injection Hm as ->; cbn [PIpc] in Hpc.
    - apply (proj1 Hpc). left. reflexivity.
    - apply (proj1 Hpc). left. reflexivity.
    - apply (proj1 Hpc). left. reflexivity.
    - apply (proj1 (proj2 Hpc)). left. reflexivity.
    - apply (proj1 Hpc). left. reflexivity.
  Qed.

  (* some requester is storing the tiles of unit m: what it has already stored is in the cache *)
  Definition storing (s : state) (m : coord) : Prop :=
    exists p pr todo rest, nth_error (procs s) p = Some pr /\ p_pc pr = Store m todo rest /\
      forall u, In u (o_members S m) -> ~ In u todo -> cached (cache s) u = true.
  (* some requester is in the upstream requests of unit m and has made request q *)
  Definition fetching (s : state) (m q : coord) : Prop :=
    exists p pr qs rest, nth_error (procs s) p = Some pr /\ p_pc pr = Fetch m qs rest /\ ~ In q qs.

  Record FetchInv (s : state) : Prop := mk_FetchInv {
    fi_nodup : NoDup (fetched s);
    fi_done : forall q m, In q (fetched s) -> In q (queries S m) -> isunit m ->
                          allc (cache s) m \/ storing s m \/ fetching s m q;
    fi_fetch : forall p pr m qs rest, nth_error (procs s) p = Some pr -> p_pc pr = Fetch m qs rest ->
                                      (forall q, In q qs -> ~ In q (fetched s)) /\ NoDup qs /\ incl qs (queries S m);
    fi_recheck : forall p pr m todo rest, nth_error (procs s) p = Some pr -> p_pc pr = Recheck m todo rest ->
                                          incl todo (o_members S m)
  }.

  Definition is_store (c : pc) : bool := match c with Store _ _ _ => true | _ => false end.
  Definition is_fetch (c : pc) : bool := match c with Fetch _ _ _ => true | _ => false end.

  Lemma next_unit_store rest : is_store (next_unit rest) = false.
  Proof. destruct rest; reflexivity. Qed.
  Lemma next_unit_fetch rest : is_fetch (next_unit rest) = false.
  Proof. destruct rest; reflexivity. Qed.
  Lemma next_unit_recheck rest m todo r : next_unit rest = Recheck m todo r -> False.
  Proof. destruct rest; discriminate. Qed.

  (* steps that neither write the cache, nor call the upstream, nor enter / leave Store, Fetch, Recheck *)
  Lemma fetch_inv_frame s p pr pr' l' :
    FetchInv s -> nth_error (procs s) p = Some pr ->
    is_store (p_pc pr) = false -> is_fetch (p_pc pr) = false ->
    is_store (p_pc pr') = false -> is_fetch (p_pc pr') = false ->
    (forall m todo rest, p_pc pr' = Recheck m todo rest -> incl todo (o_members S m)) ->
    FetchInv (mk_state (cache s) l' (fetched s) (set_nth (procs s) p pr')).
  Proof.
    intros HF Hp Hs Hf Hs' Hf' Hr'.
    assert (Hnth : forall q, nth_error (set_nth (procs s) p pr') q = if Nat.eqb q p then Some pr' else nth_error (procs s) q).
    { intros q. destruct (Nat.eqb_spec q p) as [->|Hn]; [eapply nth_set_nth_eq; exact Hp | apply nth_set_nth_neq; congruence]. }
    constructor; cbn [fetched cache procs].
    - apply (fi_nodup _ HF).
    - intros q m Hq Hqm Hum. destruct (fi_done _ HF q m Hq Hqm Hum) as [H|[[w [prw [todo [rest [Hw [Hpc Hc]]]]]]|[w [prw [qs [rest [Hw [Hpc Hc]]]]]]]].
      + left; exact H.
      + right; left. exists w, prw, todo, rest. cbn [procs cache]. rewrite Hnth.
        destruct (Nat.eqb_spec w p) as [->|Hn]; [|auto]. rewrite Hp in Hw. injection Hw as <-. rewrite Hpc in Hs. discriminate.
      + right; right. exists w, prw, qs, rest. cbn [procs]. rewrite Hnth.
        destruct (Nat.eqb_spec w p) as [->|Hn]; [|auto]. rewrite Hp in Hw. injection Hw as <-. rewrite Hpc in Hf. discriminate.
    - intros w prw m qs rest Hw Hpc. rewrite Hnth in Hw. destruct (Nat.eqb_spec w p) as [->|Hn].
      + injection Hw as <-. rewrite Hpc in Hf'. discriminate.
      + eapply (fi_fetch _ HF); eassumption.
    - intros w prw m todo rest Hw Hpc. rewrite Hnth in Hw. destruct (Nat.eqb_spec w p) as [->|Hn].
      + injection Hw as <-. eapply Hr'; eassumption.
      + eapply (fi_recheck _ HF); eassumption.
  Qed.

  Lemma fetch_inv_step reqs s p : LockInv s -> GInv reqs s -> FetchInv s -> FetchInv (fst (step S s p)).
  Proof.
    intros HL HG HF. destruct (nth_error (procs s) p) as [pr|] eqn:Hp; [|rewrite step_none by exact Hp; exact HF].
    rewrite (step_lstep _ _ _ _ Hp). unfold lstep.
    assert (Hnth : forall pr' q, nth_error (set_nth (procs s) p pr') q = if Nat.eqb q p then Some pr' else nth_error (procs s) q).
    { intros pr' q. destruct (Nat.eqb_spec q p) as [->|Hn]; [eapply nth_set_nth_eq; exact Hp | apply nth_set_nth_neq; congruence]. }
    destruct (p_pc pr) as [todo|todo|t rtodo|m rest|m todo rest|m todo rest|m todo rest|m rest|m a rest|m todo rest|] eqn:Hpc;
      try destruct todo as [|t' todo].
    - (* Load [] *) cbn [fst]. eapply fetch_inv_frame; eauto; try (rewrite Hpc; reflexivity); cbn; try reflexivity. discriminate.
    - (* Load *) destruct (file S (cache s) t'); cbn [fst];
        (eapply fetch_inv_frame; eauto; try (rewrite Hpc; reflexivity); cbn; try reflexivity; discriminate).
    - (* Check [] *) cbn [fst]. eapply fetch_inv_frame; eauto; try (rewrite Hpc; reflexivity); cbn [p_pc with_pc].
      + apply next_unit_store. + apply next_unit_fetch. + intros ? ? ? H. exfalso. eapply next_unit_recheck; exact H.
    - (* Check *) destruct (cached (cache s) t'); cbn [fst].
      + eapply fetch_inv_frame; eauto; try (rewrite Hpc; reflexivity); cbn [p_pc with_pc];
          destruct (has_src (p_src pr) t'); try destruct (o_reload S); try reflexivity; discriminate.
      + eapply fetch_inv_frame; eauto; try (rewrite Hpc; reflexivity); cbn; try reflexivity; discriminate.
    - (* Reload *) cbn [fst]. eapply fetch_inv_frame; eauto; try (rewrite Hpc; reflexivity); cbn; try reflexivity. discriminate.
    - (* Lock *) destruct (lookup (locks s) (o_key S m)); cbn [fst].
      + eapply fetch_inv_frame; eauto; try (rewrite Hpc; reflexivity). rewrite Hpc. discriminate.
      + rewrite Hrecheck. eapply fetch_inv_frame; eauto; try (rewrite Hpc; reflexivity); cbn; try reflexivity.
        intros ? ? ? H. injection H as <- <- <-. apply incl_refl.
    - (* Recheck [] *) cbn [fst]. eapply fetch_inv_frame; eauto; try (rewrite Hpc; reflexivity); cbn [p_pc with_pc];
        destruct (o_single S); try reflexivity; discriminate.
    - (* Recheck *) pose proof (fi_recheck _ HF _ _ _ _ _ Hp Hpc) as Hincl.
      destruct (cached (cache s) t') eqn:Ec; cbn [fst].
      + eapply fetch_inv_frame; eauto; try (rewrite Hpc; reflexivity); cbn; try reflexivity.
        intros ? ? ? H. injection H as <- <- <-. intros u Hu. apply Hincl. right. exact Hu.
      + (* a miss under the lock: nobody has asked the upstream anything for this unit *)
        assert (Hum : isunit m) by (eapply pc_unit; [exact HG | exact Hp | rewrite Hpc; reflexivity]).
        assert (Hnot : forall q, In q (queries S m) -> ~ In q (fetched s)).
        { intros q Hqm Hq. destruct (fi_done _ HF q m Hq Hqm Hum) as [H|[[w [prw [todo' [rest' [Hw [Hpcw _]]]]]]|[w [prw [qs [rest' [Hw [Hpcw _]]]]]]]].
          - rewrite (H t') in Ec; [discriminate | apply Hincl; left; reflexivity].
          - assert (p = w) by (eapply holders_differ; [exact HL | exact Hp | exact Hw | rewrite Hpc; reflexivity | rewrite Hpcw; reflexivity]).
            subst w. rewrite Hp in Hw. injection Hw as <-. congruence.
          - assert (p = w) by (eapply holders_differ; [exact HL | exact Hp | exact Hw | rewrite Hpc; reflexivity | rewrite Hpcw; reflexivity]).
            subst w. rewrite Hp in Hw. injection Hw as <-. congruence. }
        constructor; cbn [fetched cache procs].
        * apply (fi_nodup _ HF).
        * intros q m' Hq Hqm Hum'. destruct (fi_done _ HF q m' Hq Hqm Hum') as [H|[[w [prw [todo' [rest' [Hw [Hpcw Hc]]]]]]|[w [prw [qs [rest' [Hw [Hpcw Hc]]]]]]]].
          -- left; exact H.
          -- right; left. exists w, prw, todo', rest'. cbn [procs cache]. rewrite Hnth.
             destruct (Nat.eqb_spec w p) as [->|Hn]; [|auto]. rewrite Hp in Hw. injection Hw as <-. congruence.
          -- right; right. exists w, prw, qs, rest'. cbn [procs]. rewrite Hnth.
             destruct (Nat.eqb_spec w p) as [->|Hn]; [|auto]. rewrite Hp in Hw. injection Hw as <-. congruence.
        * intros w prw m' qs rest' Hw Hpcw. rewrite Hnth in Hw. destruct (Nat.eqb_spec w p) as [->|Hn].
          -- injection Hw as <-. cbn in Hpcw. injection Hpcw as <- <- <-. split; [exact Hnot|]. split; [|apply incl_refl].
             destruct Hum as [r [Hv ->]]. apply HQnd. exact Hv.
          -- eapply (fi_fetch _ HF); eassumption.
        * intros w prw m' todo' rest' Hw Hpcw. rewrite Hnth in Hw. destruct (Nat.eqb_spec w p) as [->|Hn].
          -- injection Hw as <-. discriminate.
          -- eapply (fi_recheck _ HF); eassumption.
    - (* Fetch [] : all answers are there, the tiles are stored next *) cbn [fst]. constructor; cbn [fetched cache procs].
      + apply (fi_nodup _ HF).
      + intros q m' Hq Hqm Hum'. destruct (fi_done _ HF q m' Hq Hqm Hum') as [H|[[w [prw [todo' [rest' [Hw [Hpcw Hc]]]]]]|[w [prw [qs [rest' [Hw [Hpcw Hc]]]]]]]].
        * left; exact H.
        * right; left. exists w, prw, todo', rest'. cbn [procs cache]. rewrite Hnth.
          destruct (Nat.eqb_spec w p) as [->|Hn]; [|auto]. rewrite Hp in Hw. injection Hw as <-. congruence.
        * destruct (Nat.eq_dec w p) as [->|Hn].
          -- right; left. rewrite Hp in Hw. injection Hw as <-. rewrite Hpc in Hpcw. injection Hpcw as <- <- <-.
             eexists p, _, (o_members S m), rest. cbn [procs cache]. rewrite Hnth, Nat.eqb_refl. split; [reflexivity|].
             split; [reflexivity|]. intros u Hu Hnu. contradiction.
          -- right; right. exists w, prw, qs, rest'. cbn [procs]. rewrite Hnth. destruct (Nat.eqb_spec w p); [contradiction | auto].
      + intros w prw m' qs rest' Hw Hpcw. rewrite Hnth in Hw. destruct (Nat.eqb_spec w p) as [->|Hn].
        * injection Hw as <-. discriminate.
        * eapply (fi_fetch _ HF); eassumption.
      + intros w prw m' todo' rest' Hw Hpcw. rewrite Hnth in Hw. destruct (Nat.eqb_spec w p) as [->|Hn].
        * injection Hw as <-. discriminate.
        * eapply (fi_recheck _ HF); eassumption.
    - (* Fetch : one upstream request *) cbn [fst]. destruct (fi_fetch _ HF _ _ _ _ _ Hp Hpc) as [Hnew [Hnd Hinc]].
      assert (Hum : isunit m) by (eapply pc_unit; [exact HG | exact Hp | rewrite Hpc; reflexivity]).
      constructor; cbn [fetched cache procs].
      + constructor; [apply Hnew; left; reflexivity | apply (fi_nodup _ HF)].
      + intros q m' [<-|Hq] Hqm Hum'.
        * assert (m' = m).
          { destruct Hum as [r [Hv ->]], Hum' as [r' [Hv' ->]]. apply (HQ r' r t'); auto. apply Hinc. left. reflexivity. }
          subst m'. right; right. eexists p, _, todo, rest. cbn [procs]. rewrite Hnth, Nat.eqb_refl.
          split; [reflexivity|]. split; [reflexivity|]. inversion Hnd. assumption.
        * destruct (fi_done _ HF q m' Hq Hqm Hum') as [H|[[w [prw [todo' [rest' [Hw [Hpcw Hc]]]]]]|[w [prw [qs [rest' [Hw [Hpcw Hc]]]]]]]].
          -- left; exact H.
          -- right; left. exists w, prw, todo', rest'. cbn [procs cache]. rewrite Hnth.
             destruct (Nat.eqb_spec w p) as [->|Hn]; [|auto]. rewrite Hp in Hw. injection Hw as <-. congruence.
          -- right; right. destruct (Nat.eq_dec w p) as [->|Hn].
             ++ rewrite Hp in Hw. injection Hw as <-. rewrite Hpc in Hpcw. injection Hpcw as <- <- <-.
                eexists p, _, todo, rest. cbn [procs]. rewrite Hnth, Nat.eqb_refl. split; [reflexivity|]. split; [reflexivity|].
                intros Hin. apply Hc. right. exact Hin.
             ++ exists w, prw, qs, rest'. cbn [procs]. rewrite Hnth. destruct (Nat.eqb_spec w p); [contradiction | auto].
      + intros w prw m' qs rest' Hw Hpcw. rewrite Hnth in Hw. destruct (Nat.eqb_spec w p) as [->|Hn].
        * injection Hw as <-. cbn in Hpcw. injection Hpcw as <- <- <-. inversion Hnd as [|? ? Hnin Hnd']. subst.
          split; [|split; [exact Hnd' | intros x Hx; apply Hinc; right; exact Hx]].
          intros q Hq [<-|Hin]; [contradiction | apply (Hnew q); [right; exact Hq | exact Hin]].
        * destruct (fi_fetch _ HF _ _ _ _ _ Hw Hpcw) as [Hnew' [Hnd' Hinc']]. split; [|split; assumption].
          intros q Hq [<-|Hin]; [|apply (Hnew' q Hq Hin)].
          assert (Hum' : isunit m') by (eapply pc_unit; [exact HG | exact Hw | rewrite Hpcw; reflexivity]).
          assert (m' = m).
          { destruct Hum as [r [Hv ->]], Hum' as [r' [Hv' ->]]. apply (HQ r' r t'); auto. apply Hinc. left. reflexivity. }
          subst m'. apply Hn. symmetry.
          eapply holders_differ; [exact HL | exact Hp | exact Hw | rewrite Hpc; reflexivity | rewrite Hpcw; reflexivity].
      + intros w prw m' todo' rest' Hw Hpcw. rewrite Hnth in Hw. destruct (Nat.eqb_spec w p) as [->|Hn].
        * injection Hw as <-. discriminate.
        * eapply (fi_recheck _ HF); eassumption.
    - (* Store [] *) cbn [fst]. constructor; cbn [fetched cache procs].
      + apply (fi_nodup _ HF).
      + intros q m' Hq Hqm Hum'. destruct (fi_done _ HF q m' Hq Hqm Hum') as [H|[[w [prw [todo' [rest' [Hw [Hpcw Hc]]]]]]|[w [prw [qs [rest' [Hw [Hpcw Hc]]]]]]]].
        * left; exact H.
        * destruct (Nat.eq_dec w p) as [->|Hn].
          -- left. rewrite Hp in Hw. injection Hw as <-. rewrite Hpc in Hpcw. injection Hpcw as <- <- <-.
             intros u Hu. apply Hc; [exact Hu | intros []].
          -- right; left. exists w, prw, todo', rest'. cbn [procs cache]. rewrite Hnth. destruct (Nat.eqb_spec w p); [contradiction | auto].
        * right; right. exists w, prw, qs, rest'. cbn [procs]. rewrite Hnth.
          destruct (Nat.eqb_spec w p) as [->|Hn]; [|auto]. rewrite Hp in Hw. injection Hw as <-. congruence.
      + intros w prw m' qs rest' Hw Hpcw. rewrite Hnth in Hw. destruct (Nat.eqb_spec w p) as [->|Hn].
        * injection Hw as <-. discriminate.
        * eapply (fi_fetch _ HF); eassumption.
      + intros w prw m' todo' rest' Hw Hpcw. rewrite Hnth in Hw. destruct (Nat.eqb_spec w p) as [->|Hn].
        * injection Hw as <-. discriminate.
        * eapply (fi_recheck _ HF); eassumption.
    - (* Store *) cbn [fst]. constructor; cbn [fetched cache procs].
      + apply (fi_nodup _ HF).
      + intros q m' Hq Hqm Hum'. destruct (fi_done _ HF q m' Hq Hqm Hum') as [H|[[w [prw [todo' [rest' [Hw [Hpcw Hc]]]]]]|[w [prw [qs [rest' [Hw [Hpcw Hc]]]]]]]].
        * left. intros u Hu. apply cached_cons. apply H. exact Hu.
        * right; left. destruct (Nat.eq_dec w p) as [->|Hn].
          -- rewrite Hp in Hw. injection Hw as <-. rewrite Hpc in Hpcw. injection Hpcw as <- <- <-.
             exists p, (with_pc pr (Store m todo rest)), todo, rest. cbn [procs cache]. rewrite Hnth, Nat.eqb_refl.
             repeat split. intros u Hu Hnu. destruct (coord_eq_dec t' u) as [->|Hne]; [apply cached_cons_eq|].
             apply cached_cons. apply Hc; [exact Hu|]. intros [H|H]; [contradiction | contradiction].
          -- exists w, prw, todo', rest'. cbn [procs cache]. rewrite Hnth. destruct (Nat.eqb_spec w p); [contradiction|].
             repeat split; try assumption. intros u Hu Hnu. apply cached_cons. apply Hc; assumption.
        * right; right. exists w, prw, qs, rest'. cbn [procs]. rewrite Hnth.
          destruct (Nat.eqb_spec w p) as [->|Hn]; [|auto]. rewrite Hp in Hw. injection Hw as <-. congruence.
      + intros w prw m' qs rest' Hw Hpcw. rewrite Hnth in Hw. destruct (Nat.eqb_spec w p) as [->|Hn].
        * injection Hw as <-. discriminate.
        * eapply (fi_fetch _ HF); eassumption.
      + intros w prw m' todo' rest' Hw Hpcw. rewrite Hnth in Hw. destruct (Nat.eqb_spec w p) as [->|Hn].
        * injection Hw as <-. discriminate.
        * eapply (fi_recheck _ HF); eassumption.
    - (* LoadUnder *) destruct (has_src (p_src pr) m); cbn [fst];
        (eapply fetch_inv_frame; eauto; try (rewrite Hpc; reflexivity); cbn; try reflexivity; discriminate).
    - (* Unlock *) cbn [fst]. eapply fetch_inv_frame; eauto; try (rewrite Hpc; reflexivity); cbn [p_pc with_pc]; destruct a;
        try reflexivity; try discriminate; try apply next_unit_store; try apply next_unit_fetch.
      intros ? ? ? H. exfalso. eapply next_unit_recheck; exact H.
    - (* LoadAfter [] *) cbn [fst]. eapply fetch_inv_frame; eauto; try (rewrite Hpc; reflexivity); cbn [p_pc with_pc].
      + apply next_unit_store. + apply next_unit_fetch. + intros ? ? ? H. exfalso. eapply next_unit_recheck; exact H.
    - (* LoadAfter *) cbn [fst]. eapply fetch_inv_frame; eauto; try (rewrite Hpc; reflexivity); cbn; try reflexivity. discriminate.
    - (* Done *) cbn [fst]. rewrite (set_nth_same _ _ _ Hp). destruct s; exact HF.
  Qed.

  Lemma fetch_inv_init reqs : FetchInv (init c0 reqs).
  Proof.
    constructor; cbn [init fetched procs cache].
    - constructor.
    - intros q m [].
    - intros p pr m qs rest Hp Hpc. apply nth_error_In in Hp. apply in_map_iff in Hp. destruct Hp as [r [<- _]]. discriminate.
    - intros p pr m todo rest Hp Hpc. apply nth_error_In in Hp. apply in_map_iff in Hp. destruct Hp as [r [<- _]]. discriminate.
  Qed.

  Definition Reach (reqs : list (list coord)) (s : state) : Prop := LockInv s /\ FetchInv s /\ GInv reqs s.

  Lemma reach_run reqs sched :
    cache_ok c0 -> (forall req r, In req reqs -> In r req -> valid r) ->
    Reach reqs (run S (init c0 reqs) sched).
  Proof.
    intros Hok Hv. apply (run_inv S (Reach reqs)).
    - intros s p [HL [HF HG]]. split; [apply lock_inv_step; exact HL|]. split; [apply (fetch_inv_step reqs); assumption | apply ginv_step; exact HG].
    - split; [apply lock_inv_init|]. split; [apply fetch_inv_init | apply ginv_init; assumption].
  Qed.

  (* ---------------------------------------------------------------- responses *)

  Lemma response_entries_correct reqs s p pr r v :
    GInv reqs s -> nth_error (procs s) p = Some pr -> In (r, Some v) (response pr) ->
    v = o_up S r \/ o_old S r = Some v.
  Proof.
    intros HG Hp Hin. destruct (g_pi _ _ HG _ _ Hp) as [Hsrc _]. unfold response in Hin.
    apply in_map_iff in Hin. destruct Hin as [t [Heq _]]. injection Heq as -> Hs.
    unfold src_of in Hs. destruct (lookup (p_src pr) r) as [[w|]|] eqn:E; try discriminate.
    injection Hs as ->. apply Hsrc. exact E.
  Qed.

  (* every requested tile is answered with an image: the upstream's or (expiry) the expired file's *)
  Lemma response_answered reqs s p pr :
    o_reload S = true -> GInv reqs s -> nth_error (procs s) p = Some pr -> p_pc pr = Done ->
    forall r, In r (p_req pr) -> exists v, src_of (p_src pr) r = Some v /\ (v = o_up S r \/ o_old S r = Some v).
  Proof.
    intros Hrl HG Hp Hd r Hr. destruct (g_pi _ _ HG _ _ Hp) as [Hsrc [_ [_ Hpc]]]. rewrite Hd in Hpc. cbn [PIpc] in Hpc.
    destruct (Hpc r Hr) as [_ Hh]. specialize (Hh Hrl).
    unfold has_src, src_of in *. destruct (lookup (p_src pr) r) as [[w|]|] eqn:E; try discriminate.
    exists w. split; [reflexivity | apply Hsrc; exact E].
  Qed.

  Lemma response_complete reqs s p pr :
    o_expire S = false ->
    o_reload S = true -> GInv reqs s -> nth_error (procs s) p = Some pr -> p_pc pr = Done ->
    response pr = map (fun r => (r, Some (o_up S r))) (p_req pr).
  Proof.
    intros He Hrl HG Hp Hd. unfold response. apply map_ext_in. intros r Hr.
    destruct (response_answered _ _ _ _ Hrl HG Hp Hd r Hr) as [v [-> [->|Ho]]]; [reflexivity|].
    rewrite (Hold He) in Ho. discriminate.
  Qed.

  (* responses as they are built (file sources read then): the upstream's image for every requested tile,
     with or without expiry *)
  Lemma response_in_complete reqs s p pr :
    o_reload S = true -> GInv reqs s -> nth_error (procs s) p = Some pr -> p_pc pr = Done ->
    response_in (cache s) pr = map (fun r => (r, Some (o_up S r))) (p_req pr).
  Proof.
    intros Hrl HG Hp Hd. destruct (g_pi _ _ HG _ _ Hp) as [_ [_ [_ Hpc]]]. rewrite Hd in Hpc. cbn [PIpc] in Hpc.
    unfold response_in. apply map_ext_in. intros r Hr. destruct (Hpc r Hr) as [Hc Hh]. specialize (Hh Hrl).
    unfold answer. unfold has_src in Hh. destruct (src_of (p_src pr) r) as [v|]; [|discriminate].
    destruct (cached_lookup _ _ Hc) as [w Hw]. rewrite Hw. rewrite (g_ok _ _ HG _ _ Hw). reflexivity.
  Qed.

  Lemma done_tiles_cached reqs s p pr r :
    GInv reqs s -> nth_error (procs s) p = Some pr -> p_pc pr = Done -> In r (p_req pr) -> cached (cache s) r = true.
  Proof.
    intros HG Hp Hd Hr. destruct (g_pi _ _ HG _ _ Hp) as [_ [_ [_ Hpc]]]. rewrite Hd in Hpc. cbn [PIpc] in Hpc.
    apply (Hpc r Hr).
  Qed.

  (* ---------------------------------------------------------------- final cache *)

  Hypothesis HB : forall r u, valid r -> In u (o_members S (o_main S r)) -> o_main S u = o_main S r.

  Definition needed (reqs : list (list coord)) (t : coord) : Prop :=
    exists req r, In req reqs /\ In r req /\ cached c0 r = false /\ In t (o_members S (o_main S r)).

  Lemma cache_sound reqs s t v :
    GInv reqs s -> lookup (cache s) t = Some v -> v = o_up S t /\ (cached c0 t = true \/ needed reqs t).
  Proof.
    intros HG Hl. split; [apply (g_ok _ _ HG); exact Hl|].
    destruct (g_dom _ _ HG t (lookup_cached _ _ _ Hl)) as [H|[m [q [[r1 [Hv1 ->]] [Hq [Hqm Hin]]]]]]; [left; exact H|]. right.
    destruct (g_why _ _ HG q Hq) as [p [pr [r [Hp [Hr [H0 Hqr]]]]]].
    destruct (g_pi _ _ HG _ _ Hp) as [_ [_ [Hval _]]].
    rewrite (HQ r1 r q Hv1 (Hval r Hr) Hqm Hqr) in Hin.
    exists (p_req pr), r. repeat split; auto. rewrite <- (g_req _ _ HG). apply in_map. eapply nth_error_In. exact Hp.
  Qed.

  Lemma cache_complete reqs s t :
    Reach reqs s -> all_done s = true -> cached c0 t = true \/ needed reqs t -> cached (cache s) t = true.
  Proof.
    intros [HL [HF HG]] Hall [H|[req [r [Hreq [Hr [H0 Hin]]]]]]; [apply (g_c0 _ _ HG); exact H|].
    rewrite <- (g_req _ _ HG) in Hreq. apply in_map_iff in Hreq. destruct Hreq as [pr [<- Hpr]].
    apply In_nth_error in Hpr. destruct Hpr as [p Hp].
    unfold all_done in Hall. rewrite forallb_forall in Hall.
    assert (Hd : p_pc pr = Done).
    { pose proof (Hall pr (nth_error_In _ _ Hp)) as H. unfold is_done in H. destruct (p_pc pr); try discriminate. reflexivity. }
    pose proof (done_tiles_cached _ _ _ _ _ HG Hp Hd Hr) as Hcr.
    destruct (g_dom _ _ HG r Hcr) as [H|[m [q [Hum [Hq [Hqm Hrm]]]]]]; [congruence|].
    assert (Hmain : o_main S r = m) by (destruct Hum as [r1 [Hv1 ->]]; apply HB; assumption).
    rewrite Hmain in Hin.
    destruct (fi_done _ HF q m Hq Hqm Hum) as [Hac|[[q2 [pr2 [todo [rest [Hq2 [Hpc2 _]]]]]]|[q2 [pr2 [qs [rest [Hq2 [Hpc2 _]]]]]]]];
      [apply Hac; exact Hin | |];
      (pose proof (Hall pr2 (nth_error_In _ _ Hq2)) as H; unfold is_done in H; rewrite Hpc2 in H; discriminate).
  Qed.

  (* ---------------------------------------------------------------- a refused lock attempt *)

  Lemma refused_means_held s p k :
    LockInv s -> snd (step S s p) = OLock k false ->
    exists q prq m, q <> p /\ nth_error (procs s) q = Some prq /\ holds (p_pc prq) = Some m /\ o_key S m = k.
  Proof.
    intros [H1 H2] Ho. destruct (nth_error (procs s) p) as [pr|] eqn:Hp; [|rewrite step_none in Ho by exact Hp; discriminate].
    rewrite (step_lstep _ _ _ _ Hp) in Ho. unfold lstep in Ho.
    destruct (p_pc pr) as [todo|todo|t rtodo|m rest|m todo rest|m todo rest|m todo rest|m rest|m a rest|m todo rest|] eqn:Hpc;
      try destruct todo as [|t' todo]; cbn [snd] in Ho; try discriminate.
    - destruct (file S (cache s) t'); discriminate.
    - destruct (cached (cache s) t'); discriminate.
    - destruct (lookup (locks s) (o_key S m)) as [q|] eqn:El; cbn [snd] in Ho; [|discriminate].
      injection Ho as <-. destruct (H2 _ _ El) as [prq [mq [Hq [Hm Hk]]]]. exists q, prq, mq. repeat split; auto.
      intros ->. rewrite Hp in Hq. injection Hq as <-. rewrite Hpc in Hm. discriminate.
    - destruct (cached (cache s) t'); discriminate.
    - destruct (has_src (p_src pr) m); discriminate.
  Qed.
End Proto.

(* ------------------------------------------------------------------ the grid part *)

Local Open Scope Z_scope.

Definition valid_gconf (g : gconf) : Prop :=
  1 <= g_mw g /\ 1 <= g_mh g /\ Forall (fun s => 1 <= fst s /\ 1 <= snd s) (g_sizes g).

Lemma gsize_pos g z : valid_gconf g -> 1 <= fst (gsize g z) /\ 1 <= snd (gsize g z).
Proof.
  intros [_ [_ H]]. unfold gsize.
  destruct (nth_in_or_default (Z.to_nat z) (g_sizes g) (1, 1)) as [Hin | ->]; [|cbn; lia].
  rewrite Forall_forall in H. apply H. exact Hin.
Qed.

Lemma msize_pos g z : valid_gconf g -> 1 <= fst (msize g z) /\ 1 <= snd (msize g z).
Proof.
  intros H. pose proof (gsize_pos g z H) as [H1 H2]. destruct H as [Hw [Hh _]]. unfold msize. cbn [fst snd]. lia.
Qed.

Lemma zrange_In a n v : In v (zrange a n) <-> a <= v < a + n.
Proof.
  unfold zrange. rewrite in_map_iff. split.
  - intros [i [<- Hi]]. apply in_seq in Hi. lia.
  - intros H. exists (Z.to_nat (v - a)). split; [lia|]. apply in_seq. lia.
Qed.

Lemma div_block x w v : 1 <= w -> x / w * w <= v < x / w * w + w -> v / w = x / w.
Proof.
  intros Hw Hv. symmetry. apply (Z.div_unique_pos v w (x / w) (v - x / w * w)); lia.
Qed.

Lemma div_block_self x w : 1 <= w -> x / w * w <= x < x / w * w + w.
Proof.
  intros Hw. pose proof (Z.mul_div_le x w ltac:(lia)). pose proof (Z.mul_succ_div_gt x w ltac:(lia)). lia.
Qed.

Lemma meta_main_idem g t : valid_gconf g -> meta_main g (meta_main g t) = meta_main g t.
Proof.
  intros H. destruct t as [[x y] z]. pose proof (msize_pos g z H) as [H1 H2]. unfold meta_main.
  rewrite !Z.div_mul by lia. reflexivity.
Qed.

Lemma tile_list_In g m u :
  valid_gconf g ->
  In u (tile_list g m) <->
  (let '(x0, y0, z) := meta_main g m in let '(x, y, z') := u in
   z' = z /\ x0 <= x < x0 + fst (msize g z) /\ y0 <= y < y0 + snd (msize g z)).
Proof.
  intros H. unfold tile_list. destruct (meta_main g m) as [[x0 y0] z]. destruct u as [[x y] z'].
  rewrite in_flat_map. split.
  - intros [yy [Hy Hx]]. apply in_map_iff in Hx. destruct Hx as [xx [Heq Hx]]. injection Heq as -> -> ->.
    apply zrange_In in Hx. split; [reflexivity|]. split; [exact Hx|].
    destruct (g_flip g); [|apply in_rev in Hy]; apply zrange_In in Hy; exact Hy.
  - intros [-> [Hx Hy]]. exists y. split.
    + destruct (g_flip g); [|apply in_rev; rewrite rev_involutive]; apply zrange_In; exact Hy.
    + apply in_map_iff. exists x. split; [reflexivity | apply zrange_In; exact Hx].
Qed.

(* (A) a tile of the grid is one of the tiles of its own meta tile *)
Lemma grid_member_self g t : valid_gconf g -> in_grid g t = true -> In t (g_members g (g_main g t)).
Proof.
  intros H Hin. unfold g_members, g_main. destruct (g_meta g); [|left; reflexivity].
  apply filter_In. split; [|exact Hin]. apply tile_list_In; [exact H|]. rewrite meta_main_idem by exact H.
  destruct t as [[x y] z]. pose proof (msize_pos g z H) as [H1 H2]. unfold meta_main.
  split; [reflexivity|]. split; apply div_block_self; assumption.
Qed.

(* (B) all tiles of a meta tile have the same main tile: the meta tiles partition the grid *)
Lemma grid_members_main g t u : valid_gconf g -> In u (g_members g (g_main g t)) -> g_main g u = g_main g t.
Proof.
  intros H Hu. unfold g_members, g_main in *. destruct (g_meta g); [|destruct Hu as [<-|[]]; reflexivity].
  apply filter_In in Hu. destruct Hu as [Hu _]. apply tile_list_In in Hu; [|exact H]. rewrite meta_main_idem in Hu by exact H.
  destruct t as [[x y] z], u as [[x' y'] z']. pose proof (msize_pos g z H) as [H1 H2]. unfold meta_main in *.
  destruct Hu as [-> [Hx Hy]]. rewrite (div_block x _ x' H1 Hx), (div_block y _ y' H2 Hy). reflexivity.
Qed.

(* (C) the coordinate in the lock file name is the main tile of the meta tile *)
Lemma grid_key_main g t : valid_gconf g -> in_grid g t = true -> g_key g (g_main g t) = g_main g t.
Proof.
  intros H Hin. pose proof (grid_member_self g t H Hin) as Hself.
  unfold g_key. destruct (g_meta g) eqn:Em; [|reflexivity].
  destruct (g_members g (g_main g t)) as [|u r] eqn:E; [destruct Hself|].
  assert (HB : g_main g u = g_main g t) by (apply grid_members_main; [exact H | rewrite E; left; reflexivity]).
  unfold g_main in HB at 1. rewrite Em in HB. exact HB.
Qed.

Lemma nodup_app {A} (a b : list A) : NoDup a -> NoDup b -> (forall x, In x a -> ~ In x b) -> NoDup (a ++ b).
Proof.
  induction a as [|x a IH]; intros Ha Hb Hd; [exact Hb|]. cbn [app]. inversion Ha as [|? ? Hx Ha']; subst. constructor.
  - intros Hin. apply in_app_or in Hin. destruct Hin as [Hin|Hin]; [contradiction | apply (Hd x (or_introl eq_refl) Hin)].
  - apply IH; auto. intros y Hy. apply Hd. right. exact Hy.
Qed.

Lemma zrange_nodup a n : NoDup (zrange a n).
Proof.
  unfold zrange. apply FinFun.Injective_map_NoDup; [|apply seq_NoDup]. intros i j H. lia.
Qed.

Lemma flat_map_rows_nodup (xs ys : list Z) (z : Z) :
  NoDup xs -> NoDup ys -> NoDup (flat_map (fun y => map (fun x => (x, y, z)) xs) ys).
Proof.
  intros Hx Hy. induction ys as [|y ys IH]; cbn [flat_map]; [constructor|]. inversion Hy as [|? ? Hn Hy']; subst.
  apply nodup_app; [|apply IH; exact Hy'|].
  - apply FinFun.Injective_map_NoDup; [|exact Hx]. intros a b H. injection H as ->. reflexivity.
  - intros t Ht Ht'. apply in_map_iff in Ht. destruct Ht as [x [<- _]].
    apply in_flat_map in Ht'. destruct Ht' as [y' [Hy'' Hin]]. apply in_map_iff in Hin. destruct Hin as [x' [Heq _]].
    injection Heq as _ ->. contradiction.
Qed.

Lemma grid_members_nodup g m : NoDup (g_members g m).
Proof.
  unfold g_members. destruct (g_meta g); [|repeat constructor; intros []].
  apply NoDup_filter. unfold tile_list. destruct (meta_main g m) as [[x0 y0] z].
  apply flat_map_rows_nodup; [apply zrange_nodup|]. destruct (g_flip g); [|apply NoDup_rev]; apply zrange_nodup.
Qed.

Lemma grid_main_same_iff g t u :
  valid_gconf g -> in_grid g u = true -> (g_main g u = g_main g t <-> In u (g_members g (g_main g t))).
Proof.
  intros H Hu. split; [|apply grid_members_main; exact H]. intros <-. apply grid_member_self; assumption.
Qed.

(* ------------------------------------------------------------------ lock file names *)

From Coq Require Import Ascii String DecimalString DecimalZ DecimalPos Decimal.

Lemma app_inv_len {A} (a a' b b' : list A) : List.length a = List.length a' -> a ++ b = a' ++ b' -> a = a' /\ b = b'.
Proof.
  revert a'. induction a as [|x a IH]; intros [|x' a'] Hl H; cbn in *; try discriminate; [auto|].
  injection H as -> H. destruct (IH a' ltac:(lia) H) as [-> ->]. auto.
Qed.

Lemma split_at_sep {A} (sep : A) (a a' r r' : list A) :
  ~ In sep a -> ~ In sep a' -> a ++ sep :: r = a' ++ sep :: r' -> a = a' /\ r = r'.
Proof.
  revert a'. induction a as [|x a IH]; intros [|x' a'] Ha Ha' H; cbn in *.
  - injection H as ->. auto.
  - injection H as -> _. exfalso. apply Ha'. left. reflexivity.
  - injection H as -> _. exfalso. apply Ha. left. reflexivity.
  - injection H as -> H. destruct (IH a') as [-> ->]; auto.
Qed.

Lemma digits_no_dash d : ~ In dash (list_ascii_of_string (NilEmpty.string_of_uint d)).
Proof.
  induction d; cbn [NilEmpty.string_of_uint list_ascii_of_string In]; [tauto | ..];
    (intros [H|H]; [discriminate H | exact (IHd H)]).
Qed.

Lemma dec_no_dash z : 0 <= z -> ~ In dash (dec z).
Proof.
  intros Hz. unfold dec. destruct z as [|p|p]; [| |lia].
  - cbn. intros [H|[]]. discriminate H.
  - cbn [Z.to_int NilZero.string_of_int NilZero.string_of_uint].
    destruct (Pos.to_uint p) eqn:E; try apply digits_no_dash. cbn. intros [H|[]]. discriminate H.
Qed.

Lemma list_ascii_inj s s' : list_ascii_of_string s = list_ascii_of_string s' -> s = s'.
Proof. intros H. rewrite <- (string_of_list_ascii_of_string s), H. apply string_of_list_ascii_of_string. Qed.

Lemma dec_inj z z' : 0 <= z -> 0 <= z' -> dec z = dec z' -> z = z'.
Proof.
  intros Hz Hz' H. unfold dec in H. apply list_ascii_inj in H. apply DecimalZ.to_int_inj.
  assert (Hn : forall v, 0 <= v -> exists d, Z.to_int v = Pos d /\ d <> Nil).
  { intros [|p|p] Hv; [| |lia]; cbn [Z.to_int].
    - exists zero. split; [reflexivity | discriminate].
    - exists (Pos.to_uint p). split; [reflexivity | apply Unsigned.to_uint_nonnil]. }
  destruct (Hn z Hz) as [d [E Hd]], (Hn z' Hz') as [d' [E' Hd']]. rewrite E, E' in *.
  cbn [NilZero.string_of_int] in H. pose proof (NilZero.usu d Hd) as U. rewrite H, (NilZero.usu d' Hd') in U. congruence.
Qed.

Definition nonneg (t : coord) : Prop := let '(x, y, z) := t in 0 <= x /\ 0 <= y /\ 0 <= z.

Lemma lock_name_inj id id' t t' :
  List.length id = List.length id' -> nonneg t -> nonneg t' -> lock_name id t = lock_name id' t' -> id = id' /\ t = t'.
Proof.
  destruct t as [[x y] z], t' as [[x' y'] z']. intros Hl [Hx [Hy Hz]] [Hx' [Hy' Hz']] H. unfold lock_name in H.
  destruct (app_inv_len _ _ _ _ Hl H) as [-> H1]. split; [reflexivity|].
  injection H1 as H1.
  destruct (split_at_sep dash _ _ _ _ (dec_no_dash x Hx) (dec_no_dash x' Hx') H1) as [Ex H2].
  destruct (split_at_sep dash _ _ _ _ (dec_no_dash y Hy) (dec_no_dash y' Hy') H2) as [Ey H3].
  apply app_inv_tail in H3.
  rewrite (dec_inj _ _ Hx Hx' Ex), (dec_inj _ _ Hy Hy' Ey), (dec_inj _ _ Hz Hz' H3). reflexivity.
Qed.

(* ------------------------------------------------------------------ the theorems for MapProxy's grids *)

Close Scope string_scope.

Definition valid_reqs (g : gconf) (reqs : list (list coord)) : Prop :=
  forall req r, In req reqs -> In r req -> in_grid g r = true.

Definition content_ok (up : coord -> Z) (c0 : list (coord * Z)) : Prop :=
  forall t v, lookup c0 t = Some v -> v = up t.

(* tile t belongs to the meta tile of a requested tile that was not in the cache at the start *)
Definition needed_tile (g : gconf) (c0 : list (coord * Z)) (reqs : list (list coord)) (t : coord) : Prop :=
  exists req r, In req reqs /\ In r req /\ cached c0 r = false /\ In t (g_members g (g_main g r)).

(* without an expire timestamp no file counts as expired *)
Definition old_ok (expire : bool) (old : coord -> option Z) : Prop := expire = false -> forall t, old t = None.

Lemma grid_queries g rc rl up ex old bulk m :
  queries (grid_sys_b g rc rl up ex old bulk) m = if bulk && g_meta g then g_members g m else [m].
Proof. reflexivity. Qed.

Lemma grid_HQ g rc rl up ex old bulk :
  valid_gconf g ->
  let S := grid_sys_b g rc rl up ex old bulk in
  forall r r' q, in_grid g r = true -> in_grid g r' = true ->
    In q (queries S (o_main S r)) -> In q (queries S (o_main S r')) -> o_main S r = o_main S r'.
Proof.
  intros Hg S r r' q Hv Hv'. unfold S. rewrite !grid_queries. cbn [grid_sys_b o_main]. destruct (bulk && g_meta g).
  - intros H1 H2. rewrite <- (grid_members_main g r q Hg H1), <- (grid_members_main g r' q Hg H2). reflexivity.
  - intros [<-|[]] [H|[]]. symmetry. exact H.
Qed.

Lemma grid_reach g reload up expire old bulk c0 reqs sched :
  valid_gconf g -> valid_reqs g reqs -> content_ok up c0 -> old_ok expire old ->
  Reach (grid_sys_b g true reload up expire old bulk) c0 (fun r => in_grid g r = true) reqs
        (run (grid_sys_b g true reload up expire old bulk) (init c0 reqs) sched).
Proof.
  intros Hg Hr Hc Ho. apply reach_run; try rewrite ?grid_queries; cbn [grid_sys_b o_recheck o_members o_main o_single o_up o_expire o_old]; auto.
  - intros r Hv. apply grid_member_self; assumption.
  - intros Hs r _. unfold g_main. destruct (g_meta g); [discriminate | reflexivity].
  - intros r r' q Hv Hv'. rewrite !grid_queries. destruct (bulk && g_meta g).
    + intros H1 H2. rewrite <- (grid_members_main g r q Hg H1), <- (grid_members_main g r' q Hg H2). reflexivity.
    + intros [<-|[]] [H|[]]. symmetry. exact H.
  - intros r Hv. rewrite grid_queries. destruct (bulk && g_meta g); [apply grid_members_nodup | repeat constructor; intros []].
Qed.

Lemma grid_one_fetch g reload up expire old bulk c0 reqs sched :
  valid_gconf g -> valid_reqs g reqs -> content_ok up c0 -> old_ok expire old ->
  let S := grid_sys_b g true reload up expire old bulk in
  let s := run S (init c0 reqs) sched in
  NoDup (fetched s) /\
  forall q, In q (fetched s) ->
            exists req r, In req reqs /\ In r req /\ cached c0 r = false /\ In q (queries S (g_main g r)).
Proof.
  intros Hg Hr Hc Ho S s.
  destruct (grid_reach g reload up expire old bulk c0 reqs sched Hg Hr Hc Ho) as [_ [HF HG]]. fold S in HF, HG. fold s in HF, HG.
  split; [apply (fi_nodup _ _ _ HF)|].
  intros m Hm. destruct (g_why _ _ _ _ _ HG m Hm) as [p [pr [r [Hp [Hin [H0 Hmr]]]]]].
  exists (p_req pr), r. repeat split; auto. rewrite <- (g_req _ _ _ _ _ HG). apply in_map. eapply nth_error_In. exact Hp.
Qed.

Lemma nth_error_req {S c0 valid reqs s} p pr :
  GInv S c0 valid reqs s -> nth_error (procs s) p = Some pr -> nth_error reqs p = Some (p_req pr).
Proof. intros HG Hp. rewrite <- (g_req _ _ _ _ _ HG). apply map_nth_error. exact Hp. Qed.

(* no expire timestamp: the image of the upstream for every requested tile *)
Lemma grid_responses_correct g up c0 reqs sched p pr :
  valid_gconf g -> valid_reqs g reqs -> content_ok up c0 ->
  let s := run (grid_sys g true true up) (init c0 reqs) sched in
  nth_error (procs s) p = Some pr -> p_pc pr = Done ->
  exists req, nth_error reqs p = Some req /\ response pr = map (fun r => (r, Some (up r))) req.
Proof.
  intros Hg Hr Hc s Hp Hd.
  assert (Ho : old_ok false (fun _ : coord => @None Z)) by (intros _ t; reflexivity).
  destruct (grid_reach g true up false (fun _ => None) false c0 reqs sched Hg Hr Hc Ho) as [_ [_ HG]].
  change (grid_sys_x g true true up false (fun _ => None)) with (grid_sys g true true up) in HG. fold s in HG.
  exists (p_req pr). split; [eapply nth_error_req; eassumption|].
  apply (response_complete (grid_sys g true true up) c0 (fun r => in_grid g r = true) ltac:(intros _ t; reflexivity)
           reqs s p pr eq_refl eq_refl HG Hp Hd).
Qed.

(* with an expire timestamp: every requested tile is answered with the image of the upstream or with the
   expired image that was in the cache at the start (a request that waited for the lock keeps the image it
   loaded before) - never without image and never with another tile's image *)
Lemma grid_responses_answered g up expire old bulk c0 reqs sched p pr r :
  valid_gconf g -> valid_reqs g reqs -> content_ok up c0 -> old_ok expire old ->
  let s := run (grid_sys_b g true true up expire old bulk) (init c0 reqs) sched in
  nth_error (procs s) p = Some pr -> p_pc pr = Done -> In r (p_req pr) ->
  exists v, In (r, Some v) (response pr) /\ (v = up r \/ old r = Some v).
Proof.
  intros Hg Hr Hc Ho s Hp Hd Hin. destruct (grid_reach g true up expire old bulk c0 reqs sched Hg Hr Hc Ho) as [_ [_ HG]]. fold s in HG.
  destruct (response_answered (grid_sys_b g true true up expire old bulk) c0 (fun r => in_grid g r = true) _ _ _ _ eq_refl HG Hp Hd r Hin)
    as [v [Hv Hok]].
  exists v. split; [|exact Hok]. unfold response. apply in_map_iff. exists r. rewrite Hv. auto.
Qed.

Lemma grid_responses_built g up expire old bulk c0 reqs sched p pr :
  valid_gconf g -> valid_reqs g reqs -> content_ok up c0 -> old_ok expire old ->
  let s := run (grid_sys_b g true true up expire old bulk) (init c0 reqs) sched in
  nth_error (procs s) p = Some pr -> p_pc pr = Done ->
  exists req, nth_error reqs p = Some req /\ response_in (cache s) pr = map (fun r => (r, Some (up r))) req.
Proof.
  intros Hg Hr Hc Ho s Hp Hd. destruct (grid_reach g true up expire old bulk c0 reqs sched Hg Hr Hc Ho) as [_ [_ HG]]. fold s in HG.
  exists (p_req pr). split; [eapply nth_error_req; eassumption|].
  apply (response_in_complete (grid_sys_b g true true up expire old bulk) c0 (fun r => in_grid g r = true) reqs s p pr eq_refl HG Hp Hd).
Qed.

Lemma grid_unanswered_is_cached g reload up expire old bulk c0 reqs sched p pr r :
  valid_gconf g -> valid_reqs g reqs -> content_ok up c0 -> old_ok expire old ->
  let s := run (grid_sys_b g true reload up expire old bulk) (init c0 reqs) sched in
  nth_error (procs s) p = Some pr -> p_pc pr = Done -> In r (p_req pr) -> lookup (cache s) r = Some (up r).
Proof.
  intros Hg Hr Hc Ho s Hp Hd Hin. destruct (grid_reach g reload up expire old bulk c0 reqs sched Hg Hr Hc Ho) as [_ [_ HG]]. fold s in HG.
  pose proof (done_tiles_cached _ _ _ _ _ _ _ _ HG Hp Hd Hin) as H. destruct (cached_lookup _ _ H) as [v Hv].
  rewrite Hv. f_equal. apply (g_ok _ _ _ _ _ HG _ _ Hv).
Qed.

Lemma grid_final_cache g reload up expire old bulk c0 reqs sched :
  valid_gconf g -> valid_reqs g reqs -> content_ok up c0 -> old_ok expire old ->
  let s := run (grid_sys_b g true reload up expire old bulk) (init c0 reqs) sched in
  (forall t v, lookup (cache s) t = Some v -> v = up t /\ (cached c0 t = true \/ needed_tile g c0 reqs t)) /\
  (all_done s = true -> forall t, cached c0 t = true \/ needed_tile g c0 reqs t -> lookup (cache s) t = Some (up t)).
Proof.
  intros Hg Hr Hc Ho s. pose proof (grid_reach g reload up expire old bulk c0 reqs sched Hg Hr Hc Ho) as HR. fold s in HR.
  pose proof HR as [_ [_ HG]]. split.
  - intros t v Hl. apply (cache_sound _ c0 (fun r => in_grid g r = true) (grid_HQ g true reload up expire old bulk Hg) reqs s t v HG Hl).
  - intros Hall t Ht.
    assert (H : cached (cache s) t = true).
    { eapply (cache_complete (grid_sys_b g true reload up expire old bulk)); [|exact HR | exact Hall | exact Ht].
      cbn [grid_sys_b o_members o_main]. intros r u _ Hu. apply grid_members_main; assumption. }
    destruct (cached_lookup _ _ H) as [v Hv]. rewrite Hv. f_equal. apply (g_ok _ _ _ _ _ HG _ _ Hv).
Qed.

Lemma grid_refused g reload up expire old bulk c0 reqs sched p k :
  valid_gconf g -> valid_reqs g reqs -> content_ok up c0 -> old_ok expire old ->
  let s := run (grid_sys_b g true reload up expire old bulk) (init c0 reqs) sched in
  snd (step (grid_sys_b g true reload up expire old bulk) s p) = OLock k false ->
  exists q prq m, q <> p /\ nth_error (procs s) q = Some prq /\ holds (p_pc prq) = Some m /\ g_key g m = k.
Proof.
  intros Hg Hr Hc Ho s Hobs. destruct (grid_reach g reload up expire old bulk c0 reqs sched Hg Hr Hc Ho) as [HL _]. fold s in HL.
  apply (refused_means_held _ _ _ _ HL Hobs).
Qed.

Lemma grid_key_iff g t u :
  valid_gconf g -> in_grid g t = true -> in_grid g u = true ->
  (g_key g (g_main g t) = g_key g (g_main g u) <-> g_main g t = g_main g u).
Proof. intros Hg Ht Hu. rewrite !grid_key_main by assumption. tauto. Qed.

(* a requester inside a critical section is not waiting for a lock: its next step is never a refused attempt *)
Lemma holder_not_waiting S s q pr m k :
  nth_error (procs s) q = Some pr -> holds (p_pc pr) = Some m -> snd (step S s q) <> OLock k false.
Proof.
  intros Hq Hm. rewrite (step_lstep _ _ _ _ Hq). unfold lstep.
  destruct (p_pc pr) as [todo|todo|t rtodo|m' rest|m' todo rest|m' todo rest|m' todo rest|m' rest|m' a rest|m' todo rest|];
    try discriminate Hm; try destruct todo as [|t' todo]; cbn [snd]; try discriminate.
  - destruct (cached (cache s) t'); discriminate.
  - destruct (has_src (p_src pr) m'); discriminate.
Qed.

Lemma grid_no_deadlock g reload up expire old bulk c0 reqs sched p k :
  valid_gconf g -> valid_reqs g reqs -> content_ok up c0 -> old_ok expire old ->
  let s := run (grid_sys_b g true reload up expire old bulk) (init c0 reqs) sched in
  snd (step (grid_sys_b g true reload up expire old bulk) s p) = OLock k false ->
  exists q, q <> p /\ forall k', snd (step (grid_sys_b g true reload up expire old bulk) s q) <> OLock k' false.
Proof.
  intros Hg Hr Hc Ho s Hobs. destruct (grid_refused g reload up expire old bulk c0 reqs sched p k Hg Hr Hc Ho Hobs) as [q [prq [m [Hn [Hq [Hm _]]]]]].
  exists q. split; [exact Hn|]. intros k'. eapply holder_not_waiting; eassumption.
Qed.

(* ------------------------------------------------------------------ witnesses and non-vacuity *)

Definition up0 (t : coord) : Z := let '(x, y, z) := t in (x + 256 * y + 65536 * z)%Z.
Definition single_grid : gconf := mk_gconf false 1 1 false [(1, 1); (2, 2)]%Z.
Definition meta_grid : gconf := mk_gconf true 2 2 false [(1, 1); (2, 2); (3, 3)]%Z.
Definition t111 : coord := (1, 1, 1)%Z.

(* two requesters of one uncached tile, protocol without the re-check: both miss, both fetch *)
Definition norecheck_schedule : list nat := [0; 0; 0; 1; 1; 1; 0; 0; 0; 0; 0; 0; 0; 1; 1; 1; 1; 1; 1; 1]%nat.
Lemma no_recheck_two_fetches :
  let s := run (grid_sys single_grid false false up0) (init [] [[t111]; [t111]]) norecheck_schedule in
  all_done s = true /\ fetched s = [t111; t111].
Proof. vm_compute. split; reflexivity. Qed.

(* the same schedule with the re-check: one fetch, both answered *)
Example recheck_one_fetch :
  let s := run (grid_sys single_grid true false up0) (init [] [[t111]; [t111]]) (norecheck_schedule ++ [0; 1; 1; 1; 1; 1]%nat) in
  all_done s = true /\ fetched s = [t111] /\ map response (procs s) = [[(t111, Some (up0 t111))]; [(t111, Some (up0 t111))]].
Proof. vm_compute. repeat split; reflexivity. Qed.

(* before the repair of F22: requester 0 looks (miss), requester 1 creates the tile, requester 0 looks again (hit) and answers without image *)
Definition race_schedule : list nat := [0; 1; 1; 1; 1; 1; 1; 1; 1; 1; 1; 1; 0; 0; 0]%nat.
Lemma race_unanswered :
  let s := run (grid_sys single_grid true false up0) (init [] [[t111]; [t111]]) race_schedule in
  all_done s = true /\ map response (procs s) = [[(t111, None)]; [(t111, Some (up0 t111))]].
Proof. vm_compute. split; reflexivity. Qed.

(* ... and the code (with the reload) *)
Example race_repaired :
  let s := run (grid_sys single_grid true true up0) (init [] [[t111]; [t111]]) (race_schedule ++ [0]%nat) in
  all_done s = true /\ map response (procs s) = [[(t111, Some (up0 t111))]; [(t111, Some (up0 t111))]].
Proof. vm_compute. split; reflexivity. Qed.

(* three requesters, meta tiles 2x2 on a 3x3 level, one tile cached beforehand, round robin *)
Definition nv_reqs : list (list coord) := [[(2, 2, 2)]; [(2, 2, 2); (1, 1, 2)]; [(0, 1, 2); (1, 1, 2); (0, 0, 2)]]%Z.
Definition nv_c0 : list (coord * Z) := [((1, 0, 2), up0 (1, 0, 2))]%Z.
Fixpoint round_robin (n k : nat) : list nat :=
  match k with O => [] | Datatypes.S k' => seq 0 n ++ round_robin n k' end.
Example nv_valid : valid_gconf meta_grid /\ valid_reqs meta_grid nv_reqs /\ content_ok up0 nv_c0.
Proof.
  split; [|split].
  - unfold valid_gconf, meta_grid; cbn. repeat split; try lia. repeat constructor; cbn; lia.
  - intros req r Hreq Hr. cbn in Hreq.
    repeat (destruct Hreq as [<-|Hreq]; [cbn in Hr; repeat (destruct Hr as [<-|Hr]; [reflexivity|]); destruct Hr|]). destruct Hreq.
  - intros t v H. unfold nv_c0 in H. cbn [lookup] in H.
    destruct (coord_eqb_spec (1, 0, 2)%Z t) as [<-|]; [|discriminate]. injection H as <-. reflexivity.
Qed.
Example nv_run :
  let s := run (grid_sys meta_grid true true up0) (init nv_c0 nv_reqs) (round_robin 3 40) in
  all_done s = true /\ List.rev (fetched s) = [(2, 2, 2); (0, 0, 2)]%Z /\ List.length (cache s) = 6%nat
  /\ nth_error (map response (procs s)) 2 = Some [((0, 1, 2), Some (up0 (0, 1, 2))); ((1, 1, 2), Some (up0 (1, 1, 2))); ((0, 0, 2), Some (up0 (0, 0, 2)))]%Z.
Proof. vm_compute. repeat split; reflexivity. Qed.

(* a lock attempt is refused in that run (requester 1 wants (2,2,2) while requester 0 holds it) *)
Example nv_refused :
  exists n, snd (step (grid_sys meta_grid true true up0) (run (grid_sys meta_grid true true up0) (init nv_c0 nv_reqs) (round_robin 3 n)) 1)
            = OLock (2, 2, 2)%Z false.
Proof. exists 6%nat. vm_compute. reflexivity. Qed.

(* expiry: tile (1,1,1) exists but is expired (old image 999); three requests; one upstream call; everybody is
   answered (responses as built) with the new image; the first two looked at the expired file before *)
Definition old1 (t : coord) : option Z := if coord_eqb t t111 then Some 999%Z else None.
Example nv_expired :
  let S := grid_sys_x single_grid true true up0 true old1 in
  let s := run S (init [] [[t111]; [t111]; [t111]]) (round_robin 3 20) in
  all_done s = true /\ fetched s = [t111] /\
  map (response_in (cache s)) (procs s) = [[(t111, Some (up0 t111))]; [(t111, Some (up0 t111))]; [(t111, Some (up0 t111))]] /\
  map response (procs s) = [[(t111, Some (up0 t111))]; [(t111, Some 999%Z)]; [(t111, Some 999%Z)]].
Proof. vm_compute. repeat split; reflexivity. Qed.
Example nv_old_ok : old_ok true old1.
Proof. intros H. discriminate. Qed.

(* bulk meta tiles: two requests for tiles of meta tile (0,0,2): four upstream requests (one per tile), each once *)
Example nv_bulk :
  let S := grid_sys_b meta_grid true true up0 false (fun _ => None) true in
  let s := run S (init [] [[(0, 0, 2)]; [(1, 1, 2)]]%Z) (round_robin 2 30) in
  all_done s = true /\ List.rev (fetched s) = [(0, 1, 2); (1, 1, 2); (0, 0, 2); (1, 0, 2)]%Z /\
  map (response_in (cache s)) (procs s) = [[((0, 0, 2), Some (up0 (0, 0, 2)))]; [((1, 1, 2), Some (up0 (1, 1, 2)))]]%Z.
Proof. vm_compute. repeat split; reflexivity. Qed.

Example nv_lock_name :
  lock_name (list_ascii_of_string "ab12") (12, 0, 3)%Z = list_ascii_of_string "ab12-12-0-3.lck".
Proof. vm_compute. reflexivity. Qed.
