(* Lemmas about the composition model Compose.v (C14). *)
From Coq Require Import ZArith List Bool Lia Arith.
Import ListNotations.
From MP Require Import Base Compose.
Local Open Scope Z_scope.

(* ------------------------------------------------------------------ arithmetic of div255 *)

Lemma shiftr8 : forall t, Z.shiftr t 8 = t / 256.
Proof. intros. rewrite Z.shiftr_div_pow2 by lia. reflexivity. Qed.

Lemma shiftr7 : forall t, Z.shiftr t 7 = t / 128.
Proof. intros. rewrite Z.shiftr_div_pow2 by lia. reflexivity. Qed.

Lemma div255_spec : forall t, div255 t = (t + t / 256) / 256.
Proof. intros. unfold div255. rewrite !shiftr8. reflexivity. Qed.

(* div255 (255 * k + 128) = k for a byte k: pasting / compositing with full alpha is exact *)
Lemma div255_exact : forall k, 0 <= k <= 255 -> div255 (255 * k + 128) = k.
Proof.
  intros k Hk. rewrite div255_spec. Z.to_euclidean_division_equations. lia.
Qed.

Definition byte (x : Z) : Prop := 0 <= x <= 255.
Definition px_ok (p : px) : Prop :=
  let '(r, g, b, a) := p in byte r /\ byte g /\ byte b /\ byte a.

(* ------------------------------------------------------------------ pixel operators with full / zero alpha *)

Lemma ch_full : forall s0 d0, byte s0 ->
  Z.shiftr (div255 (s0 * 32640 + d0 * 0 + 16384)) 7 = s0.
Proof.
  intros s0 d0 H. unfold byte in H. rewrite shiftr7, div255_spec.
  Z.to_euclidean_division_equations. lia.
Qed.

Lemma blend8_full : forall d s, byte s -> blend8 255 d s = s.
Proof.
  intros d s H. unfold blend8. replace (s * 255 + d * (255 - 255) + 128) with (255 * s + 128) by lia.
  apply div255_exact. exact H.
Qed.

Lemma blend8_zero : forall d s, byte d -> blend8 0 d s = d.
Proof.
  intros d s H. unfold blend8. replace (s * 0 + d * (255 - 0) + 128) with (255 * d + 128) by lia.
  apply div255_exact. exact H.
Qed.

(* compositing an opaque pixel over anything gives that pixel *)
Lemma ac_px_opaque_src : forall d s, px_ok s -> px_a s = 255 -> ac_px d s = s.
Proof.
  intros [[[dr dg] db] da] [[[sr sg] sb] sa] (Hr & Hg & Hb & Ha) E. cbn [px_a] in E. subst sa.
  unfold ac_px. change (255 =? 0) with false. cbv iota.
  replace (255 * 255 + da * (255 - 255)) with 65025 by lia.
  change (255 * 255 * 255 * 128 / 65025) with 32640.
  change (255 * 128 - 32640) with 0.
  rewrite !ch_full by assumption. reflexivity.
Qed.

(* compositing a fully transparent pixel changes nothing *)
Lemma ac_px_transparent_src : forall d s, px_a s = 0 -> ac_px d s = d.
Proof.
  intros [[[dr dg] db] da] [[[sr sg] sb] sa] E. cbn [px_a] in E. subst sa. reflexivity.
Qed.

(* compositing onto a fully transparent background gives the source *)
Lemma ac_px_on_clear : forall dr dg db s, px_ok s -> 0 < px_a s -> ac_px (dr, dg, db, 0) s = s.
Proof.
  intros dr dg db [[[sr sg] sb] sa] (Hr & Hg & Hb & Ha) P. cbn [px_a] in P. unfold byte in Ha.
  unfold ac_px. destruct (sa =? 0) eqn:E; [apply Z.eqb_eq in E; lia|].
  replace (sa * 255 + 0 * (255 - sa)) with (sa * 255) by lia.
  replace (sa * 255 * 255 * 128) with (32640 * (sa * 255)) by lia.
  rewrite Z.div_mul by lia.
  change (255 * 128 - 32640) with 0.
  rewrite !ch_full by assumption.
  replace (sa * 255 + 128) with (255 * sa + 128) by lia. rewrite div255_exact by exact Ha. reflexivity.
Qed.

Lemma paste_mask_opaque : forall d s, px_ok s -> px_a s = 255 -> paste_mask_px false d s = s.
Proof.
  intros [[[dr dg] db] da] [[[sr sg] sb] sa] (Hr & Hg & Hb & Ha) E. cbn [px_a] in E. subst sa.
  unfold paste_mask_px. rewrite !blend8_full by assumption. reflexivity.
Qed.

Lemma paste_mask_transparent : forall d s, px_ok d -> px_a d = 255 -> px_a s = 0 -> paste_mask_px false d s = d.
Proof.
  intros [[[dr dg] db] da] [[[sr sg] sb] sa] (Hr & Hg & Hb & Ha) E1 E. cbn [px_a] in E, E1. subst sa da.
  unfold paste_mask_px. rewrite !blend8_zero by assumption. reflexivity.
Qed.

Lemma set_a_same : forall p, set_a p (px_a p) = p.
Proof. intros [[[r g] b] a]. reflexivity. Qed.

Lemma set_a_idem : forall p a b, set_a (set_a p a) b = set_a p b.
Proof. intros [[[r g] b0] a0] a b. reflexivity. Qed.

Lemma px_a_set_a : forall p a, px_a (set_a p a) = a.
Proof. intros [[[r g] b0] a0] a. reflexivity. Qed.

(* ------------------------------------------------------------------ map2 *)

Lemma map2_length : forall {A B C} (f : A -> B -> C) a b,
  length a = length b -> length (map2 f a b) = length b.
Proof.
  intros A B C f a. induction a as [|x a IH]; intros [|y b] H; simpl in *; try discriminate; auto.
Qed.

Lemma map2_map_r : forall {A B B' C} (f : A -> B' -> C) (g : B -> B') a b,
  map2 f a (map g b) = map2 (fun x y => f x (g y)) a b.
Proof.
  intros A B B' C f g a. induction a as [|x a IH]; intros [|y b]; simpl; auto. rewrite IH. reflexivity.
Qed.

Lemma map2_ext_r : forall {A B C} (f : A -> B -> C) (g : B -> C) (P : B -> Prop) a b,
  length a = length b -> Forall P b -> (forall x y, P y -> f x y = g y) -> map2 f a b = map g b.
Proof.
  intros A B C f g P a. induction a as [|x a IH]; intros [|y b] H F E; simpl in *; try discriminate; auto.
  inversion F; subst. rewrite E by assumption. f_equal. apply IH; auto.
Qed.

Lemma map2_ext : forall {A B C} (f g : A -> B -> C) a b,
  (forall x y, f x y = g x y) -> map2 f a b = map2 g a b.
Proof.
  intros A B C f g a. induction a as [|x a IH]; intros [|y b] E; simpl; auto. rewrite E, IH by auto. reflexivity.
Qed.

Lemma nth_map2 : forall {A B C} (f : A -> B -> C) a b k da db dc,
  (k < length a)%nat -> (k < length b)%nat ->
  nth k (map2 f a b) dc = f (nth k a da) (nth k b db).
Proof.
  intros A B C f a. induction a as [|x a IH]; intros [|y b] k da db dc Ha Hb; simpl in *; try lia.
  destruct k; auto. apply IH; lia.
Qed.

Lemma map_id_ext : forall {A} (f : A -> A) l, (forall x, f x = x) -> map f l = l.
Proof. intros A f l H. induction l; simpl; auto. rewrite H, IHl. reflexivity. Qed.

(* ------------------------------------------------------------------ the loop body, pixel by pixel *)

Lemma imode_eqb_eq : forall a b, imode_eqb a b = true -> a = b.
Proof. intros [] []; simpl; congruence. Qed.

Lemma convert_rgba_trns : forall i, im_trns (convert_rgba i) = T_none.
Proof. intros [m t p]. destruct m; try reflexivity. destruct t; reflexivity. Qed.

Lemma norm_image_no_trns : forall l, im_trns (norm_image l) = T_none.
Proof.
  intros l. unfold norm_image.
  match goal with |- im_trns (if has_trns ?i then _ else _) = _ => destruct (has_trns i) eqn:E; [|] end.
  - apply convert_rgba_trns.
  - unfold has_trns in E.
    match goal with |- im_trns ?i = _ => destruct (im_trns i); [reflexivity|discriminate|discriminate] end.
Qed.

Lemma convert_rgba_px_alpha : forall i, is_alpha_mode (im_mode i) = true ->
  im_px (convert_rgba i) = im_px i.
Proof. intros [m t p] H. destruct m; simpl in *; try discriminate; reflexivity. Qed.

Lemma convert_rgba_px_nonalpha : forall i, is_alpha_mode (im_mode i) = false -> im_trns i = T_none ->
  im_px (convert_rgba i) = map (fun p => set_a p 255) (im_px i).
Proof. intros [m t p] H T. simpl in T. subst t. destruct m; simpl in *; try discriminate; reflexivity. Qed.

Lemma convert_rgba_mode : forall i, im_mode (convert_rgba i) = M_RGBA.
Proof. intros [m t p]. destruct m; simpl; try reflexivity. destruct t; reflexivity. Qed.

(* merge_layer is the pixel-wise application of layer_step; mode of the result image is kept *)
Lemma merge_layer_eq : forall r l,
  merge_layer r l =
  mk_image (im_mode r) T_none
           (map2 (layer_step (imode_eqb (im_mode r) M_RGBA) l) (im_px r) (im_px (norm_image l))).
Proof.
  intros r l. unfold merge_layer, layer_step, px_step.
  pose proof (norm_image_no_trns l) as NT.
  set (img := norm_image l) in *.
  destruct (imode_eqb (im_mode r) M_RGBA) eqn:C.
  - apply imode_eqb_eq in C. rewrite C.
    destruct (layer_opacity l) as [op|].
    + destruct (fl_ltb op fl_one) eqn:LT.
      * (* faded *)
        unfold fade. cbn [im_mode im_px]. rewrite convert_rgba_mode. cbn [is_alpha_mode imode_eqb].
        cbn [im_px]. f_equal. rewrite map2_map_r.
        destruct (is_alpha_mode (im_mode img)) eqn:AM.
        -- rewrite convert_rgba_px_alpha by exact AM. reflexivity.
        -- rewrite convert_rgba_px_nonalpha by assumption. rewrite map2_map_r. reflexivity.
      * destruct (is_alpha_mode (im_mode img)) eqn:AM.
        -- f_equal. destruct (imode_eqb (im_mode img) M_P); [rewrite convert_rgba_px_alpha by exact AM|]; reflexivity.
        -- reflexivity.
    + destruct (is_alpha_mode (im_mode img)) eqn:AM.
      * f_equal. destruct (imode_eqb (im_mode img) M_P); [rewrite convert_rgba_px_alpha by exact AM|]; reflexivity.
      * reflexivity.
  - destruct (layer_opacity l) as [op|].
    + destruct (fl_ltb op fl_one) eqn:LT.
      * destruct (imode_eqb (im_mode img) M_RGBA); [reflexivity|].
        f_equal. unfold convert_rgb. cbn [im_px]. rewrite map2_map_r. reflexivity.
      * destruct (is_alpha_mode (im_mode img)) eqn:AM.
        -- rewrite convert_rgba_px_alpha by exact AM. reflexivity.
        -- reflexivity.
    + destruct (is_alpha_mode (im_mode img)) eqn:AM.
      * rewrite convert_rgba_px_alpha by exact AM. reflexivity.
      * reflexivity.
Qed.

Lemma merge_layer_mode : forall r l, im_mode (merge_layer r l) = im_mode r.
Proof. intros. rewrite merge_layer_eq. reflexivity. Qed.

Lemma merge_layer_length : forall r l n,
  length (im_px r) = n -> length (im_px (norm_image l)) = n -> length (im_px (merge_layer r l)) = n.
Proof. intros r l n H1 H2. rewrite merge_layer_eq. cbn [im_px]. rewrite map2_length; congruence. Qed.

Definition sized (n : nat) (l : layer) : Prop := length (im_px (norm_image l)) = n.

Lemma fold_merge_inv : forall ls r n,
  length (im_px r) = n -> Forall (sized n) ls ->
  length (im_px (fold_left merge_layer ls r)) = n /\ im_mode (fold_left merge_layer ls r) = im_mode r.
Proof.
  induction ls as [|l ls IH]; intros r n H F; simpl; [auto|].
  inversion F; subst.
  destruct (IH (merge_layer r l) (length (im_px r))) as [A B]; auto.
  - apply merge_layer_length; auto.
  - split; auto. rewrite B. apply merge_layer_mode.
Qed.

Lemma create_image_length : forall n o, length (im_px (create_image n o)) = n.
Proof. intros. unfold create_image. cbn [im_px]. apply repeat_length. Qed.

(* merge_is_fold_over: pixel k of the merged image is the left fold, bottom layer first, of the per-pixel
   operator of each layer, starting from the background pixel given by bgcolor / transparent *)
Lemma fold_pixel : forall ls r n k dflt,
  length (im_px r) = n -> Forall (sized n) ls -> (k < n)%nat ->
  nth k (im_px (fold_left merge_layer ls r)) dflt =
  fold_left (fun d l => layer_step (imode_eqb (im_mode r) M_RGBA) l d (nth k (im_px (norm_image l)) dflt))
            ls (nth k (im_px r) dflt).
Proof.
  induction ls as [|l ls IH]; intros r n k dflt H F K; simpl; [reflexivity|].
  inversion F; subst.
  rewrite IH with (n := length (im_px r)); auto.
  - rewrite merge_layer_mode. f_equal.
    rewrite merge_layer_eq. cbn [im_px].
    apply nth_map2; [lia | unfold sized in *; lia].
  - apply merge_layer_length; auto.
Qed.

Lemma nth_repeat_lt : forall {A} (x d : A) n k, (k < n)%nat -> nth k (repeat x n) d = x.
Proof. intros A x d n. induction n; intros k H; [lia|]. destruct k; simpl; auto. apply IHn. lia. Qed.

Lemma merge_loop_pixel : forall n o ls k dflt,
  Forall (sized n) ls -> (k < n)%nat ->
  nth k (im_px (merge_loop n o ls)) dflt =
  fold_left (fun d l => layer_step (imode_eqb (create_mode o) M_RGBA) l d (nth k (im_px (norm_image l)) dflt))
            ls (create_px o).
Proof.
  intros n o ls k dflt F K. unfold merge_loop.
  rewrite fold_pixel with (n := n); auto using create_image_length.
  unfold create_image. cbn [im_mode im_px]. rewrite nth_repeat_lt by exact K. reflexivity.
Qed.

(* ------------------------------------------------------------------ opaque layers *)

(* a layer without an opacity below 1 whose contributed pixels (alpha modes: RGBA / P after clipping and
   colour keys) all have alpha 255 *)
Definition opaque_layer (l : layer) : Prop :=
  op_lt1 (layer_opacity l) = false /\
  Forall (fun s => px_ok s /\ (is_alpha_mode (im_mode (norm_image l)) = true -> px_a s = 255))
         (im_px (norm_image l)).

Lemma px_step_opaque : forall c am rg op d s,
  op_lt1 op = false -> px_ok s -> (am = true -> px_a s = 255) -> px_step c am rg op d s = set_a s 255.
Proof.
  intros c am rg op d s O K A. unfold px_step.
  assert (A1 : am = true -> ac_px d s = set_a s 255).
  { intro H. rewrite ac_px_opaque_src by auto. rewrite <- (A H). symmetry. apply set_a_same. }
  assert (A2 : am = true -> paste_mask_px false d s = set_a s 255).
  { intro H. rewrite paste_mask_opaque by auto. rewrite <- (A H). symmetry. apply set_a_same. }
  destruct op as [o|].
  - unfold op_lt1 in O. rewrite O. destruct c, am; auto.
  - destruct c, am; auto.
Qed.

(* over_opaque_top: whatever is in the result image so far, merging an opaque layer gives that layer *)
Lemma merge_layer_opaque : forall r l,
  opaque_layer l -> length (im_px r) = length (im_px (norm_image l)) ->
  merge_layer r l = mk_image (im_mode r) T_none (map (fun s => set_a s 255) (im_px (norm_image l))).
Proof.
  intros r l [O F] L. rewrite merge_layer_eq. f_equal.
  eapply map2_ext_r; [exact L | exact F |].
  intros x y [K A]. unfold layer_step. apply px_step_opaque; auto.
Qed.

Lemma merge_layer_opaque_indep : forall r1 r2 l,
  opaque_layer l -> im_mode r1 = im_mode r2 ->
  length (im_px r1) = length (im_px (norm_image l)) -> length (im_px r2) = length (im_px (norm_image l)) ->
  merge_layer r1 l = merge_layer r2 l.
Proof. intros r1 r2 l O M L1 L2. rewrite !merge_layer_opaque by assumption. rewrite M. reflexivity. Qed.

(* prune_below_opaque_sound, loop level: layers below an opaque layer do not influence the result *)
Lemma merge_loop_prune : forall n o below top above,
  opaque_layer top -> sized n top -> Forall (sized n) below ->
  merge_loop n o (below ++ top :: above) = merge_loop n o (top :: above).
Proof.
  intros n o below top above O S F. unfold merge_loop.
  rewrite fold_left_app. cbn [fold_left]. f_equal.
  destruct (fold_merge_inv below (create_image n o) n (create_image_length n o) F) as [A B].
  apply merge_layer_opaque_indep; auto.
  - unfold sized in S. congruence.
  - unfold sized in S. rewrite create_image_length. congruence.
Qed.

(* ------------------------------------------------------------------ the shortcut for an opaque layer; pruning at merge level *)

Lemma map_set255_opaque : forall P, Forall (fun s => px_a s = 255) P -> map (fun s => set_a s 255) P = P.
Proof.
  intros P F. induction F as [|x P H F IH]; simpl; [reflexivity|].
  rewrite IH. rewrite <- H at 1. rewrite set_a_same. reflexivity.
Qed.

Lemma view_set255 : forall m Q,
  view (mk_image m T_none (map (fun s => set_a s 255) Q)) = map (fun s => set_a s 255) Q.
Proof.
  intros m Q. unfold view, convert_rgba. cbn [im_mode im_trns im_px].
  destruct m; cbn [im_px]; try reflexivity; rewrite map_map; apply map_ext; intros; apply set_a_idem.
Qed.

Lemma fast_path_opaque : forall n o l,
  opaque_layer l -> l_clip l = None -> sized n l -> view (as_image l) = view (merge_loop n o [l]).
Proof.
  intros n o l O C S. unfold merge_loop. cbn [fold_left].
  rewrite merge_layer_opaque; [| exact O | rewrite create_image_length; unfold sized in S; congruence].
  rewrite view_set255.
  destruct O as [_ F]. revert F. unfold norm_image. rewrite C.
  set (i := as_image l). destruct (has_trns i) eqn:T.
  - intros F. rewrite convert_rgba_mode in F. cbn [is_alpha_mode] in F.
    unfold view. symmetry. apply map_set255_opaque.
    eapply Forall_impl; [|exact F]. intros a [_ H]. auto.
  - intros F. unfold view.
    assert (NT : im_trns i = T_none).
    { unfold has_trns in T. destruct (im_trns i); [reflexivity|discriminate|discriminate]. }
    destruct (is_alpha_mode (im_mode i)) eqn:AM.
    + rewrite convert_rgba_px_alpha by exact AM. symmetry. apply map_set255_opaque.
      eapply Forall_impl; [|exact F]. intros a [_ H]. auto.
    + rewrite convert_rgba_px_nonalpha by assumption. reflexivity.
Qed.

(* prune_below_opaque_sound for LayerMerger.merge, the single-layer shortcut included: dropping the layers
   below an opaque layer does not change the picture *)
Lemma merge_prune : forall n o below top above cov,
  opaque_layer top -> sized n top -> Forall (sized n) below ->
  view (result_image (merge n o (below ++ top :: above) cov)) =
  view (result_image (merge n o (top :: above) cov)).
Proof.
  intros n o below top above cov O S F.
  destruct below as [|b bs]; [reflexivity|].
  assert (L : merge n o ((b :: bs) ++ top :: above) cov =
              R_merged (match cov with
                        | Some m => global_clip o (merge_loop n o (top :: above)) m
                        | None => merge_loop n o (top :: above) end)).
  { rewrite <- (merge_loop_prune n o (b :: bs) top above O S F).
    unfold merge. cbn [app]. destruct (bs ++ top :: above) eqn:E.
    - destruct bs; discriminate.
    - reflexivity. }
  rewrite L. unfold merge.
  destruct above as [|a as'].
  - destruct (fast_path_ok o top match cov with Some _ => true | None => false end) eqn:FP; [|reflexivity].
    cbn [result_image]. unfold fast_path_ok in FP.
    destruct cov; [rewrite andb_false_r in FP; discriminate|].
    destruct (l_clip top) eqn:C; [rewrite !andb_false_r in FP; simpl in FP; discriminate|].
    symmetry. apply fast_path_opaque; auto.
  - reflexivity.
Qed.

(* ------------------------------------------------------------------ combined_layers *)

Lemma combine_from_ids : forall rest cur,
  flat_map s_ids (combine_from cur rest) = s_ids cur ++ flat_map s_ids rest.
Proof.
  induction rest as [|x r IH]; intros cur; simpl.
  - rewrite app_nil_r. reflexivity.
  - destruct (src_compatible cur x).
    + rewrite IH. unfold src_combine. cbn [s_ids]. rewrite app_assoc. reflexivity.
    + simpl. rewrite IH. reflexivity.
Qed.

Lemma combine_from_lnames : forall rest cur,
  flat_map s_lnames (combine_from cur rest) = s_lnames cur ++ flat_map s_lnames rest.
Proof.
  induction rest as [|x r IH]; intros cur; simpl.
  - rewrite app_nil_r. reflexivity.
  - destruct (src_compatible cur x).
    + rewrite IH. unfold src_combine. cbn [s_lnames]. rewrite app_assoc. reflexivity.
    + simpl. rewrite IH. reflexivity.
Qed.

(* combined_layers_preserves_order: the configured sources, and the upstream layer names, appear in the
   combined request list in exactly the original order, none lost, none duplicated *)
Lemma combined_layers_ids : forall l, flat_map s_ids (combined_layers l) = flat_map s_ids l.
Proof. intros [|x r]; [reflexivity|]. unfold combined_layers. rewrite combine_from_ids. reflexivity. Qed.

Lemma combined_layers_lnames : forall l, flat_map s_lnames (combined_layers l) = flat_map s_lnames l.
Proof. intros [|x r]; [reflexivity|]. unfold combined_layers. rewrite combine_from_lnames. reflexivity. Qed.

(* every combined request goes to one URL: sources are merged only into a neighbour with the same URL *)
Lemma combine_from_url : forall rest cur,
  Forall (fun s => exists x, In x (cur :: rest) /\ s_url s = s_url x) (combine_from cur rest).
Proof.
  induction rest as [|x r IH]; intros cur; simpl.
  - constructor; [|constructor]. exists cur. simpl. auto.
  - destruct (src_compatible cur x) eqn:C.
    + eapply Forall_impl; [|apply IH]. intros a [y [[H|H] E]].
      * subst y. exists cur. simpl. split; auto.
      * exists y. simpl. split; auto.
    + constructor.
      * exists cur. simpl. auto.
      * eapply Forall_impl; [|apply IH]. intros a [y [H E]]. exists y. simpl. split; auto.
Qed.

(* sources that are not WMS sources are never combined *)
Lemma combine_from_non_wms : forall rest cur,
  s_wms cur = false -> Forall (fun s => s_wms s = false) rest -> combine_from cur rest = cur :: rest.
Proof.
  induction rest as [|x r IH]; intros cur H F; simpl; [reflexivity|].
  inversion F; subst. unfold src_compatible. rewrite H. cbn [andb]. f_equal. apply IH; auto.
Qed.

(* ------------------------------------------------------------------ is_opaque *)

(* what WMSSource.is_opaque = true guarantees: a WMS source inside its resolution range, not declared
   transparent, not faded by merge (no opacity below 1), without coverage or with the query inside it *)
Lemma src_is_opaque_facts : forall s, src_is_opaque s = true ->
  s_wms s = true /\ s_res_ok s = true /\ truthy (s_transparent s) = false /\ op_lt1 (s_opacity s) = false /\
  src_blank s = false /\ (s_cov s = 0 \/ s_cov s = 1).
Proof.
  intros s H. unfold src_is_opaque in H. unfold src_blank.
  destruct (s_wms s); [|discriminate]. destruct (s_res_ok s); [|discriminate].
  destruct (truthy (s_transparent s)); [discriminate|]. cbn [negb] in H.
  destruct (op_lt1 (s_opacity s)); [discriminate|].
  destruct (s_cov s =? 0) eqn:E0.
  - apply Z.eqb_eq in E0. rewrite E0. repeat split; auto.
  - destruct (s_cov s =? 1) eqn:E1; [|discriminate]. apply Z.eqb_eq in E1. rewrite E1. repeat split; auto.
Qed.

Example is_opaque_rejects_faded :
  src_is_opaque (mk_src [1] true true (Some false) (Some (0, 0)) 0 1 [1] 1 1 None None 0 1) = false /\
  src_is_opaque (mk_src [1] true true (Some false) (Some (4076, -12)) 0 1 [1] 1 1 None None 0 1) = false /\
  src_is_opaque (mk_src [1] true true (Some false) (Some (1, 0)) 0 1 [1] 1 1 None None 0 1) = true /\
  src_is_opaque (mk_src [1] true true None None 1 1 [1] 1 1 None None 5 1) = true.
Proof. vm_compute. auto. Qed.

(* sources outside their resolution range and explicitly opaque upper sources are never combined *)
Lemma src_compatible_facts : forall a b, src_compatible a b = true ->
  s_res_ok a = true /\ s_res_ok b = true /\ s_transparent b <> Some false /\ s_url a = s_url b /\
  s_opacity a = None /\ s_opacity b = None.
Proof.
  intros a b H. unfold src_compatible in H.
  repeat (apply andb_prop in H; destruct H as [H ?]).
  destruct (s_opacity a); [destruct (s_opacity b); discriminate|]. destruct (s_opacity b); [discriminate|].
  repeat split; auto.
  - intro E. rewrite E in *. discriminate.
  - apply Z.eqb_eq. assumption.
Qed.

(* ------------------------------------------------------------------ non-vacuity and refuted statements *)

Definition ex_top : layer :=
  mk_layer (mk_image M_RGBA T_none [(10, 20, 30, 255); (40, 50, 60, 255)])
           (Some (mk_lopts (Some false) None)) None.
Definition ex_below : layer :=
  mk_layer (mk_image M_RGBA T_none [(200, 0, 0, 128); (0, 200, 0, 7)])
           (Some (mk_lopts (Some true) (Some (1, -1)))) None.      (* opacity 0.5 *)
Definition ex_above : layer :=
  mk_layer (mk_image M_P T_pal [(1, 2, 3, 0); (9, 9, 9, 200)]) (Some (mk_lopts (Some true) None)) None.
Definition ex_opts : ropts := mk_ropts None (Some true) (Some (1, 2, 3)).

Example ex_top_opaque : opaque_layer ex_top /\ sized 2 ex_top /\ Forall (sized 2) [ex_below].
Proof.
  split; [split; [reflexivity|]|split; [reflexivity|repeat constructor]].
  repeat constructor; unfold byte; try lia; reflexivity.
Qed.

(* the pruning theorem is not vacuous: the layer below does change the picture when the top layer is absent *)
Example ex_prune_nontrivial :
  view (result_image (merge 2 ex_opts [ex_below; ex_top; ex_above] None)) =
  view (result_image (merge 2 ex_opts [ex_top; ex_above] None)) /\
  view (result_image (merge 2 ex_opts [ex_below; ex_above] None)) <>
  view (result_image (merge 2 ex_opts [ex_above] None)).
Proof. split; [apply (merge_prune 2 ex_opts [ex_below] ex_top [ex_above] None); apply ex_top_opaque|]. vm_compute. discriminate. Qed.

Example ex_fold_nontrivial :
  nth 1%nat (im_px (merge_loop 2 ex_opts [ex_below; ex_above])) clear_px = (9, 10, 9, 201).
Proof. vm_compute. reflexivity. Qed.

Definition ex_s (i u : Z) (tr : option bool) : src := mk_src [i] true true tr None 0 u [i] 1 1 None None 0 1.
Example ex_combined :
  map s_lnames (combined_layers [ex_s 1 7 (Some false); ex_s 2 7 (Some true); ex_s 3 8 (Some true);
                                 ex_s 4 7 (Some true); ex_s 5 7 None; ex_s 6 7 (Some false)])
  = [[1; 2]; [3]; [4; 5]; [6]].
Proof. vm_compute. reflexivity. Qed.

(* a fully transparent pixel of an RGBA layer never changes the picture, whatever the opacity:
   in a transparent (RGBA) result ... *)
Lemma composite_respects_alpha : forall rg op d s,
  px_a s = 0 -> px_step true true rg op d s = d.
Proof.
  intros rg op d s A. unfold px_step.
  assert (E : ac_px d s = d) by (apply ac_px_transparent_src; exact A).
  destruct op as [op|]; [|exact E]. destruct (fl_ltb op fl_one); [|exact E].
  apply ac_px_transparent_src. rewrite px_a_set_a, A. reflexivity.
Qed.

(* ... and in a non-transparent (RGB) result (pixels of the result have alpha 255) *)
Lemma blend_respects_alpha : forall op d s,
  px_ok d -> px_a d = 255 -> px_a s = 0 -> px_step false true true op d s = d.
Proof.
  intros op d s K D A. unfold px_step.
  assert (E : paste_mask_px false d s = d) by (apply paste_mask_transparent; assumption).
  destruct op as [op|]; [|exact E]. destruct (fl_ltb op fl_one); [|exact E].
  rewrite A. destruct d as [[[dr dg] db] da]. destruct K as (Hr & Hg & Hb & Ha). cbn [px_a] in D. subst da.
  unfold mask_paste_px. destruct (blend_px op (dr, dg, db, 255) (set_a s 255)) as [[[br bg] bb] ba].
  rewrite !blend8_zero by assumption. reflexivity.
Qed.

Example blend_respects_alpha_nontrivial :
  px_step false true true (Some (1, -1)) (200, 0, 0, 255) (0, 0, 0, 0) = (200, 0, 0, 255) /\
  px_step false true true (Some (1, -1)) (200, 0, 0, 255) (0, 0, 0, 255) = (100, 0, 0, 255).
Proof. vm_compute. auto. Qed.

(* the global clip replaces the pixels outside the coverage by the background and keeps the others *)
Lemma global_clip_pixel : forall o r outside k dflt,
  length outside = length (im_px r) -> (k < length (im_px r))%nat ->
  nth k (im_px (global_clip o r outside)) dflt =
  if nth k outside true then create_px o else nth k (im_px r) dflt.
Proof.
  intros o r outside k dflt L K. unfold global_clip. cbn [im_px].
  rewrite nth_map2 with (da := true) (db := dflt); [reflexivity | lia | lia].
Qed.

Example global_clip_keeps_alpha :
  im_px (global_clip (mk_ropts None (Some true) None) (mk_image M_RGBA T_none [(0, 0, 0, 76); (1, 2, 3, 9)]) [false; true])
  = [(0, 0, 0, 76); (255, 255, 255, 0)].
Proof. vm_compute. reflexivity. Qed.

(* ------------------------------------------------------------------ WMS level: pruning in WMSServer.map *)

Definition w_layers_of (req : list wlayer) : list (Z * list src) :=
  flat_map w_map_layers (filter w_renders req).
Definition req_keys (req : list wlayer) : list Z := map fst (w_layers_of req).

Lemma od_set_fresh : forall d k v, ~ In k (map fst d) -> od_set d k v = d ++ [(k, v)].
Proof.
  induction d as [|[k' v'] d IH]; intros k v H; simpl; [reflexivity|].
  simpl in H. destruct (k' =? k) eqn:E.
  - apply Z.eqb_eq in E. exfalso. apply H. left. exact E.
  - rewrite IH; [reflexivity|]. intro X. apply H. right. exact X.
Qed.

Lemma od_update_fresh : forall kvs d, NoDup (map fst d ++ map fst kvs) -> od_update d kvs = d ++ kvs.
Proof.
  unfold od_update. induction kvs as [|[k v] kvs IH]; intros d H; simpl.
  - rewrite app_nil_r. reflexivity.
  - cbn [map fst] in H. pose proof (NoDup_remove_2 _ _ _ H) as NI.
    rewrite od_set_fresh.
    + rewrite IH.
      * rewrite <- app_assoc. reflexivity.
      * rewrite map_app. cbn [map fst]. rewrite <- app_assoc. exact H.
    + intro X. apply NI. apply in_or_app. left. exact X.
Qed.

Lemma w_layers_of_cons : forall w req,
  w_layers_of (w :: req) = (if w_renders w then w_map_layers w else []) ++ w_layers_of req.
Proof. intros. unfold w_layers_of. simpl. destruct (w_renders w); reflexivity. Qed.

Lemma NoDup_app_r : forall {A} (a b : list A), NoDup (a ++ b) -> NoDup b.
Proof. intros A a. induction a; simpl; intros b H; [exact H|]. inversion H; subst. auto. Qed.

Lemma NoDup_app_l : forall {A} (a b : list A), NoDup (a ++ b) -> NoDup a.
Proof.
  intros A a. induction a as [|x a IH]; simpl; intros b H; [constructor|]. inversion H; subst. constructor.
  - intro X. apply H2. apply in_or_app. left. exact X.
  - eapply IH. eassumption.
Qed.

(* without pruning (distinct keys) the selection is the concatenation of the map layers of the rendering layers *)
Lemma select_false_spec : forall req acc,
  NoDup (map fst acc ++ req_keys req) ->
  select_layers false req acc = acc ++ w_layers_of req.
Proof.
  induction req as [|w req IH]; intros acc H; simpl.
  - unfold w_layers_of. simpl. rewrite app_nil_r. reflexivity.
  - unfold req_keys in H. rewrite w_layers_of_cons in *. destruct (w_renders w) eqn:R.
    + cbn [andb]. rewrite map_app in H. rewrite od_update_fresh.
      * rewrite IH.
        -- rewrite <- app_assoc. reflexivity.
        -- rewrite map_app. rewrite <- app_assoc. exact H.
      * rewrite app_assoc in H. eapply NoDup_app_l. exact H.
    + simpl in H. apply IH. exact H.
Qed.

Lemma w_layers_of_app : forall a b, w_layers_of (a ++ b) = w_layers_of a ++ w_layers_of b.
Proof. intros. unfold w_layers_of. rewrite filter_app, flat_map_app. reflexivity. Qed.

(* with pruning: either nothing was pruned, or the selection restarts at the last rendering opaque layer *)
Lemma select_true_spec : forall req acc,
  NoDup (map fst acc ++ req_keys req) ->
  select_layers true req acc = acc ++ w_layers_of req \/
  exists pre w post, req = pre ++ w :: post /\ w_renders w = true /\ w_is_opaque w = true /\
                     select_layers true req acc = w_layers_of (w :: post).
Proof.
  induction req as [|w req IH]; intros acc H.
  - left. simpl. unfold w_layers_of. simpl. rewrite app_nil_r. reflexivity.
  - unfold req_keys in H. rewrite w_layers_of_cons in H. simpl. destruct (w_renders w) eqn:R.
    + rewrite map_app in H. cbn [andb]. destruct (w_is_opaque w) eqn:O.
      * assert (H' : NoDup (map fst (w_map_layers w) ++ req_keys req)) by (eapply NoDup_app_r; exact H).
        rewrite (od_update_fresh (w_map_layers w) []); [|simpl; eapply NoDup_app_l; exact H'].
        simpl. right. destruct (IH (w_map_layers w) H') as [E | (pre & w' & post & E1 & E2 & E3 & E4)].
        -- exists [], w, req. repeat split; auto. rewrite E. rewrite w_layers_of_cons, R. reflexivity.
        -- exists (w :: pre), w', post. subst req. repeat split; auto.
      * rewrite od_update_fresh; [|rewrite app_assoc in H; eapply NoDup_app_l; exact H].
        assert (H' : NoDup (map fst (acc ++ w_map_layers w) ++ req_keys req))
          by (rewrite map_app, <- app_assoc; exact H).
        destruct (IH (acc ++ w_map_layers w) H') as [E | (pre & w' & post & E1 & E2 & E3 & E4)].
        -- left. rewrite E. rewrite w_layers_of_cons, R, <- app_assoc. reflexivity.
        -- right. exists (w :: pre), w', post. subst req. repeat split; auto.
    + simpl in H. destruct (IH acc H) as [E | (pre & w' & post & E1 & E2 & E3 & E4)].
      * left. rewrite E. rewrite w_layers_of_cons, R. reflexivity.
      * right. exists (w :: pre), w', post. subst req. repeat split; auto.
Qed.

(* an opaque WMS layer has an opaque source among the sources it renders *)
Lemma existsb_src : forall srcs, existsb src_is_opaque srcs = true ->
  exists s, In s srcs /\ src_is_opaque s = true.
Proof. intros srcs H. apply existsb_exists in H. exact H. Qed.

Lemma w_opaque_src : forall w, w_is_opaque w = true ->
  exists s, In s (flat_map snd (w_map_layers w)) /\ src_is_opaque s = true.
Proof.
  fix IH 1. intros [n r srcs | n r [[n' srcs]|] ch] H.
  - simpl in H. destruct (existsb_src srcs H) as (s & I & O). exists s. split; [|exact O].
    simpl. destruct srcs; [destruct I|]. simpl. rewrite app_nil_r. exact I.
  - simpl in H. destruct (existsb_src srcs H) as (s & I & O). exists s. split; [|exact O].
    simpl. destruct srcs; [destruct I|]. simpl. rewrite app_nil_r. exact I.
  - simpl in H. simpl. revert H. induction ch as [|c ch IHch]; intro H; [discriminate|].
    simpl in H. apply orb_prop in H. destruct H as [H|H].
    + apply andb_prop in H. destruct H as [R H].
      destruct (IH c H) as (s & I & O). exists s. split; [|exact O].
      simpl. rewrite R. rewrite flat_map_app. apply in_or_app. left. exact I.
    + destruct (IHch H) as (s & I & O). exists s. split; [|exact O].
      simpl. rewrite flat_map_app. apply in_or_app. right. exact I.
Qed.

Lemma rendered_app : forall fetch a b, rendered fetch (a ++ b) = rendered fetch a ++ rendered fetch b.
Proof.
  intros fetch a b. induction a as [|s a IH]; simpl; [reflexivity|].
  destruct (src_blank s); [exact IH|]. destruct (fetch s); [simpl; rewrite IH; reflexivity | exact IH].
Qed.

Lemma rendered_sized : forall fetch n l,
  (forall s x, fetch s = Some x -> sized n x) -> Forall (sized n) (rendered fetch l).
Proof.
  intros fetch n l H. induction l as [|s l IH]; simpl; [constructor|].
  destruct (src_blank s); [exact IH|]. destruct (fetch s) eqn:E; [constructor; eauto | exact IH].
Qed.

(* prune_below_opaque_sound at the WMS level: for every request (layer list of any length, groups nested to any
   depth) whose selected layer names are distinct, WMSServer.map with the is_opaque optimisation returns the
   same picture as without it, provided every source that is_opaque accepts delivers opaque pixels
   (upstream assumption) and all fetched images have the requested size.  (request combination switched off) *)
Lemma wms_prune : forall fetch n o req,
  NoDup (req_keys req) ->
  (forall s l, fetch s = Some l -> sized n l) ->
  (forall s, src_is_opaque s = true -> exists l, fetch s = Some l /\ opaque_layer l) ->
  view (result_image (wms_map true false fetch n o req)) =
  view (result_image (wms_map false false fetch n o req)).
Proof.
  intros fetch n o req ND SZ OP. unfold wms_map, render_layers.
  rewrite (select_false_spec req []) by exact ND.
  destruct (select_true_spec req [] ND) as [E | (pre & w & post & E1 & R & O & E)]; rewrite E; [reflexivity|].
  cbn [app]. subst req. rewrite w_layers_of_app. rewrite flat_map_app.
  rewrite w_layers_of_cons, R, flat_map_app.
  destruct (w_opaque_src w O) as (s & I & SO).
  destruct (in_split _ _ I) as (A & B & EQ). rewrite EQ.
  destruct (OP s SO) as (top & F & TO).
  destruct (src_is_opaque_facts s SO) as (_ & _ & _ & _ & NB & _).
  set (rest := flat_map snd (w_layers_of post)).
  set (X := flat_map snd (w_layers_of pre)).
  assert (RS : rendered fetch ((A ++ s :: B) ++ rest) =
               rendered fetch A ++ top :: rendered fetch (B ++ rest)).
  { rewrite <- app_assoc. rewrite rendered_app. simpl. rewrite NB, F. reflexivity. }
  rewrite (rendered_app fetch X ((A ++ s :: B) ++ rest)). rewrite !RS.
  rewrite (app_assoc (rendered fetch X) (rendered fetch A)).
  rewrite (merge_prune n o (rendered fetch X ++ rendered fetch A) top (rendered fetch (B ++ rest)) None TO (SZ s top F)).
  - rewrite (merge_prune n o (rendered fetch A) top (rendered fetch (B ++ rest)) None TO (SZ s top F)); [reflexivity|].
    apply rendered_sized. exact SZ.
  - apply Forall_app. split; apply rendered_sized; exact SZ.
Qed.

(* non-vacuity: a request in which pruning really drops a layer *)
Definition ex_w_base : wlayer := WLeaf 1 true [mk_src [1] true true (Some true) None 0 1 [1] 1 1 None None 0 1].
Definition ex_w_top : wlayer :=
  WGroup 2 true None [WLeaf 3 true [mk_src [2] true true (Some false) None 0 1 [2] 1 1 None None 0 1];
                      WLeaf 4 true [mk_src [3] true true (Some true) (Some (1, -1)) 0 2 [3] 1 1 None None 0 1]].
Example ex_wms_prune_nontrivial :
  NoDup (req_keys [ex_w_base; ex_w_top]) /\
  flat_map s_ids (render_layers true [ex_w_base; ex_w_top]) = [2; 3] /\
  flat_map s_ids (render_layers false [ex_w_base; ex_w_top]) = [1; 2; 3].
Proof. split; [|split; vm_compute; reflexivity]. vm_compute. repeat constructor; simpl; intuition discriminate. Qed.

(* ------------------------------------------------------------------ layer level resolution ranges *)

(* a layer without a configured range renders every request that one of its members renders, provided the
   merged range is a hull of the member ranges (hypothesis about grid.merge_resolution_range: the largest min_res
   and the smallest max_res contain whatever one member range contains) *)
Lemma layer_res_ok_member : forall members hull_ok h,
  (forallb fst members = true -> existsb snd members = true -> hull_ok = true) ->
  In (h, true) members -> layer_res_ok None members hull_ok = true.
Proof.
  intros members hull_ok h HULL I. unfold layer_res_ok, merged_res_ok.
  destruct members as [|m ms]; [reflexivity|].
  destruct (forallb fst (m :: ms)) eqn:F; [|reflexivity].
  apply HULL; [reflexivity|]. apply existsb_exists. exists (h, true). split; [exact I|reflexivity].
Qed.

(* a member without a range makes the layer unlimited *)
Lemma layer_res_ok_unlimited_member : forall members hull_ok r,
  In (false, r) members -> layer_res_ok None members hull_ok = true.
Proof.
  intros members hull_ok r I. unfold layer_res_ok, merged_res_ok.
  destruct members as [|m ms]; [reflexivity|].
  destruct (forallb fst (m :: ms)) eqn:F; [|reflexivity].
  rewrite forallb_forall in F. specialize (F _ I). discriminate.
Qed.

Example layer_res_ok_examples :
  layer_res_ok None [(false, true); (true, false)] false = true /\
  layer_res_ok None [(true, false); (true, false)] false = false /\
  layer_res_ok (Some false) [(false, true)] true = false.
Proof. vm_compute. auto. Qed.


(* ------------------------------------------------------------------ selection with authorisation (two passes) *)

Lemma od_get_in : forall d k v, NoDup (map fst d) -> In (k, v) d -> od_get d k = Some v.
Proof.
  induction d as [|[k' v'] d IH]; intros k v ND I; [destruct I|].
  simpl in *. inversion ND; subst. destruct I as [E|I].
  - inversion E; subst. rewrite Z.eqb_refl. reflexivity.
  - destruct (k' =? k) eqn:Q.
    + apply Z.eqb_eq in Q. subst k'. exfalso. apply H1. apply in_map_iff. exists (k, v). split; [reflexivity|exact I].
    + apply IH; assumption.
Qed.

Lemma filter_auth_none : forall d, filter_auth (fun _ => 0) d = d.
Proof. induction d as [|kv d IH]; simpl; [reflexivity|]. rewrite IH. reflexivity. Qed.

Lemma filter_all_true : forall {A} (f : A -> bool) l, (forall x, In x l -> f x = true) -> filter f l = l.
Proof.
  intros A f l H. induction l as [|x l IH]; simpl; [reflexivity|].
  rewrite H by (left; reflexivity). rewrite IH; [reflexivity|]. intros y I. apply H. right. exact I.
Qed.

Lemma existsb_none : forall {A} (l : list A), existsb (fun _ => 0 =? 2) l = false.
Proof. induction l; simpl; auto. Qed.

Lemma fold_names_update : forall L E acc,
  (forall kv, In kv E -> od_get L (fst kv) = Some (snd kv)) ->
  fold_left (fun a n => match od_get L n with Some v => od_set a n v | None => a end) (map fst E) acc =
  od_update acc E.
Proof.
  unfold od_update. induction E as [|kv E IH]; intros acc H; simpl; [reflexivity|].
  rewrite (H kv) by (left; reflexivity). apply IH. intros x I. apply H. right. exact I.
Qed.

(* without an authorize callback the two-pass selection of the repaired WMSServer.map selects exactly what the
   one-pass loop selected (distinct layer names) *)
Lemma prune_pass_no_auth : forall prune L req acc,
  NoDup (map fst L) -> (forall kv, In kv (w_layers_of req) -> In kv L) ->
  prune_pass prune (fun _ => 0) L req acc = select_layers prune req acc.
Proof.
  intros prune L. induction req as [|w req IH]; intros acc ND SUB; simpl; [reflexivity|].
  rewrite w_layers_of_cons in SUB. destruct (w_renders w) eqn:R.
  - assert (HE : forall kv, In kv (w_map_layers w) -> od_get L (fst kv) = Some (snd kv)).
    { intros [k v] I. apply od_get_in; [exact ND|]. apply SUB. apply in_or_app. left. exact I. }
    rewrite (filter_all_true _ (map fst (w_map_layers w))).
    + rewrite Nat.eqb_refl, existsb_none. cbn [negb orb andb]. rewrite andb_true_r.
      rewrite fold_names_update by exact HE.
      apply IH; [exact ND|]. intros kv I. apply SUB. apply in_or_app. right. exact I.
    + intros n I. apply in_map_iff in I. destruct I as ([k v] & E & I). simpl in E. subst n.
      pose proof (HE (k, v) I) as G. cbn [fst snd] in G. rewrite G. reflexivity.
  - apply IH; [exact ND|]. intros kv I. apply SUB. exact I.
Qed.

Lemma select_auth_no_auth : forall prune req,
  NoDup (req_keys req) -> select_layers_auth prune (fun _ => 0) req = select_layers prune req [].
Proof.
  intros prune req ND. unfold select_layers_auth. rewrite filter_auth_none.
  rewrite (select_false_spec req []) by exact ND. cbn [app].
  apply prune_pass_no_auth; [exact ND | auto].
Qed.

Lemma wms_map_auth_no_auth : forall prune combine fetch n o req,
  NoDup (req_keys req) ->
  wms_map_auth prune combine (fun _ => 0) fetch n o req = wms_map prune combine fetch n o req.
Proof.
  intros. unfold wms_map_auth, wms_map, render_layers. rewrite select_auth_no_auth by assumption. reflexivity.
Qed.

(* an opaque layer of which something was removed or limited by the authorisation hides nothing *)
Example ex_auth_limited_top_keeps_base :
  flat_map s_ids (flat_map snd (select_layers_auth true (fun k => if k =? 3 then 2 else 0) [ex_w_base; ex_w_top])) = [1; 2; 3]
  /\ flat_map s_ids (flat_map snd (select_layers_auth true (fun k => if k =? 3 then 1 else 0) [ex_w_base; ex_w_top])) = [1; 3]
  /\ flat_map s_ids (flat_map snd (select_layers_auth true (fun _ => 0) [ex_w_base; ex_w_top])) = [2; 3].
Proof. vm_compute. auto. Qed.

(* ------------------------------------------------------------------ request beyond the SRS extent *)

(* inside the extent the answer shows the pixel of the image merged for the sub query, outside it is transparent *)
Lemma sub_image_source_inside : forall o sub placement i k,
  nth_error placement i = Some (Some k) -> (k < length (view sub))%nat ->
  exists p, nth_error (im_px (sub_image_source o sub placement)) i = Some p /\ nth_error (view sub) k = Some p.
Proof.
  intros o sub placement i k H K. unfold sub_image_source. cbn [im_px].
  eexists. split.
  - erewrite map_nth_error by exact H. reflexivity.
  - apply nth_error_nth'. exact K.
Qed.

Lemma sub_image_source_outside : forall o sub placement i,
  ro_mode o <> Some M_RGB -> ro_mode o <> Some M_L ->
  nth_error placement i = Some None ->
  exists p, nth_error (im_px (sub_image_source o sub placement)) i = Some p /\ px_a p = 0.
Proof.
  intros o sub placement i N1 N2 H. unfold sub_image_source. cbn [im_px].
  eexists. split.
  - erewrite map_nth_error by exact H. reflexivity.
  - unfold create_px, create_mode. cbn [ro_mode ro_transparent ro_bgcolor truthy].
    destruct (match ro_bgcolor o with Some c => c | None => (255, 255, 255) end) as [[r g] b].
    destruct (ro_mode o) as [[]|]; try reflexivity; congruence.
Qed.

(* ------------------------------------------------------------------ colour key in WMSSource.get_map *)

(* the colour key is applied to whatever _get_map returns - the upstream image or the sub image pasted for a request
   that reaches beyond the coverage: a pixel within the tolerance of the key colour is fully transparent *)
Lemma source_image_keyed : forall c tol pl raw,
  source_image (Some c) tol pl raw = make_transparent_img c tol (source_image None tol pl raw).
Proof. reflexivity. Qed.

Lemma make_transparent_px_key : forall four c tol r g b a,
  0 <= tol -> 0 <= a <= 255 ->
  let '(cr, cg, cb) := c in
  cr - tol <= r <= cr + tol -> cg - tol <= g <= cg + tol -> cb - tol <= b <= cb + tol ->
  px_a (make_transparent_px four c tol (r, g, b, a)) = 0.
Proof.
  intros four [[cr cg] cb] tol r g b a T A Hr Hg Hb. unfold make_transparent_px.
  replace ((cr - tol <=? r) && (r <=? cr + tol)) with true by (symmetry; apply andb_true_intro; split; apply Z.leb_le; lia).
  replace ((cg - tol <=? g) && (g <=? cg + tol)) with true by (symmetry; apply andb_true_intro; split; apply Z.leb_le; lia).
  replace ((cb - tol <=? b) && (b <=? cb + tol)) with true by (symmetry; apply andb_true_intro; split; apply Z.leb_le; lia).
  cbn [andb px_a]. destruct four; [|reflexivity]. unfold chop_mul. reflexivity.
Qed.

(* ------------------------------------------------------------------ layer level range check drops nothing *)

(* converse reading of layer_res_ok_member: when a layer without a configured range is skipped by its merged range,
   none of its members (sources / sub layers) would have rendered the request (same hull hypothesis) *)
Lemma layer_res_skip_members : forall members hull_ok,
  (forallb fst members = true -> existsb snd members = true -> hull_ok = true) ->
  layer_res_ok None members hull_ok = false -> Forall (fun m => snd m = false) members.
Proof.
  intros members hull_ok HULL R. apply Forall_forall. intros [h r] I. cbn [snd].
  destruct r; [|reflexivity].
  rewrite (layer_res_ok_member members hull_ok h HULL I) in R. discriminate.
Qed.

(* sources outside their resolution range contribute nothing (WMSSource.get_map raises BlankImage): drawing a layer
   all of whose sources are outside their range, anywhere in the stack, gives the same list of merged images - and so
   the same response - as leaving the layer out *)
Lemma rendered_blank_sources : forall fetch l,
  Forall (fun s => s_res_ok s = false) l -> rendered fetch l = [].
Proof.
  intros fetch l H. induction H as [|s l Hs _ IH]; [reflexivity|].
  cbn [rendered]. unfold src_blank. rewrite Hs. cbn [negb orb]. exact IH.
Qed.

Lemma skip_out_of_range_layer : forall fetch n o below srcs above cov,
  Forall (fun s => s_res_ok s = false) srcs ->
  merge n o (rendered fetch (below ++ srcs ++ above)) cov = merge n o (rendered fetch (below ++ above)) cov.
Proof.
  intros fetch n o below srcs above cov H.
  rewrite !rendered_app. rewrite (rendered_blank_sources fetch srcs H). reflexivity.
Qed.

Example skip_out_of_range_layer_nonvacuous :
  let s := mk_src [1] true false (Some true) None 0 1 [1] 1 1 None None 0 1 in
  Forall (fun s => s_res_ok s = false) [s] /\ src_blank s = true.
Proof. split; [repeat constructor|reflexivity]. Qed.

(* ------------------------------------------------------------------ concurrent rendering, picture level *)
From MP Require Import Pool Pool_proofs.

(* LayerRenderer.render hands the results of ThreadPool.imap (result objects) to LayerMerger.add in the order imap
   yields them.  `decode` maps a task result to the layer image it carries (None: BlankImage / captured error).
   Whatever the pool size, the completion order of the upstream requests and the hand-over point, the merged picture is
   the one of the sequential renderer. *)
Definition added_layers (decode : val -> option layer) (results : list val) : list layer :=
  flat_map (fun v => match decode v with Some l => [l] | None => [] end) results.

Lemma concurrent_render_picture : forall pool_size decode n o cov results completion_order split,
  is_perm completion_order (length results) ->
  merge n o (added_layers decode (fst (imap pool_size true results completion_order split))) cov =
  merge n o (added_layers decode results) cov.
Proof.
  intros pool_size decode n o cov results arr split P.
  rewrite (imap_result_objects pool_size results arr split P). reflexivity.
Qed.

Example concurrent_render_picture_nonvacuous :
  is_perm [2; 0; 1]%nat (length [Ok 1; Ok 2; Exc 3]) /\
  fst (imap 2 true [Ok 1; Ok 2; Exc 3] [2; 0; 1]%nat 1) = [Ok 1; Ok 2; Exc 3].
Proof.
  split.
  - split.
    + repeat constructor; simpl; intuition lia.
    + intros i. simpl. lia.
  - vm_compute. reflexivity.
Qed.
