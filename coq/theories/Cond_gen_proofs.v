(* C20  Cond.make_conditional is the decision kernel that translator/specs/cond.py regenerates from
   mapproxy/response.py (Response.make_conditional) on every run (gen/Gen_cond.v). *)
From Coq Require Import ZArith List Bool.
Import ListNotations.
From MP Require Import Base Cond Gen_cond.
Local Open Scope Z_scope.

(* parse_httpdate(...) in ticks: whole seconds * ticks per second *)
Definition since_ticks (tps : Z) (p : parsed) : option Z :=
  match p with PSome t => Some (t * tps) | PNone => None end.

Lemma make_conditional_as_generated : forall tps r inm ims,
  make_conditional tps r inm ims =
  if gen_not_modified (etag_matches (r_etag r) inm) (r_ts r) (since_ticks tps (parse_httpdate ims))
  then Resp (not_modified r) else Resp r.
Proof.
  intros tps r inm ims. unfold make_conditional, gen_not_modified, since_ticks, c_is_some, c_oget.
  destruct (etag_matches (r_etag r) inm); [reflexivity|].
  destruct (r_ts r) as [ts|]; [|reflexivity].
  destruct (parse_httpdate ims) as [|t]; cbn [andb]; [reflexivity|].
  destruct (ts <=? t * tps); reflexivity.
Qed.
