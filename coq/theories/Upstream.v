(* Model of what MapProxy asks of an upstream server (C17).

   Follows, line by line:
     mapproxy/source/wms.py   WMSSource.get_map / _get_map / _get_sub_query / _get_transformed
     mapproxy/srs.py          PreferredSrcSRS.preferred_src, SupportedSRS.best_srs, _SRS.__eq__ / __hash__
     mapproxy/image/opts.py   ImageFormat.__eq__ (format choice in _get_map)
     mapproxy/grid.py         ResolutionRange.contains, bbox_contains, bbox_intersects
     mapproxy/util/coverage.py BBOXCoverage.intersects / contains,  mapproxy/layer.py MapExtent.contains / bbox_for
     mapproxy/image/__init__.py bbox_position_in_image
     mapproxy/client/wms.py   WMSClient._query_req (+ NoCaseMultiDict.update, WMSMapRequest.adapt_params_to_version)
     mapproxy/layer.py        MapQuery.dimensions_for_params
     mapproxy/source/tile.py  TiledSource.get_map  (grid arithmetic: Grid.v)

   Numbers: all coordinates are integers in units of a common quantum (DESIGN.md section 3); resolutions
   thresholds are rationals (numerator, positive denominator) in the same units.  Strings (SRS codes, formats,
   parameter names and values) are opaque identifiers (Z); what the code does with them (equality, lower-casing,
   extension of a mime type) is carried by the records below.  The PROJ transformation of a bbox is the
   function T of the section (None = TransformationError).  No proofs here. *)
From Coq Require Import ZArith List Bool.
Import ListNotations.
From MP Require Import Base Grid.
Local Open Scope Z_scope.

(* ------------------------------------------------------------------ SRS *)
(* _SRS: srs_code (string id) ; __eq__ compares proj.srs (s_cls) ; __hash__ is hash(srs_code) *)
Record srs := mkSrs { s_code : Z; s_cls : Z; s_latlong : bool }.
Definition srs_eq (a b : srs) : bool := s_cls a =? s_cls b.
Definition code_eq (a b : srs) : bool := s_code a =? s_code b.
(* `t in list` *)
Definition mem_srs (t : srs) (l : list srs) : bool := existsb (fun a => srs_eq t a) l.
(* `t in dict` / dict[t] for a dict keyed by SRS objects: same hash (srs_code), then == *)
Definition dict_get (t : srs) (d : list (srs * list srs)) : option (list srs) :=
  match find (fun e => code_eq t (fst e)) d with
  | Some e => Some (snd e)
  | None => None
  end.

(* PreferredSrcSRS.preferred_src(target, available_src); None = ValueError.
   Always returns an element of available_src (the object that carries the supported srs_code). *)
Fixpoint first_avail (prefs avail : list srs) : option srs :=
  match prefs with
  | [] => None
  | p :: r =>
    match find (fun a => srs_eq a p) avail with
    | Some a => Some a
    | None => first_avail r avail
    end
  end.

Definition preferred_src (d : list (srs * list srs)) (t : srs) (avail : list srs) : option srs :=
  match avail with
  | [] => None
  | a0 :: _ =>
    match find (fun a => srs_eq a t) avail with
    | Some a => Some a
    | None =>
      match (match dict_get t d with
             | Some prefs => first_avail prefs avail
             | None => None
             end) with
      | Some a => Some a
      | None =>
        match find (fun a => Bool.eqb (s_latlong a) (s_latlong t)) avail with
        | Some a => Some a
        | None => Some a0
        end
      end
    end
  end.

(* ------------------------------------------------------------------ image formats *)
(* f_id: the string; f_ext: ImageFormat(...).ext of it; f_typed: it is an ImageFormat instance (== compares ext)
   rather than a plain str (== compares the string); f_mime: what WMSMapRequestParams._set_format stores *)
Record fmt := mkFmt { f_id : Z; f_ext : Z; f_typed : bool; f_mime : Z }.
Definition fmt_match (f e : fmt) : bool := if f_typed f then f_ext f =? f_ext e else f_id f =? f_id e.
Definition fmt_in (f : fmt) (l : list fmt) : bool := existsb (fmt_match f) l.

(* ------------------------------------------------------------------ bbox predicates *)
Definition ten13 : Z := 10000000000000.
(* mapproxy.grid.bbox_contains(one, two): tolerance |extent| / 10e12 *)
Definition bbox_contains (a b : bbox) : bool :=
  let '(a0, a1, a2, a3) := a in
  let '(b0, b1, b2, b3) := b in
  let dx := Z.abs (a2 - a0) in
  let dy := Z.abs (a3 - a1) in
  ((a0 - b0) * ten13 <=? dx) && ((b2 - a2) * ten13 <=? dx) &&
  ((a1 - b1) * ten13 <=? dy) && ((b3 - a3) * ten13 <=? dy).

Definition proper (b : bbox) : bool := let '(x0, y0, x1, y1) := b in (x0 <? x1) && (y0 <? y1).

(* ------------------------------------------------------------------ resolution range *)
(* rr_min: (min_res + 1e-6) as a rational, None when min_res is unset/0; rr_max likewise (no epsilon) *)
Record res_range := mkRR { rr_min : option (Z * Z); rr_max : option (Z * Z) }.

(* ResolutionRange.contains(bbox, size, srs); (kn, kd) = metres per degree (deg_to_m) as a rational *)
Definition rr_contains (kn kd : Z) (r : res_range) (b : bbox) (sx sy : Z) (latlong : bool) : bool :=
  let '(x0, y0, x1, y1) := b in
  let w := x1 - x0 in
  let h := y1 - y0 in
  (* x_res = xn / xd, y_res = yn / yd *)
  let '(xn, xd) := if latlong then (w * kn, kd * sx) else (w, sx) in
  let '(yn, yd) := if latlong then (h * kn, kd * sy) else (h, sy) in
  let ok_min := match rr_min r with
                | Some (ln, ld) => negb ((ln * xd <=? xn * ld) || (ln * yd <=? yn * ld))
                | None => true
                end in
  let ok_max := match rr_max r with
                | Some (hn, hd) => negb ((xn * hd <? hn * xd) || (yn * hd <? hn * yd))
                | None => true
                end in
  if ok_min then ok_max else false.

(* ------------------------------------------------------------------ queries and request parameters *)
(* a dimension of the query: (key string, lower-cased key string, value string) *)
Definition dim := (Z * Z * Z)%type.
Definition d_key (d : dim) : Z := fst (fst d).
Definition d_lower (d : dim) : Z := snd (fst d).
Definition d_val (d : dim) : Z := snd d.

Record query := mkQuery { q_bbox : bbox; q_w : Z; q_h : Z; q_srs : srs; q_fmt : fmt; q_dims : list dim }.

(* MapQuery.dimensions_for_params(params): fwd = lower-cased configured names *)
Definition dims_for_params (fwd : list Z) (ds : list dim) : list dim :=
  filter (fun d => existsb (Z.eqb (d_lower d)) fwd) ds.

(* values of request parameters *)
Inductive pval := VStr (i : Z) | VInt (n : Z) | VBox (b : bbox).
(* NoCaseMultiDict: lower-cased key -> values, in insertion order *)
Definition params := list (Z * list pval).

Fixpoint pset (k : Z) (vs : list pval) (m : params) : params :=
  match m with
  | [] => [(k, vs)]
  | (k', vs') :: r => if k' =? k then (k, vs) :: r else (k', vs') :: pset k vs r
  end.
Fixpoint pget (k : Z) (m : params) : option (list pval) :=
  match m with
  | [] => None
  | (k', vs) :: r => if k' =? k then Some vs else pget k r
  end.
(* NoCaseMultiDict._gen_dict: group the values of keys that are equal ignoring case *)
Fixpoint group_add (k : Z) (v : pval) (g : params) : params :=
  match g with
  | [] => [(k, [v])]
  | (k', vs) :: r => if k' =? k then (k', vs ++ [v]) :: r else (k', vs) :: group_add k v r
  end.
Definition group (l : list (Z * pval)) : params :=
  fold_left (fun g kv => group_add (fst kv) (snd kv) g) l [].
(* NoCaseMultiDict.update(mapping) with append=False *)
Definition pupdate (m : params) (l : list (Z * pval)) : params :=
  fold_left (fun m' kvs => pset (fst kvs) (snd kvs) m') (group l) m.

(* well-known parameter names / values (identifiers fixed by convention with the harness) *)
Definition K_BBOX : Z := 1.
Definition K_WIDTH : Z := 2.
Definition K_HEIGHT : Z := 3.
Definition K_SRS : Z := 4.
Definition K_FORMAT : Z := 5.
Definition K_STYLES : Z := 6.
Definition V_EMPTY : Z := 7.
Definition K_CRS : Z := 8.
Definition reserved (k : Z) : bool :=
  (k =? K_BBOX) || (k =? K_WIDTH) || (k =? K_HEIGHT) || (k =? K_SRS) || (k =? K_FORMAT).

(* what _query_req is called with: the negotiated values and the dimensions to forward *)
Record request := mkReq { r_bbox : bbox; r_w : Z; r_h : Z; r_srs : srs; r_fmt : fmt; r_fwd : list dim }.

(* WMSClient._query_req + WMSMapRequest.adapt_params_to_version (WMS 1.1.1): the parameters of the URL.
   tmpl: parameters of the request template; fixed: fixed_params of the request class *)
Definition url_params (tmpl : params) (fixed : list (Z * Z)) (r : request) : params :=
  (* forwarded dimensions first, then the negotiated values *)
  let m0 := pupdate tmpl (map (fun d => (d_lower d, VStr (d_val d))) (r_fwd r)) in
  let m1 := pset K_BBOX [VBox (r_bbox r)] m0 in
  let m2 := pset K_HEIGHT [VInt (r_h r)] (pset K_WIDTH [VInt (r_w r)] m1) in
  let m3 := pset K_SRS [VStr (s_code (r_srs r))] m2 in
  let m4 := pset K_FORMAT [VStr (f_mime (r_fmt r))] m3 in
  let m6 := fold_left (fun m kv => pset (fst kv) [VStr (snd kv)] m) fixed m4 in
  match pget K_STYLES m6 with
  | Some _ => m6
  | None => pset K_STYLES [VStr V_EMPTY] m6
  end.

(* WMS 1.3.0 upstream (WMS130MapRequest.adapt_params_to_version): after the 1.1.1 steps the BBOX is rewritten in the
   axis order of the CRS (switch_bbox: y/x for north/east CRSs; ne = is_axis_order_ne of the srs_code) and the
   parameter srs is renamed to crs *)
Definition swap_bbox (b : bbox) : bbox := let '(x0, y0, x1, y1) := b in (y0, x0, y1, x1).
Definition premove (k : Z) (m : params) : params := filter (fun kv => negb (fst kv =? k)) m.
Definition url_params_v (v130 : bool) (ne : Z -> bool) (tmpl : params) (fixed : list (Z * Z)) (r : request) : params :=
  let m := url_params tmpl fixed r in
  if v130 then
    let m1 := if ne (s_code (r_srs r)) then pset K_BBOX [VBox (swap_bbox (r_bbox r))] m else m in
    match pget K_SRS m1 with
    | Some v => pset K_CRS v (premove K_SRS m1)
    | None => m1
    end
  else m.

(* ------------------------------------------------------------------ bbox_position_in_image *)
(* int(x) of the rational a / b, b > 0: truncation *)
Definition bbox_position_in_image (b : bbox) (sx sy : Z) (src : bbox) : (Z * Z) * (Z * Z) * bbox :=
  let '(b0, b1, b2, b3) := b in
  let '(s0, s1, s2, s3) := src in
  let w := b2 - b0 in
  let h := b3 - b1 in
  let px x := Z.quot ((x - b0) * sx) w in
  let py y := Z.quot ((b3 - y) * sy) h in
  let '(u0, o0) := if b0 <? s0 then (s0, px s0) else (b0, 0) in
  let '(u1, o1) := if b1 <? s1 then (s1, py s1) else (b1, sy) in
  let '(u2, o2) := if s2 <? b2 then (s2, px s2) else (b2, sx) in
  let '(u3, o3) := if s3 <? b3 then (s3, py s3) else (b3, 0) in
  ((Z.abs (o2 - o0), Z.abs (o1 - o3)), (o0, o3), (u0, u1, u2, u3)).

(* ------------------------------------------------------------------ sources *)
Record wms_source := mkWms {
  w_srs : list srs;                       (* supported_srs ([] = not configured) *)
  w_pref : list (srs * list srs);         (* PreferredSrcSRS.target_proj (global preferred_src_proj) *)
  w_fmts : list fmt;                      (* supported_formats (plain str, already file_ext'ed) *)
  w_imgfmt : option fmt;                  (* image_opts.format (None = unset / empty) *)
  w_cov : option (bbox * srs);            (* coverage.bbox / coverage.srs (= the extent of the source) *)
  w_geom : option Z;                      (* None: BBOXCoverage; Some g: GeomCoverage with geometry g (bounds = bbox) *)
  w_rr : option res_range;
  w_fwd : list Z                          (* forward_req_params, lower-cased *)
}.

Inductive outcome :=
| Blank                       (* BlankImage raised: upstream not contacted *)
| Request (r : request)       (* client.retrieve called with this *)
| Err (e : Z)                 (* another exception before any request: 1 TransformationError, 2 ValueError *)
| OutOfModel.                 (* degenerate input the model does not follow (size <= 0, empty bbox) *)

(* ---------------------------------------------------------------- tile sources *)
Record tile_source := mkTile {
  t_grid : grid; t_srs : srs; t_cov : option (bbox * srs); t_geom : option Z; t_rr : option res_range }.

Inductive tile_outcome :=
| TBlank
| TRequest (c : Z * Z * Z)   (* client.get_tile(c): the coordinate substituted into the URL *)
| TErr (e : Z)               (* 1 size mismatch, 2 SRS mismatch, 3 NoTiles, 4 GridError, 5 not one tile,
                                6 tile is None (TypeError in get_tile), 7 TransformationError *)
| TOutOfModel.

Section Upstream.
  (* PROJ: src srs, dst srs, bbox -> transformed bbox; None = TransformationError *)
  Variable T : srs -> srs -> bbox -> option bbox.
  (* deg_to_m(1) = kn / kd *)
  Variable kn kd : Z.
  (* shapely: prepared_geom.intersects / .contains of geometry g for a bbox given in the coverage SRS *)
  Variable GI GC : Z -> bbox -> bool.

  (* coverage.intersects / coverage.contains for a bbox already in the coverage SRS *)
  Definition cov_intersects (geom : option Z) (cb b : bbox) : bool :=
    match geom with None => bbox_intersects cb b | Some g => GI g b end.
  Definition cov_contains (geom : option Z) (cb b : bbox) : bool :=
    match geom with None => bbox_contains cb b | Some g => GC g b end.

  (* srs.transform_bbox_to unless the SRS are equal (BBOXCoverage._bbox_in_coverage_srs, MapExtent.bbox_for) *)
  Definition to_srs (from to : srs) (b : bbox) : option bbox :=
    if srs_eq from to then Some b else T from to b.

  Definition rr_blocks (rr : option res_range) (q : query) : bool :=
    match rr with
    | Some r => negb (rr_contains kn kd r (q_bbox q) (q_w q) (q_h q) (s_latlong (q_srs q)))
    | None => false
    end.

  Definition choose_format (src : wms_source) (q : query) : fmt :=
    let f := match w_imgfmt src with Some f => f | None => q_fmt q end in
    match w_fmts src with
    | [] => f
    | e0 :: _ => if fmt_in f (w_fmts src) then f else e0
    end.

  Definition mk_req (src : wms_source) (q : query) (f : fmt) : request :=
    mkReq (q_bbox q) (q_w q) (q_h q) (q_srs q) f (dims_for_params (w_fwd src) (q_dims q)).

  (* _get_sub_query (only reached with a coverage) *)
  Definition sub_query (src : wms_source) (cb : bbox) (cs : srs) (q : query) (f : fmt) : outcome :=
    match to_srs cs (q_srs q) cb with
    | None => Err 1
    | Some e =>
      let '(sz, _, sub) := bbox_position_in_image (q_bbox q) (q_w q) (q_h q) e in
      if (fst sz =? 0) || (snd sz =? 0) then Blank
      else Request (mk_req src (mkQuery sub (fst sz) (snd sz) (q_srs q) (q_fmt q) (q_dims q)) f)
    end.

  (* _get_transformed *)
  Definition get_transformed (src : wms_source) (q : query) (f : fmt) : outcome :=
    match preferred_src (w_pref src) (q_srs q) (w_srs src) with
    | None => Err 2
    | Some s =>
      match T (q_srs q) s (q_bbox q) with
      | None => Err 1
      | Some sb =>
        if negb (proper sb) then OutOfModel
        else
          let '(x0, y0, x1, y1) := sb in
          let w := x1 - x0 in
          let h := y1 - y0 in
          let dw := q_w q in
          let dh := q_h q in
          let '(sw, sh) := if w * dh <? h * dw
                           then (dw, (2 * dw * h + w) / (2 * w))
                           else ((2 * dh * w + h) / (2 * h), dh) in
          let sq := mkQuery sb sw sh s (q_fmt q) (q_dims q) in
          match w_cov src with
          | Some (cb, cs) =>
            match to_srs s cs sb with
            | None => Err 1
            | Some b => if negb (cov_contains (w_geom src) cb b) then sub_query src cb cs sq f
                        else Request (mk_req src sq f)
            end
          | None => Request (mk_req src sq f)
          end
      end
    end.

  (* second half of _get_map: extent check, direct request or sub query *)
  Definition after_srs (src : wms_source) (q : query) (f : fmt) : outcome :=
    match w_cov src with
    | None => Request (mk_req src q f)
    | Some (cb, cs) =>
      match to_srs (q_srs q) cs (q_bbox q) with
      | None => Err 1
      | Some b => if bbox_contains cb b then Request (mk_req src q f) else sub_query src cb cs q f
      end
    end.

  Definition set_srs (q : query) (s : srs) : query :=
    mkQuery (q_bbox q) (q_w q) (q_h q) s (q_fmt q) (q_dims q).

  (* _get_map *)
  Definition get_map_inner (src : wms_source) (q : query) : outcome :=
    let f := choose_format src q in
    match w_srs src with
    | [] => after_srs src q f
    | _ =>
      match find (fun s => srs_eq (q_srs q) s) (w_srs src) with
      | None => get_transformed src q f
      | Some r => after_srs src (if code_eq (q_srs q) r then q else set_srs q r) f
      end
    end.

  Definition q_ok (q : query) : bool := (0 <? q_w q) && (0 <? q_h q) && proper (q_bbox q).

  (* WMSSource.get_map *)
  Definition wms_get_map (src : wms_source) (q : query) : outcome :=
    if negb (q_ok q) then OutOfModel
    else if rr_blocks (w_rr src) q then Blank
    else
      match w_cov src with
      | Some (cb, cs) =>
        match to_srs (q_srs q) cs (q_bbox q) with
        | None => Err 1
        | Some b => if negb (cov_intersects (w_geom src) cb b) then Blank else get_map_inner src q
        end
      | None => get_map_inner src q
      end.

  (* ---------------------------------------------------------------- combined sources *)
  (* SupportedSRS.__eq__ (the lists of srs_codes are equal), list of plain format strings, coverage __eq__
     (a BBOXCoverage never equals a GeomCoverage; geometries are equal when they have the same identifier) *)
  Definition cov_eqb (a b : wms_source) : bool :=
    match w_cov a, w_cov b with
    | None, None => true
    | Some (ca, sa), Some (cb, sb) =>
      srs_eq sa sb && bbox_eqb ca cb &&
      match w_geom a, w_geom b with
      | None, None => true
      | Some g, Some g' => g =? g'
      | _, _ => false
      end
    | _, _ => false
    end.
  Definition dim_eqb (a b : dim) : bool := (d_key a =? d_key b) && (d_lower a =? d_lower b) && (d_val a =? d_val b).

  (* WMSSource._is_compatible(other, query); static_ok: the conditions that do not concern this property (same
     upstream URL, no opacity, same transparent colour, other source not opaque) *)
  Definition compatible (static_ok : bool) (a b : wms_source) (q : query) : bool :=
    static_ok &&
    negb (rr_blocks (w_rr a) q) && negb (rr_blocks (w_rr b) q) &&
    list_eqb code_eq (w_srs a) (w_srs b) &&
    list_eqb (fun x y => f_id x =? f_id y) (w_fmts a) (w_fmts b) &&
    cov_eqb a b &&
    list_eqb dim_eqb (dims_for_params (w_fwd a) (q_dims q)) (dims_for_params (w_fwd b) (q_dims q)).

  (* WMSSource.combined_layer: the source that stands for both (its client asks for the layers of both) *)
  Definition combined (a : wms_source) : wms_source :=
    mkWms (w_srs a) (w_pref a) (w_fmts a) (w_imgfmt a) (w_cov a) (w_geom a) None (w_fwd a).

  (* service.wms.combined_layers([a, b], query) followed by get_map of every resulting layer *)
  Definition render_pair (static_ok : bool) (a b : wms_source) (q : query) : list outcome :=
    if compatible static_ok a b q then [wms_get_map (combined a) q]
    else [wms_get_map a q; wms_get_map b q].

  (* service.wms.combined_layers for any number of layers: adjacent layers are merged into the current one as long
     as they are compatible; every resulting layer is kept together with the sources it stands for.
     rest: the following sources, each with the static condition towards its predecessor *)
  Fixpoint combine_from (cur : wms_source) (members : list wms_source) (rest : list (bool * wms_source)) (q : query)
    : list (wms_source * list wms_source) :=
    match rest with
    | [] => [(cur, members)]
    | (ok, n) :: r =>
      if compatible ok cur n q then combine_from (combined cur) (members ++ [n]) r q
      else (cur, members) :: combine_from n [n] r q
    end.
  Definition combine_layers (first : wms_source) (rest : list (bool * wms_source)) (q : query) :=
    combine_from first [first] rest q.
  Definition render_list (first : wms_source) (rest : list (bool * wms_source)) (q : query) : list outcome :=
    map (fun e => wms_get_map (fst e) q) (combine_layers first rest q).

  (* TiledSource.get_map *)
  Definition tiled_get_map (ts : tile_source) (q : query) : tile_outcome :=
    let g := t_grid ts in
    if negb (q_ok q) then TOutOfModel
    else if negb ((tw g =? q_w q) && (th g =? q_h q)) then TErr 1
    else if negb (srs_eq (t_srs ts) (q_srs q)) then TErr 2
    else if rr_blocks (t_rr ts) q then TBlank
    else
      let go :=
        match affected_level g (q_bbox q) (q_w q) (q_h q) with
        | None => TErr 3
        | Some l =>
          match affected_level_tiles g (q_bbox q) l with
          | InvalidBBOX => TErr 4
          | Affected _ nx ny tiles =>
            if negb ((nx =? 1) && (ny =? 1)) then TErr 5
            else match tiles with
                 | Some c :: _ => TRequest c
                 | _ => TErr 6
                 end
          end
        end in
      match t_cov ts with
      | Some (cb, cs) =>
        match to_srs (q_srs q) cs (q_bbox q) with
        | None => TErr 7
        | Some b => if negb (cov_intersects (t_geom ts) cb b) then TBlank else go
        end
      | None => go
      end.
End Upstream.

(* ------------------------------------------------------------------ comparison helpers (correspondence) *)
Definition pval_eqb (a b : pval) : bool :=
  match a, b with
  | VStr x, VStr y => x =? y
  | VInt x, VInt y => x =? y
  | VBox x, VBox y => bbox_eqb x y
  | _, _ => false
  end.
Fixpoint pvals_eqb (a b : list pval) : bool :=
  match a, b with
  | [], [] => true
  | x :: a', y :: b' => pval_eqb x y && pvals_eqb a' b'
  | _, _ => false
  end.
(* same key -> values map, keys in any order (keys are unique on both sides) *)
Definition params_eqb (a b : params) : bool :=
  (Nat.eqb (length a) (length b)) &&
  forallb (fun kv => match pget (fst kv) b with Some vs => pvals_eqb (snd kv) vs | None => false end) a.

(* observation of one WMSSource.get_map call *)
Inductive wms_obs := OBlank | OUrl (p : params) | OErr (e : Z).
Definition wms_obs_eqb (v130 : bool) (ne : Z -> bool) (tmpl : params) (fixed : list (Z * Z)) (o : outcome) (x : wms_obs) : bool :=
  match o, x with
  | Blank, OBlank => true
  | Request r, OUrl p => params_eqb (url_params_v v130 ne tmpl fixed r) p
  | Err e, OErr e' => e =? e'
  | _, _ => false
  end.

Inductive tile_obs := TOBlank | TOTile (c : Z * Z * Z) | TOErr (e : Z).
Definition tile_obs_eqb (o : tile_outcome) (x : tile_obs) : bool :=
  match o, x with
  | TBlank, TOBlank => true
  | TRequest c, TOTile c' => coord_eqb c c'
  | TErr e, TOErr e' => e =? e'
  | _, _ => false
  end.

Fixpoint outs_eqb (v130 : bool) (ne : Z -> bool) (ts : list params) (fixed : list (Z * Z)) (o : list outcome) (x : list wms_obs) : bool :=
  match ts, o, x with
  | [], [], [] => true
  | t :: ts', o1 :: o', x1 :: x' => wms_obs_eqb v130 ne t fixed o1 x1 && outs_eqb v130 ne ts' fixed o' x'
  | _, _, _ => false
  end.

(* lookup table used as T in the correspondence: ((code of source SRS, code of target SRS), bbox) -> result *)
Definition ttable := list (Z * Z * bbox * option bbox).
Fixpoint tlookup (t : ttable) (a b : Z) (x : bbox) : option bbox :=
  match t with
  | [] => None
  | (a', b', x', r) :: rest => if (a =? a') && (b =? b') && bbox_eqb x x' then r else tlookup rest a b x
  end.
Definition T_of (t : ttable) (a b : srs) (x : bbox) : option bbox := tlookup t (s_code a) (s_code b) x.

(* lookup tables used as GI / GC in the correspondence: (geometry, bbox in the coverage SRS) -> shapely's answer *)
Definition gtable := list (Z * bbox * bool).
Fixpoint glookup (t : gtable) (g : Z) (x : bbox) : bool :=
  match t with
  | [] => false
  | (g', x', r) :: rest => if (g =? g') && bbox_eqb x x' then r else glookup rest g x
  end.

(* comparison of the outcomes of service.wms.combined_layers + get_map with render_pair *)
Definition pair_obs_eqb (v130 : bool) (ne : Z -> bool) (ta tb tab : params) (fixed : list (Z * Z)) (o : list outcome) (x : list wms_obs) : bool :=
  match o, x with
  | [o1], [x1] => wms_obs_eqb v130 ne tab fixed o1 x1
  | [o1; o2], [x1; x2] => wms_obs_eqb v130 ne ta fixed o1 x1 && wms_obs_eqb v130 ne tb fixed o2 x2
  | _, _ => false
  end.
