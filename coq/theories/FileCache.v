(* C05  Operational model of mapproxy/cache/file.py (FileCache) over a file system with symbolic links.

   The file system below cache_dir is a finite map  path -> node  (a path is the list of components below
   cache_dir; directories are implicit: ensure_directory creates them and nothing in this back-end removes them).
   Nodes: a regular file with its inode number and content, or a symbolic link with its target.  A hard link
   is a second directory entry with the same inode number; FileCache never modifies an inode in place (every
   write goes through write_atomic = write a temporary file with a new inode, rename it over the name), so the
   content can be kept in the directory entry.  The inode number is what os.path.samefile compares.
   Temporary names (location + '.tmp-<random>') are created and renamed within one operation; the model takes
   them to be unused names and shows the net effect (name collisions and crashes in between: C06).

   Followed line by line: FileCache.is_cached / load_tile / remove_tile / store_tile / _store /
   _store_single_color_tile / _single_color_tile_location, TileCacheBase.load_tiles / store_tiles.
   Every operation is given fresh Tile objects (tile.source None, tile.stored False, tile.location None), which
   is how the harness drives the implementation.   No proofs here. *)
From Coq Require Import ZArith NArith List Bool String Ascii Arith.
Import ListNotations.
From MP Require Import Base Gen_path CacheMap.
Local Open Scope Z_scope.

Inductive link_mode := LNone | LSym | LHard.

Inductive node :=
| NFile (ino : nat) (b : bytes)
| NSym (target : path).

Definition fs := list (path * node).

Fixpoint fs_get (s : fs) (p : path) : option node :=
  match s with
  | [] => None
  | (q, n) :: r => if path_eqb q p then Some n else fs_get r p
  end.

Fixpoint fs_del (s : fs) (p : path) : fs :=
  match s with
  | [] => []
  | (q, n) :: r => if path_eqb q p then fs_del r p else (q, n) :: fs_del r p
  end.

(* rename(tmp, p): replaces whatever p names *)
Definition fs_put (s : fs) (p : path) (n : node) : fs := (p, n) :: fs_del s p.

(* an inode number no existing file has *)
Fixpoint fs_max_ino (s : fs) : nat :=
  match s with
  | [] => O
  | (_, NFile i _) :: r => Nat.max i (fs_max_ino r)
  | (_, NSym _) :: r => fs_max_ino r
  end.
Definition fs_fresh (s : fs) : nat := S (fs_max_ino s).

(* inode and content reached from p following symbolic links (Linux gives up after 40: ELOOP) *)
Fixpoint fs_resolve (fuel : nat) (s : fs) (p : path) : option (nat * bytes) :=
  match fs_get s p with
  | Some (NFile i b) => Some (i, b)
  | Some (NSym t) => match fuel with O => None | S f => fs_resolve f s t end
  | None => None
  end.
Definition fs_stat (s : fs) (p : path) : option (nat * bytes) := fs_resolve 40 s p.
Definition fs_read (s : fs) (p : path) : option bytes :=
  match fs_stat s p with Some (_, b) => Some b | None => None end.

(* os.path.exists follows links; os.path.islink does not *)
Definition fs_exists (s : fs) (p : path) : bool := is_some (fs_stat s p).
Definition fs_islink (s : fs) (p : path) : bool :=
  match fs_get s p with Some (NSym _) => true | _ => false end.
(* os.path.samefile(p, q): same inode after following links (raises when one is missing: false here, the
   callers test exists first) *)
Definition fs_samefile (s : fs) (p q : path) : bool :=
  match fs_stat s p, fs_stat s q with
  | Some (i, _), Some (j, _) => Nat.eqb i j
  | _, _ => false
  end.

(* ------------------------------------------------------------------ single colour tiles *)
(* A payload is the decoded tile: the number of channels of the image mode (3 = RGB, 4 = RGBA) followed by the
   pixel values (65536 r + 256 g + b, resp. 2^24 r + 65536 g + 256 b + a).
   is_single_color_image returns the colour TUPLE if there is exactly one colour: 3 or 4 components.  A colour is
   kept as one number: the RGB value, or 2^32 + the RGBA value. *)
Definition RGBA_TAG : Z := 4294967296.
Definition mono (b : bytes) : option Z :=
  match b with
  | ch :: c :: r => if forallb (Z.eqb c) r then Some (if ch =? 4 then RGBA_TAG + c else c) else None
  | _ => None
  end.

(* ''.join('%02x' % v for v in color): two hex digits for every component of the tuple *)
Definition h2 (v : Z) : text := render_int pad_hex 2 v.
Definition color_name (k : Z) : text :=
  if k <? RGBA_TAG then h2 (k / 65536) ++ h2 ((k / 256) mod 256) ++ h2 (k mod 256)
  else let c := k - RGBA_TAG in
       h2 (c / 16777216) ++ h2 ((c / 65536) mod 256) ++ h2 ((c / 256) mod 256) ++ h2 (c mod 256).

Definition sc_dir : text := s2t "single_color_tiles".
(* _single_color_tile_location *)
Definition sc_path (ext : string) (c : Z) : path := [sc_dir; color_name c ++ "."%char :: s2t ext].

Section FileCache.
  Variable layout : layout_fun.
  Variable ext : string.
  Variable link : link_mode.

  Definition floc (a : addr) : path := file_key layout ext a.

  (* _store: if os.path.islink(location): os.unlink(location); write_atomic(location, data) *)
  Definition fstore_plain (s : fs) (loc : path) (b : bytes) : fs :=
    let s1 := if fs_islink s loc then fs_del s loc else s in
    fs_put s1 loc (NFile (fs_fresh s1) b).

  (* _store_single_color_tile (repaired code, commits 78090d4, 2fca53a, a70c88a):
       if not os.path.exists(real): self._store(tile, real)
       if link == 'hardlink' and os.path.exists(tile_loc) and os.path.samefile(real, tile_loc):
           self._set_stored_metadata(tile, tile_loc); return
       os.link(real, tmp) / os.symlink(relpath(real), tmp); os.rename(tmp, tile_loc)
       self._set_stored_metadata(tile, tile_loc)
     _set_stored_metadata lstat()s tile_loc (it exists at both places) and writes timestamp and size into the
     Tile object, which is not part of the persistent state.  In symlink mode the link is always created anew. *)
  Definition fstore_mono (s : fs) (loc : path) (b : bytes) (c : Z) : fs :=
    let real := sc_path ext c in
    let s1 := if fs_exists s real then s else fstore_plain s real b in
    match link with
    | LHard =>
      if fs_exists s1 loc && fs_samefile s1 real loc then s1
      else
        (* os.link(real, tmp): a second name for the inode of real (ENOENT cannot happen: real exists) *)
        match fs_get s1 real with
        | Some n => fs_put s1 loc n
        | None => s1
        end
    | _ =>
      (* the relative target resolves to real *)
      fs_put s1 loc (NSym real)
    end.

  (* store_tile (tile.stored is False) at the location loc *)
  Definition fstore_at (s : fs) (loc : path) (b : bytes) : fs :=
    match link with
    | LNone => fstore_plain s loc b
    | _ => match mono b with
           | Some c => fstore_mono s loc b c
           | None => fstore_plain s loc b
           end
    end.
  Definition fstore (s : fs) (a : addr) (b : bytes) : fs := fstore_at s (floc a) b.

  (* load_tile: if os.path.exists(location): tile.source = ImageSource(location) (opened when read) *)
  Definition fload (s : fs) (a : addr) : option bytes := fs_read s (floc a).

  Definition file_step (s : fs) (o : op) : fs * out :=
    match o with
    | Store a b => (fstore s a b, ODone)
    | StoreMany l => (fold_left (fun s ab => fstore s (fst ab) (snd ab)) l s, ODone)
    | Load a => (s, OLoad (fload s a))
    | LoadMany l => (s, load_many_out (map (fload s) l))
    | IsCached a => (s, OCached (fs_exists s (floc a)))
    | Remove a => (fs_del s (floc a), ODone)          (* os.remove(location), ENOENT ignored *)
    end.

  Fixpoint file_run (s : fs) (ops : list op) : fs * list out :=
    match ops with
    | [] => (s, [])
    | o :: r => let (s', x) := file_step s o in let (s'', xs) := file_run s' r in (s'', x :: xs)
    end.

  (* ---------------------------------------------------------------- calls through one re-used Tile object *)
  (* The Tile object keeps: the location computed by the first call that needs it (tile.location, whatever
     dimensions later calls pass), the source, and the stored flag set by tile_buffer. *)
  Record tile := mkTile { t_coord : Z * Z * Z; t_loc : option path; t_src : option bytes; t_stored : bool }.

  Definition new_tile (x y z : Z) : tile := mkTile (x, y, z) None None false.

  (* FileCache.tile_location -> tile_location_<layout>: if tile.location is None: compute and keep it *)
  Definition t_location (t : tile) (d : dims) : tile * path :=
    match t_loc t with
    | Some p => (t, p)
    | None => let '(x, y, z) := t_coord t in
              let p := floc (mkAddr x y z d) in
              (mkTile (t_coord t) (Some p) (t_src t) (t_stored t), p)
    end.

  Inductive tcall :=
  | TLoad (d : dims)                 (* cache.load_tile(t, dimensions=d) *)
  | TCached (d : dims)               (* cache.is_cached(t, dimensions=d) *)
  | TStore (d : dims) (b : bytes)    (* t.source = <image b>; cache.store_tile(t, dimensions=d) *)
  | TRemove (d : dims)               (* cache.remove_tile(t, dimensions=d) *)
  | TStoreFail (d : dims) (b : bytes).
                                     (* t.source = <image b>; cache.store_tile(t, dimensions=d) while the first
                                        write_atomic of the call raises OSError (ENOSPC ...) *)

  (* state, tile object, return value (None for calls that return None; Some false for a store that raised) *)
  Definition tcall_step (s : fs) (t : tile) (c : tcall) : fs * tile * option bool :=
    match c with
    | TLoad d =>
      match t_src t with
      | Some _ => (s, t, Some true)                                   (* if not tile.is_missing(): return True *)
      | None => let (t1, p) := t_location t d in
                match fs_read s p with
                | Some b => (s, mkTile (t_coord t1) (t_loc t1) (Some b) (t_stored t1), Some true)
                | None => (s, t1, Some false)
                end
      end
    | TCached d =>
      match t_src t with
      | Some _ => (s, t, Some true)
      | None => let (t1, p) := t_location t d in (s, t1, Some (fs_exists s p))
      end
    | TStore d b =>
      let t0 := mkTile (t_coord t) (t_loc t) (Some b) (t_stored t) in
      if t_stored t0 then (s, t0, None)                               (* if tile.stored: return *)
      else let (t1, p) := t_location t0 d in
           (* tile.stored is set by tile_buffer, i.e. inside _store: a single-colour tile whose colour file exists
              already is only linked and keeps stored = False *)
           let wrote := match link, mono b with
                        | LNone, _ => true
                        | _, None => true
                        | _, Some c => negb (fs_exists s (sc_path ext c))
                        end in
           (fstore_at s p b, mkTile (t_coord t1) (t_loc t1) (t_src t1) wrote, None)
    | TRemove d =>
      let (t1, p) := t_location t d in (fs_del s p, t1, None)
    | TStoreFail d b =>
      let t0 := mkTile (t_coord t) (t_loc t) (Some b) (t_stored t) in
      if t_stored t0 then (s, t0, None)                               (* returns before anything is written *)
      else let (t1, p) := t_location t0 d in
           (* _store: `if os.path.islink(location): os.unlink(location)` runs before the write; the exception
              leaves tile_buffer at its yield: tile.stored stays False *)
           let failed (q : path) := ((if fs_islink s q then fs_del s q else s), t1, Some false) in
           match link, mono b with
           | LNone, _ => failed p
           | _, None => failed p
           | _, Some c =>
             if fs_exists s (sc_path ext c)
             then (fstore_at s p b, t1, None)                         (* only linked: no write_atomic call, no fault *)
             else failed (sc_path ext c)                              (* the colour file could not be written *)
           end
    end.

  (* what the harness observes after every call: return value, tile.location, content of tile.source, tile.stored *)
  Definition tobs := (option bool * option path * option bytes * bool)%type.

  Fixpoint tcall_exec (s : fs) (t : tile) (cs : list tcall) : fs * list tobs :=
    match cs with
    | [] => (s, [])
    | c :: r => let '(s1, t1, ret) := tcall_step s t c in
                let (s2, obs) := tcall_exec s1 t1 r in
                (s2, (ret, t_loc t1, t_src t1, t_stored t1) :: obs)
    end.
  Definition tcall_run (s : fs) (t : tile) (cs : list tcall) : list tobs := snd (tcall_exec s t cs).
End FileCache.
