(* C05  Operational model of mapproxy/cache/file.py (FileCache) over a file system with symbolic links.

   The file system below cache_dir is a finite map  path -> node  (a path is the list of components below
   cache_dir; directories are implicit: ensure_directory creates them and nothing in this back-end removes them).
   Nodes: a regular file with its content, or a symbolic link with its target.  A hard link is a second
   directory entry for the same inode; FileCache never modifies an inode in place (every write goes through
   write_atomic = write a temporary file, rename it over the name), so a hard link is observationally a copy
   of the content at link time and is modelled as such.

   Followed line by line: FileCache.is_cached / load_tile / remove_tile / store_tile / _store /
   _store_single_color_tile / _single_color_tile_location, TileCacheBase.load_tiles / store_tiles.
   Every operation is given fresh Tile objects (tile.source None, tile.stored False, tile.location None), which
   is how the harness drives the implementation.   No proofs here. *)
From Coq Require Import ZArith NArith List Bool String Ascii Arith.
Import ListNotations.
From MP Require Import Base Gen_path CacheMap.
Local Open Scope Z_scope.

Inductive link_mode := LNone | LSym | LHard.

Inductive node :=
| NFile (b : bytes)
| NSym (target : path).

Definition fs := list (path * node).

Fixpoint fs_get (s : fs) (p : path) : option node :=
  match s with
  | [] => None
  | (q, n) :: r => if path_eqb q p then Some n else fs_get r p
  end.

Fixpoint fs_del (s : fs) (p : path) : fs :=
  match s with
  | [] => []
  | (q, n) :: r => if path_eqb q p then fs_del r p else (q, n) :: fs_del r p
  end.

(* rename(tmp, p) / symlink / link on a free name *)
Definition fs_put (s : fs) (p : path) (n : node) : fs := (p, n) :: fs_del s p.

(* content reached from p following symbolic links (Linux gives up after 40: ELOOP) *)
Fixpoint fs_resolve (fuel : nat) (s : fs) (p : path) : option bytes :=
  match fs_get s p with
  | Some (NFile b) => Some b
  | Some (NSym t) => match fuel with O => None | S f => fs_resolve f s t end
  | None => None
  end.
Definition fs_read (s : fs) (p : path) : option bytes := fs_resolve 40 s p.

(* os.path.exists follows links; os.path.islink does not *)
Definition fs_exists (s : fs) (p : path) : bool := is_some (fs_read s p).
Definition fs_islink (s : fs) (p : path) : bool :=
  match fs_get s p with Some (NSym _) => true | _ => false end.

(* ------------------------------------------------------------------ single colour tiles *)
(* payloads are the pixel values of the tile (one number 65536 r + 256 g + b per pixel);
   is_single_color_image: the colour if there is exactly one *)
Definition mono (b : bytes) : option Z :=
  match b with
  | [] => None
  | c :: r => if forallb (Z.eqb c) r then Some c else None
  end.

(* ''.join('%02x' % v for v in color) for the (r, g, b) tuple of the colour *)
Definition color_name (c : Z) : text :=
  render_int pad_hex 2 (c / 65536) ++ render_int pad_hex 2 ((c / 256) mod 256) ++ render_int pad_hex 2 (c mod 256).

Definition sc_dir : text := s2t "single_color_tiles".
(* _single_color_tile_location *)
Definition sc_path (ext : string) (c : Z) : path := [sc_dir; color_name c ++ "."%char :: s2t ext].

Section FileCache.
  Variable layout : layout_fun.
  Variable ext : string.
  Variable link : link_mode.

  Definition floc (a : addr) : path := file_key layout ext a.

  (* _store: if os.path.islink(location): os.unlink(location); write_atomic(location, data) *)
  Definition fstore_plain (s : fs) (loc : path) (b : bytes) : fs :=
    let s1 := if fs_islink s loc then fs_del s loc else s in
    fs_put s1 loc (NFile b).

  (* _store_single_color_tile *)
  Definition fstore_mono (s : fs) (loc : path) (b : bytes) (c : Z) : fs :=
    let real := sc_path ext c in
    let s1 := if fs_exists s real then s else fstore_plain s real b in
    let s2 := if fs_exists s1 loc || fs_islink s1 loc then fs_del s1 loc else s1 in
    match link with
    | LHard =>
      (* os.link(real, loc); EEXIST is ignored *)
      match fs_get s2 loc, fs_get s2 real with
      | None, Some n => fs_put s2 loc n
      | _, _ => s2
      end
    | _ =>
      (* os.symlink(relpath(real, dirname(loc)), loc); EEXIST is ignored.  The relative target resolves to real. *)
      match fs_get s2 loc with
      | None => fs_put s2 loc (NSym real)
      | Some _ => s2
      end
    end.

  (* store_tile (tile.stored is False) *)
  Definition fstore (s : fs) (a : addr) (b : bytes) : fs :=
    match link with
    | LNone => fstore_plain s (floc a) b
    | _ => match mono b with
           | Some c => fstore_mono s (floc a) b c
           | None => fstore_plain s (floc a) b
           end
    end.

  (* load_tile: if os.path.exists(location): tile.source = ImageSource(location) (opened when read) *)
  Definition fload (s : fs) (a : addr) : option bytes := fs_read s (floc a).

  Definition file_step (s : fs) (o : op) : fs * out :=
    match o with
    | Store a b => (fstore s a b, ODone)
    | StoreMany l => (fold_left (fun s ab => fstore s (fst ab) (snd ab)) l s, ODone)
    | Load a => (s, OLoad (fload s a))
    | LoadMany l => (s, load_many_out (map (fload s) l))
    | IsCached a => (s, OCached (fs_exists s (floc a)))
    | Remove a => (fs_del s (floc a), ODone)          (* os.remove(location), ENOENT ignored *)
    end.

  Fixpoint file_run (s : fs) (ops : list op) : fs * list out :=
    match ops with
    | [] => (s, [])
    | o :: r => let (s', x) := file_step s o in let (s'', xs) := file_run s' r in (s'', x :: xs)
    end.
End FileCache.
