(* Exact-arithmetic model of mapproxy/grid.py: TileGrid (C03; used by C01, C02, C04, C11, C16).
   All coordinates and resolutions are integers in units of a common quantum (every finite set of
   doubles scales to such integers); Python's floor division / math.floor(x / y) is Z.div,
   round(x, 12) is the identity, the 1/10-pixel inset is res / 10 (exact when 10 | res).
   No proofs here. *)
From Coq Require Import ZArith List Bool.
Import ListNotations.
Local Open Scope Z_scope.

Record grid := mkGrid {
  gx0 : Z; gy0 : Z; gx1 : Z; gy1 : Z;      (* grid bbox *)
  tw : Z; th : Z;                          (* tile size in pixels *)
  ress : list Z;                           (* resolution per level, coarsest first *)
  ul : bool;                               (* origin 'ul'/'nw' (flipped_y_axis) *)
  sf_n : Z; sf_d : Z;                      (* stretch_factor = sf_n / sf_d *)
  shr_n : Z; shr_d : Z                     (* max_shrink_factor = shr_n / shr_d *)
}.

Definition levels (g : grid) : Z := Z.of_nat (length (ress g)).
Definition res_at (g : grid) (l : Z) : Z := nth (Z.to_nat l) (ress g) 0.
Definition valid_level (g : grid) (l : Z) : bool := (0 <=? l) && (l <? levels g).

(* math.ceil(a / b) for b > 0 *)
Definition cdiv (a b : Z) : Z := - ((- a) / b).

(* _calc_grids: max(ceil(width // res / tile_size), 1) *)
Definition axis_tiles (extent res t : Z) : Z := Z.max (cdiv (extent / res) t) 1.
Definition grid_size (g : grid) (l : Z) : Z * Z :=
  (axis_tiles (gx1 g - gx0 g) (res_at g l) (tw g), axis_tiles (gy1 g - gy0 g) (res_at g l) (th g)).
Definition grid_sizes (g : grid) : list (Z * Z) :=
  map (fun r => (axis_tiles (gx1 g - gx0 g) r (tw g), axis_tiles (gy1 g - gy0 g) r (th g))) (ress g).

(* TileGrid.tile *)
Definition tile (g : grid) (px py l : Z) : Z * Z :=
  let r := res_at g l in
  let x := px - gx0 g in
  let y := if ul g then gy1 g - py else py - gy0 g in
  (x / (r * tw g), y / (r * th g)).

Definition bbox := (Z * Z * Z * Z)%type.

(* TileGrid.tile_bbox *)
Definition tile_bbox (g : grid) (x y l : Z) : bbox :=
  let r := res_at g l in
  let x0 := gx0 g + x * r * tw g in
  let x1 := x0 + r * tw g in
  if ul g then
    let y1 := gy1 g - y * r * th g in
    let y0 := y1 - r * th g in (x0, y0, x1, y1)
  else
    let y0 := gy0 g + y * r * th g in
    let y1 := y0 + r * th g in (x0, y0, x1, y1).

Definition limit_bbox (g : grid) (b : bbox) : bbox :=
  let '(x0, y0, x1, y1) := b in
  (Z.max x0 (gx0 g), Z.max y0 (gy0 g), Z.min x1 (gx1 g), Z.min y1 (gy1 g)).

(* TileGrid.flip_tile_coord *)
Definition flip_tile_coord (g : grid) (x y l : Z) : Z * Z * Z :=
  (x, snd (grid_size g l) - 1 - y, l).

(* TileGrid.limit_tile for integer levels *)
Definition limit_tile (g : grid) (x y l : Z) : option (Z * Z * Z) :=
  if negb (valid_level g l) then None
  else
    let '(nx, ny) := grid_size g l in
    if (x <? 0) || (y <? 0) || (nx <=? x) || (ny <=? y) then None else Some (x, y, l).

Definition merge_bbox (a b : bbox) : bbox :=
  let '(a0, a1, a2, a3) := a in
  let '(b0, b1, b2, b3) := b in
  (Z.min a0 b0, Z.min a1 b1, Z.max a2 b2, Z.max a3 b3).

(* _tiles_bbox([(0,0,l), (nx-1, ny-1, l)]) *)
Definition level_bbox (g : grid) (l : Z) : bbox :=
  let '(nx, ny) := grid_size g l in
  merge_bbox (tile_bbox g 0 0 l) (tile_bbox g (nx - 1) (ny - 1) l).

(* supports_access_with_origin(other origin): for every level the top and bottom of the tiled area match
   the grid bbox within max(|y0|,|y1|) / 1e12 *)
Definition ten12 : Z := 1000000000000.
Definition level_aligned (g : grid) (l : Z) : bool :=
  let '(_, ly0, _, ly1) := level_bbox g l in
  let m := Z.max (Z.abs (gy0 g)) (Z.abs (gy1 g)) in
  negb ((m <? Z.abs (gy0 g - ly0) * ten12) || (m <? Z.abs (gy1 g - ly1) * ten12)).

Fixpoint all_levels_from (f : Z -> bool) (l : Z) (n : nat) : bool :=
  match n with
  | O => true
  | S n' => f l && all_levels_from f (l + 1) n'
  end.

Definition supports_access_with_origin (g : grid) (origin_ul : bool) : bool :=
  if Bool.eqb origin_ul (ul g) then true
  else all_levels_from (level_aligned g) 0 (length (ress g)).

(* origin_tile (only defined when supports_access_with_origin) *)
Definition origin_tile (g : grid) (l : Z) (origin_ul : bool) : Z * Z * Z :=
  if Bool.eqb origin_ul (ul g) then (0, 0, l) else flip_tile_coord g 0 0 l.

(* range(a, b+1) *)
Definition zrange (a b : Z) : list Z := map (fun k => a + Z.of_nat k) (seq 0 (Z.to_nat (b + 1 - a))).

(* _create_tile_list *)
Definition tile_or_none (nx ny : Z) (l x y : Z) : option (Z * Z * Z) :=
  if (x <? 0) || (y <? 0) || (nx <=? x) || (ny <=? y) then None else Some (x, y, l).
Definition create_tile_list (xs ys : list Z) (l : Z) (gs : Z * Z) : list (option (Z * Z * Z)) :=
  flat_map (fun y => map (fun x => tile_or_none (fst gs) (snd gs) l x y) xs) ys.

Inductive affected :=
| Affected (ab : bbox) (nx ny : Z) (tiles : list (option (Z * Z * Z)))
| InvalidBBOX.

(* get_affected_level_tiles + _tile_iter *)
Definition affected_level_tiles (g : grid) (b : bbox) (l : Z) : affected :=
  let '(bx0, by0, bx1, by1) := b in
  let delta := res_at g l / 10 in
  let '(tx0, ty0) := tile g (bx0 + delta) (by0 + delta) l in
  let '(tx1, ty1) := tile g (bx1 - delta) (by1 - delta) l in
  let xs := zrange tx0 tx1 in
  (* rows from the top: for 'ul' grids ascending from the smaller index, else descending *)
  let ys := if ul g then zrange ty1 ty0 else rev (zrange ty0 ty1) in
  match xs, ys with
  | [], _ | _, [] => InvalidBBOX
  | x_first :: _, y_first :: _ =>
    let x_last := last xs x_first in
    let y_last := last ys y_first in
    let ab := merge_bbox (tile_bbox g x_first y_last l) (tile_bbox g x_last y_first l) in
    Affected ab (Z.of_nat (length xs)) (Z.of_nat (length ys)) (create_tile_list xs ys l (grid_size g l))
  end.

(* closest_level without threshold_res; the requested resolution is the rational rn / rd (rd > 0) *)
Fixpoint closest_level_loop (g : grid) (rn rd : Z) (rs : list Z) (level : Z) (tr : option Z) (last : Z) : Z :=
  match rs with
  | [] => last
  | l_res :: rest =>
    match tr with
    | Some t => if l_res * rd <? rn then t
                else
                  let tr' := if l_res * rd * sf_d g <=? rn * sf_n g then Some level else tr in
                  closest_level_loop g rn rd rest (level + 1) tr' level
    | None =>
      let tr' := if l_res * rd * sf_d g <=? rn * sf_n g then Some level else None in
      closest_level_loop g rn rd rest (level + 1) tr' level
    end
  end.
Definition closest_level (g : grid) (rn rd : Z) : Z := closest_level_loop g rn rd (ress g) 0 None (-1).

(* get_resolution(bbox, size) = min(w / sx, h / sy) as a rational *)
Definition get_resolution (b : bbox) (sx sy : Z) : Z * Z :=
  let '(x0, y0, x1, y1) := b in
  let w := Z.abs (x0 - x1) in
  let h := Z.abs (y0 - y1) in
  if w * sy <=? h * sx then (w, sx) else (h, sy).

Definition bbox_intersects (a b : bbox) : bool :=
  let '(a0, a1, a2, a3) := a in
  let '(b0, b1, b2, b3) := b in
  (a0 <? b2) && (b0 <? a2) && (a1 <? b3) && (b1 <? a3).

(* get_affected_bbox_and_level for a request in the grid SRS: None = NoTiles *)
Definition affected_level (g : grid) (b : bbox) (sx sy : Z) : option Z :=
  if negb (bbox_intersects (gx0 g, gy0 g, gx1 g, gy1 g) b) then None
  else
    let '(rn, rd) := get_resolution b sx sy in
    let level := closest_level g rn rd in
    if res_at g 0 * shr_n g * rd <? rn * shr_d g then None else Some level.

(* ---- comparison helpers for the correspondence *)
Definition bbox_eqb (a b : bbox) : bool :=
  let '(a0, a1, a2, a3) := a in
  let '(b0, b1, b2, b3) := b in
  (a0 =? b0) && (a1 =? b1) && (a2 =? b2) && (a3 =? b3).

Definition bbox_close (tol : Z) (a b : bbox) : bool :=
  let '(a0, a1, a2, a3) := a in
  let '(b0, b1, b2, b3) := b in
  (Z.abs (a0 - b0) <=? tol) && (Z.abs (a1 - b1) <=? tol) && (Z.abs (a2 - b2) <=? tol) && (Z.abs (a3 - b3) <=? tol).

Definition coord_eqb (a b : Z * Z * Z) : bool :=
  let '(a0, a1, a2) := a in let '(b0, b1, b2) := b in (a0 =? b0) && (a1 =? b1) && (a2 =? b2).

Fixpoint ocoords_eqb (a b : list (option (Z * Z * Z))) : bool :=
  match a, b with
  | [], [] => true
  | Some x :: a', Some y :: b' => coord_eqb x y && ocoords_eqb a' b'
  | None :: a', None :: b' => ocoords_eqb a' b'
  | _, _ => false
  end.

Definition affected_close (tol : Z) (a b : affected) : bool :=
  match a, b with
  | InvalidBBOX, InvalidBBOX => true
  | Affected ab nx ny ts, Affected ab' nx' ny' ts' =>
    bbox_close tol ab ab' && (nx =? nx') && (ny =? ny') && ocoords_eqb ts ts'
  | _, _ => false
  end.

Definition ocoord_eqb (a b : option (Z * Z * Z)) : bool :=
  match a, b with
  | Some x, Some y => coord_eqb x y
  | None, None => true
  | _, _ => false
  end.

Definition pairs_eqb (a b : list (Z * Z)) : bool :=
  (fix go (x y : list (Z * Z)) : bool :=
     match x, y with
     | [], [] => true
     | (p, q) :: x', (r, s) :: y' => (p =? r) && (q =? s) && go x' y'
     | _, _ => false
     end) a b.

(* ---- closest_level with threshold_res.  ths_desc = self.threshold_res (sorted ascending) reversed, so that
   thresholds.pop() is the head of the list; the requested resolution is rn / rd. *)
(* while threshold > prev_l_res and thresholds: threshold = thresholds.pop() *)
Fixpoint thr_skip (r0 t : Z) (rest : list Z) : Z * list Z :=
  match rest with
  | [] => (t, [])
  | t' :: rest' => if r0 <? t then thr_skip r0 t' rest' else (t, rest)
  end.
Definition thr_init (r0 : Z) (ths_desc : list Z) : option Z * list Z :=
  match ths_desc with
  | [] => (None, [])
  | t :: rest => let '(t', rest') := thr_skip r0 t rest in (Some t', rest')
  end.
Fixpoint closest_thr_loop (g : grid) (rn rd : Z) (rs : list Z) (level prev : Z) (th : option Z) (ths : list Z)
         (tr : option Z) (last : Z) : Z :=
  match rs with
  | [] => last
  | l_res :: rest =>
    (* if threshold and prev_l_res > threshold >= l_res *)
    let hit := match th with Some t => negb (t =? 0) && (t <? prev) && (l_res <=? t) | None => false end in
    let early := match th with
                 | Some t => if hit then (if t * rd <? rn then Some (level - 1)
                                          else if l_res * rd <=? rn then Some level else None)
                             else None
                 | None => None
                 end in
    match early with
    | Some k => k
    | None =>
      let '(th', ths') := if hit then match ths with [] => (None, []) | t' :: r' => (Some t', r') end else (th, ths) in
      let stop := match tr with Some _ => l_res * rd <? rn | None => false end in
      if stop then match tr with Some t => t | None => last end
      else
        let tr' := if l_res * rd * sf_d g <=? rn * sf_n g then Some level else tr in
        closest_thr_loop g rn rd rest (level + 1) l_res th' ths' tr' level
    end
  end.
Definition closest_level_thr (g : grid) (ths_asc : list Z) (rn rd : Z) : Z :=
  let '(th, ths) := thr_init (res_at g 0) (rev ths_asc) in
  closest_thr_loop g rn rd (ress g) 0 (res_at g 0) th ths None (-1).

(* ---- requests in another SRS than the grid: get_affected_bbox_and_level(bbox, size, req_srs) computes
   src_bbox = calculate_bbox(T(generate_envelope_points(bbox, 16))) where T is the PROJ transformation (external:
   the model takes the list of transformed points) *)
(* mapproxy.srs.calculate_bbox for finite points (x, y) :: rest *)
Fixpoint bbox_of_points (x y : Z) (rest : list (Z * Z)) : bbox :=
  match rest with
  | [] => (x, y, x, y)
  | (px, py) :: r => let '(a, b, c, d) := bbox_of_points x y r in (Z.min a px, Z.min b py, Z.max c px, Z.max d py)
  end.
Definition calculate_bbox (pts : list (Z * Z)) : option bbox :=
  match pts with
  | [] => None                                  (* TransformationError *)
  | (x, y) :: rest => Some (bbox_of_points x y rest)
  end.
(* mapproxy.srs.generate_envelope_points(bbox, n): number of steps per edge *)
Definition env_steps (n : Z) : Z := (if n <=? 4 then 0 else cdiv (n - 4) 4) + 1.
(* i * (width / steps) is modelled exactly as (i * width) / steps (the correspondence uses widths divisible by steps) *)
Definition envelope_points (b : bbox) (n : Z) : list (Z * Z) :=
  let '(x0, y0, x1, y1) := b in
  let k := env_steps n in
  let w := x1 - x0 in
  let h := y1 - y0 in
  let minx := Z.min x0 x1 in let maxx := Z.max x0 x1 in
  let miny := Z.min y0 y1 in let maxy := Z.max y0 y1 in
  map (fun i => (minx + i * w / k, miny)) (zrange 0 k) ++
  map (fun i => (maxx, miny + i * h / k)) (zrange 1 (k - 1)) ++
  map (fun i => (minx + i * w / k, maxy)) (rev (zrange 0 k)) ++
  map (fun i => (minx, miny + i * h / k)) (rev (zrange 1 (k - 1))).
(* get_affected_bbox_and_level with req_srs <> grid srs; tpts = the transformed envelope points.
   None = NoTiles (or TransformationError for an empty point list) *)
Definition affected_level_foreign (g : grid) (tpts : list (Z * Z)) (sx sy : Z) : option (bbox * Z) :=
  match calculate_bbox tpts with
  | None => None
  | Some b => match affected_level g b sx sy with Some l => Some (b, l) | None => None end
  end.

(* ---- MetaGrid.get_affected_level_tiles (the rectangle -> meta tiles function of the seeding / cleanup walker);
   msx, msy = MetaGrid.meta_size *)
(* MetaGrid._meta_size *)
Definition meta_size_at (g : grid) (msx msy l : Z) : Z * Z :=
  let '(nx, ny) := grid_size g l in (Z.min msx nx, Z.min msy ny).
(* list(range(a, b+1, s)) for s > 0 *)
Definition zrange_step (a b s : Z) : list Z := map (fun k => a + s * Z.of_nat k) (seq 0 (Z.to_nat ((b - a) / s + 1))).
(* list(range(b, a-1, -s)) for s > 0 *)
Definition zrange_step_down (a b s : Z) : list Z := map (fun k => b - s * Z.of_nat k) (seq 0 (Z.to_nat ((b - a) / s + 1))).
(* 1/10 pixel inset of one axis; a range thinner than 2/10 pixel is replaced by its centre
   ((lo + hi) / 2.0 is exact when lo + hi is even: the correspondence uses such values) *)
Definition thin_range (lo hi delta : Z) : Z * Z :=
  if hi - delta <? lo + delta then ((lo + hi) / 2, (lo + hi) / 2) else (lo + delta, hi - delta).
Definition meta_affected_level_tiles (g : grid) (msx msy : Z) (b : bbox) (l : Z) : affected :=
  let '(bx0, by0, bx1, by1) := b in
  let delta := res_at g l / 10 in
  let '(minx, maxx) := thin_range bx0 bx1 delta in
  let '(miny, maxy) := thin_range by0 by1 delta in
  let '(tx0, ty0) := tile g minx miny l in
  let '(tx1, ty1) := tile g maxx maxy l in
  let '(mx, my) := meta_size_at g msx msy l in
  let x0 := tx0 / mx * mx in let x1 := tx1 / mx * mx in
  let y0 := ty0 / my * my in let y1 := ty1 / my * my in
  let xs := zrange_step x0 x1 mx in
  let ys := if ul g then zrange_step y1 y0 my else zrange_step_down y0 y1 my in
  match xs, ys with
  | [], _ | _, [] => InvalidBBOX
  | x_first :: _, y_first :: _ =>
    let x_last := last xs x_first in
    let y_last := last ys y_first in
    let ab := merge_bbox (tile_bbox g x_first y_last l) (tile_bbox g (x_last + mx - 1) (y_first + my - 1) l) in
    Affected ab (Z.of_nat (length xs)) (Z.of_nat (length ys)) (create_tile_list xs ys l (grid_size g l))
  end.

(* ---- grids built from the configuration (config/loader.py GridConfiguration.tile_grid) *)
(* GlobalConfiguration.get_value(key, local, global_key): the grid's own option, else the option under globals, else the
   built-in default *)
Definition conf_value {A : Type} (loc glob : option A) (dflt : A) : A :=
  match loc with Some v => v | None => match glob with Some v => v | None => dflt end end.
(* `base`: conf = base.conf.copy(); conf.update(self.conf) *)
Definition conf_inherit {A : Type} (own base : option A) : option A :=
  match own with Some v => Some v | None => base end.
(* the double 1.15 (default image.stretch_factor) as a rational; default image.max_shrink_factor 4.0; grid.tile_size 256 *)
Definition default_stretch : Z * Z := (5179139571476071, 4503599627370496).
Definition default_shrink : Z * Z := (4, 1).
Definition default_tile_size : Z * Z := (256, 256).
(* stretch_factor = get_value('stretch_factor', conf, global_key='image.stretch_factor'), the same for
   max_shrink_factor ('image.max_shrink_factor') and tile_size ('grid.tile_size'); g0 carries bbox, res, origin *)
Definition configured_grid (g0 : grid) (sf_loc sf_glob shr_loc shr_glob ts_loc ts_glob : option (Z * Z)) : grid :=
  let sf := conf_value sf_loc sf_glob default_stretch in
  let shr := conf_value shr_loc shr_glob default_shrink in
  let ts := conf_value ts_loc ts_glob default_tile_size in
  mkGrid (gx0 g0) (gy0 g0) (gx1 g0) (gy1 g0) (fst ts) (snd ts) (ress g0) (ul g0) (fst sf) (snd sf) (fst shr) (snd shr).
