(* C05  The byte-level compact cache (C19's Bundle.v) answers every history like the abstract map. *)
From Coq Require Import ZArith List Bool Lia.
Import ListNotations.
From MP Require Import Base Bytes Gen_compact Gen_compact_fmt CacheMap CacheMap_proofs Bundle Bundle_proofs CompactBytes CacheBackends.
Local Open Scope Z_scope.

(* bundle key and slot determine the coordinate *)
Lemma key_slot_inj : forall x y z x' y' z',
  key_of x y z = key_of x' y' z' -> slot_of x y = slot_of x' y' -> (x, y, z) = (x', y', z').
Proof.
  intros x y z x' y' z'. unfold key_of, bundle_offset, slot_of, v2_rel_tile_coord,
    BUNDLEX_V1_GRID_WIDTH, BUNDLEX_V1_GRID_HEIGHT, BUNDLE_V2_GRID_WIDTH, BUNDLE_V2_GRID_HEIGHT.
  cbv beta iota zeta. intros K S. injection K as Kz Kx Ky. injection S as Sx Sy. subst z'.
  pose proof (Z.div_mod x 128 ltac:(lia)). pose proof (Z.div_mod y 128 ltac:(lia)).
  pose proof (Z.div_mod x' 128 ltac:(lia)). pose proof (Z.div_mod y' 128 ltac:(lia)).
  assert (x = x') by lia. assert (y = y') by lia. subst. reflexivity.
Qed.

(* payload bytes of the stores of a history *)
Definition store_list (o : op) : list (addr * bytes) :=
  match o with Store a b => [(a, b)] | StoreMany l => l | _ => [] end.
Definition op_bytes5 (o : op) : Z := fold_right (fun ab acc => 4 + zlen (snd ab) + acc) 0 (store_list o).
Definition ops_bytes5 (ops : list op) : Z := fold_right (fun o acc => op_bytes5 o + acc) 0 ops.

Definition sum5 (l : list (addr * bytes)) : Z := fold_right (fun ab acc => 4 + zlen (snd ab) + acc) 0 l.
Lemma sum5_nonneg : forall l, 0 <= sum5 l.
Proof.
  induction l as [|x l IH]; unfold sum5 in *; cbn [fold_right]; [lia|].
  match goal with |- 0 <= 4 + ?z + ?r => assert (0 <= z) by apply zlen_nonneg; lia end.
Qed.
Lemma op_bytes5_nonneg : forall o, 0 <= op_bytes5 o.
Proof. intros o. apply (sum5_nonneg (store_list o)). Qed.
Lemma ops_bytes5_nonneg : forall ops, 0 <= ops_bytes5 ops.
Proof.
  induction ops as [|x r IH]; unfold ops_bytes5 in *; cbn [fold_right]; [lia|]. pose proof (op_bytes5_nonneg x). lia.
Qed.

Section Refine.
  Variable St : Type.
  Variable load : St -> slot -> rres.
  Variable store1 : St -> slot -> list Z -> option St.
  Variable remove1 : St -> slot -> St.
  Variable fresh : bkey -> St.
  Variable cached : St -> slot -> option bool.
  Variable Inv : St -> Prop.
  Variable dlen : St -> Z.
  Variable base maxlen : Z.
  Variable d0 : dims.

  Hypothesis HS : forall st s d, Inv st -> slot_ok s -> bytes_okl d -> zlen d < maxlen -> dlen st + 4 + zlen d < two40 ->
    exists st', store1 st s d = Some st' /\ Inv st' /\ dlen st' = dlen st + 4 + zlen d /\
      load st' s = (if zlen d =? 0 then RMissing else RData d) /\
      forall s', slot_ok s' -> s' <> s -> load st' s' = load st s'.
  Hypothesis HR : forall st s, Inv st -> slot_ok s ->
    Inv (remove1 st s) /\ dlen (remove1 st s) = dlen st /\ load (remove1 st s) s = RMissing /\
    forall s', slot_ok s' -> s' <> s -> load (remove1 st s) s' = load st s'.
  Hypothesis HF : forall k, Inv (fresh k) /\ dlen (fresh k) = base.
  Hypothesis HFL : forall k s, slot_ok s -> load (fresh k) s = RMissing.
  Hypothesis HC : forall st s, Inv st -> slot_ok s ->
    cached st s = match load st s with RError => None | RMissing => Some false | RData _ => Some true end.

  Notation cache := (list (bkey * St)).
  Notation cok := (@cache_ok St Inv dlen).
  Notation cload := (c_load St load).
  Notation kof a := (key_of (ax a) (ay a) (az a)).
  Notation sof a := (slot_of (ax a) (ay a)).

  Definition V (a : addr) : Prop := adims a = d0.
  (* a stored tile: byte values, not empty, a size the format can hold *)
  Definition tile_good (b : bytes) : Prop := bytes_okl b /\ 0 < zlen b < maxlen.
  Definition op_good (o : op) : Prop := CacheMap_proofs.op_ok V o /\ Forall tile_good (map snd (store_list o)).

  Definition mres (v : option bytes) : rres := match v with Some d => RData d | None => RMissing end.
  Definition crel (c : cache) (m : smap) : Prop := forall a, V a -> cload c (xyz a) = mres (m a).

  Lemma cok_mono : forall b b' c, b <= b' -> cok b c -> cok b' c.
  Proof. intros b b' c Hb [Hn H]. split; [exact Hn|]. intros k st Hin. destruct (H k st Hin). split; [assumption | lia]. Qed.

  Lemma cload_unfold : forall c a, cload c (xyz a) = match c_find c (kof a) with None => RMissing | Some st => load st (sof a) end.
  Proof. intros c [x y z d]. reflexivity. Qed.

  Lemma addr_eq_of : forall a a', V a -> V a' -> kof a = kof a' -> sof a = sof a' -> a = a'.
  Proof.
    intros [x y z d] [x' y' z' d'] Ha Ha' K S. unfold V in *. cbn [ax ay az adims] in *.
    pose proof (key_slot_inj _ _ _ _ _ _ K S) as E. injection E as -> -> ->. subst. reflexivity.
  Qed.

  (* loading from a bundle that may not exist yet *)
  Lemma load_get : forall c k s, slot_ok s ->
    load (c_get St fresh c k) s = match c_find c k with None => RMissing | Some st => load st s end.
  Proof. intros c k s Hs. unfold c_get. destruct (c_find c k); [reflexivity | apply HFL; exact Hs]. Qed.

  Lemma store_one : forall c m b a d, base <= b -> cok b c -> crel c m -> V a -> tile_good d -> b + 4 + zlen d < two40 ->
    exists st', store1 (c_get St fresh c (kof a)) (sof a) d = Some st' /\
      cok (b + 4 + zlen d) (c_set c (kof a) st') /\ crel (c_set c (kof a) st') (supd m a (Some d)).
  Proof.
    intros c m b a d Hb Hc Hr Va [Hd [Hz Hm]] Hg.
    destruct (c_get_ok St fresh Inv dlen base HF b c (kof a) Hb Hc) as [HI Hl].
    destruct (HS _ (sof a) d HI (slot_of_ok _ _) Hd Hm) as [st' [E [HI' [Hl' [Hsame Hother]]]]]; [lia|].
    exists st'. split; [exact E|]. split.
    - apply cache_ok_set; [apply (cok_mono b); [lia | exact Hc] | exact HI' | lia].
    - intros a' Va'. rewrite cload_unfold. unfold supd. destruct (addr_eqb a' a) eqn:Q.
      + apply addr_eqb_eq in Q. subst a'. rewrite c_find_set_same, Hsame.
        destruct (Z.eqb_spec (zlen d) 0); [lia | reflexivity].
      + assert (N : a' <> a) by (intros ->; rewrite addr_eqb_refl in Q; discriminate).
        destruct (bkey_eqb (kof a') (kof a)) eqn:K.
        * apply bkey_eqb_eq in K. rewrite K, c_find_set_same.
          assert (Sn : sof a' <> sof a) by (intros S; apply N; apply addr_eq_of; assumption).
          rewrite (Hother _ (slot_of_ok _ _) Sn), load_get by apply slot_of_ok.
          rewrite <- K, <- cload_unfold. apply Hr. exact Va'.
        * apply bkey_eqb_neq in K. rewrite c_find_set_other by exact K. rewrite <- cload_unfold. apply Hr. exact Va'.
  Qed.

  Lemma store_many : forall (l : list (addr * bytes)) c m b,
    base <= b -> cok b c -> crel c m -> Forall V (map fst l) -> Forall tile_good (map snd l) ->
    b + fold_right (fun ab acc => 4 + zlen (snd ab) + acc) 0 l < two40 ->
    exists c', c_store_tiles St store1 fresh c (map (fun ab => (xyz (fst ab), snd ab)) l) = Some c' /\
      cok (b + fold_right (fun ab acc => 4 + zlen (snd ab) + acc) 0 l) c' /\
      crel c' (fold_left (fun m ab => supd m (fst ab) (Some (snd ab))) l m).
  Proof.
    induction l as [|[a d] l IH]; intros c m b Hb Hc Hr Hv Hp Hg.
    - exists c. cbn [map c_store_tiles fold_right fold_left]. rewrite Z.add_0_r. split; [reflexivity | split; assumption].
    - cbn [map fst snd fold_right fold_left] in *. inversion Hv; inversion Hp; subst.
      set (rest := fold_right (fun ab acc => 4 + zlen (snd ab) + acc) 0 l) in *.
      assert (Rn : 0 <= rest) by apply (sum5_nonneg l).
      pose proof (zlen_nonneg d).
      destruct (store_one c m b a d Hb Hc Hr) as [st' [E [Hc' Hr']]]; try assumption; [lia|].
      destruct a as [x y z dd]. cbn [xyz ax ay az c_store_tiles] in *. rewrite E.
      destruct (IH (c_set c (key_of x y z) st') (supd m (mkAddr x y z dd) (Some d)) (b + 4 + zlen d)) as [c' [E' [Hc'' Hr'']]];
        try assumption; [lia | lia |].
      exists c'. split; [exact E'|]. split; [|exact Hr'']. apply (cok_mono (b + 4 + zlen d + rest)); [lia | exact Hc''].
  Qed.

  Lemma remove_one : forall c m b a, base <= b -> cok b c -> crel c m -> V a ->
    cok b (c_remove St remove1 fresh c (xyz a)) /\ crel (c_remove St remove1 fresh c (xyz a)) (supd m a None).
  Proof.
    intros c m b a Hb Hc Hr Va.
    destruct (c_get_ok St fresh Inv dlen base HF b c (kof a) Hb Hc) as [HI Hl].
    destruct (HR _ (sof a) HI (slot_of_ok _ _)) as [HI' [Hl' [Hsame Hother]]].
    assert (U : c_remove St remove1 fresh c (xyz a) = c_set c (kof a) (remove1 (c_get St fresh c (kof a)) (sof a)))
      by (destruct a; reflexivity).
    rewrite U. split.
    - apply cache_ok_set; [exact Hc | exact HI' | lia].
    - intros a' Va'. rewrite cload_unfold. unfold supd. destruct (addr_eqb a' a) eqn:Q.
      + apply addr_eqb_eq in Q. subst a'. rewrite c_find_set_same, Hsame. reflexivity.
      + assert (N : a' <> a) by (intros ->; rewrite addr_eqb_refl in Q; discriminate).
        destruct (bkey_eqb (kof a') (kof a)) eqn:K.
        * apply bkey_eqb_eq in K. rewrite K, c_find_set_same.
          assert (Sn : sof a' <> sof a) by (intros S; apply N; apply addr_eq_of; assumption).
          rewrite (Hother _ (slot_of_ok _ _) Sn), load_get by apply slot_of_ok.
          rewrite <- K, <- cload_unfold. apply Hr. exact Va'.
        * apply bkey_eqb_neq in K. rewrite c_find_set_other by exact K. rewrite <- cload_unfold. apply Hr. exact Va'.
  Qed.

  Lemma mres_out : forall v, rres_out (mres v) = OLoad v.
  Proof. intros [d|]; reflexivity. Qed.

  Theorem cb_run_refines : forall ops c m b, base <= b -> cok b c -> crel c m ->
    Forall op_good ops -> b + ops_bytes5 ops < two40 ->
    cb_run St load store1 remove1 fresh cached c ops = snd (spec_run m ops).
  Proof.
    induction ops as [|o r IH]; intros c m b Hb Hc Hr Hok Hg; [reflexivity|].
    inversion Hok as [|? ? [Ho Hp] Hrest]; subst. unfold CacheMap_proofs.op_ok in Ho.
    cbn [ops_bytes5 fold_right] in Hg. fold (ops_bytes5 r) in Hg.
    assert (Rn : 0 <= ops_bytes5 r) by apply ops_bytes5_nonneg.
    cbn [cb_run spec_run]. destruct o as [a d|l|a|l|a|a]; cbn [spec_step op_addrs store_list map snd op_bytes5 fold_right] in *.
    - pose proof (zlen_nonneg d) as Zd.
      destruct (store_many [(a, d)] c m b Hb Hc Hr Ho Hp) as [c' [E [Hc' Hr']]]; [cbn [fold_right snd]; lia|].
      cbn [map fst snd fold_right fold_left] in *. rewrite E.
      destruct (spec_run (supd m a (Some d)) r) as [m' xs] eqn:R. cbn [snd]. f_equal.
      rewrite (IH c' (supd m a (Some d)) (b + (4 + zlen d + 0))); try assumption; [rewrite R; reflexivity | lia | lia].
    - set (tot := fold_right (fun ab acc => 4 + zlen (snd ab) + acc) 0 l) in *.
      assert (Tn : 0 <= tot) by apply (sum5_nonneg l).
      destruct (store_many l c m b Hb Hc Hr Ho Hp) as [c' [E [Hc' Hr']]]; [fold tot; lia|]. rewrite E.
      set (m1 := fold_left (fun m ab => supd m (fst ab) (Some (snd ab))) l m) in *.
      destruct (spec_run m1 r) as [m' xs] eqn:R. cbn [snd]. f_equal.
      rewrite (IH c' m1 (b + tot)); try assumption; [rewrite R; reflexivity | lia | lia].
    - inversion Ho; subst. rewrite (Hr a) by assumption. rewrite mres_out.
      destruct (spec_run m r) as [m' xs] eqn:R. cbn [snd]. f_equal.
      rewrite (IH c m b Hb Hc Hr Hrest); [rewrite R; reflexivity | lia].
    - destruct (spec_run m r) as [m' xs] eqn:R. cbn [snd]. f_equal.
      + unfold cb_load_many.
        assert (E : map (fun a => cload c (xyz a)) l = map (fun a => mres (m a)) l).
        { apply map_ext_in. intros a Ha. apply Hr. rewrite Forall_forall in Ho. apply Ho. exact Ha. }
        rewrite E.
        assert (N : existsb rres_err (map (fun a => mres (m a)) l) = false).
        { clear. induction l as [|a l IHl]; [reflexivity|]. cbn [map existsb]. rewrite IHl. destruct (m a); reflexivity. }
        rewrite N. f_equal. rewrite map_map. apply map_ext. intros a. destruct (m a); reflexivity.
      + rewrite (IH c m b Hb Hc Hr Hrest); [rewrite R; reflexivity | lia].
    - inversion Ho; subst. destruct (spec_run m r) as [m' xs] eqn:R. cbn [snd]. f_equal.
      + unfold cb_cached. pose proof (Hr a ltac:(assumption)) as L. rewrite cload_unfold in L.
        destruct (c_find c (kof a)) as [st|] eqn:F.
        * assert (HI : Inv st) by (destruct Hc as [_ Hc]; apply (Hc (kof a)); apply c_find_in; exact F).
          rewrite (HC st _ HI (slot_of_ok _ _)), L. destruct (m a); reflexivity.
        * destruct (m a); [discriminate | reflexivity].
      + rewrite (IH c m b Hb Hc Hr Hrest); [rewrite R; reflexivity | lia].
    - inversion Ho; subst. destruct (remove_one c m b a Hb Hc Hr) as [Hc' Hr']; [assumption|].
      destruct (spec_run (supd m a None) r) as [m' xs] eqn:R. cbn [snd]. f_equal.
      rewrite (IH _ (supd m a None) b Hb Hc' Hr' Hrest); [rewrite R; reflexivity | lia].
  Qed.
End Refine.

(* ---------------------------------------------------------------- compact v2 *)
Lemma v2_cached_load : forall f s,
  v2_is_cached f s = match v2_load f s with RError => None | RMissing => Some false | RData _ => Some true end.
Proof.
  intros f s. unfold v2_is_cached, v2_load. destruct (v2_tile_offset_size f s) as [[o sz]|]; [|reflexivity].
  destruct (sz =? 0); reflexivity.
Qed.

Lemma v2_init_load : forall s, slot_ok s -> v2_load v2_init s = RMissing.
Proof.
  intros s Hs. rewrite v2_load_rec by (apply v2_inv_init || exact Hs).
  destruct v2_fresh_facts as [_ [_ H]]. rewrite (H s Hs). reflexivity.
Qed.

Theorem v2_bytes_refine : forall d0 ops,
  Forall (op_good two24 d0) ops -> B2 + ops_bytes5 ops < two40 ->
  v2_bytes_outs ops = spec_outs ops.
Proof.
  intros d0 ops Hok Hg. unfold v2_bytes_outs, spec_outs.
  apply (cb_run_refines bfile v2_load v2_store1 v2_remove1 (fun _ => v2_init) v2_is_cached v2_Inv blen B2 two24 d0
           v2_inv_store v2_inv_remove (fun _ => conj v2_inv_init (eq_refl B2)) (fun _ => v2_init_load)
           (fun f s _ _ => v2_cached_load f s) ops [] sempty B2); try assumption; try lia.
  - split; [constructor | intros k st []].
  - intros a _. destruct a. reflexivity.
Qed.

(* non-vacuity *)
Example v2_bytes_example :
  let ops := [Store (A 127 127 1 []) [9; 9]; Store (A 128 127 1 []) [7]; Remove (A 128 127 1 []);
              LoadMany [A 127 127 1 []; A 128 127 1 []]; IsCached (A 127 127 1 [])] in
  Forall (op_good two24 []) ops /\ B2 + ops_bytes5 ops < two40 /\
  v2_bytes_outs ops = [ODone; ODone; ODone; OLoadMany false [Some [9; 9]; None]; OCached true].
Proof.
  split; [|split; [vm_compute; reflexivity | vm_compute; reflexivity]].
  unfold op_good, CacheMap_proofs.op_ok, V, tile_good, bytes_okl, two24. repeat constructor; cbn; lia.
Qed.

(* ---------------------------------------------------------------- compact v1 *)
Lemma v1_cached_rec st s : v1_Inv st -> slot_ok s ->
  v1_is_cached st s = Some (match v1_rec st s with Some _ => true | None => false end).
Proof.
  intros [_ [Hbi [Hbd [Hli [Hent _]]]]] Hs. destruct st as [idx dat]. cbn [fst snd] in *.
  destruct (v1_ioff_range s Hs) as [I1 I2].
  unfold v1_is_cached, v1_tile_offset, v1_entry_bytes. rewrite brdnum_some by (rewrite Hli; unfold X1; change (Z.of_nat 5) with 5; lia).
  unfold v1_rec. cbn [fst snd]. specialize (Hent s Hs). cbv zeta in Hent.
  set (off := brd idx (v1_ioff s) 5) in *.
  destruct (off =? 0) eqn:E0; [reflexivity|]. destruct Hent as [?|[H60 Hin]]; [lia|].
  pose proof (brd_bound dat off 4 Hbd) as Hn. rewrite pow4 in Hn.
  rewrite brdnum_some by (change (Z.of_nat 4) with 4; lia).
  destruct (brd dat off 4 =? 0); reflexivity.
Qed.

Lemma v1_cached_load st s : v1_Inv st -> slot_ok s ->
  v1_is_cached st s = match v1_load st s with RError => None | RMissing => Some false | RData _ => Some true end.
Proof.
  intros HI Hs. rewrite v1_cached_rec, v1_load_rec by assumption. destruct (v1_rec st s) as [[a d]|]; reflexivity.
Qed.

Lemma v1_fresh_load : forall k s, slot_ok s -> v1_load (v1_fresh k) s = RMissing.
Proof.
  intros [[z c] r] s Hs. cbn [v1_fresh]. rewrite v1_load_rec by (apply v1_inv_init || exact Hs).
  destruct (v1_fresh_facts c r) as [_ [_ H]]. rewrite (H s Hs). reflexivity.
Qed.

Theorem v1_bytes_refine : forall d0 ops,
  Forall (op_good two32 d0) ops -> B1 + ops_bytes5 ops < two40 ->
  v1_bytes_outs ops = spec_outs ops.
Proof.
  intros d0 ops Hok Hg. unfold v1_bytes_outs, spec_outs.
  apply (cb_run_refines v1st v1_load v1_store1 v1_remove1 v1_fresh v1_is_cached v1_Inv v1_dlen B1 two32 d0
           v1_inv_store v1_inv_remove v1_fresh_ok v1_fresh_load v1_cached_load ops [] sempty B1); try assumption; try lia.
  - split; [constructor | intros k st []].
  - intros a _. destruct a. reflexivity.
Qed.

Example v1_bytes_example :
  v1_bytes_outs [Store (A 127 127 1 []) [9; 9]; Store (A 128 127 1 []) [7]; Remove (A 128 127 1 []);
                 LoadMany [A 127 127 1 []; A 128 127 1 []]; IsCached (A 127 127 1 [])]
  = [ODone; ODone; ODone; OLoadMany false [Some [9; 9]; None]; OCached true].
Proof. vm_compute. reflexivity. Qed.
