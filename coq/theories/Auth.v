(* Model of the authorization decision logic and of clipping (C10):
     mapproxy/service/wms.py    WMSServer.map / featureinfo (layer selection, authorized_layers,
                                filter_actual_layers, coverage gates), WMSLayer / WMSGroupLayer
     mapproxy/layer.py          LimitedLayer (coverage attribute, get_info gate)
     mapproxy/service/tile.py   TileServer.authorize_tile_layer, TileLayer.render
     mapproxy/util/coverage.py  load_limited_to_all (the geometries that apply; their intersection is abstract)
     mapproxy/service/wmts.py   WMTSServer.authorize_tile_layer, featureinfo
     mapproxy/service/kml.py    KMLServer.authorize_tile_layer
     mapproxy/image/merge.py    LayerMerger.merge, read pixel by pixel (every Pillow operator used there is
                                pointwise): per-layer clip, opacity, the three paste paths, global clip (as of the fix commits
                                2542798 and 6ce6a1c of /repo), the
                                single-layer shortcut
     mapproxy/image/mask.py     mask_image, mask_image_source_from_coverage; the rasterised mask
                                (image_mask_from_geom) is an input: one bit per pixel, true = outside
   Geometry is abstract: a limited_to geometry is an identifier (Z); what the code asks of it
   (coverage.contains(point), contains(tile bbox), intersects(tile bbox), the rasterised mask) are inputs.
   Pillow operators are the integer formulas validated bit for bit by the correspondence check.
   No proofs here: the model must stay executable when a proof breaks. *)
From Coq Require Import ZArith List Bool.
Import ListNotations.
From MP Require Import Base.
Local Open Scope Z_scope.

(* ================================================================== callback result *)

(* result['authorized'] *)
Inductive akind := A_full | A_partial | A_none | A_unauth | A_other.

(* value of a feature key of a layer entry: absent, False, the object True, or a value that is truthy but
   is not True (1, 'yes'): the services test `... is True` *)
Inductive fval := F_missing | F_false | F_true | F_truthy.

Definition is_True (f : fval) : bool := match f with F_true => true | _ => false end.

(* result['layers'][name]: {'map':.., 'featureinfo':.., 'tile':.., 'limited_to': geometry id} *)
Record perm := mk_perm { p_map : fval; p_fi : fval; p_tile : fval; p_lim : option Z }.

(* the dictionary returned by the callback; r_layers is a dict (keys unique, first match = lookup) *)
Record cbres := mk_cbres { r_kind : akind; r_layers : list (Z * perm); r_lim : option Z }.

Inductive feat := Ft_map | Ft_fi | Ft_tile.

Definition flag (f : feat) (p : perm) : fval :=
  match f with Ft_map => p_map p | Ft_fi => p_fi p | Ft_tile => p_tile p end.

Fixpoint assoc {A} (k : Z) (l : list (Z * A)) : option A :=
  match l with
  | [] => None
  | (k', v) :: r => if k' =? k then Some v else assoc k r
  end.

Definition mem (k : Z) (l : list Z) : bool := existsb (Z.eqb k) l.

(* what the callback says about one layer name, as the property reads it:
   the layer may be used for feature f *)
Definition permitted (f : feat) (r : cbres) (n : Z) : bool :=
  match r_kind r with
  | A_full => true
  | A_partial => match assoc n (r_layers r) with Some p => is_True (flag f p) | None => false end
  | _ => false
  end.

(* ================================================================== WMS: authorized_layers / filter_actual_layers *)

(* WMSServer.authorized_layers: 401 | PERMIT_ALL_LAYERS | (dict name -> limited_to, global coverage).
   cb = None: no 'mapproxy.authorize' in the environ. *)
Inductive authz := AZ_401 | AZ_all | AZ_some (layers : list (Z * option Z)) (cov : option Z).

Definition authorized_layers (f : feat) (cb : option cbres) : authz :=
  match cb with
  | None => AZ_all
  | Some r =>
    match r_kind r with
    | A_unauth => AZ_401
    | A_full => AZ_all
    | A_partial =>
      AZ_some (flat_map (fun np => if is_True (flag f (snd np)) then [(fst np, p_lim (snd np))] else [])
                        (r_layers r))
              (r_lim r)
    | _ => AZ_some [] (r_lim r)
    end
  end.

(* WMSServer.filter_actual_layers on the ordered dict actual_layers (name -> sources):
   None = RequestError('forbidden', status=403); otherwise every kept entry carries the limited_to of
   its LimitedLayer wrappers (None = not wrapped) *)
Fixpoint filter_actual {S} (auth : list (Z * option Z)) (requested : list Z) (actual : list (Z * list S))
  : option (list (Z * option Z * list S)) :=
  match actual with
  | [] => Some []
  | (n, srcs) :: rest =>
    match assoc n auth with
    | None => if mem n requested then None else filter_actual auth requested rest
    | Some lim =>
      match filter_actual auth requested rest with
      | None => None
      | Some r => Some ((n, lim, srcs) :: r)
      end
    end
  end.

(* ================================================================== WMS layer tree *)

(* sources are identifiers (Z); a leaf has map sources and info sources; `opq` is
   any(x.is_opaque(query) for x in map_layers) for the query at hand *)
Inductive wlayer :=
| WLeaf (name : Z) (opq : bool) (maps : list Z) (infos : list Z)
| WGroup (name : Z) (this : option (bool * list Z * list Z)) (children : list wlayer).

Definition leaf_entry (n : Z) (l : list Z) : list (Z * list Z) :=
  match l with [] => [] | _ => [(n, l)] end.

Fixpoint w_is_opaque (w : wlayer) : bool :=
  match w with
  | WLeaf _ o _ _ => o
  | WGroup _ (Some (o, _, _)) _ => o
  | WGroup _ None ch => existsb w_is_opaque ch
  end.

Fixpoint w_map_layers (w : wlayer) : list (Z * list Z) :=
  match w with
  | WLeaf n _ maps _ => leaf_entry n maps
  | WGroup n (Some (_, maps, _)) _ => leaf_entry n maps
  | WGroup _ None ch => flat_map w_map_layers ch
  end.

Fixpoint w_info_layers (w : wlayer) : list (Z * list Z) :=
  match w with
  | WLeaf n _ _ infos => leaf_entry n infos
  | WGroup n (Some (_, _, infos)) _ => leaf_entry n infos
  | WGroup _ None ch => flat_map w_info_layers ch
  end.

Definition nonempty {A} (l : list A) : bool := match l with [] => false | _ => true end.

Fixpoint w_queryable (w : wlayer) : bool :=
  match w with
  | WLeaf _ _ _ infos => nonempty infos
  | WGroup _ this ch =>
    (match this with Some (_, _, infos) => nonempty infos | None => false end) || existsb w_queryable ch
  end.

(* child_layers: every named layer of the tree *)
Fixpoint child_layers (w : wlayer) : list (Z * wlayer) :=
  match w with
  | WLeaf n _ _ _ => [(n, w)]
  | WGroup n _ ch => (n, w) :: flat_map child_layers ch
  end.

(* WMSServer.layers for a root without name whose children are `tree` *)
Definition server_layers (tree : list wlayer) : list (Z * wlayer) := flat_map child_layers tree.

(* odict: assignment to an existing key keeps its position *)
Fixpoint od_set {V} (d : list (Z * V)) (k : Z) (v : V) : list (Z * V) :=
  match d with
  | [] => [(k, v)]
  | (k', v') :: r => if k' =? k then (k, v) :: r else (k', v') :: od_set r k v
  end.

Definition od_update {V} (d : list (Z * V)) (kvs : list (Z * V)) : list (Z * V) :=
  fold_left (fun a kv => od_set a (fst kv) (snd kv)) kvs d.

(* first loop of WMSServer.map: all_layers, the map layers of every requested name, nothing hidden yet
   (res_range always contains the query here: renders_query is true, also for the sub layers of a group) *)
Fixpoint select_map (srv : list (Z * wlayer)) (req : list Z) (acc : list (Z * list Z)) : list (Z * list Z) :=
  match req with
  | [] => acc
  | n :: r =>
    match assoc n srv with
    | None => select_map srv r acc
    | Some w => select_map srv r (od_update acc (w_map_layers w))
    end
  end.

(* requested_layers of that loop: (layer, names of its map layers) *)
Fixpoint requested_layers (srv : list (Z * wlayer)) (req : list Z) : list (wlayer * list Z) :=
  match req with
  | [] => []
  | n :: r =>
    match assoc n srv with
    | None => requested_layers srv r
    | Some w => (w, map fst (w_map_layers w)) :: requested_layers srv r
    end
  end.

(* all_layers after filter_actual_layers, as a dictionary name -> (limited_to of the wrappers, sources) *)
Definition fdict := list (Z * (option Z * list Z)).

Definition to_fdict (fl : list (Z * option Z * list Z)) : fdict :=
  map (fun e => (fst (fst e), (snd (fst e), snd e))) fl.

Definition of_fdict (d : fdict) : list (Z * option Z * list Z) :=
  map (fun e : Z * (option Z * list Z) => (fst e, fst (snd e), snd (snd e))) d.

Definition is_some {A} (o : option A) : bool := match o with Some _ => true | None => false end.

(* `permitted = [name for name in layer_names if name in all_layers]` *)
Definition permitted_names (d : fdict) (names : list Z) : list Z :=
  filter (fun n => is_some (assoc n d)) names.

(* `restricted`: an entry of the layer was removed, or one is wrapped in LimitedLayer *)
Definition restricted (d : fdict) (names : list Z) : bool :=
  negb (Nat.eqb (length (permitted_names d names)) (length names))
  || existsb (fun n => match assoc n d with Some (Some _, _) => true | _ => false end) (permitted_names d names).

(* body of the second loop of WMSServer.map: only a completely permitted opaque layer hides what is below *)
Definition prune_step (d : fdict) (wl : wlayer * list Z) (acc : fdict) : fdict :=
  let '(w, names) := wl in
  let acc := if negb (restricted d names) && w_is_opaque w then [] else acc in
  fold_left (fun a n => match assoc n d with Some v => od_set a n v | None => a end) (permitted_names d names) acc.

Definition prune (d : fdict) (rq : list (wlayer * list Z)) : fdict :=
  fold_left (fun acc wl => prune_step d wl acc) rq [].

(* the loop of WMSServer.featureinfo; None = 'layer is not queryable' *)
Fixpoint select_info (srv : list (Z * wlayer)) (req : list Z) (acc : list (Z * list Z))
  : option (list (Z * list Z)) :=
  match req with
  | [] => Some acc
  | n :: r =>
    match assoc n srv with
    | None => select_info srv r acc
    | Some w =>
      if w_queryable w then select_info srv r (od_update acc (w_info_layers w)) else None
    end
  end.

Definition all_known (srv : list (Z * wlayer)) (names : list Z) : bool :=
  forallb (fun n => match assoc n srv with Some _ => true | None => false end) names.

(* one entry of the render list: (layer name, limited_to of the LimitedLayer wrapper, source) *)
Definition rentry := (Z * option Z * Z)%type.

Definition flatten_entries (l : list (Z * option Z * list Z)) : list rentry :=
  flat_map (fun e => let '(n, lim, srcs) := e in map (fun s => (n, lim, s)) srcs) l.

Inductive wms_out :=
| W_unknown                      (* validate_layers: unknown layer *)
| W_notqueryable
| W_401
| W_403
| W_ok (rl : list rentry) (cov : option Z).   (* render / info list in order, global clip coverage *)

(* layer names handed to the callback: all_layers.keys() (also the layers an opaque layer will hide) *)
Definition wms_map_cbarg (tree : list wlayer) (req : list Z) : list Z :=
  map fst (select_map (server_layers tree) req []).

(* WMSServer.map up to the render list: collect, authorize, filter, then skip what an opaque layer hides *)
Definition wms_map (tree : list wlayer) (req : list Z) (cb : option cbres) : wms_out :=
  let srv := server_layers tree in
  if negb (all_known srv req) then W_unknown
  else
    let all := select_map srv req [] in
    let rq := requested_layers srv req in
    match authorized_layers Ft_map cb with
    | AZ_401 => W_401
    | AZ_all =>
      W_ok (flatten_entries (of_fdict (prune (to_fdict (map (fun e => (fst e, None, snd e)) all)) rq))) None
    | AZ_some auth cov =>
      match filter_actual auth req all with
      | None => W_403
      | Some fl => W_ok (flatten_entries (of_fdict (prune (to_fdict fl) rq))) cov
      end
    end.

(* the sources whose get_map is called (each is one upstream request here) *)
Definition wms_log (o : wms_out) : list Z :=
  match o with W_ok rl _ => map (fun e : rentry => snd e) rl | _ => [] end.

(* LayerRenderer.render: combined_layers (service/wms.py) over the render list with LimitedLayer.combined_layer
   (layer.py) and the sources' own combined_layer.  A group = one layer object that is rendered (one upstream
   request): the limited_to of its LimitedLayer wrapper and the sources it stands for.
   compat cur s = the plain source that stands for `cur` combines with the plain source s.
   A LimitedLayer never combines: with a plain neighbour its coverage differs from the neighbour's (None), with a
   wrapped neighbour of equal coverage the wrapped source refuses the wrapper (isinstance(other, WMSSource));
   a plain source refuses a wrapper for the same reason. *)
Definition group := (option Z * list Z)%type.

Fixpoint combine_from (compat : list Z -> Z -> bool) (cur : group) (rest : list (option Z * Z)) : list group :=
  match rest with
  | [] => [cur]
  | (lim, s) :: r =>
    match fst cur, lim with
    | None, None =>
      if compat (snd cur) s then combine_from compat (None, snd cur ++ [s]) r
      else cur :: combine_from compat (None, [s]) r
    | _, _ => cur :: combine_from compat (lim, [s]) r
    end
  end.

Definition combine_entries (compat : list Z -> Z -> bool) (rl : list (option Z * Z)) : list group :=
  match rl with [] => [] | (lim, s) :: r => combine_from compat (lim, [s]) r end.

(* the (limited_to, source) pairs a list of groups is rendered and clipped with *)
Definition expand_groups (gs : list group) : list (option Z * Z) :=
  flat_map (fun g : group => map (fun s => (fst g, s)) (snd g)) gs.

Definition is_none {A} (o : option A) : bool := match o with None => true | Some _ => false end.

(* what every outcome of combined_layers satisfies (checked on the observed groups): every source is rendered
   under its own limited_to, in order, and limited layers stay alone *)
Definition groups_ok (rl : list (option Z * Z)) (gs : list group) : bool :=
  list_eqb (pair_eqb (opt_eqb Z.eqb) Z.eqb) (expand_groups gs) rl
  && forallb (fun g : group => is_none (fst g) || (Nat.eqb (length (snd g)) 1)) gs.

(* What LayerRenderer hands to the merger for a rendered group, in both render loops (_render_raise_exceptions for
   on_source_errors: raise, _render_capture_source_errors otherwise): merger.add(img, layer.coverage).  For a LimitedLayer
   that is the coverage made by load_limited_to, GeomCoverage(..., clip=True) - it shadows a coverage of the wrapped
   source -, for a plain source its own coverage with its own clip flag.  Checked on the observed merger layers:
   a limited layer always arrives with a clipping coverage. *)
Definition limited_layers_clip (l : list (option Z * bool)) : bool :=
  forallb (fun lc : option Z * bool => match fst lc with Some _ => snd lc | None => true end) l.

(* WMSServer.featureinfo: qlayers = QUERY_LAYERS, layers = LAYERS (filter_actual_layers is called with
   request.params.layers); pt_in g = coverage g contains the query coordinate.  The result lists the
   info sources whose get_info reaches the wrapped layer. *)
Definition wms_featureinfo (tree : list wlayer) (qlayers layers : list Z) (cb : option cbres)
           (pt_in : Z -> bool) : wms_out :=
  let srv := server_layers tree in
  if negb (all_known srv layers) then W_unknown
  else if negb (all_known srv qlayers) then W_unknown
  else
    match select_info srv qlayers [] with
    | None => W_notqueryable
    | Some actual =>
      match authorized_layers Ft_fi cb with
      | AZ_401 => W_401
      | AZ_all => W_ok (flatten_entries (map (fun e => (fst e, None, snd e)) actual)) None
      | AZ_some auth cov =>
        match filter_actual auth layers actual with
        | None => W_403
        | Some fl =>
          if match cov with Some g => negb (pt_in g) | None => false end
          then W_ok [] cov
          else W_ok (filter (fun e : rentry =>
                               match snd (fst e) with Some g => pt_in g | None => true end)
                            (flatten_entries fl)) cov
        end
      end
    end.

(* ================================================================== WMS capabilities (FilteredRootLayer) *)

Definition w_name (w : wlayer) : Z := match w with WLeaf n _ _ _ => n | WGroup n _ _ => n end.

Definition truthy_f (f : fval) : bool := match f with F_true | F_truthy => true | _ => false end.

(* FilteredRootLayer.layer_permitted: the 'map' entry is truthy (no `is True` here), the layer's limited_to and the
   global one intersect the extent of the layer.  isect g n = coverage g intersects the extent of layer n. *)
Definition cap_permitted (r : cbres) (isect : Z -> Z -> bool) (n : Z) : bool :=
  match assoc n (r_layers r) with
  | Some p =>
    truthy_f (p_map p)
    && (match p_lim p with Some g => isect g n | None => true end)
    && (match r_lim r with Some g => isect g n | None => true end)
  | None => false
  end.

(* the names a child layer contributes to the document (FilteredRootLayer.layers, recursively): nothing when it is
   not permitted, or when it is a group without own sources of which no sub layer is left *)
Fixpoint cap_child (perm : Z -> bool) (w : wlayer) : list Z :=
  match w with
  | WLeaf n _ _ _ => if perm n then [n] else []
  | WGroup n this ch =>
    if perm n then
      let sub := flat_map (cap_child perm) ch in
      match this, sub with
      | None, [] => []
      | _, _ => n :: sub
      end
    else []
  end.

(* every layer, for the unfiltered root *)
Fixpoint cap_all (w : wlayer) : list Z :=
  match w with
  | WLeaf n _ _ _ => [n]
  | WGroup n _ ch => n :: flat_map cap_all ch
  end.

Inductive cap_out := CAP_401 | CAP_403 | CAP_ok (names : list Z).

(* WMSServer.authorized_capability_layers + the <Layer><Name> elements of the document, in document order, for a
   root layer without name whose children are `tree` (the root itself is never filtered) *)
Definition wms_capabilities (tree : list wlayer) (cb : option cbres) (isect : Z -> Z -> bool) : cap_out :=
  match cb with
  | None => CAP_ok (flat_map cap_all tree)
  | Some r =>
    match r_kind r with
    | A_unauth => CAP_401
    | A_full => CAP_ok (flat_map cap_all tree)
    | A_partial => CAP_ok (flat_map (cap_child (cap_permitted r isect)) tree)
    | _ => CAP_403
    end
  end.

Definition cap_out_eqb (a b : cap_out) : bool :=
  match a, b with
  | CAP_401, CAP_401 | CAP_403, CAP_403 => true
  | CAP_ok x, CAP_ok y => list_eqb Z.eqb x y
  | _, _ => false
  end.

(* ================================================================== tile services *)

(* lims: the geometries the request is limited to, all of them apply (util/coverage.py load_limited_to_all:
   the coverage is their intersection); [] = no limit *)
Inductive tauth := T_401 | T_403 | T_ok (lims : list Z).

Definition opt_list (o : option Z) : list Z := match o with Some g => [g] | None => [] end.

(* TileServer / KMLServer.authorize_tile_layer (key = Ft_tile) and WMTSServer.authorize_tile_layer
   (key = Ft_tile or Ft_fi): the limited_to of the layer entry and the global one are loaded together. *)
Definition authorize_tile (key : feat) (lname : Z) (cb : option cbres) : tauth :=
  match cb with
  | None => T_ok []
  | Some r =>
    match r_kind r with
    | A_unauth => T_401
    | A_full => T_ok []
    | A_partial =>
      match assoc lname (r_layers r) with
      | Some p =>
        if is_True (flag key p)
        then T_ok (opt_list (p_lim p) ++ opt_list (r_lim r))
        else T_403
      | None => T_403
      end
    | _ => T_403
    end
  end.

Inductive tile_out := TO_401 | TO_403 | TO_empty | TO_full | TO_masked (gs : list Z).

(* TileLayer.render: cont gs / inter gs = coverage.contains / intersects (tile bbox) for the coverage that is
   the intersection of the geometries gs *)
Definition tile_render (lname : Z) (cb : option cbres) (cont inter : list Z -> bool) : tile_out :=
  match authorize_tile Ft_tile lname cb with
  | T_401 => TO_401
  | T_403 => TO_403
  | T_ok [] => TO_full
  | T_ok gs =>
    if cont gs then TO_full
    else if inter gs then TO_masked gs
    else TO_empty
  end.

(* tile_manager.load_tile_coord is reached (upstream request when the tile is not cached) *)
Definition tile_loads (o : tile_out) : bool :=
  match o with TO_full | TO_masked _ => true | _ => false end.

Inductive fi_out := FI_401 | FI_403 | FI_notqueryable | FI_ok (srcs : list Z).

(* WMTSServer.featureinfo: pt_in gs = the intersection of the geometries gs contains the query coordinate *)
Definition wmts_featureinfo (lname : Z) (infos : list Z) (cb : option cbres) (pt_in : list Z -> bool) : fi_out :=
  match authorize_tile Ft_fi lname cb with
  | T_401 => FI_401
  | T_403 => FI_403
  | T_ok lims =>
    match infos with
    | [] => FI_notqueryable
    | _ => if match lims with [] => false | _ => negb (pt_in lims) end then FI_ok [] else FI_ok infos
    end
  end.

(* ================================================================== pixels (Pillow 12 integer formulas) *)

Definition px := (Z * Z * Z * Z)%type.          (* r, g, b, a  each in 0..255 *)
Definition rgb := (Z * Z * Z)%type.

Definition px_a (p : px) : Z := let '(_, _, _, a) := p in a.
Definition set_a (p : px) (a : Z) : px := let '(r, g, b, _) := p in (r, g, b, a).
Definition px_eqb : px -> px -> bool := Z4_eqb.

(* Pillow: DIV255(a) = (a + (a >> 8)) >> 8 *)
Definition div255 (t : Z) : Z := Z.shiftr (t + Z.shiftr t 8) 8.
(* paste with an 8 bit mask, BLEND8(mask, dst, src) *)
Definition blend8 (m d s : Z) : Z := div255 (s * m + d * (255 - m) + 128).
(* ImageChops.multiply(a, constant f) *)
Definition chop_mul (a f : Z) : Z := (a * f) / 255.

(* Image.alpha_composite(dst, src), one pixel *)
Definition ac_px (d s : px) : px :=
  let '(dr, dg, db, da) := d in
  let '(sr, sg, sb, sa) := s in
  if sa =? 0 then d
  else
    let outa255 := sa * 255 + da * (255 - sa) in
    let coef1 := (sa * 255 * 255 * 128) / outa255 in
    let coef2 := 255 * 128 - coef1 in
    let ch := fun (s0 d0 : Z) => Z.shiftr (div255 (s0 * coef1 + d0 * coef2 + 16384)) 7 in
    (ch sr dr, ch sg dg, ch sb db, div255 (outa255 + 128)).

(* dst.paste(src, (0,0), mask) where the mask is the alpha band of an RGBA image `m`;
   an RGB destination keeps a = 255 *)
Definition paste_mask_px (dst_rgba : bool) (d s : px) : px :=
  let '(dr, dg, db, da) := d in
  let '(sr, sg, sb, sa) := s in
  (blend8 sa dr sr, blend8 sa dg sg, blend8 sa db sb, if dst_rgba then blend8 sa da sa else 255).

(* dst.paste(src, (0,0)) with an RGB source *)
Definition paste_px (s : px) : px := set_a s 255.

(* dst.paste(src, (0,0), mask) with an 8 bit mask value m, all bands (an RGB destination keeps a = 255) *)
Definition paste_l_px (rgba : bool) (m : Z) (d s : px) : px :=
  let '(dr, dg, db, da) := d in
  let '(sr, sg, sb, sa) := s in
  (blend8 m dr sr, blend8 m dg sg, blend8 m db sb, if rgba then blend8 m da sa else 255).


(* opacity as an exact fraction num/den (den > 0); validated against Python doubles / C floats for dyadic
   values only (general doubles are the business of C14) *)
Definition opac := (Z * Z)%type.
Definition op_lt1 (o : option opac) : bool :=
  match o with Some (n, d) => n <? d | None => false end.
(* int(255 * opacity) *)
Definition fade_factor (op : opac) : Z := let '(n, d) := op in Z.quot (255 * n) d.
(* Image.blend, one band: (UINT8)(in1 + alpha * (in2 - in1)) *)
Definition blend_band (op : opac) (a b : Z) : Z :=
  let '(n, d) := op in
  let t := Z.quot (a * d + n * (b - a)) d in
  if t <? 0 then 0 else if 255 <? t then 255 else t.
Definition blend_px (op : opac) (d s : px) : px :=
  let '(dr, dg, db, da) := d in
  let '(sr, sg, sb, sa) := s in
  (blend_band op dr sr, blend_band op dg sg, blend_band op db sb, 255).

Inductive imode := M_RGB | M_RGBA.
Definition imode_eqb (a b : imode) : bool :=
  match a, b with M_RGB, M_RGB | M_RGBA, M_RGBA => true | _, _ => false end.

(* ImageOptions of a layer image *)
Record lopts := mk_lopts { lo_transparent : option bool; lo_opacity : option opac }.

(* one entry of LayerMerger.layers without its pixels: mode of the image, image_opts (may be None),
   `layer_coverage and layer_coverage.clip` *)
Record lmeta := mk_lmeta { lm_mode : imode; lm_opts : option lopts; lm_clip : bool }.

(* image_opts of the request *)
Record ropts := mk_ropts { ro_mode : option imode; ro_transparent : option bool; ro_bgcolor : option rgb }.

Definition truthy (b : option bool) : bool := match b with Some true => true | _ => false end.

(* opts.py create_image *)
Definition create_mode (o : ropts) : imode :=
  match ro_mode o with
  | None => if truthy (ro_transparent o) then M_RGBA else M_RGB
  | Some m => m
  end.

Definition create_px (o : ropts) : px :=
  let '(r, g, b) := match ro_bgcolor o with Some c => c | None => (255, 255, 255) end in
  match create_mode o with
  | M_RGBA => (r, g, b, if truthy (ro_transparent o) then 0 else 255)
  | M_RGB => (r, g, b, 255)
  end.

Definition layer_opacity (m : lmeta) : option opac :=
  match lm_opts m with Some o => lo_opacity o | None => None end.

Definition clear_px : px := (255, 255, 255, 0).

(* img.convert('RGBA') of one pixel of an image of the given mode (RGB pixels are carried with a = 255) *)
Definition to_rgba (m : imode) (p : px) : px :=
  match m with M_RGBA => p | M_RGB => set_a p 255 end.

(* the pixel a layer contributes and whether its image is RGBA at that point of the loop:
   mask_image converts to RGBA and clears what lies outside the rasterised coverage *)
Definition layer_px (m : lmeta) (s : px) (outside : bool) : px * bool :=
  if lm_clip m then ((if outside then clear_px else to_rgba (lm_mode m) s), true)
  else (s, imode_eqb (lm_mode m) M_RGBA).

(* body of the loop `for layer_img, layer_coverage in self.layers`, one pixel;
   composite = result.mode == 'RGBA' (alpha_composite available) *)
Definition step_px (composite : bool) (m : lmeta) (d s : px) (outside : bool) : px :=
  let '(s, alpha) := layer_px m s outside in
  let opacity := layer_opacity m in
  if composite then
    match opacity with
    | Some op =>
      if op_lt1 opacity
      then let s' := if alpha then s else set_a s 255 in
           ac_px d (set_a s' (chop_mul (px_a s') (fade_factor op)))
      else if alpha then ac_px d s else paste_px s
    | None => if alpha then ac_px d s else paste_px s
    end
  else
    match opacity with
    | Some op =>
      if op_lt1 opacity then
        (* blended = Image.blend(result, img.convert(result.mode), opacity);
           RGBA layer image: result.paste(blended, (0, 0), img.split()[3]), else result = blended *)
        let b := blend_px op d (set_a s 255) in
        if alpha then paste_l_px false (px_a s) d b else b
      else if alpha then paste_mask_px false d s else paste_px s
    | None => if alpha then paste_mask_px false d s else paste_px s
    end.

(* global clip: result.paste(bg, (0, 0), outside) - `outside` is the L mask of image_mask_from_geom,
   255 outside the coverage and 0 inside *)
Definition global_clip_px (o : ropts) (composite : bool) (r : px) (outside : bool) : px :=
  paste_l_px composite (if outside then 255 else 0) r (create_px o).

(* one pixel column: for every layer its pixel and whether it lies outside the layer's mask *)
Definition column := list (px * bool).

Fixpoint loop_px (composite : bool) (ms : list lmeta) (col : column) (d : px) : px :=
  match ms, col with
  | m :: ms', (s, out) :: col' => loop_px composite ms' col' (step_px composite m d s out)
  | _, _ => d
  end.

(* the merged pixel when the shortcut is not taken; gout = Some b: a global coverage is given and
   the pixel lies outside (b = true) or inside (b = false) its mask *)
Definition merge_px (o : ropts) (ms : list lmeta) (col : column) (gout : option bool) : px :=
  let composite := imode_eqb (create_mode o) M_RGBA in
  let r := loop_px composite ms col (create_px o) in
  match gout with
  | Some out => global_clip_px o composite r out
  | None => r
  end.

(* condition of the single-layer shortcut (size equal to the layer's size) *)
Definition fast_path_ok (o : ropts) (m : lmeta) (global_cov : bool) : bool :=
  ((match lm_opts m with Some lo => negb (truthy (lo_transparent lo)) | None => false end)
   || truthy (ro_transparent o))
  && (match lm_opts m with
      | None => true
      | Some lo => match lo_opacity lo with None => true | Some (n, d) => d <=? n end
      end)
  && negb (lm_clip m)
  && negb global_cov.

(* LayerMerger.merge on whole images: cols = one (column, global outside bit) per pixel.
   Result: mode and pixels of the returned image. *)
Definition merge_image (o : ropts) (ms : list lmeta) (cols : list (column * bool)) (gcov : bool)
  : imode * list px :=
  let generic :=
      (create_mode o,
       map (fun cb : column * bool => merge_px o ms (fst cb) (if gcov then Some (snd cb) else None)) cols) in
  match ms with
  | [] => (create_mode o, map (fun _ => create_px o) cols)
  | [m] =>
    if fast_path_ok o m gcov
    then (lm_mode m, map (fun cb : column * bool => match fst cb with (s, _) :: _ => s | [] => clear_px end) cols)
    else generic
  | _ => generic
  end.

(* mask_image_source_from_coverage with the transparent png options of TileLayer.render
   (empty_response_as_png): result = create_image(transparent); result.paste(img, (0, 0), img) *)
Definition tile_masked_px (mode : imode) (s : px) (outside : bool) : px :=
  paste_mask_px true clear_px (if outside then clear_px else to_rgba mode s).

(* ================================================================== comparison helpers *)

Definition optZ_eqb := opt_eqb Z.eqb.

Definition rentry_eqb (a b : rentry) : bool :=
  let '(n1, l1, s1) := a in let '(n2, l2, s2) := b in
  (n1 =? n2) && optZ_eqb l1 l2 && (s1 =? s2).

Definition wms_out_eqb (a b : wms_out) : bool :=
  match a, b with
  | W_unknown, W_unknown | W_notqueryable, W_notqueryable | W_401, W_401 | W_403, W_403 => true
  | W_ok r1 c1, W_ok r2 c2 => list_eqb rentry_eqb r1 r2 && optZ_eqb c1 c2
  | _, _ => false
  end.

Definition tile_out_eqb (a b : tile_out) : bool :=
  match a, b with
  | TO_401, TO_401 | TO_403, TO_403 | TO_empty, TO_empty | TO_full, TO_full => true
  | TO_masked g, TO_masked h => list_eqb Z.eqb g h
  | _, _ => false
  end.

Definition fi_out_eqb (a b : fi_out) : bool :=
  match a, b with
  | FI_401, FI_401 | FI_403, FI_403 | FI_notqueryable, FI_notqueryable => true
  | FI_ok x, FI_ok y => list_eqb Z.eqb x y
  | _, _ => false
  end.

Definition image_eqb (a b : imode * list px) : bool :=
  imode_eqb (fst a) (fst b) && list_eqb px_eqb (snd a) (snd b).

(* |a - b| <= tol on every band (decoded jpeg) *)
Definition px_close (tol : Z) (a b : px) : bool :=
  let '(r1, g1, b1, a1) := a in let '(r2, g2, b2, a2) := b in
  (Z.abs (r1 - r2) <=? tol) && (Z.abs (g1 - g2) <=? tol) && (Z.abs (b1 - b2) <=? tol) && (Z.abs (a1 - a2) <=? tol).
