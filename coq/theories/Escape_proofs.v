(* C18  Lemmas about the escaping model, the tokenizer and the exception templates. *)
From Coq Require Import ZArith List Bool Lia Arith.
Import ListNotations.
From MP Require Import Escape Gen_exc_templates.
Local Open Scope Z_scope.

(* ================================================================ replace chains = one pass *)

Lemma flat_map_flat_map {X Y W} (f : X -> list Y) (g : Y -> list W) (l : list X) :
  flat_map g (flat_map f l) = flat_map (fun x => flat_map g (f x)) l.
Proof.
  induction l as [|x l IH]; cbn [flat_map]; [reflexivity|].
  rewrite flat_map_app, IH. reflexivity.
Qed.

Lemma replace1_single c r x : replace1 c r [x] = if x =? c then r else [x].
Proof. unfold replace1. cbn [flat_map]. rewrite app_nil_r. reflexivity. Qed.

Lemma html_escape_pointwise x :
  replace1 c_apos s_apos (replace1 c_quot s_quot (replace1 c_gt s_gt (replace1 c_lt s_lt (replace1 c_amp s_amp [x]))))
  = esc1 x.
Proof.
  unfold esc1. rewrite replace1_single.
  destruct (x =? c_amp) eqn:E1; [reflexivity|].
  rewrite replace1_single. destruct (x =? c_lt) eqn:E2; [reflexivity|].
  rewrite replace1_single. destruct (x =? c_gt) eqn:E3; [reflexivity|].
  rewrite replace1_single. destruct (x =? c_quot) eqn:E4; [reflexivity|].
  rewrite replace1_single. destruct (x =? c_apos) eqn:E5; reflexivity.
Qed.

Lemma replace1_flat_map c r (f : Z -> str) s :
  replace1 c r (flat_map f s) = flat_map (fun x => replace1 c r (f x)) s.
Proof. unfold replace1. apply flat_map_flat_map. Qed.

Lemma replace1_as_flat_map c r s : replace1 c r s = flat_map (fun x => replace1 c r [x]) s.
Proof.
  unfold replace1. apply flat_map_ext. intros x. cbn [flat_map]. rewrite app_nil_r. reflexivity.
Qed.

Lemma html_escape_one_pass s : html_escape s = flat_map esc1 s.
Proof.
  unfold html_escape. rewrite (replace1_as_flat_map c_amp s_amp s). rewrite !replace1_flat_map.
  apply flat_map_ext. intros x. apply html_escape_pointwise.
Qed.

Lemma escape_html_pointwise x :
  replace1 c_quot [] (replace1 c_apos [] (replace1 c_lt s_lt (replace1 c_gt s_gt (replace1 c_amp s_amp [x]))))
  = esch1 x.
Proof.
  unfold esch1. rewrite replace1_single.
  destruct (x =? c_amp) eqn:E1; [reflexivity|].
  rewrite replace1_single. destruct (x =? c_gt) eqn:E3.
  { apply Z.eqb_eq in E3. subst x. reflexivity. }
  rewrite replace1_single. destruct (x =? c_lt) eqn:E2; [reflexivity|].
  rewrite replace1_single. destruct (x =? c_apos) eqn:E5.
  { apply Z.eqb_eq in E5. subst x. reflexivity. }
  rewrite replace1_single. destruct (x =? c_quot) eqn:E4; reflexivity.
Qed.

Lemma escape_html_one_pass s : escape_html s = flat_map esch1 s.
Proof.
  unfold escape_html. rewrite (replace1_as_flat_map c_amp s_amp s). rewrite !replace1_flat_map.
  apply flat_map_ext. intros x. apply escape_html_pointwise.
Qed.

(* the generated definition (from mapproxy/util/escape.py) is the hand-written model *)
Lemma gen_escape_html_is_model s : gen_escape_html s = escape_html s.
Proof. reflexivity. Qed.

Lemma html_escape_app a b : html_escape (a ++ b) = html_escape a ++ html_escape b.
Proof. rewrite !html_escape_one_pass. apply flat_map_app. Qed.

Lemma escape_html_app a b : escape_html (a ++ b) = escape_html a ++ escape_html b.
Proof. rewrite !escape_html_one_pass. apply flat_map_app. Qed.

(* ================================================================ no markup characters *)

Definition markup_free (s : str) : Prop :=
  forall c, In c s -> c <> c_lt /\ c <> c_gt /\ c <> c_quot /\ c <> c_apos.

Lemma esc1_chars x c : In c (esc1 x) -> c <> c_lt /\ c <> c_gt /\ c <> c_quot /\ c <> c_apos.
Proof.
  unfold esc1, c_lt, c_gt, c_quot, c_apos, c_amp, s_amp, s_lt, s_gt, s_quot, s_apos.
  destruct (x =? 38) eqn:E1. { cbn [In]. intros H. repeat (destruct H as [H|H]; [subst c; lia|]). contradiction. }
  destruct (x =? 60) eqn:E2. { cbn [In]. intros H. repeat (destruct H as [H|H]; [subst c; lia|]). contradiction. }
  destruct (x =? 62) eqn:E3. { cbn [In]. intros H. repeat (destruct H as [H|H]; [subst c; lia|]). contradiction. }
  destruct (x =? 34) eqn:E4. { cbn [In]. intros H. repeat (destruct H as [H|H]; [subst c; lia|]). contradiction. }
  destruct (x =? 39) eqn:E5. { cbn [In]. intros H. repeat (destruct H as [H|H]; [subst c; lia|]). contradiction. }
  cbn [In]. intros [H|[]]. subst c.
  apply Z.eqb_neq in E2, E3, E4, E5. auto.
Qed.

Lemma esch1_chars x c : In c (esch1 x) -> c <> c_lt /\ c <> c_gt /\ c <> c_quot /\ c <> c_apos.
Proof.
  unfold esch1, c_lt, c_gt, c_quot, c_apos, c_amp, s_amp, s_lt, s_gt.
  destruct (x =? 38) eqn:E1. { cbn [In]. intros H. repeat (destruct H as [H|H]; [subst c; lia|]). contradiction. }
  destruct (x =? 60) eqn:E2. { cbn [In]. intros H. repeat (destruct H as [H|H]; [subst c; lia|]). contradiction. }
  destruct (x =? 62) eqn:E3. { cbn [In]. intros H. repeat (destruct H as [H|H]; [subst c; lia|]). contradiction. }
  destruct (x =? 34) eqn:E4. { cbn [In]. contradiction. }
  destruct (x =? 39) eqn:E5. { cbn [In]. contradiction. }
  cbn [In]. intros [H|[]]. subst c.
  apply Z.eqb_neq in E2, E3, E4, E5. auto.
Qed.

Lemma html_escape_markup_free s : markup_free (html_escape s).
Proof.
  intros c H. rewrite html_escape_one_pass in H. apply in_flat_map in H.
  destruct H as [x [_ H]]. exact (esc1_chars x c H).
Qed.

Lemma escape_html_markup_free s : markup_free (escape_html s).
Proof.
  intros c H. rewrite escape_html_one_pass in H. apply in_flat_map in H.
  destruct H as [x [_ H]]. exact (esch1_chars x c H).
Qed.

(* ================================================================ every ampersand starts an entity *)

Definition amps_are_entities (s : str) : Prop :=
  forall pre post, s = pre ++ c_amp :: post ->
    exists body rest, In body entity_bodies /\ post = body ++ rest.

Lemma app_split_notin (body : str) : forall pre c post rest,
  ~ In c body -> pre ++ c :: post = body ++ rest ->
  exists p, pre = body ++ p /\ p ++ c :: post = rest.
Proof.
  induction body as [|b body IH]; intros pre c post rest Hn H.
  - exists pre. split; [reflexivity|exact H].
  - destruct pre as [|a pre].
    + cbn in H. injection H as H1 H2. exfalso. apply Hn. left. symmetry. exact H1.
    + cbn in H. injection H as H1 H2. subst a.
      destruct (IH pre c post rest) as [p [Hp1 Hp2]].
      * intros Hin. apply Hn. right. exact Hin.
      * exact H2.
      * exists p. split; [cbn; rewrite Hp1; reflexivity|exact Hp2].
Qed.

(* shape of the replacement of one character: either the character itself (not an ampersand) or
   ampersand followed by an entity body *)
Definition one_shape (f : Z -> str) : Prop :=
  forall x, (f x = [] \/ (f x = [x] /\ x <> c_amp)) \/ (exists body, In body entity_bodies /\ f x = c_amp :: body).

Lemma esc1_shape : one_shape esc1.
Proof.
  intros x. unfold esc1.
  destruct (x =? c_amp) eqn:E1. { right. exists [97; 109; 112; 59]. split; [cbn; auto|reflexivity]. }
  destruct (x =? c_lt) eqn:E2. { right. exists [108; 116; 59]. split; [cbn; auto|reflexivity]. }
  destruct (x =? c_gt) eqn:E3. { right. exists [103; 116; 59]. split; [cbn; auto|reflexivity]. }
  destruct (x =? c_quot) eqn:E4. { right. exists [113; 117; 111; 116; 59]. split; [cbn; auto 6|reflexivity]. }
  destruct (x =? c_apos) eqn:E5. { right. exists [35; 120; 50; 55; 59]. split; [cbn; auto 7|reflexivity]. }
  left. right. split; [reflexivity|]. apply Z.eqb_neq. exact E1.
Qed.

Lemma esch1_shape : one_shape esch1.
Proof.
  intros x. unfold esch1.
  destruct (x =? c_amp) eqn:E1. { right. exists [97; 109; 112; 59]. split; [cbn; auto|reflexivity]. }
  destruct (x =? c_lt) eqn:E2. { right. exists [108; 116; 59]. split; [cbn; auto|reflexivity]. }
  destruct (x =? c_gt) eqn:E3. { right. exists [103; 116; 59]. split; [cbn; auto|reflexivity]. }
  destruct (x =? c_quot) eqn:E4. { left. left. reflexivity. }
  destruct (x =? c_apos) eqn:E5. { left. left. reflexivity. }
  left. right. split; [reflexivity|]. apply Z.eqb_neq. exact E1.
Qed.

Lemma entity_body_no_amp body : In body entity_bodies -> ~ In c_amp body.
Proof.
  unfold entity_bodies, entities, c_amp. cbn [map fst In].
  intros H. repeat (destruct H as [H|H]; [subst body; cbn [In]; intros K;
    repeat (destruct K as [K|K]; [discriminate K|]); contradiction|]). contradiction.
Qed.

Lemma shape_amps f (Hf : one_shape f) s : amps_are_entities (flat_map f s).
Proof.
  induction s as [|x s IH]; intros pre post H.
  - cbn in H. destruct pre; discriminate H.
  - cbn [flat_map] in H. destruct (Hf x) as [[E|[E Hx]]|[body [Hb E]]]; rewrite E in H.
    + cbn [app] in H. exact (IH pre post H).
    + destruct pre as [|a pre].
      * cbn in H. injection H as H1 H2. exfalso. apply Hx. exact H1.
      * cbn in H. injection H as H1 H2. exact (IH pre post H2).
    + destruct pre as [|a pre].
      * cbn in H. injection H as H2. exists body, (flat_map f s). split; [exact Hb|]. symmetry. exact H2.
      * cbn in H. injection H as H1 H2.
        destruct (app_split_notin body pre c_amp post (flat_map f s) (entity_body_no_amp body Hb)) as [p [_ Hp]].
        { symmetry. exact H2. }
        apply (IH p post). symmetry. exact Hp.
Qed.

Lemma html_escape_amps s : amps_are_entities (html_escape s).
Proof. rewrite html_escape_one_pass. apply shape_amps. exact esc1_shape. Qed.

Lemma escape_html_amps s : amps_are_entities (escape_html s).
Proof. rewrite escape_html_one_pass. apply shape_amps. exact esch1_shape. Qed.

(* ================================================================ unescape round trip *)

Definition no_amp (s : str) : Prop := forall c, In c s -> c <> c_amp.

Lemma unesc_no_amp a : forall b, no_amp a -> unesc O (a ++ b) = a ++ unesc O b.
Proof.
  induction a as [|x a IH]; intros b H; [reflexivity|].
  cbn [app unesc]. assert (x <> c_amp) as Hx by (apply H; left; reflexivity).
  apply Z.eqb_neq in Hx. rewrite Hx. rewrite IH; [reflexivity|].
  intros c Hc. apply H. right. exact Hc.
Qed.

Lemma unesc_esc1 x rest : unesc O (esc1 x ++ rest) = x :: unesc O rest.
Proof.
  unfold esc1.
  destruct (x =? c_amp) eqn:E1. { apply Z.eqb_eq in E1. subst x. reflexivity. }
  destruct (x =? c_lt) eqn:E2. { apply Z.eqb_eq in E2. subst x. reflexivity. }
  destruct (x =? c_gt) eqn:E3. { apply Z.eqb_eq in E3. subst x. reflexivity. }
  destruct (x =? c_quot) eqn:E4. { apply Z.eqb_eq in E4. subst x. reflexivity. }
  destruct (x =? c_apos) eqn:E5. { apply Z.eqb_eq in E5. subst x. reflexivity. }
  cbn [app unesc]. rewrite E1. reflexivity.
Qed.

Lemma unescape_html_escape_app s : forall rest, unesc O (html_escape s ++ rest) = s ++ unesc O rest.
Proof.
  rewrite html_escape_one_pass.
  induction s as [|x s IH]; intros rest; [reflexivity|].
  cbn [flat_map]. rewrite <- app_assoc. rewrite unesc_esc1. rewrite IH. reflexivity.
Qed.

Lemma unescape_html_escape s : unescape (html_escape s) = s.
Proof.
  unfold unescape. rewrite <- (app_nil_r (html_escape s)). rewrite unescape_html_escape_app.
  cbn [unesc]. apply app_nil_r.
Qed.

Lemma html_escape_injective a b : html_escape a = html_escape b -> a = b.
Proof. intros H. rewrite <- (unescape_html_escape a), <- (unescape_html_escape b), H. reflexivity. Qed.

Definition not_quote (c : Z) : bool := negb (is_quote c).

Lemma unesc_esch1 x rest :
  unesc O (esch1 x ++ rest) = (if not_quote x then [x] else []) ++ unesc O rest.
Proof.
  unfold esch1, not_quote, is_quote.
  destruct (x =? c_amp) eqn:E1. { apply Z.eqb_eq in E1. subst x. reflexivity. }
  destruct (x =? c_lt) eqn:E2. { apply Z.eqb_eq in E2. subst x. reflexivity. }
  destruct (x =? c_gt) eqn:E3. { apply Z.eqb_eq in E3. subst x. reflexivity. }
  destruct (x =? c_quot) eqn:E4. { reflexivity. }
  destruct (x =? c_apos) eqn:E5. { reflexivity. }
  cbn [app unesc negb orb]. rewrite E1. reflexivity.
Qed.

(* escape_html drops the two quote characters, everything else survives *)
Lemma unescape_escape_html s : unescape (escape_html s) = filter not_quote s.
Proof.
  unfold unescape. rewrite escape_html_one_pass.
  induction s as [|x s IH]; [reflexivity|].
  cbn [flat_map filter]. rewrite unesc_esch1. rewrite IH.
  destruct (not_quote x); reflexivity.
Qed.

(* ================================================================ tokenizer *)

Lemma tok_add_nil t : tok_add [] t = t.
Proof. destruct t; reflexivity. Qed.

Lemma tok_add_app p q t : tok_add p (tok_add q t) = tok_add (p ++ q) t.
Proof. destruct t; cbn [tok_add]; rewrite app_assoc; reflexivity. Qed.

Lemma pushes_nil l : pushes [] l = l.
Proof. destruct l as [|t ts]; [reflexivity|]. cbn [pushes]. rewrite tok_add_nil. reflexivity. Qed.

Lemma pushes_pushes p q l : pushes p (pushes q l) = pushes (p ++ q) l.
Proof. destruct l as [|t ts]; [reflexivity|]. cbn [pushes]. rewrite tok_add_app. reflexivity. Qed.

Lemma push_pushes c q l : push c (pushes q l) = pushes (c :: q) l.
Proof. unfold push. rewrite pushes_pushes. reflexivity. Qed.

(* does character c end the token in progress in mode m ? *)
Definition closes (m : mode) (c : Z) : bool :=
  match m with MText => c =? c_lt | MTag => c =? c_gt | MQuote _ => false end.
Definition closer (m : mode) : tok := match m with MText => Text [] | _ => Tag [] end.
Definition cur (m : mode) (s : str) : tok := match m with MText => Text s | _ => Open s end.

Lemma tk_cons m c r :
  tk m (c :: r) = if closes m c then closer m :: tk (mode_step m c) r else push c (tk (mode_step m c) r).
Proof.
  destruct m as [| |q]; cbn [tk closes closer mode_step].
  - destruct (c =? c_lt); reflexivity.
  - destruct (c =? c_gt); [reflexivity|]. destruct (is_quote c); reflexivity.
  - destruct (c =? q); reflexivity.
Qed.

Lemma tk_nil m : tk m [] = [cur m []].
Proof. destruct m; reflexivity. Qed.

Lemma mode_after_cons m c l : mode_after m (c :: l) = mode_after (mode_step m c) l.
Proof. reflexivity. Qed.

Lemma mode_after_app m a b : mode_after m (a ++ b) = mode_after (mode_after m a) b.
Proof. unfold mode_after. apply fold_left_app. Qed.

(* The tokens of P ++ R: finished tokens of P, then the tokens of R with the unfinished rest of P
   prepended to the first of them. *)
Lemma tk_prefix P : forall m, exists tp pre,
  tk m P = tp ++ [cur (mode_after m P) pre] /\
  forall R, tk m (P ++ R) = tp ++ pushes pre (tk (mode_after m P) R).
Proof.
  induction P as [|c P IH]; intros m.
  - exists [], []. split; [apply tk_nil|]. intros R. cbn [app mode_after fold_left]. rewrite pushes_nil. reflexivity.
  - destruct (IH (mode_step m c)) as [tp [pre [H1 H2]]].
    rewrite mode_after_cons. cbn [app]. rewrite tk_cons.
    destruct (closes m c) eqn:Ec.
    + exists (closer m :: tp), pre. split.
      * rewrite H1. reflexivity.
      * intros R. rewrite tk_cons, Ec, H2. reflexivity.
    + destruct tp as [|t tp].
      * exists [], (c :: pre). split.
        -- rewrite H1. cbn [app]. unfold push. cbn [pushes].
           destruct (mode_after (mode_step m c) P); reflexivity.
        -- intros R. rewrite tk_cons, Ec, H2. cbn [app]. apply push_pushes.
      * exists (tok_add [c] t :: tp), pre. split.
        -- rewrite H1. reflexivity.
        -- intros R. rewrite tk_cons, Ec, H2. reflexivity.
Qed.

Lemma tk_text_head S : exists post ts, tk MText S = Text post :: ts.
Proof.
  induction S as [|c S [post [ts IH]]].
  - exists [], []. reflexivity.
  - cbn [tk]. destruct (c =? c_lt).
    + exists [], (tk MTag S). reflexivity.
    + exists (c :: post), ts. rewrite IH. reflexivity.
Qed.

Lemma tk_tag_head m S : m <> MText -> exists t ts, tk m S = t :: ts /\ forall s, t <> Text s.
Proof.
  revert m. induction S as [|c S IH]; intros m Hm.
  - destruct m; [contradiction| |]; eexists; eexists; (split; [reflexivity|intros s; discriminate]).
  - rewrite tk_cons. destruct m as [| |q]; [contradiction| |].
    + cbn [closes closer mode_step]. destruct (c =? c_gt).
      * eexists; eexists; (split; [reflexivity|intros s; discriminate]).
      * destruct (is_quote c).
        -- destruct (IH (MQuote c)) as [t [ts [H1 H2]]]; [discriminate|].
           rewrite H1. exists (tok_add [c] t), ts. split; [reflexivity|].
           intros s. destruct t; cbn; try discriminate. exfalso. apply (H2 s0). reflexivity.
        -- destruct (IH MTag) as [t [ts [H1 H2]]]; [discriminate|].
           rewrite H1. exists (tok_add [c] t), ts. split; [reflexivity|].
           intros s. destruct t; cbn; try discriminate. exfalso. apply (H2 s0). reflexivity.
    + cbn [closes closer mode_step]. destruct (c =? q).
      * destruct (IH MTag) as [t [ts [H1 H2]]]; [discriminate|].
        rewrite H1. exists (tok_add [c] t), ts. split; [reflexivity|].
        intros s. destruct t; cbn; try discriminate. exfalso. apply (H2 s0). reflexivity.
      * destruct (IH (MQuote q)) as [t [ts [H1 H2]]]; [discriminate|].
        rewrite H1. exists (tok_add [c] t), ts. split; [reflexivity|].
        intros s. destruct t; cbn; try discriminate. exfalso. apply (H2 s0). reflexivity.
Qed.

(* character data that contains no `<` extends the text node in progress and nothing else *)
Lemma tk_text_no_lt E : forall S, (forall c, In c E -> c <> c_lt) -> tk MText (E ++ S) = pushes E (tk MText S).
Proof.
  induction E as [|c E IH]; intros S H.
  - cbn [app]. rewrite pushes_nil. reflexivity.
  - cbn [app tk]. assert (c <> c_lt) as Hc by (apply H; left; reflexivity).
    apply Z.eqb_neq in Hc. rewrite Hc. rewrite IH.
    + apply push_pushes.
    + intros d Hd. apply H. right. exact Hd.
Qed.

(* an attribute value that does not contain its own quote character stays inside the attribute *)
Lemma tk_quote_no_q q E : forall S, ~ In q E -> tk (MQuote q) (E ++ S) = pushes E (tk (MQuote q) S).
Proof.
  induction E as [|c E IH]; intros S H.
  - cbn [app]. rewrite pushes_nil. reflexivity.
  - cbn [app tk]. assert (c <> q) as Hc by (intros K; apply H; left; exact K).
    apply Z.eqb_neq in Hc. rewrite Hc. rewrite IH.
    + apply push_pushes.
    + intros Hd. apply H. right. exact Hd.
Qed.

Lemma insertion_text P S :
  text_position P ->
  exists tp pre post ts,
    tokenize P = tp ++ [Text pre] /\ tokenize S = Text post :: ts /\
    forall E, (forall c, In c E -> c <> c_lt) ->
      tokenize (P ++ E ++ S) = tp ++ Text (pre ++ E ++ post) :: ts.
Proof.
  intros HP. unfold text_position in HP. unfold tokenize.
  destruct (tk_prefix P MText) as [tp [pre [H1 H2]]]. rewrite HP in H1, H2.
  destruct (tk_text_head S) as [post [ts HS]].
  exists tp, pre, post, ts. split; [exact H1|]. split; [exact HS|].
  intros E HE. rewrite H2. rewrite tk_text_no_lt by exact HE. rewrite HS.
  rewrite pushes_pushes. cbn [pushes tok_add]. rewrite <- app_assoc. reflexivity.
Qed.

Lemma insertion_attr q P S :
  attr_position q P ->
  exists tp pre t ts,
    (forall s, t <> Text s) /\
    forall E, ~ In q E -> tokenize (P ++ E ++ S) = tp ++ tok_add (pre ++ E) t :: ts.
Proof.
  intros HP. unfold attr_position in HP. unfold tokenize.
  destruct (tk_prefix P MText) as [tp [pre [H1 H2]]]. rewrite HP in H1, H2.
  destruct (tk_tag_head (MQuote q) S) as [t [ts [HS Ht]]]; [discriminate|].
  exists tp, pre, t, ts. split; [exact Ht|].
  intros E HE. rewrite H2. rewrite tk_quote_no_q by exact HE. rewrite HS.
  rewrite pushes_pushes. reflexivity.
Qed.

Lemma skeleton_app a b : skeleton (a ++ b) = skeleton a ++ skeleton b.
Proof. apply map_app. Qed.

(* ================================================================ templates *)

Definition same_vars (e1 e2 : env) : Prop := e_code e1 = e_code e2 /\ e_loc e1 = e_loc e2.

Lemma r_atom_noexc e1 e2 a : same_vars e1 e2 -> atom_uses_exc a = false -> r_atom e1 a = r_atom e2 a.
Proof.
  intros [Hc Hl] H. destruct a as [s|v]; [reflexivity|].
  destruct v; cbn in *; [discriminate| |]; congruence.
Qed.

Lemma r_atoms_noexc e1 e2 l : same_vars e1 e2 -> existsb atom_uses_exc l = false -> r_atoms e1 l = r_atoms e2 l.
Proof.
  intros Hs. induction l as [|a l IH]; intros H; [reflexivity|].
  cbn [existsb] in H. apply orb_false_iff in H. destruct H as [Ha Hl].
  unfold r_atoms. cbn [flat_map]. rewrite (r_atom_noexc e1 e2 a Hs Ha).
  unfold r_atoms in IH. rewrite IH by exact Hl. reflexivity.
Qed.

Lemma r_piece_noexc e1 e2 p : same_vars e1 e2 -> piece_uses_exc p = false -> r_piece e1 p = r_piece e2 p.
Proof.
  intros Hs H. destruct p as [a|v body|v a b]; cbn [piece_uses_exc r_piece] in *.
  - apply r_atom_noexc; assumption.
  - apply orb_false_iff in H. destruct H as [Hv Hb].
    destruct v; [discriminate Hv| |]; destruct Hs as [Hc Hl]; cbn [lookup].
    + rewrite Hc. destruct (is_some (e_code e2)); [|reflexivity]. apply r_atoms_noexc; [split|]; assumption.
    + rewrite Hl. destruct (is_some (e_loc e2)); [|reflexivity]. apply r_atoms_noexc; [split|]; assumption.
  - apply orb_false_iff in H. destruct H as [H Hb]. apply orb_false_iff in H. destruct H as [Hv Ha].
    destruct v; [discriminate Hv| |]; pose proof Hs as [Hc Hl]; cbn [lookup].
    + rewrite Hc. destruct (is_some (e_code e2)); apply r_atoms_noexc; assumption.
    + rewrite Hl. destruct (is_some (e_loc e2)); apply r_atoms_noexc; assumption.
Qed.

Lemma render_noexc e1 e2 t : same_vars e1 e2 -> existsb piece_uses_exc t = false -> render e1 t = render e2 t.
Proof.
  intros Hs. induction t as [|p t IH]; intros H; [reflexivity|].
  cbn [existsb] in H. apply orb_false_iff in H. destruct H as [Hp Ht].
  unfold render. cbn [flat_map]. rewrite (r_piece_noexc e1 e2 p Hs Hp).
  unfold render in IH. rewrite IH by exact Ht. reflexivity.
Qed.

Lemma render_split e t :
  has_exc t = true -> render e t = render e (tpl_before t) ++ e_exc e ++ render e (tpl_after t).
Proof.
  induction t as [|p t IH]; intros H; [discriminate H|].
  cbn [has_exc tpl_before tpl_after] in *. destruct (is_exc_piece p) eqn:Ep.
  - destruct p as [[s|[| |]]| |]; try discriminate Ep.
    unfold render. cbn [flat_map r_piece r_atom lookup repr app]. reflexivity.
  - cbn [orb] in H. unfold render in *. cbn [flat_map]. rewrite IH by exact H.
    rewrite <- app_assoc. reflexivity.
Qed.

Lemma exception_doc_split t msg code loc :
  single_exc t = true ->
  exception_doc_raw t msg code loc =
  render (env0 code loc) (tpl_before t) ++ html_escape msg ++ render (env0 code loc) (tpl_after t).
Proof.
  unfold single_exc. intros H. apply andb_true_iff in H. destruct H as [H H3].
  apply andb_true_iff in H. destruct H as [H1 H2].
  apply negb_true_iff in H2. apply negb_true_iff in H3.
  unfold exception_doc_raw. rewrite render_split by exact H1. cbn [e_exc].
  rewrite (render_noexc _ (env0 code loc) (tpl_before t)); [|split; reflexivity|exact H2].
  rewrite (render_noexc _ (env0 code loc) (tpl_after t)); [|split; reflexivity|exact H3].
  reflexivity.
Qed.

Lemma mode_eqb_text m : mode_eqb m MText = true -> m = MText.
Proof. destruct m; cbn; intros H; [reflexivity|discriminate|discriminate]. Qed.

(* the statement of the skeleton theorem for one template and one (code, locator) pair *)
Definition fixed_structure (t : list piece) (code loc : option str) : Prop :=
  exists tp pre post ts,
    toks_blank tp = true /\ blank pre = true /\ blank post = true /\ toks_blank ts = true /\
    forall msg,
      tokenize (exception_doc_raw t msg code loc) = tp ++ Text (pre ++ html_escape msg ++ post) :: ts.

Lemma template_ok_sound t code loc : template_ok t code loc = true -> fixed_structure t code loc.
Proof.
  unfold template_ok. intros H.
  apply andb_true_iff in H. destruct H as [H H4].
  apply andb_true_iff in H. destruct H as [H H3].
  apply andb_true_iff in H. destruct H as [H1 H2].
  apply mode_eqb_text in H2.
  destruct (insertion_text _ (render (env0 code loc) (tpl_after t)) H2) as [tp [pre [post [ts [HP [HS HE]]]]]].
  exists tp, pre, post, ts.
  unfold tokenize in HP, HS. rewrite HP in H3. rewrite HS in H4.
  unfold toks_blank in H3, H4. rewrite forallb_app in H3. apply andb_true_iff in H3. destruct H3 as [H3a H3b].
  cbn [forallb tok_blank] in H3b, H4. rewrite andb_true_r in H3b.
  apply andb_true_iff in H4. destruct H4 as [H4a H4b].
  repeat split; try assumption.
  intros msg. rewrite exception_doc_split by exact H1. apply HE.
  intros c Hc. apply (html_escape_markup_free msg c Hc).
Qed.

Lemma In_forallb {X} (f : X -> bool) l x : forallb f l = true -> In x l -> f x = true.
Proof. intros H Hin. rewrite forallb_forall in H. apply H. exact Hin. Qed.

Lemma templates_ok_sound ts codes locs t code loc :
  templates_ok ts codes locs = true ->
  In t ts -> In code (opt_strs codes) -> In loc (opt_strs locs) -> fixed_structure t code loc.
Proof.
  unfold templates_ok. intros H Ht Hc Hl. apply template_ok_sound.
  pose proof (In_forallb _ _ _ H Ht) as H1. cbn beta in H1.
  pose proof (In_forallb _ _ _ H1 Hc) as H2. cbn beta in H2.
  exact (In_forallb _ _ _ H2 Hl).
Qed.

(* all templates of the source tree with all code / locator literals of the source tree *)
Lemma generated_templates_ok : templates_ok exception_templates exception_codes exception_locators = true.
Proof. vm_compute. reflexivity. Qed.

Lemma exception_documents_fixed t code loc :
  In t exception_templates -> In code (opt_strs exception_codes) -> In loc (opt_strs exception_locators) ->
  fixed_structure t code loc.
Proof. apply templates_ok_sound. exact generated_templates_ok. Qed.

(* consequences of fixed_structure, in the terms of the property *)
Lemma blank_no_amp s : blank s = true -> no_amp s.
Proof.
  unfold blank. intros H c Hc. pose proof (In_forallb _ _ _ H Hc) as K.
  unfold is_ws in K. intros E. subst c. discriminate K.
Qed.

Lemma fixed_structure_skeleton t code loc :
  fixed_structure t code loc ->
  forall msg, skeleton (tokenize (exception_doc_raw t msg code loc)) = skeleton (tokenize (exception_doc_raw t [] code loc)).
Proof.
  intros [tp [pre [post [ts [_ [_ [_ [_ H]]]]]]]] msg.
  rewrite (H msg), (H []). rewrite !skeleton_app. reflexivity.
Qed.

Lemma fixed_structure_text t code loc :
  fixed_structure t code loc ->
  exists tp pre post ts,
    toks_blank tp = true /\ blank pre = true /\ blank post = true /\ toks_blank ts = true /\
    forall msg, exists raw,
      tokenize (exception_doc_raw t msg code loc) = tp ++ Text raw :: ts /\
      unescape raw = pre ++ msg ++ post.
Proof.
  intros [tp [pre [post [ts [H1 [H2 [H3 [H4 H]]]]]]]].
  exists tp, pre, post, ts. repeat split; try assumption.
  intros msg. exists (pre ++ html_escape msg ++ post). split; [apply H|].
  unfold unescape. rewrite unesc_no_amp by (apply blank_no_amp; exact H2).
  rewrite unescape_html_escape_app. rewrite <- (app_nil_r post) at 1.
  rewrite unesc_no_amp by (apply blank_no_amp; exact H3). cbn [unesc]. rewrite app_nil_r. reflexivity.
Qed.

Lemma exception_documents_same_skeleton t code loc :
  In t exception_templates -> In code (opt_strs exception_codes) -> In loc (opt_strs exception_locators) ->
  forall msg,
    skeleton (tokenize (exception_doc_raw t msg code loc)) = skeleton (tokenize (exception_doc_raw t [] code loc)).
Proof. intros Ht Hc Hl. apply fixed_structure_skeleton. apply exception_documents_fixed; assumption. Qed.

Lemma exception_documents_text t code loc :
  In t exception_templates -> In code (opt_strs exception_codes) -> In loc (opt_strs exception_locators) ->
  exists tp pre post ts,
    toks_blank tp = true /\ blank pre = true /\ blank post = true /\ toks_blank ts = true /\
    forall msg, exists raw,
      tokenize (exception_doc_raw t msg code loc) = tp ++ Text raw :: ts /\
      unescape raw = pre ++ msg ++ post.
Proof. intros Ht Hc Hl. apply fixed_structure_text. apply exception_documents_fixed; assumption. Qed.

(* code and locator literals cannot leave an attribute value *)
Definition attr_safe_char (c : Z) : bool :=
  negb ((c =? c_lt) || (c =? c_gt) || (c =? c_amp) || (c =? c_quot) || (c =? c_apos)).
Definition attr_safe (s : str) : bool := forallb attr_safe_char s.

Lemma generated_literals_attr_safe :
  forallb attr_safe (exception_codes ++ exception_locators) = true.
Proof. vm_compute. reflexivity. Qed.

Lemma literals_attr_safe s c :
  In s (exception_codes ++ exception_locators) -> In c s ->
  c <> c_lt /\ c <> c_gt /\ c <> c_amp /\ c <> c_quot /\ c <> c_apos.
Proof.
  intros Hs Hc. pose proof (In_forallb _ _ _ generated_literals_attr_safe Hs) as H.
  pose proof (In_forallb _ _ _ H Hc) as K. unfold attr_safe_char in K.
  apply negb_true_iff in K. repeat (apply orb_false_iff in K; destruct K as [K ?]).
  repeat split; apply Z.eqb_neq; assumption.
Qed.

(* ================================================================ XML 1.0 characters *)

Lemma esc1_xml_char x c : xml_char x = true -> In c (esc1 x) -> xml_char c = true.
Proof.
  intros Hx. unfold esc1, s_amp, s_lt, s_gt, s_quot, s_apos.
  destruct (x =? c_amp). { cbn [In]. intros H. repeat (destruct H as [H|H]; [subst c; reflexivity|]). contradiction. }
  destruct (x =? c_lt). { cbn [In]. intros H. repeat (destruct H as [H|H]; [subst c; reflexivity|]). contradiction. }
  destruct (x =? c_gt). { cbn [In]. intros H. repeat (destruct H as [H|H]; [subst c; reflexivity|]). contradiction. }
  destruct (x =? c_quot). { cbn [In]. intros H. repeat (destruct H as [H|H]; [subst c; reflexivity|]). contradiction. }
  destruct (x =? c_apos). { cbn [In]. intros H. repeat (destruct H as [H|H]; [subst c; reflexivity|]). contradiction. }
  cbn [In]. intros [H|[]]. subst c. exact Hx.
Qed.

Lemma html_escape_xml_chars msg :
  (forall c, In c msg -> xml_char c = true) -> forall c, In c (html_escape msg) -> xml_char c = true.
Proof.
  intros H c Hc. rewrite html_escape_one_pass in Hc. apply in_flat_map in Hc.
  destruct Hc as [x [Hx Hc]]. exact (esc1_xml_char x c (H x Hx) Hc).
Qed.

Lemma template_chars_ok_sound t code loc msg :
  single_exc t = true -> template_chars_ok t code loc = true ->
  (forall c, In c msg -> xml_char c = true) ->
  forall c, In c (exception_doc_raw t msg code loc) -> xml_char c = true.
Proof.
  intros H1 H2 Hm c Hc. rewrite exception_doc_split in Hc by exact H1.
  unfold template_chars_ok in H2. apply andb_true_iff in H2. destruct H2 as [HP HS].
  apply in_app_or in Hc. destruct Hc as [Hc|Hc]; [exact (In_forallb _ _ _ HP Hc)|].
  apply in_app_or in Hc. destruct Hc as [Hc|Hc]; [exact (html_escape_xml_chars msg Hm c Hc)|].
  exact (In_forallb _ _ _ HS Hc).
Qed.

Lemma generated_templates_chars_ok :
  templates_chars_ok exception_templates exception_codes exception_locators = true.
Proof. vm_compute. reflexivity. Qed.

Lemma template_ok_single t code loc : template_ok t code loc = true -> single_exc t = true.
Proof.
  unfold template_ok. intros H. apply andb_true_iff in H. destruct H as [H _].
  apply andb_true_iff in H. destruct H as [H _]. apply andb_true_iff in H. destruct H as [H _]. exact H.
Qed.

(* a message made of XML characters gives a document made of XML characters ... *)
Lemma exception_documents_xml_chars t code loc msg :
  In t exception_templates -> In code (opt_strs exception_codes) -> In loc (opt_strs exception_locators) ->
  (forall c, In c msg -> xml_char c = true) ->
  forall c, In c (exception_doc_raw t msg code loc) -> xml_char c = true.
Proof.
  intros Ht Hc Hl. apply template_chars_ok_sound.
  - apply (template_ok_single t code loc).
    pose proof generated_templates_ok as H. unfold templates_ok in H.
    pose proof (In_forallb _ _ _ H Ht) as H1. cbn beta in H1.
    pose proof (In_forallb _ _ _ H1 Hc) as H2. cbn beta in H2.
    exact (In_forallb _ _ _ H2 Hl).
  - pose proof generated_templates_chars_ok as H. unfold templates_chars_ok in H.
    pose proof (In_forallb _ _ _ H Ht) as H1. cbn beta in H1.
    pose proof (In_forallb _ _ _ H1 Hc) as H2. cbn beta in H2.
    exact (In_forallb _ _ _ H2 Hl).
Qed.

(* ---- the documents of the render methods: the message is sanitised first (exception_doc) ---- *)

Lemma xml_sanitize_chars s c : In c (xml_sanitize s) -> xml_char c = true.
Proof.
  unfold xml_sanitize. intros H. apply in_map_iff in H. destruct H as [x [Hx _]].
  destruct (xml_char x) eqn:E; subst c; [exact E|reflexivity].
Qed.

Lemma xml_sanitize_id s : (forall c, In c s -> xml_char c = true) -> xml_sanitize s = s.
Proof.
  induction s as [|x s IH]; intros H; [reflexivity|].
  unfold xml_sanitize in *. cbn [map]. rewrite (H x (or_introl eq_refl)). rewrite IH; [reflexivity|].
  intros c Hc. apply H. right. exact Hc.
Qed.

Lemma xml_sanitize_length s : length (xml_sanitize s) = length s.
Proof. unfold xml_sanitize. apply map_length. Qed.

(* no hypothesis on the message any more *)
Lemma exception_doc_all_xml_chars t code loc msg :
  In t exception_templates -> In code (opt_strs exception_codes) -> In loc (opt_strs exception_locators) ->
  forall c, In c (exception_doc t msg code loc) -> xml_char c = true.
Proof.
  intros Ht Hc Hl. unfold exception_doc. apply exception_documents_xml_chars; try assumption. apply xml_sanitize_chars.
Qed.

Lemma exception_doc_fixed t code loc :
  In t exception_templates -> In code (opt_strs exception_codes) -> In loc (opt_strs exception_locators) ->
  exists tp pre post ts,
    toks_blank tp = true /\ blank pre = true /\ blank post = true /\ toks_blank ts = true /\
    forall msg,
      tokenize (exception_doc t msg code loc) = tp ++ Text (pre ++ html_escape (xml_sanitize msg) ++ post) :: ts.
Proof.
  intros Ht Hc Hl. destruct (exception_documents_fixed t code loc Ht Hc Hl) as [tp [pre [post [ts [H1 [H2 [H3 [H4 H]]]]]]]].
  exists tp, pre, post, ts. repeat split; try assumption. intros msg. unfold exception_doc. apply H.
Qed.

Lemma exception_doc_skeleton t code loc :
  In t exception_templates -> In code (opt_strs exception_codes) -> In loc (opt_strs exception_locators) ->
  forall msg,
    skeleton (tokenize (exception_doc t msg code loc)) = skeleton (tokenize (exception_doc t [] code loc)).
Proof.
  intros Ht Hc Hl msg. unfold exception_doc. cbn [xml_sanitize map].
  apply exception_documents_same_skeleton; assumption.
Qed.

Lemma exception_doc_text t code loc :
  In t exception_templates -> In code (opt_strs exception_codes) -> In loc (opt_strs exception_locators) ->
  exists tp pre post ts,
    toks_blank tp = true /\ blank pre = true /\ blank post = true /\ toks_blank ts = true /\
    forall msg, exists raw,
      tokenize (exception_doc t msg code loc) = tp ++ Text raw :: ts /\
      unescape raw = pre ++ xml_sanitize msg ++ post.
Proof.
  intros Ht Hc Hl. destruct (exception_documents_text t code loc Ht Hc Hl) as [tp [pre [post [ts [H1 [H2 [H3 [H4 H]]]]]]]].
  exists tp, pre, post, ts. repeat split; try assumption. intros msg. unfold exception_doc. apply H.
Qed.

(* non-vacuity of the hypothesis of insertion_attr: text that contains the quote character does change the
   structure (this was finding C18-b before Request.base_url escaped the host) *)
Example unescaped_attribute_breaks_structure :
  exists P S E, attr_position c_quot P /\
    skeleton (tokenize (P ++ E ++ S)) <> skeleton (tokenize (P ++ [] ++ S)).
Proof.
  exists [60; 97; 32; 104; 61; 34], [34; 47; 62], [34; 62; 60; 120; 32; 121; 61; 34].
  split; [vm_compute; reflexivity|]. vm_compute. discriminate.
Qed.

(* ================================================================ nesting *)

Lemma generated_templates_nested : templates_nested exception_templates exception_codes exception_locators = true.
Proof. vm_compute. reflexivity. Qed.

Lemma exception_documents_well_nested t code loc msg :
  In t exception_templates -> In code (opt_strs exception_codes) -> In loc (opt_strs exception_locators) ->
  well_nested (tokenize (exception_doc_raw t msg code loc)) = true.
Proof.
  intros Ht Hc Hl. unfold well_nested.
  rewrite (exception_documents_same_skeleton t code loc Ht Hc Hl msg).
  pose proof generated_templates_nested as H. unfold templates_nested in H.
  pose proof (In_forallb _ _ _ H Ht) as H1. cbn beta in H1.
  pose proof (In_forallb _ _ _ H1 Hc) as H2. cbn beta in H2.
  exact (In_forallb _ _ _ H2 Hl).
Qed.

Lemma exception_doc_nested t code loc msg :
  In t exception_templates -> In code (opt_strs exception_codes) -> In loc (opt_strs exception_locators) ->
  well_nested (tokenize (exception_doc t msg code loc)) = true.
Proof. intros Ht Hc Hl. unfold exception_doc. apply exception_documents_well_nested; assumption. Qed.

Example not_nested_example : well_nested (tokenize [60; 97; 62; 60; 98; 62; 60; 47; 97; 62]) = false.  (* <a><b></a> *)
Proof. vm_compute. reflexivity. Qed.

(* ================================================================ attribute insertion with escape_html *)

Lemma escape_html_attr q P S :
  (q = c_quot \/ q = c_apos) -> attr_position q P ->
  exists tp pre t ts,
    (forall s, t <> Text s) /\
    forall y, tokenize (P ++ escape_html y ++ S) = tp ++ tok_add (pre ++ escape_html y) t :: ts.
Proof.
  intros Hq HP. destruct (insertion_attr q P S HP) as [tp [pre [t [ts [Ht H]]]]].
  exists tp, pre, t, ts. split; [exact Ht|]. intros y. apply H.
  intros Hin. destruct (escape_html_markup_free y q Hin) as [_ [_ [H3 H4]]].
  destruct Hq; contradiction.
Qed.

(* ================================================================ welcome page (mapproxy/wsgiapp.py) *)

Lemma mode_after_text_no_lt v : (forall c, In c v -> c <> c_lt) -> mode_after MText v = MText.
Proof.
  induction v as [|a v IH]; intros H; [reflexivity|].
  rewrite mode_after_cons. cbn [mode_step].
  assert (a <> c_lt) as Ha by (apply H; left; reflexivity). apply Z.eqb_neq in Ha. rewrite Ha.
  apply IH. intros c Hc. apply H. right. exact Hc.
Qed.

Lemma welcome_page_structure version :
  (forall c, In c version -> c <> c_lt) ->
  exists tp pre t ts,
    (forall s, t <> Text s) /\
    forall url, tokenize (welcome_page version true url) = tp ++ tok_add (pre ++ escape_html url) t :: ts.
Proof.
  intros Hv.
  assert (attr_position c_quot (welcome_w1 ++ version ++ welcome_w2 ++ welcome_w3)) as HP.
  { unfold attr_position. rewrite !mode_after_app.
    replace (mode_after MText welcome_w1) with MText by (vm_compute; reflexivity).
    rewrite (mode_after_text_no_lt version Hv). vm_compute. reflexivity. }
  destruct (escape_html_attr c_quot _ welcome_w4 (or_introl eq_refl) HP) as [tp [pre [t [ts [Ht H]]]]].
  exists tp, pre, t, ts. split; [exact Ht|]. intros url.
  unfold welcome_page, welcome_response. cbv beta iota. rewrite gen_escape_html_is_model.
  rewrite <- (H url). f_equal. repeat rewrite <- app_assoc. reflexivity.
Qed.

(* 4.0.2 *)
Example welcome_page_example :
  filter (fun t => match t with Tag s => is_prefix [97; 32] s | _ => false end)
    (tokenize (welcome_page [52; 46; 48; 46; 50] true [104; 34; 62; 60; 120; 62]))        (* url = h dquote > < x > *)
  = [Tag ([97; 32; 104; 114; 101; 102; 61; 34] ++ [104; 38; 103; 116; 59; 38; 108; 116; 59; 120; 38; 103; 116; 59]
          ++ [47; 100; 101; 109; 111; 47; 34])].
Proof. vm_compute. reflexivity. Qed.

(* ================================================================ several insertion points *)

Lemma shape_pushes p l : shape (pushes p l) = shape l.
Proof. destruct l as [|t ts]; [reflexivity|]. destruct t; reflexivity. Qed.

Lemma shape_app a b : shape (a ++ b) = shape a ++ shape b.
Proof. apply map_app. Qed.

Lemma mode_step_valid m c : valid_mode m -> valid_mode (mode_step m c).
Proof.
  destruct m as [| |q]; cbn [mode_step valid_mode]; intros H.
  - destruct (c =? c_lt); exact I.
  - destruct (c =? c_gt); [exact I|]. destruct (is_quote c) eqn:E; [exact E|exact I].
  - destruct (c =? q); [exact I|exact H].
Qed.

Lemma mode_after_valid l : forall m, valid_mode m -> valid_mode (mode_after m l).
Proof.
  induction l as [|c l IH]; intros m H; [exact H|].
  rewrite mode_after_cons. apply IH. apply mode_step_valid. exact H.
Qed.

(* a markup-free character neither ends the token in progress nor changes the mode, in ANY valid mode *)
Lemma markup_free_char_inert m c :
  valid_mode m -> c <> c_lt -> c <> c_gt -> c <> c_quot -> c <> c_apos ->
  closes m c = false /\ mode_step m c = m.
Proof.
  intros Hm H1 H2 H3 H4.
  apply Z.eqb_neq in H1. apply Z.eqb_neq in H2. pose proof H3 as H3'. pose proof H4 as H4'.
  apply Z.eqb_neq in H3. apply Z.eqb_neq in H4.
  destruct m as [| |q]; cbn [closes mode_step].
  - rewrite H1. split; reflexivity.
  - rewrite H2. unfold is_quote. rewrite H3, H4. split; reflexivity.
  - split; [reflexivity|]. cbn [valid_mode] in Hm. unfold is_quote in Hm.
    apply orb_true_iff in Hm. destruct Hm as [Hq|Hq]; apply Z.eqb_eq in Hq; subst q.
    + rewrite H3. reflexivity.
    + rewrite H4. reflexivity.
Qed.

Lemma tk_markup_free u : forall m R, valid_mode m -> markup_free u -> tk m (u ++ R) = pushes u (tk m R).
Proof.
  induction u as [|c u IH]; intros m R Hm Hu.
  - cbn [app]. rewrite pushes_nil. reflexivity.
  - cbn [app]. rewrite tk_cons.
    destruct (Hu c (or_introl eq_refl)) as [H1 [H2 [H3 H4]]].
    destruct (markup_free_char_inert m c Hm H1 H2 H3 H4) as [Hc Hs]. rewrite Hc, Hs.
    rewrite IH; [apply push_pushes|exact Hm|]. intros d Hd. apply Hu. right. exact Hd.
Qed.

Lemma fill_shape segs : forall m u v, valid_mode m -> markup_free u -> markup_free v ->
  shape (tk m (fill segs u)) = shape (tk m (fill segs v)).
Proof.
  induction segs as [|g segs IH]; intros m u v Hm Hu Hv; [reflexivity|].
  unfold fill in *. cbn [flat_map]. destruct g as [s|].
  - destruct (tk_prefix s m) as [tp [pre [_ H]]]. rewrite !H, !shape_app, !shape_pushes.
    f_equal. apply IH; try assumption. apply mode_after_valid. exact Hm.
  - rewrite !tk_markup_free by assumption. rewrite !shape_pushes. apply IH; assumption.
Qed.

Lemma tokenize_fill_shape segs u v :
  markup_free u -> markup_free v -> shape (tokenize (fill segs u)) = shape (tokenize (fill segs v)).
Proof. apply fill_shape. exact I. Qed.

Lemma fill_escape_html_shape segs h1 h2 :
  shape (tokenize (fill segs (escape_html h1))) = shape (tokenize (fill segs (escape_html h2))).
Proof. apply fill_shape; [exact I|apply escape_html_markup_free|apply escape_html_markup_free]. Qed.

Lemma markup_freeb_sound s : markup_freeb s = true -> markup_free s.
Proof.
  intros H c Hc. pose proof (In_forallb _ _ _ H Hc) as K. cbn beta in K.
  apply negb_true_iff in K. repeat (apply orb_false_iff in K; destruct K as [K ?]).
  repeat split; apply Z.eqb_neq; assumption.
Qed.

(* <a href= dquote Ins dquote > Ins </a> *)
Example fill_example :
  let segs := [Fix [60; 97; 32; 104; 114; 101; 102; 61; 34]; Ins; Fix [34; 62]; Ins; Fix [60; 47; 97; 62]] in
  shape (tokenize (fill segs (escape_html [104; 34; 62; 60; 120; 62]))) = [KText; KTag; KText; KTag; KText]
  /\ shape (tokenize (fill segs [104; 34; 62; 60; 120; 62])) <> [KText; KTag; KText; KTag; KText].
Proof. vm_compute. split; [reflexivity|discriminate]. Qed.

(* ================================================================ Request.host never raises *)

Lemma split_on_nonempty c s : split_on c s <> [].
Proof.
  destruct s as [|x r]; cbn [split_on]; [discriminate|].
  destruct (x =? c); [discriminate|]. destruct (split_on c r); discriminate.
Qed.

Lemma split_on_two c s : In c s -> (2 <= length (split_on c s))%nat.
Proof.
  induction s as [|x r IH]; intros H; [contradiction|].
  cbn [split_on]. destruct (x =? c) eqn:E.
  - cbn [length]. pose proof (split_on_nonempty c r) as Hn. destruct (split_on c r); [contradiction|cbn [length]; lia].
  - destruct H as [H|H]; [subst x; rewrite Z.eqb_refl in E; discriminate|].
    specialize (IH H). destruct (split_on c r) as [|p ps]; [cbn in IH; lia|exact IH].
Qed.

Lemma nth_error_some {X} (l : list X) n : (n < length l)%nat -> exists x, nth_error l n = Some x.
Proof.
  intros H. destruct (nth_error l n) eqn:E; [eexists; reflexivity|].
  apply nth_error_None in E. lia.
Qed.

Lemma existsb_eqb_In c s : existsb (Z.eqb c) s = true -> In c s.
Proof.
  intros H. apply existsb_exists in H. destruct H as [x [Hx E]]. apply Z.eqb_eq in E. subst x. exact Hx.
Qed.

Lemma host_total e : host e <> None.
Proof.
  unfold host. destruct (x_fwd_host e) as [h|].
  - pose proof (split_on_nonempty 44 h) as Hn. destruct (split_on 44 h); [contradiction|]. cbn [nth_error]. discriminate.
  - destruct (http_host e) as [h|]; [|discriminate].
    destruct (existsb (Z.eqb 58) h) eqn:E; [|discriminate].
    pose proof (split_on_two 58 h (existsb_eqb_In 58 h E)) as H2.
    destruct (nth_error_some (split_on 58 h) 1) as [port Hp]; [lia|]. rewrite Hp.
    destruct (default_port (url_scheme e) port); [|discriminate].
    destruct (nth_error_some (split_on 58 h) 0) as [h0 H0]; [lia|]. rewrite H0. discriminate.
Qed.

Lemma host_url_total e : host_url e <> None.
Proof. unfold host_url. pose proof (host_total e) as H. destruct (host e); [discriminate|contradiction]. Qed.

(* joining the pieces with the separator gives the string back: split_on loses nothing *)
Fixpoint join_with (c : Z) (l : list str) : str :=
  match l with [] => [] | [p] => p | p :: ps => p ++ c :: join_with c ps end.

Lemma split_on_join c s : join_with c (split_on c s) = s.
Proof.
  induction s as [|x r IH]; [reflexivity|].
  cbn [split_on]. destruct (x =? c) eqn:E.
  - apply Z.eqb_eq in E. subst x. pose proof (split_on_nonempty c r) as Hn.
    destruct (split_on c r) as [|p ps] eqn:Es; [contradiction|]. cbn [join_with app]. cbn [join_with] in IH. rewrite IH. reflexivity.
  - pose proof (split_on_nonempty c r) as Hn. destruct (split_on c r) as [|p ps] eqn:Es; [contradiction|].
    destruct ps as [|q qs]; cbn [join_with app] in *; rewrite IH; reflexivity.
Qed.

(* IPv6 literal with port: [2001:db8::1]:8080 with scheme http *)
Example host_ipv6_example :
  host {| x_fwd_host := None; http_host := Some [91; 50; 48; 48; 49; 58; 100; 98; 56; 58; 58; 49; 93; 58; 56; 48; 56; 48];
          x_fwd_proto := None; wsgi_scheme := s_http; server_name := []; server_port := [] |}
  = Some [91; 50; 48; 48; 49; 58; 100; 98; 56; 58; 58; 49; 93; 58; 56; 48; 56; 48].
Proof. vm_compute. reflexivity. Qed.

Example host_default_port_example :   (* localhost:80 with http gives localhost *)
  host {| x_fwd_host := None; http_host := Some [108; 111; 99; 97; 108; 104; 111; 115; 116; 58; 56; 48];
          x_fwd_proto := None; wsgi_scheme := s_http; server_name := []; server_port := [] |}
  = Some [108; 111; 99; 97; 108; 104; 111; 115; 116].
Proof. vm_compute. reflexivity. Qed.

(* ================================================================ non-vacuity *)

(* <b a="1">&'  *)
Example ex_msg : str := [60; 98; 32; 97; 61; 34; 49; 34; 62; 38; 39].

Example html_escape_example :
  html_escape ex_msg =
  [38;108;116;59; 98; 32; 97; 61; 38;113;117;111;116;59; 49; 38;113;117;111;116;59; 38;103;116;59; 38;97;109;112;59; 38;35;120;50;55;59].
Proof. vm_compute. reflexivity. Qed.

Example escape_html_example :
  escape_html ex_msg = [38;108;116;59; 98; 32; 97; 61; 49; 38;103;116;59; 38;97;109;112;59].
Proof. vm_compute. reflexivity. Qed.

Example unescape_example : unescape (html_escape ex_msg) = ex_msg.
Proof. vm_compute. reflexivity. Qed.

(* an unescaped message does change the skeleton: the hypothesis `no <` of insertion_text is needed *)
Example unescaped_message_breaks_skeleton :
  skeleton (tokenize ([60; 97; 62] ++ ex_msg ++ [60; 47; 97; 62])) <> skeleton (tokenize ([60; 97; 62] ++ [] ++ [60; 47; 97; 62])).
Proof. vm_compute. discriminate. Qed.

Example tokenize_example :
  tokenize [60; 97; 32; 98; 61; 34; 62; 34; 62; 120; 60; 47; 97; 62; 10]    (* <a b=">">x</a>\n *)
  = [Text []; Tag [97; 32; 98; 61; 34; 62; 34]; Text [120]; Tag [47; 97]; Text [10]].
Proof. vm_compute. reflexivity. Qed.

Example templates_nonempty :
  Nat.leb 1 (length exception_templates) = true /\ Nat.leb 1 (length exception_codes) = true /\
  In tpl_wms111exception exception_templates /\ In tpl_ows_exception exception_templates.
Proof. vm_compute. repeat split; auto 40. Qed.

Example c_InvalidSRS : str := [73; 110; 118; 97; 108; 105; 100; 83; 82; 83].

(* the hypotheses of exception_documents_fixed are satisfiable *)
Example wms111_document : fixed_structure tpl_wms111exception (Some c_InvalidSRS) None.
Proof.
  apply exception_documents_fixed.
  - unfold exception_templates. cbn [In]. auto 8.
  - vm_compute. auto 40.
  - vm_compute. auto.
Qed.

(* and on a concrete hostile message the only non-blank text node is the escaped message *)
Example wms111_document_concrete :
  filter (fun t => negb (tok_blank t)) (tokenize (exception_doc_raw tpl_wms111exception ex_msg (Some c_InvalidSRS) None))
  = [Text (html_escape ex_msg)].
Proof. vm_compute. reflexivity. Qed.

Example ows_document_concrete :
  filter (fun t => negb (tok_blank t))
    (tokenize (exception_doc_raw tpl_ows_exception ex_msg (Some c_InvalidSRS) (Some [115; 101; 114; 118; 105; 99; 101])))
  = [Text (html_escape ex_msg)].
Proof. vm_compute. reflexivity. Qed.

(* U+0001 and a lone surrogate are replaced, the rest of the message survives *)
Example sanitize_example : xml_sanitize [97; 1; 55296; 233; 65534; 128512] = [97; 65533; 65533; 233; 65533; 128512].
Proof. vm_compute. reflexivity. Qed.

Example sanitized_document_example :
  filter (fun t => negb (tok_blank t)) (tokenize (exception_doc tpl_tms_exception [60; 1] None None))
  = [Text [38; 108; 116; 59; 65533]].
Proof. vm_compute. reflexivity. Qed.

(* a template that puts the message into an attribute is rejected by the check *)
Example bad_template_rejected :
  template_ok [A (Lit [60; 97; 32; 98; 61; 34]); A (Sub VExc); A (Lit [34; 47; 62])] None None = false.
Proof. vm_compute. reflexivity. Qed.

Example attr_position_example : attr_position c_quot [60; 97; 32; 104; 114; 101; 102; 61; 34].
Proof. vm_compute. reflexivity. Qed.

From Coq Require Import ZifyBool.

(* ================================================================ urllib.parse.quote, script_url, base_url *)

(* a unicode scalar value: what a Python str holds unless it contains lone surrogates *)
Definition scalar (c : Z) : Prop := 0 <= c < 55296 \/ 57343 < c < 1114112.

Lemma utf8_total c : scalar c -> utf8 c <> None.
Proof.
  unfold scalar, utf8. intros H.
  destruct (c <? 0) eqn:E0; [lia|].
  destruct (c <? 128) eqn:E1; [discriminate|].
  destruct (c <? 2048) eqn:E2; [discriminate|].
  destruct ((55296 <=? c) && (c <=? 57343)) eqn:E3; [lia|].
  destruct (c <? 65536) eqn:E4; [discriminate|].
  destruct (c <? 1114112) eqn:E5; [discriminate|lia].
Qed.

Lemma quote_total s : (forall c, In c s -> scalar c) -> quote s <> None.
Proof.
  induction s as [|c r IH]; intros H; cbn [quote]; [discriminate|].
  pose proof (utf8_total c (H c (or_introl eq_refl))) as Hc.
  destruct (utf8 c); [|contradiction].
  assert (Hr : quote r <> None) by (apply IH; intros x Hx; apply H; right; exact Hx).
  destruct (quote r); [discriminate|contradiction].
Qed.

(* the characters quote can emit: the safe set and the percent sign *)
Definition url_char (c : Z) : Prop := quote_safe c = true \/ c = 37.

Lemma hexdigit_safe d : 0 <= d < 16 -> quote_safe (hexdigit d) = true.
Proof. unfold hexdigit, quote_safe. intros H. destruct (d <? 10) eqn:E; lia. Qed.

Lemma quote_byte_chars b c : In c (quote_byte b) -> url_char c.
Proof.
  unfold quote_byte, url_char. destruct (quote_safe b) eqn:E; cbn [In].
  - intros [H|[]]. subst c. left. exact E.
  - intros [H|[H|[H|[]]]]; subst c.
    + right. reflexivity.
    + left. apply hexdigit_safe. apply Z.mod_pos_bound. lia.
    + left. apply hexdigit_safe. apply Z.mod_pos_bound. lia.
Qed.

Lemma quote_chars : forall s q, quote s = Some q -> forall c, In c q -> url_char c.
Proof.
  induction s as [|x r IH]; cbn [quote]; intros q Hq c Hc.
  - inversion Hq. subst q. contradiction.
  - destruct (utf8 x) as [bs|]; [|discriminate]. destruct (quote r) as [q'|]; [|discriminate].
    inversion Hq. subst q. apply in_app_or in Hc. destruct Hc as [Hc|Hc].
    + apply in_flat_map in Hc. destruct Hc as [b [_ Hb]]. exact (quote_byte_chars b c Hb).
    + exact (IH q' eq_refl c Hc).
Qed.

Lemma url_char_no_markup c : url_char c -> c <> c_lt /\ c <> c_gt /\ c <> c_quot /\ c <> c_apos /\ c <> c_amp.
Proof. unfold url_char, quote_safe, c_lt, c_gt, c_quot, c_apos, c_amp. intros [H|H]; lia. Qed.

Lemma quote_markup_free s q : quote s = Some q -> markup_free q.
Proof.
  intros Hq c Hc. pose proof (url_char_no_markup c (quote_chars s q Hq c Hc)) as H. tauto.
Qed.

Lemma markup_free_app a b : markup_free a -> markup_free b -> markup_free (a ++ b).
Proof. intros Ha Hb c Hc. apply in_app_or in Hc. destruct Hc; auto. Qed.

(* Request.base_url: whatever Host / X-Forwarded-* / SCRIPT_NAME / PATH_INFO are, the value contains no < > and no quote *)
Lemma base_url_markup_free e sn p u : base_url e sn p = Some u -> markup_free u.
Proof.
  unfold base_url. destruct (host_url e) as [hu|]; [|discriminate].
  destruct (quote (rstrip_c 47 (opt_default [] sn))) as [q1|] eqn:E1; [|discriminate].
  destruct (quote (opt_default [] p)) as [q2|] eqn:E2; [|discriminate].
  intros H. inversion H. subst u.
  apply markup_free_app; [apply escape_html_markup_free|].
  apply markup_free_app; eapply quote_markup_free; eassumption.
Qed.

Lemma lstrip_c_incl ch s c : In c (lstrip_c ch s) -> In c s.
Proof.
  induction s as [|x r IH]; cbn [lstrip_c]; [auto|].
  destruct (x =? ch); intros H; [right; auto|exact H].
Qed.

Lemma rstrip_c_incl ch s c : In c (rstrip_c ch s) -> In c s.
Proof. unfold rstrip_c. intros H. apply in_rev in H. apply lstrip_c_incl in H. apply in_rev in H. exact H. Qed.

(* never raises: for environ text without lone surrogates (PEP 3333: environ strings are latin-1 decoded bytes) *)
Lemma script_url_total e sn : (forall s c, sn = Some s -> In c s -> scalar c) -> script_url e sn <> None.
Proof.
  intros H. unfold script_url. pose proof (host_url_total e) as Hh. destruct (host_url e); [|contradiction].
  assert (Hq : quote (rstrip_c 47 (opt_default [47] sn)) <> None).
  { apply quote_total. intros c Hc. apply rstrip_c_incl in Hc. destruct sn as [s0|]; cbn [opt_default] in Hc.
    - exact (H s0 c eq_refl Hc).
    - destruct Hc as [Hc|[]]. subst c. left. lia. }
  destruct (quote _); [discriminate|contradiction].
Qed.

Lemma base_url_total e sn p :
  (forall s c, sn = Some s -> In c s -> scalar c) -> (forall s c, p = Some s -> In c s -> scalar c) -> base_url e sn p <> None.
Proof.
  intros H1 H2. unfold base_url. pose proof (host_url_total e) as Hh. destruct (host_url e); [|contradiction].
  assert (Hq1 : quote (rstrip_c 47 (opt_default [] sn)) <> None).
  { apply quote_total. intros c Hc. apply rstrip_c_incl in Hc. destruct sn as [s0|]; cbn [opt_default] in Hc; [exact (H1 s0 c eq_refl Hc)|contradiction]. }
  assert (Hq2 : quote (opt_default [] p) <> None).
  { apply quote_total. intros c Hc. destruct p as [s0|]; cbn [opt_default] in Hc; [exact (H2 s0 c eq_refl Hc)|contradiction]. }
  destruct (quote (rstrip_c 47 (opt_default [] sn))); [|contradiction].
  destruct (quote (opt_default [] p)); [discriminate|contradiction].
Qed.

(* capabilities documents (fill segs base_url): the token structure is the same for any two requests *)
Lemma fill_base_url_shape segs e1 sn1 p1 u1 e2 sn2 p2 u2 :
  base_url e1 sn1 p1 = Some u1 -> base_url e2 sn2 p2 = Some u2 ->
  shape (tokenize (fill segs u1)) = shape (tokenize (fill segs u2)).
Proof.
  intros H1 H2. apply tokenize_fill_shape; eapply base_url_markup_free; eassumption.
Qed.

(* the welcome page as MapProxyApp.__call__ builds it: welcome_response(escape_html(req.script_url)) *)
Lemma welcome_root_structure version :
  (forall c, In c version -> c <> c_lt) ->
  exists tp pre t ts, (forall s, t <> Text s) /\
    forall e sn u, script_url e sn = Some u ->
      tokenize (welcome_page version true u) = tp ++ tok_add (pre ++ escape_html u) t :: ts.
Proof.
  intros Hv. destruct (welcome_page_structure version Hv) as [tp [pre [t [ts [Ht H]]]]].
  exists tp, pre, t, ts. split; [exact Ht|]. intros e sn u _. apply H.
Qed.

(* /pre"fix<b>/ with http://h"x/  *)
Example script_url_example :
  script_url {| x_fwd_host := None; http_host := Some [104; 34; 120]; x_fwd_proto := None; wsgi_scheme := s_http;
                server_name := []; server_port := [] |} (Some [47; 112; 34; 60; 233; 47])
  = Some [104; 116; 116; 112; 58; 47; 47; 104; 34; 120; 47; 112; 37; 50; 50; 37; 51; 67; 37; 67; 51; 37; 65; 57].
Proof. vm_compute. reflexivity. Qed.

Example base_url_example :
  base_url {| x_fwd_host := None; http_host := Some [104; 34; 120]; x_fwd_proto := None; wsgi_scheme := s_http;
              server_name := []; server_port := [] |} None (Some [47; 60])
  = Some [104; 116; 116; 112; 58; 47; 47; 104; 120; 47; 37; 51; 67].
Proof. vm_compute. reflexivity. Qed.

Example quote_surrogate_raises : quote [97; 55296] = None.
Proof. vm_compute. reflexivity. Qed.

Lemma quote_chars_no_markup s q : quote s = Some q -> forall c, In c q ->
  (quote_safe c = true \/ c = 37) /\ c <> c_lt /\ c <> c_gt /\ c <> c_quot /\ c <> c_apos /\ c <> c_amp.
Proof.
  intros Hq c Hc. pose proof (quote_chars s q Hq c Hc) as H. split; [exact H|]. exact (url_char_no_markup c H).
Qed.
