(* Proofs about the exact grid model (C03). *)
From Coq Require Import ZArith List Bool Lia ZifyBool.
Import ListNotations.
From MP Require Import Grid.
Local Open Scope Z_scope.
Ltac Zify.zify_post_hook ::= Z.to_euclidean_division_equations.

(* well-formed grid: what TileGrid's constructor guarantees for sane configurations *)
Definition pos_res (g : grid) : Prop := forall r, In r (ress g) -> 0 < r.
Definition wf (g : grid) : Prop :=
  gx0 g < gx1 g /\ gy0 g < gy1 g /\ 0 < tw g /\ 0 < th g /\ pos_res g.

Lemma res_at_pos g l : wf g -> valid_level g l = true -> 0 < res_at g l.
Proof.
  intros (_ & _ & _ & _ & Hp) Hv. unfold valid_level, levels in Hv. unfold res_at.
  apply Hp. apply nth_In. lia.
Qed.

Definition in_bbox_halfopen (b : bbox) (px py : Z) : Prop :=
  let '(x0, y0, x1, y1) := b in x0 <= px < x1 /\ y0 <= py < y1.
(* for 'ul' grids rows are counted downwards from the top edge: the tile owns its top edge *)
Definition in_bbox_halfopen_ul (b : bbox) (px py : Z) : Prop :=
  let '(x0, y0, x1, y1) := b in x0 <= px < x1 /\ y0 < py <= y1.
Definition owns (g : grid) (b : bbox) (px py : Z) : Prop :=
  if ul g then in_bbox_halfopen_ul b px py else in_bbox_halfopen b px py.

Lemma div_bounds a s : 0 < s -> (a / s) * s <= a < (a / s) * s + s.
Proof. intros Hs. pose proof (Z.mod_pos_bound a s Hs). pose proof (Z.div_mod a s). nia. Qed.

(* the tile found for a point contains that point *)
Lemma point_in_own_tile g px py l :
  wf g -> valid_level g l = true ->
  let '(tx, ty) := tile g px py l in owns g (tile_bbox g tx ty l) px py.
Proof.
  intros Hwf Hv. pose proof (res_at_pos g l Hwf Hv) as Hr.
  destruct Hwf as (_ & _ & Htw & Hth & _).
  unfold tile, tile_bbox, owns. set (r := res_at g l) in *.
  assert (Hsx : 0 < r * tw g) by nia. assert (Hsy : 0 < r * th g) by nia.
  pose proof (div_bounds (px - gx0 g) (r * tw g) Hsx) as Hx.
  destruct (ul g); cbn [in_bbox_halfopen in_bbox_halfopen_ul].
  - pose proof (div_bounds (gy1 g - py) (r * th g) Hsy) as Hy. nia.
  - pose proof (div_bounds (py - gy0 g) (r * th g) Hsy) as Hy. nia.
Qed.

Lemma div_unique_bounds a s q : 0 < s -> q * s <= a < q * s + s -> a / s = q.
Proof. intros Hs H. symmetry. apply (Z.div_unique a s q (a - q * s)); lia. Qed.

(* a point owned by a tile's rectangle is mapped to that tile: tiles do not overlap *)
Lemma tile_of_owned g px py x y l :
  wf g -> valid_level g l = true ->
  owns g (tile_bbox g x y l) px py -> tile g px py l = (x, y).
Proof.
  intros Hwf Hv. pose proof (res_at_pos g l Hwf Hv) as Hr.
  destruct Hwf as (_ & _ & Htw & Hth & _).
  unfold tile, tile_bbox, owns. set (r := res_at g l) in *.
  assert (Hsx : 0 < r * tw g) by nia. assert (Hsy : 0 < r * th g) by nia.
  destruct (ul g); cbn [in_bbox_halfopen in_bbox_halfopen_ul]; intros [Hx Hy]; f_equal;
    apply div_unique_bounds; try assumption; nia.
Qed.

(* neighbouring tiles share edges: no gaps, no overlaps *)
Lemma tile_bbox_adjacent_x g x y l :
  let '(_, _, x1, _) := tile_bbox g x y l in
  let '(x0', _, _, _) := tile_bbox g (x + 1) y l in x1 = x0'.
Proof. unfold tile_bbox. destruct (ul g); nia. Qed.

Lemma tile_bbox_adjacent_y g x y l :
  let '(_, y0, _, y1) := tile_bbox g x y l in
  let '(_, y0', _, y1') := tile_bbox g x (y + 1) l in
  if ul g then y0 = y1' else y1 = y0'.
Proof. unfold tile_bbox. destruct (ul g); nia. Qed.

Lemma tile_bbox_size g x y l :
  let '(x0, y0, x1, y1) := tile_bbox g x y l in
  x1 - x0 = res_at g l * tw g /\ y1 - y0 = res_at g l * th g.
Proof. unfold tile_bbox. destruct (ul g); nia. Qed.

(* ---- grid sizes: the valid tiles cover the grid bbox except for a strip thinner than one pixel *)
Lemma cdiv_bounds a b : 0 < b -> a <= cdiv a b * b < a + b.
Proof. intros Hb. unfold cdiv. pose proof (div_bounds (- a) b Hb). nia. Qed.

Lemma axis_tiles_cover extent r t :
  0 < r -> 0 < t -> 0 < extent ->
  let n := axis_tiles extent r t in
  1 <= n /\ extent - r < n * (r * t) /\ (n - 1) * (r * t) < extent.
Proof.
  intros Hr Ht He. unfold axis_tiles.
  pose proof (cdiv_bounds (extent / r) t Ht) as Hc.
  pose proof (div_bounds extent r Hr) as Hd.
  assert (0 <= extent / r) by (apply Z.div_pos; lia).
  split; [lia|]. split; nia.
Qed.

Lemma grid_size_cover g l :
  wf g -> valid_level g l = true ->
  let '(nx, ny) := grid_size g l in
  let r := res_at g l in
  1 <= nx /\ 1 <= ny /\
  (gx1 g - gx0 g) - r < nx * (r * tw g) /\ (nx - 1) * (r * tw g) < gx1 g - gx0 g /\
  (gy1 g - gy0 g) - r < ny * (r * th g) /\ (ny - 1) * (r * th g) < gy1 g - gy0 g.
Proof.
  intros Hwf Hv. pose proof (res_at_pos g l Hwf Hv) as Hr.
  destruct Hwf as (Hx & Hy & Htw & Hth & _). unfold grid_size.
  pose proof (axis_tiles_cover (gx1 g - gx0 g) (res_at g l) (tw g) Hr Htw ltac:(lia)) as Hax.
  pose proof (axis_tiles_cover (gy1 g - gy0 g) (res_at g l) (th g) Hr Hth ltac:(lia)) as Hay.
  cbv zeta in Hax, Hay. tauto.
Qed.

(* ---- flipping between south-west and north-west numbering *)
Definition set_origin (g : grid) (o : bool) : grid :=
  mkGrid (gx0 g) (gy0 g) (gx1 g) (gy1 g) (tw g) (th g) (ress g) o (sf_n g) (sf_d g) (shr_n g) (shr_d g).

Lemma flip_involutive g x y l :
  let '(x', y', l') := flip_tile_coord g x y l in flip_tile_coord g x' y' l' = (x, y, l).
Proof. unfold flip_tile_coord. f_equal. f_equal. lia. Qed.

Lemma flip_preserves_validity g x y l :
  limit_tile g x y l = Some (x, y, l) ->
  let '(x', y', l') := flip_tile_coord g x y l in limit_tile g x' y' l' = Some (x', y', l').
Proof.
  unfold limit_tile, flip_tile_coord. destruct (negb (valid_level g l)); [discriminate|].
  destruct (grid_size g l) as [nx ny]. cbn [snd].
  destruct ((x <? 0) || (y <? 0) || (nx <=? x) || (ny <=? y)) eqn:E; [discriminate|]. intros _.
  replace ((x <? 0) || (ny - 1 - y <? 0) || (nx <=? x) || (ny <=? ny - 1 - y)) with false; [reflexivity|].
  symmetry. lia.
Qed.

(* vertical misalignment of the tiled area of a level with the grid bbox *)
Definition misalign (g : grid) (l : Z) : Z :=
  (gy1 g - gy0 g) - snd (grid_size g l) * (res_at g l * th g).

Definition shift_y (b : bbox) (d : Z) : bbox := let '(x0, y0, x1, y1) := b in (x0, y0 + d, x1, y1 + d).

(* ---- part A: flip rectangle *)
Lemma bbox_eq (a b c d a' b' c' d' : Z) : a = a' -> b = b' -> c = c' -> d = d' -> (a, b, c, d) = (a', b', c', d').
Proof. intros; subst; reflexivity. Qed.

Lemma grid_size_set_origin g o l : grid_size (set_origin g o) l = grid_size g l.
Proof. reflexivity. Qed.

Lemma flip_rectangle_shift g x y l :
  let '(x', y', l') := flip_tile_coord g x y l in
  tile_bbox (set_origin g (negb (ul g))) x' y' l' =
  shift_y (tile_bbox g x y l) (if ul g then - misalign g l else misalign g l).
Proof.
  unfold flip_tile_coord, tile_bbox, shift_y, misalign, grid_size, res_at, set_origin.
  cbn [ul gx0 gy0 gx1 gy1 tw th ress snd].
  destruct (ul g); cbn [negb]; apply bbox_eq; ring.
Qed.

Lemma level_bbox_y g l :
  wf g -> valid_level g l = true ->
  let '(_, ly0, _, ly1) := level_bbox g l in
  if ul g then (gy0 g - ly0 = - misalign g l /\ gy1 g - ly1 = 0)
  else (gy0 g - ly0 = 0 /\ gy1 g - ly1 = misalign g l).
Proof.
  intros Hwf Hv. pose proof (grid_size_cover g l Hwf Hv) as Hc.
  pose proof (res_at_pos g l Hwf Hv) as Hr.
  destruct Hwf as (_ & _ & Htw & Hth & _).
  unfold level_bbox, misalign. destruct (grid_size g l) as [nx ny]. cbn [snd].
  cbv zeta in Hc. destruct Hc as (Hnx & Hny & _).
  unfold tile_bbox, merge_bbox. set (r := res_at g l) in *.
  assert (0 < r * th g) by nia.
  destruct (ul g); split; nia.
Qed.

Lemma all_levels_from_spec f n : forall l0,
  all_levels_from f l0 n = true -> forall l, l0 <= l < l0 + Z.of_nat n -> f l = true.
Proof.
  induction n as [|n IH]; intros l0 H l Hl; [lia|].
  cbn [all_levels_from] in H. apply andb_true_iff in H. destruct H as [H0 H1].
  destruct (Z.eq_dec l l0) as [->|Hne]; [assumption|].
  apply (IH (l0 + 1) H1). lia.
Qed.

Definition ymag (g : grid) : Z := Z.max (Z.abs (gy0 g)) (Z.abs (gy1 g)).

Lemma supports_misalign_small g o l :
  wf g -> valid_level g l = true -> supports_access_with_origin g o = true -> o <> ul g ->
  Z.abs (misalign g l) * ten12 <= ymag g.
Proof.
  intros Hwf Hv Hs Ho. unfold supports_access_with_origin in Hs.
  destruct (Bool.eqb o (ul g)) eqn:E; [apply eqb_prop in E; contradiction|].
  assert (Hl : level_aligned g l = true).
  { apply (all_levels_from_spec _ _ 0 Hs). unfold valid_level, levels in Hv. lia. }
  pose proof (level_bbox_y g l Hwf Hv) as Hb.
  unfold level_aligned in Hl. destruct (level_bbox g l) as [[[lx0 ly0] lx1] ly1].
  unfold ymag. destruct (ul g); destruct Hb as [Hb0 Hb1]; rewrite Hb0, Hb1 in Hl; unfold ten12 in *; lia.
Qed.

(* tile coordinate as addressed with origin o *)
Definition coord_for_origin (g : grid) (o : bool) (x y l : Z) : Z * Z * Z :=
  if Bool.eqb o (ul g) then (x, y, l) else flip_tile_coord g x y l.

Lemma set_origin_same g : set_origin g (ul g) = g.
Proof. destruct g; reflexivity. Qed.

Lemma flip_preserves_rectangle g o x y l :
  wf g -> valid_level g l = true -> supports_access_with_origin g o = true ->
  let '(x', y', l') := coord_for_origin g o x y l in
  exists d, Z.abs d * ten12 <= ymag g /\
            tile_bbox (set_origin g o) x' y' l' = shift_y (tile_bbox g x y l) d.
Proof.
  intros Hwf Hv Hs. unfold coord_for_origin.
  destruct (Bool.eqb o (ul g)) eqn:E.
  - apply eqb_prop in E. subst o. exists 0. split; [unfold ymag; lia|].
    rewrite set_origin_same. unfold shift_y. destruct (tile_bbox g x y l) as [[[a b] c] d].
    apply bbox_eq; lia.
  - assert (Ho : o <> ul g) by (intros ->; rewrite eqb_reflx in E; discriminate).
    assert (o = negb (ul g)) as -> by (destruct o, (ul g); try reflexivity; exfalso; apply Ho; reflexivity).
    pose proof (flip_rectangle_shift g x y l) as Hf.
    pose proof (supports_misalign_small g _ l Hwf Hv Hs Ho) as Hm.
    destruct (flip_tile_coord g x y l) as [[x' y'] l'].
    exists (if ul g then - misalign g l else misalign g l). split; [|exact Hf].
    destruct (ul g); unfold ten12 in *; lia.
Qed.

(* coordinates below 10^12 quanta: the tolerance of supports_access_with_origin admits no misalignment at all *)
Lemma flip_preserves_rectangle_exact g o x y l :
  wf g -> valid_level g l = true -> supports_access_with_origin g o = true -> ymag g < ten12 ->
  let '(x', y', l') := coord_for_origin g o x y l in
  tile_bbox (set_origin g o) x' y' l' = tile_bbox g x y l.
Proof.
  intros Hwf Hv Hs Hm. pose proof (flip_preserves_rectangle g o x y l Hwf Hv Hs) as H.
  destruct (coord_for_origin g o x y l) as [[x' y'] l'].
  destruct H as (d & Hd & ->). assert (d = 0) as -> by (unfold ten12 in *; lia).
  unfold shift_y. destruct (tile_bbox g x y l) as [[[a b] c] e]. apply bbox_eq; lia.
Qed.

(* ---- part B: the valid tiles of a level *)
Lemma tile_or_none_limit g x y l :
  valid_level g l = true ->
  tile_or_none (fst (grid_size g l)) (snd (grid_size g l)) l x y = limit_tile g x y l.
Proof.
  intros Hv. unfold limit_tile, tile_or_none. rewrite Hv. cbn [negb].
  destruct (grid_size g l) as [nx ny]. reflexivity.
Qed.

Lemma limit_tile_some g x y l t :
  limit_tile g x y l = Some t ->
  t = (x, y, l) /\ valid_level g l = true /\ 0 <= x < fst (grid_size g l) /\ 0 <= y < snd (grid_size g l).
Proof.
  unfold limit_tile. destruct (valid_level g l); cbn [negb]; [|discriminate].
  destruct (grid_size g l) as [nx ny]. cbn [fst snd].
  destruct ((x <? 0) || (y <? 0) || (nx <=? x) || (ny <=? y)) eqn:E; [discriminate|].
  intros H. inversion H. repeat split; lia.
Qed.

Lemma limit_tile_valid g x y l :
  valid_level g l = true -> 0 <= x < fst (grid_size g l) -> 0 <= y < snd (grid_size g l) ->
  limit_tile g x y l = Some (x, y, l).
Proof.
  intros Hv Hx Hy. unfold limit_tile. rewrite Hv. cbn [negb].
  destruct (grid_size g l) as [nx ny]. cbn [fst snd] in *.
  replace ((x <? 0) || (y <? 0) || (nx <=? x) || (ny <=? y)) with false by (symmetry; lia). reflexivity.
Qed.

(* the area owned by the valid tiles of level l *)
Definition in_tiled_area (g : grid) (l px py : Z) : Prop :=
  let '(nx, ny) := grid_size g l in
  let r := res_at g l in
  gx0 g <= px < gx0 g + nx * (r * tw g) /\
  (if ul g then gy1 g - ny * (r * th g) < py <= gy1 g else gy0 g <= py < gy0 g + ny * (r * th g)).

Lemma div_range a s n : 0 < s -> (0 <= a / s < n <-> 0 <= a < n * s).
Proof. intros Hs. pose proof (div_bounds a s Hs). split; intros; nia. Qed.

Lemma tiled_area_iff g px py l :
  wf g -> valid_level g l = true ->
  let '(tx, ty) := tile g px py l in
  limit_tile g tx ty l = Some (tx, ty, l) <-> in_tiled_area g l px py.
Proof.
  intros Hwf Hv. pose proof (res_at_pos g l Hwf Hv) as Hr.
  destruct Hwf as (_ & _ & Htw & Hth & _).
  unfold tile, in_tiled_area. set (r := res_at g l) in *.
  assert (Hsx : 0 < r * tw g) by nia. assert (Hsy : 0 < r * th g) by nia.
  destruct (grid_size g l) as [nx ny] eqn:Eg.
  pose proof (div_range (px - gx0 g) (r * tw g) nx Hsx) as Hx.
  split.
  - intros H. apply limit_tile_some in H. rewrite Eg in H. cbn [fst snd] in H.
    destruct H as (_ & _ & Hx' & Hy').
    destruct (ul g).
    + pose proof (div_range (gy1 g - py) (r * th g) ny Hsy). lia.
    + pose proof (div_range (py - gy0 g) (r * th g) ny Hsy). lia.
  - intros [Hpx Hpy]. apply limit_tile_valid; [assumption| |]; rewrite Eg; cbn [fst snd].
    + lia.
    + destruct (ul g).
      * pose proof (div_range (gy1 g - py) (r * th g) ny Hsy). lia.
      * pose proof (div_range (py - gy0 g) (r * th g) ny Hsy). lia.
Qed.

Lemma grid_covers_bbox_upto_one_pixel g l :
  wf g -> valid_level g l = true ->
  let '(nx, ny) := grid_size g l in
  let r := res_at g l in
  (* the tiled area starts at the origin corner and misses less than one pixel of the grid bbox *)
  (gx1 g - gx0 g) - r < nx * (r * tw g) /\ (gy1 g - gy0 g) - r < ny * (r * th g) /\
  (* the last column / row starts inside the bbox *)
  (nx - 1) * (r * tw g) < gx1 g - gx0 g /\ (ny - 1) * (r * th g) < gy1 g - gy0 g /\
  (* a point is owned by a valid tile exactly when it lies in the tiled area *)
  (forall px py, let '(tx, ty) := tile g px py l in
                 limit_tile g tx ty l = Some (tx, ty, l) <-> in_tiled_area g l px py).
Proof.
  intros Hwf Hv. pose proof (grid_size_cover g l Hwf Hv) as Hc.
  destruct (grid_size g l) as [nx ny] eqn:Eg. cbv zeta in *.
  destruct Hc as (H1 & H2 & H3 & H4 & H5 & H6).
  split; [exact H3|]. split; [exact H5|]. split; [exact H4|]. split; [exact H6|].
  intros px py. exact (tiled_area_iff g px py l Hwf Hv).
Qed.

(* ---- part C: the tiles reported for a rectangle *)
Lemma zrange_length a b : length (zrange a b) = Z.to_nat (b + 1 - a).
Proof. unfold zrange. rewrite map_length, seq_length. reflexivity. Qed.

Lemma zrange_In a b x : In x (zrange a b) <-> a <= x <= b.
Proof.
  unfold zrange. rewrite in_map_iff. split.
  - intros (k & <- & Hk). apply in_seq in Hk. lia.
  - intros H. exists (Z.to_nat (x - a)). split; [lia|]. apply in_seq. lia.
Qed.

Lemma zrange_nth a b i d : (i < length (zrange a b))%nat -> nth i (zrange a b) d = a + Z.of_nat i.
Proof.
  intros Hi. rewrite zrange_length in Hi. unfold zrange.
  rewrite (nth_indep _ d (a + Z.of_nat 0)) by (rewrite map_length, seq_length; exact Hi).
  rewrite (map_nth (fun k => a + Z.of_nat k)). rewrite seq_nth by exact Hi. reflexivity.
Qed.

Lemma rev_zrange_nth a b i d :
  (i < length (zrange a b))%nat -> nth i (rev (zrange a b)) d = b - Z.of_nat i.
Proof.
  intros Hi. rewrite rev_nth by exact Hi. pose proof (zrange_length a b) as Hl.
  rewrite zrange_nth by lia. lia.
Qed.

Lemma nth_flat_map_rows {A B C : Type} (f : A -> B -> C) (xs : list B) (ys : list A) (dc : C) (da : A) (db : B) :
  forall i j, (i < length xs)%nat -> (j < length ys)%nat ->
  nth (j * length xs + i) (flat_map (fun y => map (f y) xs) ys) dc = f (nth j ys da) (nth i xs db).
Proof.
  intros i j Hi. revert j. induction ys as [|y ys IH]; intros j Hj; [cbn in Hj; lia|].
  cbn [flat_map]. destruct j as [|j].
  - cbn [Nat.mul Nat.add nth]. rewrite app_nth1 by (rewrite map_length; exact Hi).
    rewrite (nth_indep _ dc (f y db)) by (rewrite map_length; exact Hi). apply map_nth.
  - rewrite app_nth2 by (rewrite map_length; cbn [Nat.mul]; lia).
    rewrite map_length. replace (S j * length xs + i - length xs)%nat with (j * length xs + i)%nat by (cbn [Nat.mul]; lia).
    cbn [nth]. apply IH. cbn [length] in Hj. lia.
Qed.

Lemma flat_map_rows_length {A B C : Type} (f : A -> B -> C) (xs : list B) (ys : list A) :
  length (flat_map (fun y => map (f y) xs) ys) = (length ys * length xs)%nat.
Proof. induction ys as [|y ys IH]; [reflexivity|]. cbn [flat_map length]. rewrite app_length, map_length, IH. cbn [Nat.mul]. lia. Qed.

(* columns (west to east) and rows (as listed) of the block reported for rectangle b *)
Definition inset (g : grid) (l : Z) : Z := res_at g l / 10.
Definition aff_cols (g : grid) (b : bbox) (l : Z) : list Z :=
  let '(bx0, by0, bx1, by1) := b in
  zrange (fst (tile g (bx0 + inset g l) (by0 + inset g l) l)) (fst (tile g (bx1 - inset g l) (by1 - inset g l) l)).
Definition aff_rows (g : grid) (b : bbox) (l : Z) : list Z :=
  let '(bx0, by0, bx1, by1) := b in
  let ty0 := snd (tile g (bx0 + inset g l) (by0 + inset g l) l) in
  let ty1 := snd (tile g (bx1 - inset g l) (by1 - inset g l) l) in
  if ul g then zrange ty1 ty0 else rev (zrange ty0 ty1).

Lemma affected_unfold g b l :
  affected_level_tiles g b l =
  match aff_cols g b l, aff_rows g b l with
  | [], _ | _, [] => InvalidBBOX
  | xf :: _, yf :: _ =>
    Affected (merge_bbox (tile_bbox g xf (last (aff_rows g b l) yf) l) (tile_bbox g (last (aff_cols g b l) xf) yf l))
             (Z.of_nat (length (aff_cols g b l))) (Z.of_nat (length (aff_rows g b l)))
             (create_tile_list (aff_cols g b l) (aff_rows g b l) l (grid_size g l))
  end.
Proof. destruct b as [[[bx0 by0] bx1] by1]. reflexivity. Qed.

Lemma affected_inv g b l ab n m ts :
  affected_level_tiles g b l = Affected ab n m ts ->
  aff_cols g b l <> [] /\ aff_rows g b l <> [] /\
  n = Z.of_nat (length (aff_cols g b l)) /\ m = Z.of_nat (length (aff_rows g b l)) /\
  ts = create_tile_list (aff_cols g b l) (aff_rows g b l) l (grid_size g l).
Proof.
  rewrite affected_unfold. destruct (aff_cols g b l) as [|xf xs] eqn:Ex; [discriminate|].
  destruct (aff_rows g b l) as [|yf ys] eqn:Ey; [discriminate|].
  intros H. inversion H. repeat split; congruence.
Qed.

Lemma affected_some g b l :
  aff_cols g b l <> [] -> aff_rows g b l <> [] ->
  exists ab, affected_level_tiles g b l =
    Affected ab (Z.of_nat (length (aff_cols g b l))) (Z.of_nat (length (aff_rows g b l)))
             (create_tile_list (aff_cols g b l) (aff_rows g b l) l (grid_size g l)).
Proof.
  intros Hx Hy. rewrite affected_unfold. destruct (aff_cols g b l) as [|xf xs]; [contradiction|].
  destruct (aff_rows g b l) as [|yf ys]; [contradiction|]. eexists. reflexivity.
Qed.

Lemma create_tile_list_In xs ys l gs e :
  In e (create_tile_list xs ys l gs) <->
  exists x y, In x xs /\ In y ys /\ e = tile_or_none (fst gs) (snd gs) l x y.
Proof.
  unfold create_tile_list. rewrite in_flat_map. split.
  - intros (y & Hy & H). apply in_map_iff in H. destruct H as (x & <- & Hx). eauto.
  - intros (x & y & Hx & Hy & ->). exists y. split; [exact Hy|]. apply in_map_iff. eauto.
Qed.

Lemma aff_cols_In g b l x :
  let '(bx0, by0, bx1, by1) := b in
  In x (aff_cols g b l) <->
  fst (tile g (bx0 + inset g l) (by0 + inset g l) l) <= x <= fst (tile g (bx1 - inset g l) (by1 - inset g l) l).
Proof. destruct b as [[[bx0 by0] bx1] by1]. unfold aff_cols. apply zrange_In. Qed.

Lemma aff_rows_In g b l y :
  let '(bx0, by0, bx1, by1) := b in
  let ty0 := snd (tile g (bx0 + inset g l) (by0 + inset g l) l) in
  let ty1 := snd (tile g (bx1 - inset g l) (by1 - inset g l) l) in
  In y (aff_rows g b l) <-> if ul g then ty1 <= y <= ty0 else ty0 <= y <= ty1.
Proof.
  destruct b as [[[bx0 by0] bx1] by1]. unfold aff_rows. cbv zeta. destruct (ul g).
  - apply zrange_In.
  - rewrite <- in_rev. apply zrange_In.
Qed.

Lemma tile_mono_x g px px' py py' l :
  wf g -> valid_level g l = true -> px <= px' -> fst (tile g px py l) <= fst (tile g px' py' l).
Proof.
  intros Hwf Hv H. pose proof (res_at_pos g l Hwf Hv). destruct Hwf as (_ & _ & Htw & _).
  unfold tile. cbn [fst]. apply Z.div_le_mono; nia.
Qed.

Lemma tile_mono_y g px px' py py' l :
  wf g -> valid_level g l = true -> py <= py' ->
  if ul g then snd (tile g px' py' l) <= snd (tile g px py l) else snd (tile g px py l) <= snd (tile g px' py' l).
Proof.
  intros Hwf Hv H. pose proof (res_at_pos g l Hwf Hv). destruct Hwf as (_ & _ & _ & Hth & _).
  unfold tile. destruct (ul g); cbn [snd]; apply Z.div_le_mono; nia.
Qed.

(* cover: a point at least 1/10 pixel inside the rectangle has its tile listed (as Some when the tile is a
   tile of the grid, i.e. the point lies in the tiled area) *)
Lemma affected_tiles_cover g b l px py :
  wf g -> valid_level g l = true ->
  let '(bx0, by0, bx1, by1) := b in
  bx0 + inset g l <= px <= bx1 - inset g l -> by0 + inset g l <= py <= by1 - inset g l ->
  exists ab n m ts, affected_level_tiles g b l = Affected ab n m ts /\
    let '(tx, ty) := tile g px py l in In (limit_tile g tx ty l) ts.
Proof.
  intros Hwf Hv. destruct b as [[[bx0 by0] bx1] by1]. intros Hx Hy.
  set (b := (bx0, by0, bx1, by1)).
  assert (Hcx : In (fst (tile g px py l)) (aff_cols g b l)).
  { apply (aff_cols_In g b l). split; apply tile_mono_x; try assumption; lia. }
  assert (Hcy : In (snd (tile g px py l)) (aff_rows g b l)).
  { apply (aff_rows_In g b l). cbv zeta.
    pose proof (tile_mono_y g (bx0 + inset g l) px (by0 + inset g l) py l Hwf Hv ltac:(lia)) as H1.
    pose proof (tile_mono_y g px (bx1 - inset g l) py (by1 - inset g l) l Hwf Hv ltac:(lia)) as H2.
    destruct (ul g); lia. }
  destruct (affected_some g b l) as [ab Hab].
  { intros E. rewrite E in Hcx. contradiction. }
  { intros E. rewrite E in Hcy. contradiction. }
  eexists _, _, _, _. split; [exact Hab|].
  destruct (tile g px py l) as [tx ty] eqn:Et. cbn [fst snd] in *.
  apply create_tile_list_In. exists tx, ty. split; [exact Hcx|]. split; [exact Hcy|].
  symmetry. apply tile_or_none_limit. exact Hv.
Qed.

(* no tile merely touches: the rectangle of every listed tile reaches at least 1/10 pixel into the query
   rectangle from each of its four sides *)
Lemma affected_tiles_reach_inside g b l ab n m ts x y l' :
  wf g -> valid_level g l = true ->
  affected_level_tiles g b l = Affected ab n m ts -> In (Some (x, y, l')) ts ->
  let '(bx0, by0, bx1, by1) := b in
  let '(x0, y0, x1, y1) := tile_bbox g x y l in
  l' = l /\ x0 <= bx1 - inset g l /\ bx0 + inset g l <= x1 /\ y0 <= by1 - inset g l /\ by0 + inset g l <= y1.
Proof.
  intros Hwf Hv Ha Hin. apply affected_inv in Ha. destruct Ha as (_ & _ & _ & _ & ->).
  apply create_tile_list_In in Hin. destruct Hin as (cx & cy & Hcx & Hcy & He).
  unfold tile_or_none in He. destruct (_ || _) in He; [discriminate|]. inversion He; subst cx cy l'. clear He.
  pose proof (aff_cols_In g b l x) as Hx. pose proof (aff_rows_In g b l y) as Hy.
  destruct b as [[[bx0 by0] bx1] by1]. cbv zeta in Hy.
  apply Hx in Hcx. apply Hy in Hcy. clear Hx Hy.
  pose proof (res_at_pos g l Hwf Hv) as Hr. destruct Hwf as (_ & _ & Htw & Hth & _).
  unfold tile in *. cbn [fst snd] in *. unfold tile_bbox. set (r := res_at g l) in *. set (dl := inset g l) in *.
  assert (Hsx : 0 < r * tw g) by (apply Z.mul_pos_pos; assumption).
  assert (Hsy : 0 < r * th g) by (apply Z.mul_pos_pos; assumption).
  pose proof (div_bounds (bx0 + dl - gx0 g) (r * tw g) Hsx).
  pose proof (div_bounds (bx1 - dl - gx0 g) (r * tw g) Hsx).
  destruct (ul g).
  - pose proof (div_bounds (gy1 g - (by0 + dl)) (r * th g) Hsy).
    pose proof (div_bounds (gy1 g - (by1 - dl)) (r * th g) Hsy).
    split; [reflexivity|]. repeat split; nia.
  - pose proof (div_bounds (by0 + dl - gy0 g) (r * th g) Hsy).
    pose proof (div_bounds (by1 - dl - gy0 g) (r * th g) Hsy).
    split; [reflexivity|]. repeat split; nia.
Qed.

Lemma inset_le_res g l : wf g -> valid_level g l = true -> 0 <= inset g l <= res_at g l.
Proof. intros Hwf Hv. pose proof (res_at_pos g l Hwf Hv). unfold inset. lia. Qed.

(* ... hence it overlaps the rectangle by at least 1/10 pixel in both axes (for rectangles at least that big) *)
Lemma affected_tiles_no_touch g b l ab n m ts x y l' :
  wf g -> valid_level g l = true ->
  affected_level_tiles g b l = Affected ab n m ts -> In (Some (x, y, l')) ts ->
  let '(bx0, by0, bx1, by1) := b in
  inset g l <= bx1 - bx0 -> inset g l <= by1 - by0 ->
  let '(x0, y0, x1, y1) := tile_bbox g x y l in
  inset g l <= Z.min x1 bx1 - Z.max x0 bx0 /\ inset g l <= Z.min y1 by1 - Z.max y0 by0.
Proof.
  intros Hwf Hv Ha Hin. pose proof (affected_tiles_reach_inside g b l ab n m ts x y l' Hwf Hv Ha Hin) as H.
  pose proof (tile_bbox_size g x y l) as Hs. pose proof (inset_le_res g l Hwf Hv) as Hi.
  pose proof (res_at_pos g l Hwf Hv) as Hr. destruct Hwf as (_ & _ & Htw & Hth & _).
  destruct b as [[[bx0 by0] bx1] by1]. destruct (tile_bbox g x y l) as [[[x0 y0] x1] y1].
  intros Hw Hh. nia.
Qed.

(* every entry is limit_tile of its block position: Some exactly for the tiles of the grid *)
Lemma affected_tiles_valid g b l ab n m ts :
  valid_level g l = true ->
  affected_level_tiles g b l = Affected ab n m ts ->
  (forall e, In e ts -> exists x y, In x (aff_cols g b l) /\ In y (aff_rows g b l) /\ e = limit_tile g x y l) /\
  (forall t, In (Some t) ts -> let '(x, y, l') := t in limit_tile g x y l' = Some t).
Proof.
  intros Hv Ha. apply affected_inv in Ha. destruct Ha as (_ & _ & _ & _ & ->).
  assert (H1 : forall e, In e (create_tile_list (aff_cols g b l) (aff_rows g b l) l (grid_size g l)) ->
               exists x y, In x (aff_cols g b l) /\ In y (aff_rows g b l) /\ e = limit_tile g x y l).
  { intros e He. apply create_tile_list_In in He. destruct He as (x & y & Hx & Hy & ->).
    exists x, y. rewrite tile_or_none_limit by exact Hv. auto. }
  split; [exact H1|]. intros [[x y] l'] Ht. destruct (H1 _ Ht) as (cx & cy & _ & _ & He).
  symmetry in He. pose proof (limit_tile_some _ _ _ _ _ He) as (Heq & _). inversion Heq; subst. exact He.
Qed.

(* row-major from the top: entry number j*n + i is column (first column + i) of the j-th row counted from the
   row that contains the top edge of the (inset) rectangle; each row lies directly below the previous one *)
Definition aff_row (g : grid) (b : bbox) (l : Z) (j : nat) : Z :=
  let '(bx0, by0, bx1, by1) := b in
  let ytop := snd (tile g (bx1 - inset g l) (by1 - inset g l) l) in
  if ul g then ytop + Z.of_nat j else ytop - Z.of_nat j.
Definition aff_col (g : grid) (b : bbox) (l : Z) (i : nat) : Z :=
  let '(bx0, by0, bx1, by1) := b in
  fst (tile g (bx0 + inset g l) (by0 + inset g l) l) + Z.of_nat i.

Lemma aff_rows_nth g b l j d : (j < length (aff_rows g b l))%nat -> nth j (aff_rows g b l) d = aff_row g b l j.
Proof.
  destruct b as [[[bx0 by0] bx1] by1]. unfold aff_rows, aff_row. cbv zeta. destruct (ul g); intros Hj.
  - apply zrange_nth. exact Hj.
  - rewrite rev_length in Hj. apply rev_zrange_nth. exact Hj.
Qed.

Lemma aff_cols_nth g b l i d : (i < length (aff_cols g b l))%nat -> nth i (aff_cols g b l) d = aff_col g b l i.
Proof. destruct b as [[[bx0 by0] bx1] by1]. unfold aff_cols, aff_col. apply zrange_nth. Qed.

Lemma affected_tiles_row_major_from_top g b l ab n m ts :
  valid_level g l = true ->
  affected_level_tiles g b l = Affected ab n m ts ->
  let '(bx0, by0, bx1, by1) := b in
  let '(cx0, cy0) := tile g (bx0 + inset g l) (by0 + inset g l) l in
  let '(cx1, cy1) := tile g (bx1 - inset g l) (by1 - inset g l) l in
  n = cx1 - cx0 + 1 /\ m = (if ul g then cy0 - cy1 else cy1 - cy0) + 1 /\ 1 <= n /\ 1 <= m /\
  length ts = (Z.to_nat m * Z.to_nat n)%nat /\
  (forall i j, (i < Z.to_nat n)%nat -> (j < Z.to_nat m)%nat ->
     nth (j * Z.to_nat n + i) ts None = limit_tile g (cx0 + Z.of_nat i) (aff_row g b l j) l) /\
  (* the row listed first contains the top edge of the inset rectangle, every further row lies directly below *)
  aff_row g b l 0 = cy1 /\
  (forall x j, let '(_, _, _, y1) := tile_bbox g x (aff_row g b l j) l in
               let '(_, y0', _, y1') := tile_bbox g x (aff_row g b l (S j)) l in y1' = y1 - res_at g l * th g /\ y0' = y1' - res_at g l * th g).
Proof.
  intros Hv Ha. apply affected_inv in Ha. destruct Ha as (Hx & Hy & -> & -> & ->).
  assert (Hlx : (0 < length (aff_cols g b l))%nat) by (destruct (aff_cols g b l); [contradiction|cbn; lia]).
  assert (Hly : (0 < length (aff_rows g b l))%nat) by (destruct (aff_rows g b l); [contradiction|cbn; lia]).
  pose proof (aff_cols_nth g b l) as Hcn. pose proof (aff_rows_nth g b l) as Hrn.
  assert (Hlen : length (create_tile_list (aff_cols g b l) (aff_rows g b l) l (grid_size g l)) =
                 (length (aff_rows g b l) * length (aff_cols g b l))%nat) by apply flat_map_rows_length.
  assert (Hnth : forall i j, (i < length (aff_cols g b l))%nat -> (j < length (aff_rows g b l))%nat ->
            nth (j * length (aff_cols g b l) + i) (create_tile_list (aff_cols g b l) (aff_rows g b l) l (grid_size g l)) None
            = limit_tile g (aff_col g b l i) (aff_row g b l j) l).
  { intros i j Hi Hj. unfold create_tile_list.
    rewrite (nth_flat_map_rows (fun y x => tile_or_none (fst (grid_size g l)) (snd (grid_size g l)) l x y) _ _ None 0 0 i j Hi Hj).
    rewrite Hcn, Hrn by assumption. apply tile_or_none_limit. exact Hv. }
  revert Hlx Hly Hlen Hnth. clear Hcn Hrn Hx Hy.
  destruct b as [[[bx0 by0] bx1] by1]. unfold aff_col, aff_row, aff_cols, aff_rows. cbv zeta.
  destruct (tile g (bx0 + inset g l) (by0 + inset g l) l) as [cx0 cy0].
  destruct (tile g (bx1 - inset g l) (by1 - inset g l) l) as [cx1 cy1]. cbn [fst snd].
  assert (Hrl : length (if ul g then zrange cy1 cy0 else rev (zrange cy0 cy1)) =
                Z.to_nat ((if ul g then cy0 - cy1 else cy1 - cy0) + 1)).
  { destruct (ul g); [|rewrite rev_length]; rewrite zrange_length; f_equal; lia. }
  rewrite Hrl. rewrite zrange_length. intros Hlx Hly Hlen Hnth.
  split; [lia|]. split; [lia|]. split; [lia|]. split; [lia|].
  rewrite !Nat2Z.id. split; [exact Hlen|]. split; [exact Hnth|].
  split; [destruct (ul g); lia|].
  intros x j. unfold tile_bbox. destruct (ul g); split; nia.
Qed.

(* ---- part D: level choice.  The requested resolution is the rational rn / rd. *)
(* level l offers the requested resolution or a coarser one within the stretch factor: res <= r_l <= res * stretch *)
Definition level_within (g : grid) (rn rd l : Z) : Prop :=
  rn <= res_at g l * rd /\ res_at g l * rd * sf_d g <= rn * sf_n g.
(* level l is finer than requested: r_l < res *)
Definition level_finer (g : grid) (rn rd l : Z) : Prop := res_at g l * rd < rn.
Definition decreasing_res (g : grid) : Prop :=
  forall i j, 0 <= i -> i < j -> j < levels g -> res_at g j < res_at g i.

Definition closest_level_spec_of (g : grid) (rn rd k : Z) : Prop :=
  0 <= k < levels g /\
  ((level_within g rn rd k /\ forall j, k < j < levels g -> ~ level_within g rn rd j)
   \/ ((forall j, 0 <= j < levels g -> ~ level_within g rn rd j) /\
       level_finer g rn rd k /\ forall j, 0 <= j < k -> ~ level_finer g rn rd j)
   \/ ((forall j, 0 <= j < levels g -> ~ level_within g rn rd j /\ ~ level_finer g rn rd j) /\ k = levels g - 1)).

(* rs is the tail of the resolution list starting at level lv *)
Fixpoint res_tail (g : grid) (lv : Z) (rs : list Z) : Prop :=
  match rs with
  | [] => True
  | r :: rest => r = res_at g lv /\ res_tail g (lv + 1) rest
  end.

Lemma res_tail_app pre : forall rs g0 lv,
  ress g0 = pre ++ rs -> lv = Z.of_nat (length pre) -> res_tail g0 lv rs.
Proof.
  intros rs. revert pre. induction rs as [|r rest IH]; intros pre g0 lv Hr Hl; [exact I|].
  cbn [res_tail]. split.
  - unfold res_at. rewrite Hr, Hl, Nat2Z.id. rewrite app_nth2 by lia. rewrite Nat.sub_diag. reflexivity.
  - apply (IH (pre ++ [r])).
    + rewrite <- app_assoc. exact Hr.
    + rewrite app_length. cbn [length]. lia.
Qed.

Lemma res_tail_all g : res_tail g 0 (ress g).
Proof. apply (res_tail_app []); reflexivity. Qed.

Section Closest.
Variable g : grid.
Variables rn rd : Z.
Hypothesis Hdec : decreasing_res g.
Hypothesis Hrd : 0 < rd.
Hypothesis Hrn : 0 < rn.
Hypothesis Hsf : 0 < sf_d g <= sf_n g.

(* a threshold level t has been remembered and every remaining level is finer than requested *)
Lemma loop_all_finer : forall rs lv t,
  res_tail g lv rs -> 0 <= lv -> lv + Z.of_nat (length rs) = levels g ->
  (forall j, lv <= j < levels g -> level_finer g rn rd j) ->
  closest_level_loop g rn rd rs lv (Some t) t = t.
Proof.
  intros [|r rest] lv t Ht Hlv Hlen Hf; [reflexivity|].
  cbn [closest_level_loop]. destruct Ht as [-> _].
  assert (Hfl : level_finer g rn rd lv) by (apply Hf; cbn [length] in Hlen; lia).
  unfold level_finer in Hfl. replace (res_at g lv * rd <? rn) with true by (symmetry; lia). reflexivity.
Qed.

(* level lv-1 is remembered and is within the stretch factor *)
Lemma loop_within : forall rs lv,
  res_tail g lv rs -> 1 <= lv -> lv + Z.of_nat (length rs) = levels g ->
  level_within g rn rd (lv - 1) ->
  let k := closest_level_loop g rn rd rs lv (Some (lv - 1)) (lv - 1) in
  lv - 1 <= k < levels g /\ level_within g rn rd k /\ forall j, k < j < levels g -> ~ level_within g rn rd j.
Proof.
  induction rs as [|r rest IH]; intros lv Ht Hlv Hlen Hw; cbn [closest_level_loop length] in *.
  - split; [lia|]. split; [exact Hw|]. intros j Hj. lia.
  - destruct Ht as [-> Ht]. destruct (res_at g lv * rd <? rn) eqn:E.
    + split; [lia|]. split; [exact Hw|]. intros j Hj [Hj1 _].
      assert (res_at g j <= res_at g lv).
      { destruct (Z.eq_dec j lv) as [->|]; [lia|]. pose proof (Hdec lv j ltac:(lia) ltac:(lia) ltac:(lia)). lia. }
      nia.
    + assert (Hw' : level_within g rn rd lv).
      { unfold level_within in *. split; [lia|].
        pose proof (Hdec (lv - 1) lv ltac:(lia) ltac:(lia) ltac:(lia)) as Hd1.
        assert (Hp : 0 < rd * sf_d g) by nia. destruct Hw as [_ Hw2].
        assert (res_at g lv * (rd * sf_d g) <= res_at g (lv - 1) * (rd * sf_d g)) by (apply Z.mul_le_mono_nonneg_r; lia).
        lia. }
      destruct Hw' as [Hw1 Hw2].
      replace (res_at g lv * rd * sf_d g <=? rn * sf_n g) with true by (symmetry; lia).
      specialize (IH (lv + 1) Ht ltac:(lia) ltac:(lia)).
      replace (lv + 1 - 1) with lv in IH by lia.
      specialize (IH (conj Hw1 Hw2)). cbv zeta in IH. destruct IH as (Hk & Hkw & Hkj).
      split; [lia|]. split; assumption.
Qed.

(* nothing remembered yet: every level before lv is coarser than res * stretch *)
Lemma loop_none : forall rs lv,
  res_tail g lv rs -> 0 <= lv -> lv + Z.of_nat (length rs) = levels g -> 0 < levels g ->
  (forall j, 0 <= j < lv -> rn * sf_n g < res_at g j * rd * sf_d g) ->
  closest_level_spec_of g rn rd (closest_level_loop g rn rd rs lv None (lv - 1)).
Proof.
  induction rs as [|r rest IH]; intros lv Ht Hlv Hlen Hne Hc; cbn [closest_level_loop length] in *.
  - (* no level within the stretch factor, none finer: the last level *)
    unfold closest_level_spec_of. split; [lia|]. right. right. split; [|lia].
    intros j Hj. specialize (Hc j ltac:(lia)). unfold level_within, level_finer. split; [lia|]. nia.
  - destruct Ht as [-> Ht]. destruct (res_at g lv * rd * sf_d g <=? rn * sf_n g) eqn:E.
    + destruct (Z_lt_le_dec (res_at g lv * rd) rn) as [Hfin|Hge].
      * (* first level below res * stretch is already finer than requested *)
        assert (Hall : forall j, lv <= j < levels g -> level_finer g rn rd j).
        { intros j Hj. unfold level_finer. destruct (Z.eq_dec j lv) as [->|]; [exact Hfin|].
          pose proof (Hdec lv j ltac:(lia) ltac:(lia) ltac:(lia)). nia. }
        replace (lv + 1 - 1) with lv by lia.
        rewrite (loop_all_finer rest (lv + 1) lv Ht ltac:(lia) ltac:(lia)) by (intros j Hj; apply Hall; lia).
        unfold closest_level_spec_of. split; [lia|]. right. left. split; [|split].
        -- intros j Hj. destruct (Z_lt_le_dec j lv).
           ++ specialize (Hc j ltac:(lia)). unfold level_within. lia.
           ++ specialize (Hall j ltac:(lia)). unfold level_within, level_finer in *. lia.
        -- apply Hall. lia.
        -- intros j Hj. specialize (Hc j ltac:(lia)). unfold level_finer. nia.
      * pose proof (loop_within rest (lv + 1) Ht ltac:(lia) ltac:(lia)) as Hlw.
        replace (lv + 1 - 1) with lv in * by lia.
        specialize (Hlw ltac:(unfold level_within; lia)). cbv zeta in Hlw.
        destruct Hlw as (Hk & Hkw & Hkj). unfold closest_level_spec_of. split; [lia|]. left. split; assumption.
    + replace (lv + 1 - 1) with lv by lia.
      specialize (IH (lv + 1) Ht ltac:(lia) ltac:(lia) Hne). replace (lv + 1 - 1) with lv in IH by lia.
      apply IH. intros j Hj. destruct (Z.eq_dec j lv) as [->|]; [lia|]. apply Hc. lia.
Qed.

Lemma closest_level_spec_in_section : 0 < levels g -> closest_level_spec_of g rn rd (closest_level g rn rd).
Proof.
  intros Hne. unfold closest_level. apply (loop_none (ress g) 0 (res_tail_all g)); try lia.
  unfold levels. lia.
Qed.
End Closest.

Lemma closest_level_spec g rn rd :
  decreasing_res g -> 0 < levels g -> 0 < rd -> 0 < rn -> 0 < sf_d g <= sf_n g ->
  closest_level_spec_of g rn rd (closest_level g rn rd).
Proof. intros Hd Hl Hrd Hrn Hsf. apply closest_level_spec_in_section; assumption. Qed.

(* the specification determines the level *)
Lemma closest_level_spec_unique g rn rd k k' :
  closest_level_spec_of g rn rd k -> closest_level_spec_of g rn rd k' -> k = k'.
Proof.
  unfold closest_level_spec_of. intros [Hk H] [Hk' H'].
  destruct H as [[Hw Hn]|[[Hn [Hf Hc]]|[Hn ->]]]; destruct H' as [[Hw' Hn']|[[Hn' [Hf' Hc']]|[Hn' ->]]].
  - destruct (Z.lt_trichotomy k k') as [Hlt|[Heq|Hgt]]; [|exact Heq|].
    + exfalso. apply (Hn k'); [lia|exact Hw'].
    + exfalso. apply (Hn' k); [lia|exact Hw].
  - exfalso. apply (Hn' k); [lia|exact Hw].
  - exfalso. destruct (Hn' k ltac:(lia)) as [A _]. exact (A Hw).
  - exfalso. apply (Hn k'); [lia|exact Hw'].
  - destruct (Z.lt_trichotomy k k') as [Hlt|[Heq|Hgt]]; [|exact Heq|].
    + exfalso. apply (Hc' k); [lia|exact Hf].
    + exfalso. apply (Hc k'); [lia|exact Hf'].
  - exfalso. destruct (Hn' k ltac:(lia)) as [_ B]. exact (B Hf).
  - exfalso. destruct (Hn k' ltac:(lia)) as [A _]. exact (A Hw').
  - exfalso. destruct (Hn k' ltac:(lia)) as [_ B]. exact (B Hf').
  - reflexivity.
Qed.

(* ---- non-vacuity: concrete grids satisfying the hypotheses of the theorems above *)
(* bbox not a multiple of the tile span, non-square tiles, three levels, stretch 23/20 = 1.15 *)
Definition ex_grid : grid := mkGrid (-1000) (-500) 3070 2110 4 2 [100; 50; 20] false 23 20 4 1.
(* aligned: 800 x 400 with 200 x 100 pixel-unit tiles of level 0, north-west numbering *)
Definition ex_aligned : grid := mkGrid 0 0 800 400 4 2 [100; 50] true 23 20 4 1.

Lemma ex_grid_wf : wf ex_grid.
Proof.
  unfold wf, pos_res. cbn [ex_grid gx0 gy0 gx1 gy1 tw th ress]. repeat (split; [lia|]).
  intros r [<-|[<-|[<-|[]]]]; lia.
Qed.
Lemma ex_aligned_wf : wf ex_aligned.
Proof.
  unfold wf, pos_res. cbn [ex_aligned gx0 gy0 gx1 gy1 tw th ress]. repeat (split; [lia|]).
  intros r [<-|[<-|[]]]; lia.
Qed.
Lemma ex_grid_decreasing : decreasing_res ex_grid.
Proof.
  intros i j Hi Hij Hj. change (levels ex_grid) with 3 in Hj.
  assert (Hc : (i = 0 /\ j = 1) \/ (i = 0 /\ j = 2) \/ (i = 1 /\ j = 2)) by lia.
  destruct Hc as [[-> ->]|[[-> ->]|[-> ->]]]; vm_compute; reflexivity.
Qed.

Example ex_point_in_own_tile : tile ex_grid 1234 (-77) 2 = (27, 10) /\ owns ex_grid (tile_bbox ex_grid 27 10 2) 1234 (-77).
Proof. split; [reflexivity|]. exact (point_in_own_tile ex_grid 1234 (-77) 2 ex_grid_wf eq_refl). Qed.

(* the strip not covered: the bbox is 4070 x 2610; level 2 (res 20, tiles of 80 x 40) has 51 x 65 tiles = 4080 x 2600:
   the top 10 units (half a pixel) of the bbox belong to no tile of the grid *)
Example ex_grid_sizes : grid_sizes ex_grid = [(10, 13); (21, 26); (51, 65)].
Proof. reflexivity. Qed.
Example ex_tiled_area : in_tiled_area ex_grid 2 3069 2099 /\ ~ in_tiled_area ex_grid 2 3069 2105.
Proof.
  unfold in_tiled_area. change (grid_size ex_grid 2) with (51, 65). change (res_at ex_grid 2) with 20.
  cbn [ex_grid ul gx0 gy0 gx1 gy1 tw th]. split; lia.
Qed.

Example ex_supports : supports_access_with_origin ex_aligned false = true /\ supports_access_with_origin ex_grid true = false.
Proof. split; reflexivity. Qed.
Example ex_flip_rectangle :
  coord_for_origin ex_aligned false 1 0 1 = (1, 3, 1) /\
  tile_bbox (set_origin ex_aligned false) 1 3 1 = tile_bbox ex_aligned 1 0 1.
Proof.
  split; [reflexivity|].
  exact (flip_preserves_rectangle_exact ex_aligned false 1 0 1 ex_aligned_wf eq_refl eq_refl eq_refl).
Qed.
(* without the compatibility test the rectangles differ: level 0 of ex_grid is misaligned by 10 *)
Example ex_flip_misaligned :
  tile_bbox (set_origin ex_grid true) 0 12 0 <> tile_bbox ex_grid 0 0 0 /\ misalign ex_grid 0 = 10.
Proof. split; [vm_compute; discriminate|reflexivity]. Qed.

(* a rectangle across the east edge of the grid at level 1 (inset 5): 3 columns x 2 rows listed from the top row,
   the third column (21) is outside the grid (21 columns: 0..20) *)
Example ex_affected :
  affected_level_tiles ex_grid (2900, 195, 3205, 305) 1 =
  Affected (2800, 200, 3400, 400) 3 2 [Some (19, 8, 1); Some (20, 8, 1); None; Some (19, 7, 1); Some (20, 7, 1); None].
Proof. vm_compute. reflexivity. Qed.
(* hypotheses of affected_tiles_cover / no_touch are satisfiable on it *)
Example ex_affected_cover :
  exists ab n m ts, affected_level_tiles ex_grid (2900, 195, 3205, 305) 1 = Affected ab n m ts /\ In (Some (20, 7, 1)) ts.
Proof.
  exact (affected_tiles_cover ex_grid (2900, 195, 3205, 305) 1 3000 250 ex_grid_wf eq_refl
           ltac:(vm_compute; split; discriminate) ltac:(vm_compute; split; discriminate)).
Qed.
Example ex_affected_no_touch :
  let '(x0, y0, x1, y1) := tile_bbox ex_grid 19 8 1 in
  5 <= Z.min x1 3205 - Z.max x0 2900 /\ 5 <= Z.min y1 305 - Z.max y0 195.
Proof.
  exact (affected_tiles_no_touch ex_grid (2900, 195, 3205, 305) 1 _ _ _ _ 19 8 1 ex_grid_wf eq_refl ex_affected
           (or_introl eq_refl) ltac:(vm_compute; discriminate) ltac:(vm_compute; discriminate)).
Qed.

(* level choice on ex_grid (resolutions 100, 50, 20; stretch 1.15): 45 -> level 1 (50 <= 45 * 1.15), 43 -> level 2
   (50 > 43 * 1.15 = 49.45: the coarsest finer level), 10 -> level 2 (nothing fine enough: the last level) *)
Example ex_closest : closest_level ex_grid 45 1 = 1 /\ closest_level ex_grid 43 1 = 2 /\ closest_level ex_grid 10 1 = 2
                     /\ closest_level ex_grid 100 1 = 0 /\ closest_level ex_grid 500 1 = 0.
Proof. repeat split; reflexivity. Qed.
Example ex_closest_spec : closest_level_spec_of ex_grid 45 1 1.
Proof.
  exact (closest_level_spec ex_grid 45 1 ex_grid_decreasing ltac:(vm_compute; reflexivity) ltac:(lia) ltac:(lia)
           ltac:(cbn; lia)).
Qed.

(* ---- the reported bbox *)
Lemma zrange_cons a b : a <= b -> zrange a b = a :: zrange (a + 1) b.
Proof.
  intros H. unfold zrange. replace (Z.to_nat (b + 1 - a)) with (S (Z.to_nat (b + 1 - (a + 1)))) by lia.
  cbn [seq map]. f_equal; [lia|]. rewrite <- seq_shift, map_map. apply map_ext. intros k. lia.
Qed.

Lemma zrange_snoc a b : a <= b -> zrange a b = zrange a (b - 1) ++ [b].
Proof.
  intros H. unfold zrange. replace (Z.to_nat (b + 1 - a)) with (S (Z.to_nat (b - 1 + 1 - a))) by lia.
  rewrite seq_S, map_app. cbn [map Nat.add]. f_equal. f_equal. lia.
Qed.

Lemma zrange_empty a b : b < a -> zrange a b = [].
Proof. intros H. unfold zrange. replace (Z.to_nat (b + 1 - a)) with O by lia. reflexivity. Qed.

Lemma zrange_first_last a b :
  match zrange a b with
  | [] => b < a
  | f :: _ => a <= b /\ f = a /\ last (zrange a b) f = b
  end.
Proof.
  destruct (Z_lt_le_dec b a) as [H|H].
  - rewrite zrange_empty by exact H. exact H.
  - rewrite (zrange_cons a b H). split; [exact H|]. split; [reflexivity|].
    rewrite <- (zrange_cons a b H). rewrite (zrange_snoc a b H). apply last_last.
Qed.

Lemma rev_zrange_first_last a b :
  match rev (zrange a b) with
  | [] => b < a
  | f :: _ => a <= b /\ f = b /\ last (rev (zrange a b)) f = a
  end.
Proof.
  destruct (Z_lt_le_dec b a) as [H|H].
  - rewrite zrange_empty by exact H. exact H.
  - assert (E1 : rev (zrange a b) = b :: rev (zrange a (b - 1))).
    { rewrite (zrange_snoc a b H) at 1. rewrite rev_app_distr. reflexivity. }
    assert (E2 : rev (zrange a b) = rev (zrange (a + 1) b) ++ [a]).
    { rewrite (zrange_cons a b H) at 1. reflexivity. }
    destruct (rev (zrange a b)) as [|f r] eqn:Er; [discriminate|]. injection E1 as -> Hr.
    split; [exact H|]. split; [reflexivity|]. rewrite E2. apply last_last.
Qed.

(* the reported bbox is the union of the rectangle of the tile containing the lower left inset corner and the
   rectangle of the tile containing the upper right inset corner, i.e. the rectangle of the listed block *)
Lemma affected_bbox_is_block g b l ab n m ts :
  wf g -> valid_level g l = true ->
  affected_level_tiles g b l = Affected ab n m ts ->
  let '(bx0, by0, bx1, by1) := b in
  let '(cx0, cy0) := tile g (bx0 + inset g l) (by0 + inset g l) l in
  let '(cx1, cy1) := tile g (bx1 - inset g l) (by1 - inset g l) l in
  let '(x0, y0, _, _) := tile_bbox g cx0 cy0 l in
  let '(_, _, x1, y1) := tile_bbox g cx1 cy1 l in
  cx0 <= cx1 /\ (if ul g then cy1 <= cy0 else cy0 <= cy1) /\ ab = (x0, y0, x1, y1).
Proof.
  intros Hwf Hv. pose proof (res_at_pos g l Hwf Hv) as Hr. destruct Hwf as (_ & _ & Htw & Hth & _).
  rewrite affected_unfold. destruct b as [[[bx0 by0] bx1] by1]. unfold aff_cols, aff_rows. cbv zeta.
  destruct (tile g (bx0 + inset g l) (by0 + inset g l) l) as [cx0 cy0].
  destruct (tile g (bx1 - inset g l) (by1 - inset g l) l) as [cx1 cy1]. cbn [fst snd].
  pose proof (zrange_first_last cx0 cx1) as Hx.
  destruct (zrange cx0 cx1) as [|xf xs] eqn:Ex; [discriminate|]. destruct Hx as (Hx & -> & Hxl).
  assert (Hsx : 0 < res_at g l * tw g) by (apply Z.mul_pos_pos; assumption).
  assert (Hsy : 0 < res_at g l * th g) by (apply Z.mul_pos_pos; assumption).
  destruct (ul g) eqn:Eul.
  - pose proof (zrange_first_last cy1 cy0) as Hy.
    destruct (zrange cy1 cy0) as [|yf ys] eqn:Ey; [discriminate|]. destruct Hy as (Hy & -> & Hyl).
    intros H. injection H as Hab _ _ _. rewrite <- Hab. cbn [last] in Hxl, Hyl. rewrite Hxl, Hyl. unfold tile_bbox, merge_bbox. rewrite Eul.
    split; [exact Hx|]. split; [exact Hy|]. apply bbox_eq; nia.
  - pose proof (rev_zrange_first_last cy0 cy1) as Hy.
    destruct (rev (zrange cy0 cy1)) as [|yf ys] eqn:Ey; [discriminate|]. destruct Hy as (Hy & -> & Hyl).
    intros H. injection H as Hab _ _ _. rewrite <- Hab. cbn [last] in Hxl, Hyl. rewrite Hxl, Hyl. unfold tile_bbox, merge_bbox. rewrite Eul.
    split; [exact Hx|]. split; [exact Hy|]. apply bbox_eq; nia.
Qed.

(* the call is refused (GridError 'Invalid BBOX') exactly when the inset corners are in the wrong order *)
Lemma affected_invalid_iff g b l :
  let '(bx0, by0, bx1, by1) := b in
  let '(cx0, cy0) := tile g (bx0 + inset g l) (by0 + inset g l) l in
  let '(cx1, cy1) := tile g (bx1 - inset g l) (by1 - inset g l) l in
  affected_level_tiles g b l = InvalidBBOX <-> (cx1 < cx0 \/ if ul g then cy0 < cy1 else cy1 < cy0).
Proof.
  rewrite affected_unfold. destruct b as [[[bx0 by0] bx1] by1]. unfold aff_cols, aff_rows. cbv zeta.
  destruct (tile g (bx0 + inset g l) (by0 + inset g l) l) as [cx0 cy0].
  destruct (tile g (bx1 - inset g l) (by1 - inset g l) l) as [cx1 cy1]. cbn [fst snd].
  pose proof (zrange_first_last cx0 cx1) as Hx.
  destruct (zrange cx0 cx1) as [|xf xs] eqn:Ex.
  - split; [intros _; left; exact Hx|reflexivity].
  - destruct Hx as (Hx & _ & _). destruct (ul g).
    + pose proof (zrange_first_last cy1 cy0) as Hy. destruct (zrange cy1 cy0) as [|yf ys] eqn:Ey.
      * split; [intros _; right; exact Hy|reflexivity].
      * destruct Hy as (Hy & _ & _). split; [discriminate|lia].
    + pose proof (rev_zrange_first_last cy0 cy1) as Hy. destruct (rev (zrange cy0 cy1)) as [|yf ys] eqn:Ey.
      * split; [intros _; right; exact Hy|reflexivity].
      * destruct Hy as (Hy & _ & _). split; [discriminate|lia].
Qed.

(* ---- get_affected_bbox_and_level: NoTiles exactly when the rectangle misses the grid bbox or the requested
   resolution min(w/sx, h/sy) exceeds res_0 * max_shrink_factor; otherwise the level of closest_level *)
Lemma affected_level_spec g b sx sy k :
  let '(rn, rd) := get_resolution b sx sy in
  affected_level g b sx sy = Some k <->
  (bbox_intersects (gx0 g, gy0 g, gx1 g, gy1 g) b = true /\
   rn * shr_d g <= res_at g 0 * shr_n g * rd /\ k = closest_level g rn rd).
Proof.
  unfold affected_level. destruct (get_resolution b sx sy) as [rn rd].
  destruct (bbox_intersects (gx0 g, gy0 g, gx1 g, gy1 g) b); cbn [negb].
  - destruct (res_at g 0 * shr_n g * rd <? rn * shr_d g) eqn:E.
    + split; [discriminate|]. intros (_ & H & _). lia.
    + split.
      * intros H. inversion H. repeat split. lia.
      * intros (_ & _ & ->). reflexivity.
  - split; [discriminate|]. intros (H & _). discriminate.
Qed.

(* get_resolution is the smaller of the two axis resolutions: rn/rd = min(w/sx, h/sy) *)
Lemma get_resolution_spec b sx sy :
  0 < sx -> 0 < sy ->
  let '(x0, y0, x1, y1) := b in
  let '(rn, rd) := get_resolution b sx sy in
  0 < rd /\ rn * sx <= Z.abs (x0 - x1) * rd /\ rn * sy <= Z.abs (y0 - y1) * rd /\
  (rn * sx = Z.abs (x0 - x1) * rd \/ rn * sy = Z.abs (y0 - y1) * rd).
Proof.
  intros Hsx Hsy. destruct b as [[[x0 y0] x1] y1]. unfold get_resolution.
  destruct (Z.abs (x0 - x1) * sy <=? Z.abs (y0 - y1) * sx) eqn:E.
  - split; [lia|]. split; [lia|]. split; [lia|]. left. lia.
  - split; [lia|]. split; [lia|]. split; [lia|]. right. lia.
Qed.

(* requests on ex_grid: 100 units/pixel -> level 0; 500 units/pixel > 100 * 4: NoTiles; outside the bbox: NoTiles;
   a rectangle thinner than 2/10 pixel whose inset corners fall into different columns is refused *)
Example ex_affected_level :
  affected_level ex_grid (0, 0, 1000, 500) 10 5 = Some 0 /\ affected_level ex_grid (0, 0, 1000, 500) 2 1 = None /\
  affected_level ex_grid (5000, 0, 6000, 500) 10 5 = None /\ get_resolution (0, 0, 1000, 500) 10 4 = (1000, 10).
Proof. repeat split; reflexivity. Qed.
Example ex_affected_invalid : affected_level_tiles ex_grid (1197, 100, 1203, 300) 1 = InvalidBBOX.
Proof. vm_compute. reflexivity. Qed.

(* ---- closest_level with threshold_res *)
Lemma closest_thr_loop_no_threshold g rn rd : forall rs level prev tr last,
  closest_thr_loop g rn rd rs level prev None [] tr last = closest_level_loop g rn rd rs level tr last.
Proof.
  induction rs as [|r rest IH]; intros level prev tr last; [reflexivity|].
  cbn [closest_thr_loop closest_level_loop]. destruct tr as [t|].
  - destruct (r * rd <? rn); [reflexivity|]. apply IH.
  - apply IH.
Qed.

(* without thresholds the level is the one of closest_level (closest_level_spec applies) *)
Lemma closest_level_thr_nil g rn rd : closest_level_thr g [] rn rd = closest_level g rn rd.
Proof. unfold closest_level_thr, closest_level. cbn [rev thr_init]. apply closest_thr_loop_no_threshold. Qed.

(* a threshold t between two levels, r_(k-1) > t >= r_k, switches there: a request r_k <= res < r_(k-1) (all coarser
   levels are coarser than the request) gets level k-1 when res > t and level k otherwise, whatever the stretch factor *)
Lemma closest_thr_loop_switch g rn rd t k ths : forall rs lv prev tr last,
  res_tail g lv rs -> 0 <= lv <= k -> lv + Z.of_nat (length rs) = levels g -> k < levels g ->
  (forall j, lv <= j < k -> rn < res_at g j * rd /\ t < res_at g j) ->
  (lv = k -> t < prev) -> res_at g k <= t -> res_at g k * rd <= rn -> 0 < res_at g k ->
  closest_thr_loop g rn rd rs lv prev (Some t) ths tr last = if t * rd <? rn then k - 1 else k.
Proof.
  induction rs as [|r rest IH]; intros lv prev tr last Ht Hlv Hlen Hk Hc Hp Hkt Hkr Hpos.
  - cbn [length] in Hlen. lia.
  - destruct Ht as [-> Ht]. cbn [closest_thr_loop]. destruct (Z.eq_dec lv k) as [->|Hne].
    + replace (negb (t =? 0) && (t <? prev) && (res_at g k <=? t)) with true by (specialize (Hp eq_refl); symmetry; lia).
      destruct (t * rd <? rn); [reflexivity|].
      replace (res_at g k * rd <=? rn) with true by (symmetry; lia). reflexivity.
    + destruct (Hc lv ltac:(lia)) as [Hc1 Hc2].
      replace (negb (t =? 0) && (t <? prev) && (res_at g lv <=? t)) with false by (symmetry; lia).
      replace (match tr with Some _ => res_at g lv * rd <? rn | None => false end) with false
        by (destruct tr; [symmetry; lia|reflexivity]).
      cbn [length] in Hlen.
      apply IH; try assumption; try lia; try (intros j Hj; apply Hc; lia); try (intros _; exact Hc2).
Qed.

Lemma closest_level_thr_switch g t k rn rd :
  1 <= k < levels g ->
  (forall j, 0 <= j < k -> rn < res_at g j * rd /\ t < res_at g j) ->
  0 < res_at g k <= t -> res_at g k * rd <= rn ->
  closest_level_thr g [t] rn rd = if t * rd <? rn then k - 1 else k.
Proof.
  intros Hk Hc Hkt Hkr. unfold closest_level_thr. cbn [rev app thr_init thr_skip].
  apply (closest_thr_loop_switch g rn rd t k [] (ress g) 0 (res_at g 0) None (-1) (res_tail_all g));
    try lia; try exact Hc; unfold levels; lia.
Qed.

(* resolutions 100, 50, 20 with a threshold at 70: 75 -> level 0 although 50 is not within 75 * 1.15 ... and 70 -> level 1 *)
Example ex_threshold :
  closest_level_thr ex_grid [70] 75 1 = 0 /\ closest_level_thr ex_grid [70] 70 1 = 1 /\ closest_level_thr ex_grid [70] 55 1 = 1
  /\ closest_level ex_grid 55 1 = 1 /\ closest_level ex_grid 75 1 = 1.
Proof. repeat split; reflexivity. Qed.
Example ex_threshold_switch : closest_level_thr ex_grid [70] 75 1 = if 70 * 1 <? 75 then 1 - 1 else 1.
Proof.
  apply closest_level_thr_switch; try (vm_compute; split; congruence); try (vm_compute; congruence).
  intros j Hj. assert (j = 0) as -> by lia. vm_compute. split; reflexivity.
Qed.

(* ---- requests in another SRS *)
Lemma bbox_of_points_contains x y rest px py :
  In (px, py) ((x, y) :: rest) ->
  let '(a, b, c, d) := bbox_of_points x y rest in a <= px <= c /\ b <= py <= d.
Proof.
  induction rest as [|[qx qy] r IH]; cbn [bbox_of_points].
  - intros [H|[]]. inversion H. lia.
  - intros H. destruct (bbox_of_points x y r) as [[[a b] c] d].
    destruct H as [H|[H|H]].
    + specialize (IH (or_introl H)). lia.
    + inversion H. lia.
    + specialize (IH (or_intror H)). lia.
Qed.

(* the source rectangle contains the image of every transformed outline point ... *)
Lemma calculate_bbox_contains pts b px py :
  calculate_bbox pts = Some b -> In (px, py) pts ->
  let '(x0, y0, x1, y1) := b in x0 <= px <= x1 /\ y0 <= py <= y1.
Proof.
  destruct pts as [|[x y] rest]; [discriminate|]. cbn [calculate_bbox]. intros H Hin. inversion H.
  exact (bbox_of_points_contains x y rest px py Hin).
Qed.

(* ... and is the smallest such rectangle: each of its four edges passes through one of the points *)
Lemma bbox_of_points_attained x y rest :
  let '(a, b, c, d) := bbox_of_points x y rest in
  (exists q, In q ((x, y) :: rest) /\ fst q = a) /\ (exists q, In q ((x, y) :: rest) /\ snd q = b) /\
  (exists q, In q ((x, y) :: rest) /\ fst q = c) /\ (exists q, In q ((x, y) :: rest) /\ snd q = d).
Proof.
  induction rest as [|[qx qy] r IH]; cbn [bbox_of_points].
  - repeat split; exists (x, y); split; try (left; reflexivity); reflexivity.
  - destruct (bbox_of_points x y r) as [[[a b] c] d]. destruct IH as (Ha & Hb & Hc & Hd).
    assert (Hw : forall (P : Z * Z -> Prop), (exists q, In q ((x, y) :: r) /\ P q) -> exists q, In q ((x, y) :: (qx, qy) :: r) /\ P q).
    { intros P (q & [Hq|Hq] & HP); exists q; (split; [|exact HP]); [left; exact Hq|right; right; exact Hq]. }
    repeat split.
    + destruct (Z.min_spec a qx) as [[_ ->]|[_ ->]]; [apply Hw; exact Ha|exists (qx, qy); split; [right; left; reflexivity|reflexivity]].
    + destruct (Z.min_spec b qy) as [[_ ->]|[_ ->]]; [apply Hw; exact Hb|exists (qx, qy); split; [right; left; reflexivity|reflexivity]].
    + destruct (Z.max_spec c qx) as [[_ ->]|[_ ->]]; [exists (qx, qy); split; [right; left; reflexivity|reflexivity]|apply Hw; exact Hc].
    + destruct (Z.max_spec d qy) as [[_ ->]|[_ ->]]; [exists (qx, qy); split; [right; left; reflexivity|reflexivity]|apply Hw; exact Hd].
Qed.

Lemma calculate_bbox_attained pts b :
  calculate_bbox pts = Some b ->
  let '(x0, y0, x1, y1) := b in
  (exists q, In q pts /\ fst q = x0) /\ (exists q, In q pts /\ snd q = y0) /\
  (exists q, In q pts /\ fst q = x1) /\ (exists q, In q pts /\ snd q = y1).
Proof.
  destruct pts as [|[x y] rest]; [discriminate|]. cbn [calculate_bbox]. intros H. inversion H.
  exact (bbox_of_points_attained x y rest).
Qed.

(* a request in another SRS: whatever the transformation did to the outline points (tpts arbitrary), every transformed
   point that lies at least 1/10 pixel inside the source rectangle has its tile in the list reported for that rectangle
   at the chosen level.  (Not covered: the parts of the curved outline between the sampled points.) *)
Lemma affected_tiles_cover_foreign g tpts sx sy b l px py :
  wf g -> decreasing_res g -> 0 < levels g -> 0 < sx -> 0 < sy -> 0 < sf_d g <= sf_n g ->
  affected_level_foreign g tpts sx sy = Some (b, l) -> In (px, py) tpts ->
  let '(bx0, by0, bx1, by1) := b in
  (bx0 < bx1 /\ by0 < by1) ->
  bx0 + inset g l <= px <= bx1 - inset g l -> by0 + inset g l <= py <= by1 - inset g l ->
  exists ab n m ts, affected_level_tiles g b l = Affected ab n m ts /\
    let '(tx, ty) := tile g px py l in In (limit_tile g tx ty l) ts.
Proof.
  intros Hwf Hdec Hlev Hsx Hsy Hsf Ha Hin. unfold affected_level_foreign in Ha.
  destruct (calculate_bbox tpts) as [b'|]; [|discriminate].
  destruct (affected_level g b' sx sy) as [l'|] eqn:El; [|discriminate]. inversion Ha; subst b' l'. clear Ha.
  pose proof (affected_level_spec g b sx sy l) as Hs. pose proof (get_resolution_spec b sx sy Hsx Hsy) as Hr.
  destruct b as [[[bx0 by0] bx1] by1]. intros [Hbx Hby] Hx Hy.
  destruct (get_resolution (bx0, by0, bx1, by1) sx sy) as [rn rd]. destruct Hr as (Hrd & Hr1 & Hr2 & Hr3).
  apply Hs in El. destruct El as (_ & _ & ->).
  assert (Hrn : 0 < rn) by (destruct Hr3; nia).
  pose proof (closest_level_spec g rn rd Hdec Hlev Hrd Hrn Hsf) as [Hk _].
  assert (Hv : valid_level g (closest_level g rn rd) = true) by (unfold valid_level; lia).
  exact (affected_tiles_cover g (bx0, by0, bx1, by1) _ px py Hwf Hv Hx Hy).
Qed.

(* outline points: 4 * steps points, among them the four corners (for a proper rectangle) *)
Lemma envelope_points_length b n : 4 < n -> Z.of_nat (length (envelope_points b n)) = 4 * env_steps n.
Proof.
  intros Hn. destruct b as [[[x0 y0] x1] y1]. unfold envelope_points. cbv zeta.
  assert (1 <= env_steps n).
  { unfold env_steps. replace (n <=? 4) with false by (symmetry; lia). unfold cdiv. lia. }
  rewrite !app_length, !map_length, !rev_length, !zrange_length. lia.
Qed.

Lemma envelope_points_corners x0 y0 x1 y1 n :
  4 < n -> x0 <= x1 -> y0 <= y1 ->
  let pts := envelope_points (x0, y0, x1, y1) n in
  In (x0, y0) pts /\ In (x1, y0) pts /\ In (x1, y1) pts /\ In (x0, y1) pts.
Proof.
  intros Hn Hx Hy. unfold envelope_points. cbv zeta.
  assert (Hk : 1 <= env_steps n).
  { unfold env_steps. replace (n <=? 4) with false by (symmetry; lia). unfold cdiv. lia. }
  set (k := env_steps n) in *.
  rewrite Z.min_l, Z.max_r, Z.min_l, Z.max_r by lia.
  assert (H0 : In 0 (zrange 0 k)) by (apply zrange_In; lia).
  assert (H1 : In k (zrange 0 k)) by (apply zrange_In; lia).
  assert (Ek : k * (x1 - x0) / k = x1 - x0) by (rewrite Z.mul_comm; apply Z.div_mul; lia).
  repeat split.
  - apply in_or_app. left. apply in_map_iff. exists 0. split; [f_equal; rewrite Z.mul_0_l, Z.div_0_l by lia; lia|exact H0].
  - apply in_or_app. left. apply in_map_iff. exists k. split; [f_equal; lia|exact H1].
  - apply in_or_app. right. apply in_or_app. right. apply in_or_app. left. apply in_map_iff. exists k.
    split; [f_equal; lia|apply in_rev; rewrite rev_involutive; exact H1].
  - apply in_or_app. right. apply in_or_app. right. apply in_or_app. left. apply in_map_iff. exists 0.
    split; [f_equal; rewrite Z.mul_0_l, Z.div_0_l by lia; lia|apply in_rev; rewrite rev_involutive; exact H0].
Qed.

(* the 16 default outline points of the rectangle (0, 0, 80, 40): 4 steps per edge *)
Example ex_envelope_points :
  envelope_points (0, 0, 80, 40) 16 =
  [(0, 0); (20, 0); (40, 0); (60, 0); (80, 0); (80, 10); (80, 20); (80, 30);
   (80, 40); (60, 40); (40, 40); (20, 40); (0, 40); (0, 30); (0, 20); (0, 10)].
Proof. vm_compute. reflexivity. Qed.
(* a bulging southern edge: the source rectangle reaches down to the lowest transformed point, not only to the corners *)
Example ex_foreign :
  affected_level_foreign ex_grid [(0, 100); (500, 40); (1000, 100); (1000, 600); (0, 600)] 10 5 = Some ((0, 40, 1000, 600), 0).
Proof. vm_compute. reflexivity. Qed.

(* ---- closest_level with any number of thresholds *)
(* `if threshold and prev_l_res > threshold >= l_res` *)
Definition thr_hit (th : option Z) (prev l_res : Z) : bool :=
  match th with Some t => negb (t =? 0) && (t <? prev) && (l_res <=? t) | None => false end.
(* `threshold = thresholds.pop() if thresholds else None` *)
Definition thr_pop (ths : list Z) : option Z * list Z :=
  match ths with [] => (None, []) | t' :: r' => (Some t', r') end.
(* the threshold state after the loop has passed the first n of the levels rs without returning: a threshold that is hit
   is consumed (one per level), the others stay; also returns the previous level resolution *)
Fixpoint thr_pass (rs : list Z) (prev : Z) (th : option Z) (ths : list Z) (n : nat) : option Z * list Z * Z :=
  match n, rs with
  | S n', r :: rest =>
    let '(th', ths') := if thr_hit th prev r then thr_pop ths else (th, ths) in thr_pass rest r th' ths' n'
  | _, _ => (th, ths, prev)
  end.

(* as long as the requested resolution is finer than the level resolutions (res < r_j) the loop does not return *)
Lemma closest_thr_loop_pass g rn rd : 0 < rd -> forall n rs lv prev th ths tr last,
  res_tail g lv rs -> (n <= length rs)%nat ->
  (forall j, lv <= j < lv + Z.of_nat n -> rn < res_at g j * rd) ->
  exists tr' last',
    closest_thr_loop g rn rd rs lv prev th ths tr last =
    let '(th', ths', prev') := thr_pass rs prev th ths n in
    closest_thr_loop g rn rd (skipn n rs) (lv + Z.of_nat n) prev' th' ths' tr' last'.
Proof.
  intros Hrd. induction n as [|n IH]; intros rs lv prev th ths tr last Ht Hn Hc.
  - exists tr, last. cbn [thr_pass skipn]. replace (lv + Z.of_nat 0) with lv by lia. destruct rs; reflexivity.
  - destruct rs as [|r rest]; [cbn [length] in Hn; lia|]. destruct Ht as [-> Ht].
    assert (Hlv : rn < res_at g lv * rd) by (apply Hc; lia).
    cbn [closest_thr_loop thr_pass skipn].
    change (match th with Some t => negb (t =? 0) && (t <? prev) && (res_at g lv <=? t) | None => false end)
      with (thr_hit th prev (res_at g lv)).
    assert (Hearly : match th with
                     | Some t => if thr_hit th prev (res_at g lv)
                                 then (if t * rd <? rn then Some (lv - 1) else if res_at g lv * rd <=? rn then Some lv else None)
                                 else None
                     | None => None end = None).
    { destruct th as [t|]; [|reflexivity]. destruct (thr_hit (Some t) prev (res_at g lv)) eqn:E; [|reflexivity].
      cbn [thr_hit] in E. replace (t * rd <? rn) with false by (symmetry; nia).
      replace (res_at g lv * rd <=? rn) with false by (symmetry; lia). reflexivity. }
    rewrite Hearly.
    replace (match tr with Some _ => res_at g lv * rd <? rn | None => false end) with false
      by (destruct tr; [symmetry; lia|reflexivity]).
    set (st := if thr_hit th prev (res_at g lv) then match ths with [] => (None, []) | t' :: r' => (Some t', r') end else (th, ths)).
    change (if thr_hit th prev (res_at g lv) then thr_pop ths else (th, ths)) with st.
    destruct st as [th1 ths1].
    destruct (IH rest (lv + 1) (res_at g lv) th1 ths1
                 (if res_at g lv * rd * sf_d g <=? rn * sf_n g then Some lv else tr) lv Ht
                 ltac:(cbn [length] in Hn; lia) ltac:(intros j Hj; apply Hc; lia)) as (tr' & last' & IHe).
    exists tr', last'. rewrite IHe. replace (lv + 1 + Z.of_nat n) with (lv + Z.of_nat (S n)) by lia. reflexivity.
Qed.

(* at a level where the current threshold is hit and the request is not finer than the level, the threshold decides *)
Lemma closest_thr_loop_decide g rn rd r rest lv prev t ths tr last :
  thr_hit (Some t) prev r = true -> r * rd <= rn ->
  closest_thr_loop g rn rd (r :: rest) lv prev (Some t) ths tr last = if t * rd <? rn then lv - 1 else lv.
Proof.
  intros Hh Hr. cbn [closest_thr_loop]. cbn [thr_hit] in Hh. rewrite Hh.
  destruct (t * rd <? rn); [reflexivity|]. replace (r * rd <=? rn) with true by (symmetry; lia). reflexivity.
Qed.

Lemma skipn_res_tail g : forall n rs lv, res_tail g lv rs -> res_tail g (lv + Z.of_nat n) (skipn n rs).
Proof.
  induction n as [|n IH]; intros rs lv Ht.
  - replace (lv + Z.of_nat 0) with lv by lia. exact Ht.
  - destruct rs as [|r rest]; [exact I|]. destruct Ht as [_ Ht]. cbn [skipn].
    replace (lv + Z.of_nat (S n)) with (lv + 1 + Z.of_nat n) by lia. apply IH. exact Ht.
Qed.

(* General switch rule for any list of thresholds: take the threshold state (thr_pass) that the thresholds are in after
   levels 0 .. k-1; if its current threshold t lies between levels k-1 and k (prev > t >= r_k; prev = r_(k-1) for k >= 1)
   then a request r_k <= res that is finer than all levels before k gets level k-1 when res > t and level k otherwise. *)
Lemma closest_level_thr_general g ths rn rd k :
  0 < rd -> 0 <= k < levels g ->
  (forall j, 0 <= j < k -> rn < res_at g j * rd) -> res_at g k * rd <= rn ->
  let '(th0, ths0) := thr_init (res_at g 0) (rev ths) in
  let '(th, _, prev) := thr_pass (ress g) (res_at g 0) th0 ths0 (Z.to_nat k) in
  forall t, th = Some t -> thr_hit (Some t) prev (res_at g k) = true ->
  closest_level_thr g ths rn rd = if t * rd <? rn then k - 1 else k.
Proof.
  intros Hrd Hk Hc Hr. unfold closest_level_thr. destruct (thr_init (res_at g 0) (rev ths)) as [th0 ths0].
  destruct (closest_thr_loop_pass g rn rd Hrd (Z.to_nat k) (ress g) 0 (res_at g 0) th0 ths0 None (-1) (res_tail_all g)
              ltac:(unfold levels in Hk; lia) ltac:(intros j Hj; apply Hc; lia)) as (tr' & last' & He).
  rewrite He. clear He.
  destruct (thr_pass (ress g) (res_at g 0) th0 ths0 (Z.to_nat k)) as [[th ths'] prev].
  intros t -> Hh.
  pose proof (skipn_res_tail g (Z.to_nat k) (ress g) 0 (res_tail_all g)) as Hs.
  replace (0 + Z.of_nat (Z.to_nat k)) with k in * by lia.
  destruct (skipn (Z.to_nat k) (ress g)) as [|r rest] eqn:Es.
  - exfalso. assert (length (skipn (Z.to_nat k) (ress g)) = 0%nat) by (rewrite Es; reflexivity).
    rewrite skipn_length in H. unfold levels in Hk. lia.
  - destruct Hs as [-> _]. apply closest_thr_loop_decide; assumption.
Qed.

(* three thresholds on ex_grid (100, 50, 20): 300 is above the first level (skipped), 70 switches between levels 0 and 1,
   30 between levels 1 and 2 *)
Example ex_thresholds :
  closest_level_thr ex_grid [30; 70; 300] 75 1 = 0 /\ closest_level_thr ex_grid [30; 70; 300] 70 1 = 1 /\
  closest_level_thr ex_grid [30; 70; 300] 31 1 = 1 /\ closest_level_thr ex_grid [30; 70; 300] 30 1 = 2 /\
  closest_level ex_grid 31 1 = 2.
Proof. repeat split; reflexivity. Qed.
Example ex_thresholds_general : closest_level_thr ex_grid [30; 70; 300] 31 1 = if 30 * 1 <? 31 then 2 - 1 else 2.
Proof.
  pose proof (closest_level_thr_general ex_grid [30; 70; 300] 31 1 2 ltac:(lia) ltac:(vm_compute; split; congruence)) as H.
  assert (Hc : forall j, 0 <= j < 2 -> 31 < res_at ex_grid j * 1).
  { intros j Hj. assert (j = 0 \/ j = 1) as [-> | ->] by lia; vm_compute; reflexivity. }
  specialize (H Hc ltac:(vm_compute; congruence)). vm_compute in H. exact (H 30 eq_refl eq_refl).
Qed.

(* ---- thresholds that are never hit.  never_hit th prev rs: on none of the levels rs (previous level resolution prev) the
   current threshold satisfies `threshold and prev_l_res > threshold >= l_res`.  Such a threshold is never consumed, so the
   thresholds behind it never become current either: the loop is the loop of closest_level. *)
Fixpoint never_hit (th : option Z) (prev : Z) (rs : list Z) : Prop :=
  match rs with
  | [] => True
  | r :: rest => thr_hit th prev r = false /\ never_hit th r rest
  end.

Lemma closest_thr_loop_never_hit g rn rd : forall rs level prev th ths tr last,
  never_hit th prev rs ->
  closest_thr_loop g rn rd rs level prev th ths tr last = closest_level_loop g rn rd rs level tr last.
Proof.
  induction rs as [|r rest IH]; intros level prev th ths tr last Hn; [reflexivity|].
  destruct Hn as [Hh Hn]. cbn [closest_thr_loop closest_level_loop].
  change (match th with Some t => negb (t =? 0) && (t <? prev) && (r <=? t) | None => false end) with (thr_hit th prev r).
  rewrite Hh.
  replace (match th with Some t => if false then (if t * rd <? rn then Some (level - 1) else if r * rd <=? rn then Some level else None)
                                   else None | None => None end) with (@None Z) by (destruct th; reflexivity).
  cbv beta iota. destruct tr as [t|].
  - destruct (r * rd <? rn); [reflexivity|]. apply IH. exact Hn.
  - apply IH. exact Hn.
Qed.

(* If the threshold the loop starts with (the first one not above the first level, or the last one) is never hit, the level
   is the one of closest_level, whatever the other thresholds are. *)
Lemma closest_level_thr_never_hit g ths rn rd :
  never_hit (fst (thr_init (res_at g 0) (rev ths))) (res_at g 0) (ress g) ->
  closest_level_thr g ths rn rd = closest_level g rn rd.
Proof.
  unfold closest_level_thr, closest_level. destruct (thr_init (res_at g 0) (rev ths)) as [th0 ths0]. cbn [fst].
  apply closest_thr_loop_never_hit.
Qed.

Lemma thr_skip_In r0 : forall rest t, In (fst (thr_skip r0 t rest)) (t :: rest).
Proof.
  induction rest as [|t' rest IH]; intros t; cbn [thr_skip].
  - left. reflexivity.
  - destruct (r0 <? t); [right; apply IH|left; reflexivity].
Qed.

Lemma never_hit_below : forall rs t prev, (forall r, In r rs -> t < r) -> never_hit (Some t) prev rs.
Proof.
  induction rs as [|r rest IH]; intros t prev H; [exact I|]. split.
  - cbn [thr_hit]. pose proof (H r (or_introl eq_refl)). replace (r <=? t) with false by (symmetry; lia).
    rewrite Bool.andb_false_r. reflexivity.
  - apply IH. intros r' Hr'. apply H. right. exact Hr'.
Qed.

Lemma never_hit_none : forall rs prev, never_hit None prev rs.
Proof. induction rs as [|r rest IH]; intros prev; [exact I|]. split; [reflexivity|apply IH]. Qed.

(* thresholds below the finest level (each threshold finer than every level) do not change the level choice *)
Lemma closest_level_thr_below g ths rn rd :
  (forall t r, In t ths -> In r (ress g) -> t < r) ->
  closest_level_thr g ths rn rd = closest_level g rn rd.
Proof.
  intros H. apply closest_level_thr_never_hit. destruct (rev ths) as [|t rest] eqn:E; cbn [thr_init].
  - cbn [fst]. apply never_hit_none.
  - pose proof (thr_skip_In (res_at g 0) rest t) as Hin. destruct (thr_skip (res_at g 0) t rest) as [t' rest']. cbn [fst] in *.
    apply never_hit_below. intros r Hr. apply H; [|exact Hr]. apply in_rev. rewrite E. exact Hin.
Qed.

(* a threshold on or above the previous level resolution and all remaining levels is stuck: `prev_l_res > threshold` never
   holds again *)
Lemma never_hit_stuck : forall rs t prev, prev <= t -> (forall r, In r rs -> r <= t) -> never_hit (Some t) prev rs.
Proof.
  induction rs as [|r rest IH]; intros t prev Hp H; [exact I|]. split.
  - cbn [thr_hit]. replace (t <? prev) with false by (symmetry; lia). rewrite Bool.andb_false_r. reflexivity.
  - apply IH; [apply H; left; reflexivity|]. intros r' Hr'. apply H. right. exact Hr'.
Qed.

(* thresholds that are all on or above every level (in particular above the first level) do not change the level choice:
   the skip loop stops at the last of them, which is never below a previous level resolution *)
Lemma closest_level_thr_above g ths rn rd :
  (forall t r, In t ths -> In r (ress g) -> r <= t) ->
  closest_level_thr g ths rn rd = closest_level g rn rd.
Proof.
  intros H. apply closest_level_thr_never_hit. destruct (rev ths) as [|t rest] eqn:E; cbn [thr_init].
  - cbn [fst]. apply never_hit_none.
  - pose proof (thr_skip_In (res_at g 0) rest t) as Hin. destruct (thr_skip (res_at g 0) t rest) as [t' rest']. cbn [fst] in *.
    assert (Ht' : In t' ths) by (apply in_rev; rewrite E; exact Hin).
    destruct (ress g) as [|r0 rs] eqn:Er; [exact I|].
    apply never_hit_stuck.
    + unfold res_at. rewrite Er. cbn [Z.to_nat nth]. apply H; [exact Ht'|left; reflexivity].
    + intros r Hr. apply H; [exact Ht'|exact Hr].
Qed.

(* thresholds hit on levels the request is finer than are consumed without effect; if the threshold that is current
   afterwards is never hit on the remaining levels, the whole loop is the loop of closest_level *)
Lemma closest_thr_loop_pass_never g rn rd : 0 < rd -> forall n rs lv prev th ths tr last,
  res_tail g lv rs -> (n <= length rs)%nat ->
  (forall j, lv <= j < lv + Z.of_nat n -> rn < res_at g j * rd) ->
  (let '(th', _, prev') := thr_pass rs prev th ths n in never_hit th' prev' (skipn n rs)) ->
  closest_thr_loop g rn rd rs lv prev th ths tr last = closest_level_loop g rn rd rs lv tr last.
Proof.
  intros Hrd. induction n as [|n IH]; intros rs lv prev th ths tr last Ht Hn Hc Hnh.
  - replace (thr_pass rs prev th ths 0) with (th, ths, prev) in Hnh by (destruct rs; reflexivity).
    cbn [skipn] in Hnh. apply closest_thr_loop_never_hit. exact Hnh.
  - destruct rs as [|r rest]; [cbn [length] in Hn; lia|]. destruct Ht as [-> Ht].
    assert (Hlv : rn < res_at g lv * rd) by (apply Hc; lia).
    assert (Hlt : (res_at g lv * rd <? rn) = false) by lia.
    cbn [thr_pass skipn] in Hnh.
    cbn [closest_thr_loop closest_level_loop].
    change (match th with Some t => negb (t =? 0) && (t <? prev) && (res_at g lv <=? t) | None => false end)
      with (thr_hit th prev (res_at g lv)).
    assert (Hearly : match th with
                     | Some t => if thr_hit th prev (res_at g lv)
                                 then (if t * rd <? rn then Some (lv - 1) else if res_at g lv * rd <=? rn then Some lv else None)
                                 else None
                     | None => None end = None).
    { destruct th as [t|]; [|reflexivity]. destruct (thr_hit (Some t) prev (res_at g lv)) eqn:E; [|reflexivity].
      cbn [thr_hit] in E. replace (t * rd <? rn) with false by (symmetry; nia).
      replace (res_at g lv * rd <=? rn) with false by (symmetry; lia). reflexivity. }
    rewrite Hearly. rewrite Hlt.
    set (st := if thr_hit th prev (res_at g lv) then match ths with [] => (None, []) | t' :: r' => (Some t', r') end else (th, ths)).
    change (if thr_hit th prev (res_at g lv) then thr_pop ths else (th, ths)) with st in Hnh.
    destruct st as [th1 ths1].
    assert (Hi : forall tr0, closest_thr_loop g rn rd rest (lv + 1) (res_at g lv) th1 ths1 tr0 lv =
                             closest_level_loop g rn rd rest (lv + 1) tr0 lv).
    { intros tr0. apply IH; [exact Ht|cbn [length] in Hn; lia|intros j Hj; apply Hc; lia|exact Hnh]. }
    destruct tr as [t0|]; apply Hi.
Qed.

(* Complement of closest_level_thr_general: if the threshold that is current after levels 0 .. k-1 (all coarser than the
   request) is never hit on the levels from k on, the level is the one of closest_level. *)
Lemma closest_level_thr_general_unhit g ths rn rd k :
  0 < rd -> 0 <= k <= levels g ->
  (forall j, 0 <= j < k -> rn < res_at g j * rd) ->
  let '(th0, ths0) := thr_init (res_at g 0) (rev ths) in
  let '(th, _, prev) := thr_pass (ress g) (res_at g 0) th0 ths0 (Z.to_nat k) in
  never_hit th prev (skipn (Z.to_nat k) (ress g)) ->
  closest_level_thr g ths rn rd = closest_level g rn rd.
Proof.
  intros Hrd Hk Hc. unfold closest_level_thr, closest_level. destruct (thr_init (res_at g 0) (rev ths)) as [th0 ths0].
  pose proof (closest_thr_loop_pass_never g rn rd Hrd (Z.to_nat k) (ress g) 0 (res_at g 0) th0 ths0 None (-1) (res_tail_all g)
                ltac:(unfold levels in Hk; lia) ltac:(intros j Hj; apply Hc; lia)) as H.
  destruct (thr_pass (ress g) (res_at g 0) th0 ths0 (Z.to_nat k)) as [[th ths'] prev].
  exact H.
Qed.

(* several thresholds in one gap of ex_grid (100, 50, 20): 70 and 60 both lie between levels 0 and 1.  70 decides the
   requests between these levels; once it is consumed 60 becomes current with prev_l_res = 50 <= 60: it is stuck, and the
   threshold 30 behind it never applies (31 gets level 2 as without thresholds, not 1 as with [30; 70]) *)
Example ex_thresholds_same_gap :
  closest_level_thr ex_grid [30; 60; 70] 71 1 = 0 /\ closest_level_thr ex_grid [30; 60; 70] 65 1 = 1 /\
  closest_level_thr ex_grid [30; 60; 70] 31 1 = 2 /\ closest_level_thr ex_grid [30; 70] 31 1 = 1.
Proof. repeat split; reflexivity. Qed.
(* [30; 60; 70] on ex_grid, request 31: 70 is consumed at level 1 (31 < 50), 60 is stuck afterwards *)
Example ex_thresholds_unhit : closest_level_thr ex_grid [30; 60; 70] 31 1 = closest_level ex_grid 31 1.
Proof.
  pose proof (closest_level_thr_general_unhit ex_grid [30; 60; 70] 31 1 2 ltac:(lia) ltac:(vm_compute; split; congruence)) as H.
  assert (Hc : forall j, 0 <= j < 2 -> 31 < res_at ex_grid j * 1).
  { intros j Hj. assert (j = 0 \/ j = 1) as [-> | ->] by lia; vm_compute; reflexivity. }
  specialize (H Hc). cbv beta iota zeta delta [thr_init thr_skip rev app ex_grid res_at ress nth Z.to_nat] in H.
  apply H. vm_compute. repeat split.
Qed.
Example ex_thresholds_below_above :
  closest_level_thr ex_grid [5; 10] 31 1 = closest_level ex_grid 31 1 /\
  closest_level_thr ex_grid [100; 300] 31 1 = closest_level ex_grid 31 1.
Proof.
  split.
  - apply closest_level_thr_below. intros t r Ht Hr. cbn in Ht, Hr. intuition lia.
  - apply closest_level_thr_above. intros t r Ht Hr. cbn in Ht, Hr. intuition lia.
Qed.

(* ---- MetaGrid.get_affected_level_tiles *)
Lemma zrange_step_In a b s k : 0 < s -> 0 <= k -> a + s * k <= b -> In (a + s * k) (zrange_step a b s).
Proof.
  intros Hs Hk Hb. unfold zrange_step. apply in_map_iff. exists (Z.to_nat k). split; [lia|].
  apply in_seq. assert (k <= (b - a) / s) by (apply Z.div_le_lower_bound; lia). lia.
Qed.
Lemma zrange_step_down_In a b s k : 0 < s -> 0 <= k -> a <= b - s * k -> In (b - s * k) (zrange_step_down a b s).
Proof.
  intros Hs Hk Hb. unfold zrange_step_down. apply in_map_iff. exists (Z.to_nat k). split; [lia|].
  apply in_seq. assert (k <= (b - a) / s) by (apply Z.div_le_lower_bound; lia). lia.
Qed.

(* anchors: t / m * m is the first tile of the meta tile (column / row block) that contains tile index t *)
Lemma anchor_between t0 t t1 m :
  0 < m -> t0 <= t <= t1 ->
  let a := t / m * m in
  a <= t < a + m /\ exists k, 0 <= k /\ a = t0 / m * m + m * k /\ exists k', 0 <= k' /\ a = t1 / m * m - m * k'.
Proof.
  intros Hm Ht. cbv zeta. split; [lia|].
  assert (t0 / m <= t / m) by (apply Z.div_le_mono; lia).
  assert (t / m <= t1 / m) by (apply Z.div_le_mono; lia).
  exists (t / m - t0 / m). split; [lia|]. split; [lia|]. exists (t1 / m - t / m). split; lia.
Qed.

Definition in_thin_range (lo hi delta p : Z) : Prop := fst (thin_range lo hi delta) <= p <= snd (thin_range lo hi delta).

Lemma thin_range_ordered lo hi delta : fst (thin_range lo hi delta) <= snd (thin_range lo hi delta).
Proof. unfold thin_range. destruct (hi - delta <? lo + delta) eqn:E; cbn [fst snd]; lia. Qed.

(* Cover, independently per axis: a point whose x lies in the effective x range of the rectangle (1/10 pixel inset, or
   the centre when the rectangle is thinner than 2/10 pixel in x) and whose y lies in the effective y range has the
   meta tile that contains its tile in the list: the call succeeds, and there are a listed column anchor ax and a listed
   row anchor ay with ax <= tx < ax + mx, ay <= ty < ay + my whose entry (the anchor tile if it is a tile of the grid)
   is in the list. *)
Lemma meta_affected_cover g msx msy b l px py :
  wf g -> valid_level g l = true -> 1 <= msx -> 1 <= msy ->
  let '(bx0, by0, bx1, by1) := b in
  in_thin_range bx0 bx1 (inset g l) px -> in_thin_range by0 by1 (inset g l) py ->
  exists ab n m ts, meta_affected_level_tiles g msx msy b l = Affected ab n m ts /\
    let '(tx, ty) := tile g px py l in
    let '(mx, my) := meta_size_at g msx msy l in
    exists ax ay, ax <= tx < ax + mx /\ ay <= ty < ay + my /\ ax = tx / mx * mx /\ ay = ty / my * my /\
                  In (limit_tile g ax ay l) ts.
Proof.
  intros Hwf Hv Hmx Hmy. destruct b as [[[bx0 by0] bx1] by1]. unfold in_thin_range. intros Hx Hy.
  unfold meta_affected_level_tiles. fold (inset g l).
  pose proof (thin_range_ordered bx0 bx1 (inset g l)) as Hox. pose proof (thin_range_ordered by0 by1 (inset g l)) as Hoy.
  destruct (thin_range bx0 bx1 (inset g l)) as [minx maxx]. destruct (thin_range by0 by1 (inset g l)) as [miny maxy].
  cbn [fst snd] in *.
  pose proof (tile_mono_x g minx px miny py l Hwf Hv ltac:(lia)) as Hx1.
  pose proof (tile_mono_x g px maxx py maxy l Hwf Hv ltac:(lia)) as Hx2.
  pose proof (tile_mono_y g minx px miny py l Hwf Hv ltac:(lia)) as Hy1.
  pose proof (tile_mono_y g px maxx py maxy l Hwf Hv ltac:(lia)) as Hy2.
  destruct (tile g minx miny l) as [tx0 ty0]. destruct (tile g maxx maxy l) as [tx1 ty1].
  destruct (tile g px py l) as [tx ty]. cbn [fst snd] in *.
  pose proof (grid_size_cover g l Hwf Hv) as Hgs. unfold meta_size_at.
  pose proof (tile_or_none_limit g) as Hlim.
  destruct (grid_size g l) as [nx ny] eqn:Eg. cbv zeta in Hgs. destruct Hgs as (Hnx & Hny & _).
  set (mx := Z.min msx nx). set (my := Z.min msy ny).
  assert (Hmx0 : 0 < mx) by (unfold mx; lia). assert (Hmy0 : 0 < my) by (unfold my; lia).
  destruct (anchor_between tx0 tx tx1 mx Hmx0 ltac:(lia)) as (Hax & kx & Hkx & Eax & _).
  assert (Hinx : In (tx / mx * mx) (zrange_step (tx0 / mx * mx) (tx1 / mx * mx) mx)).
  { rewrite Eax. apply zrange_step_In; try lia. rewrite <- Eax.
    assert (tx / mx <= tx1 / mx) by (apply Z.div_le_mono; lia). nia. }
  assert (Hiny : In (ty / my * my)
                    (if ul g then zrange_step (ty1 / my * my) (ty0 / my * my) my
                     else zrange_step_down (ty0 / my * my) (ty1 / my * my) my)).
  { destruct (ul g).
    - destruct (anchor_between ty1 ty ty0 my Hmy0 ltac:(lia)) as (_ & ky & Hky & Eay & _).
      rewrite Eay. apply zrange_step_In; try lia. rewrite <- Eay.
      assert (ty / my <= ty0 / my) by (apply Z.div_le_mono; lia). nia.
    - destruct (anchor_between ty0 ty ty1 my Hmy0 ltac:(lia)) as (_ & _ & _ & _ & ky & Hky & Eay).
      rewrite Eay. apply zrange_step_down_In; try lia. rewrite <- Eay.
      assert (ty0 / my <= ty / my) by (apply Z.div_le_mono; lia). nia. }
  destruct (anchor_between ty ty ty my Hmy0 ltac:(lia)) as (Hay & _).
  set (xs := zrange_step (tx0 / mx * mx) (tx1 / mx * mx) mx) in *.
  set (ys := if ul g then zrange_step (ty1 / my * my) (ty0 / my * my) my
             else zrange_step_down (ty0 / my * my) (ty1 / my * my) my) in *.
  destruct xs as [|xf xr] eqn:Exs; [contradiction|]. destruct ys as [|yf yr] eqn:Eys; [contradiction|].
  eexists _, _, _, _. split; [reflexivity|].
  exists (tx / mx * mx), (ty / my * my). split; [exact Hax|]. split; [exact Hay|]. split; [reflexivity|]. split; [reflexivity|].
  apply create_tile_list_In. exists (tx / mx * mx), (ty / my * my). split; [exact Hinx|]. split; [exact Hiny|].
  rewrite <- (Hlim _ _ l Hv). rewrite Eg. reflexivity.
Qed.

(* ex_grid level 1 (res 50, inset 5, 21 x 26 tiles of 200 x 100), meta size 2 x 2: a strip of width 2 (thinner than 2/10
   pixel) that is 500 high is reduced to its centre line in x only: three rows of meta tiles *)
Example ex_meta_thin_strip :
  meta_affected_level_tiles ex_grid 2 2 (1199, 100, 1201, 600) 1 =
  Affected (1000, 100, 1400, 700) 1 3 [Some (10, 10, 1); Some (10, 8, 1); Some (10, 6, 1)].
Proof. vm_compute. reflexivity. Qed.

(* ---- thresholds, one per gap between two levels: closed form *)
(* threshold t lies between levels j-1 and j *)
Definition thr_gap (g : grid) (j t : Z) : Prop := 1 <= j < levels g /\ res_at g j <= t < res_at g (j - 1).
(* the thresholds (descending) lie in distinct gaps at or after level lv, in the order of the levels *)
Fixpoint gaps_ok (g : grid) (lv : Z) (ds : list Z) : Prop :=
  match ds with
  | [] => True
  | t :: rest => exists j, lv <= j /\ thr_gap g j t /\ gaps_ok g (j + 1) rest
  end.

Lemma decreasing_le g i j : decreasing_res g -> 0 <= i -> i <= j -> j < levels g -> res_at g j <= res_at g i.
Proof. intros Hd Hi Hij Hj. destruct (Z.eq_dec i j) as [->|]; [lia|]. pose proof (Hd i j Hi ltac:(lia) Hj). lia. Qed.

Lemma thr_gap_unique g j j' t : decreasing_res g -> thr_gap g j t -> thr_gap g j' t -> j = j'.
Proof.
  intros Hd [Hj [H1 H2]] [Hj' [H1' H2']].
  destruct (Z.lt_trichotomy j j') as [Hlt|[Heq|Hgt]]; [|exact Heq|]; exfalso.
  - pose proof (decreasing_le g j (j' - 1) Hd ltac:(lia) ltac:(lia) ltac:(lia)). lia.
  - pose proof (decreasing_le g j' (j - 1) Hd ltac:(lia) ltac:(lia) ltac:(lia)). lia.
Qed.

Lemma gaps_ok_weaken g : forall ds lv lv', lv' <= lv -> gaps_ok g lv ds -> gaps_ok g lv' ds.
Proof. intros [|t rest] lv lv' Hl; [trivial|]. intros (j & Hj & Hg & Hr). exists j. split; [lia|]. split; assumption. Qed.

Lemma gaps_ok_In g : forall ds lv x, gaps_ok g lv ds -> In x ds -> exists j, lv <= j /\ thr_gap g j x.
Proof.
  induction ds as [|t rest IH]; intros lv x Hg Hin; [contradiction|].
  destruct Hg as (j & Hj & Hgap & Hr). destruct Hin as [<-|Hin].
  - exists j. split; assumption.
  - destruct (IH (j + 1) x Hr Hin) as (j' & Hj' & Hg'). exists j'. split; [lia|exact Hg'].
Qed.

Lemma thr_pass_one_per_gap g : decreasing_res g -> (forall j, 0 <= j < levels g -> 0 < res_at g j) ->
  forall n rs lv prev t rest t',
  res_tail g lv rs -> (n <= length rs)%nat -> 0 <= lv -> lv + Z.of_nat (length rs) = levels g ->
  (1 <= lv -> prev = res_at g (lv - 1)) ->
  gaps_ok g lv (t :: rest) -> In t' (t :: rest) -> thr_gap g (lv + Z.of_nat n) t' ->
  exists ths' prev', thr_pass rs prev (Some t) rest n = (Some t', ths', prev') /\
                     (1 <= lv + Z.of_nat n -> prev' = res_at g (lv + Z.of_nat n - 1)).
Proof.
  intros Hd Hpos. induction n as [|n IH]; intros rs lv prev t rest t' Ht Hn Hlv Hlen Hprev Hg Hin Hgap'.
  - replace (lv + Z.of_nat 0) with lv in * by lia.
    assert (t' = t) as ->.
    { destruct Hin as [<-|Hin]; [reflexivity|]. exfalso. destruct Hg as (j & Hj & Hgap & Hr).
      destruct (gaps_ok_In g rest (j + 1) t' Hr Hin) as (j' & Hj' & Hg').
      pose proof (thr_gap_unique g _ _ _ Hd Hgap' Hg'). lia. }
    exists rest, prev. split; [destruct rs; reflexivity|exact Hprev].
  - destruct rs as [|r rs']; [cbn [length] in Hn; lia|]. destruct Ht as [-> Ht]. cbn [length] in Hlen.
    cbn [thr_pass]. destruct Hg as (j & Hj & Hgap & Hr).
    replace (lv + Z.of_nat (S n)) with (lv + 1 + Z.of_nat n) in * by lia.
    destruct (Z.eq_dec j lv) as [->|Hne].
    + (* the current threshold lies between levels lv-1 and lv: it is hit and consumed *)
      destruct Hgap as [Hj1 [Hg1 Hg2]].
      assert (Hhit : thr_hit (Some t) prev (res_at g lv) = true).
      { cbn [thr_hit]. rewrite (Hprev ltac:(lia)). pose proof (Hpos lv ltac:(lia)). lia. }
      rewrite Hhit.
      assert (Hin' : In t' rest).
      { destruct Hin as [<-|Hin]; [|exact Hin]. exfalso.
        pose proof (thr_gap_unique g _ _ _ Hd Hgap' (conj Hj1 (conj Hg1 Hg2))). lia. }
      destruct rest as [|t2 rest2]; [contradiction|]. cbn [thr_pop].
      apply (IH rs' (lv + 1) (res_at g lv) t2 rest2 t' Ht); try lia; try assumption.
      * cbn [length] in Hn. lia.
      * intros _. f_equal. lia.
    + (* its gap comes later: not hit at this level *)
      assert (Hnh : thr_hit (Some t) prev (res_at g lv) = false).
      { cbn [thr_hit]. destruct Hgap as [Hj1 [Hg1 Hg2]].
        pose proof (decreasing_le g lv (j - 1) Hd ltac:(lia) ltac:(lia) ltac:(lia)). lia. }
      rewrite Hnh.
      apply (IH rs' (lv + 1) (res_at g lv) t rest t' Ht); try lia; try assumption.
      * cbn [length] in Hn. lia.
      * intros _. f_equal. lia.
      * exists j. split; [lia|]. split; assumption.
Qed.

(* Closed form for thresholds that lie in distinct gaps between levels (threshold list ascending as in
   self.threshold_res, so its reverse is descending and the gaps come in level order): a threshold t between levels
   k-1 and k decides every request between these two levels: r_k <= res < r_(k-1) gets level k-1 when res > t and level
   k otherwise, whatever the stretch factor and the other thresholds. *)
Lemma closest_level_thr_one_per_gap g ths t k rn rd :
  decreasing_res g -> (forall j, 0 <= j < levels g -> 0 < res_at g j) -> 0 < rd ->
  gaps_ok g 1 (rev ths) -> In t ths -> thr_gap g k t ->
  res_at g k * rd <= rn < res_at g (k - 1) * rd ->
  closest_level_thr g ths rn rd = if t * rd <? rn then k - 1 else k.
Proof.
  intros Hd Hpos Hrd Hg Hin Hgap [Hr1 Hr2]. pose proof Hgap as [Hk [Hk1 Hk2]].
  assert (Hc : forall j, 0 <= j < k -> rn < res_at g j * rd).
  { intros j Hj. pose proof (decreasing_le g j (k - 1) Hd ltac:(lia) ltac:(lia) ltac:(lia)). nia. }
  pose proof (closest_level_thr_general g ths rn rd k Hrd ltac:(lia) Hc Hr1) as Hgen.
  apply in_rev in Hin. destruct (rev ths) as [|t1 rest] eqn:Er; [contradiction|].
  assert (Hinit : thr_init (res_at g 0) (t1 :: rest) = (Some t1, rest)).
  { cbn [thr_init]. destruct Hg as (j & Hj & [Hj1 [Hg1 Hg2]] & _).
    pose proof (decreasing_le g 0 (j - 1) Hd ltac:(lia) ltac:(lia) ltac:(lia)).
    destruct rest as [|t2 rest2]; cbn [thr_skip]; [reflexivity|].
    replace (res_at g 0 <? t1) with false by (symmetry; lia). reflexivity. }
  rewrite Hinit in Hgen.
  destruct (thr_pass_one_per_gap g Hd Hpos (Z.to_nat k) (ress g) 0 (res_at g 0) t1 rest t (res_tail_all g)
              ltac:(unfold levels in Hk; lia) ltac:(lia) ltac:(unfold levels; lia) ltac:(lia)
              (gaps_ok_weaken g _ 1 0 ltac:(lia) Hg) Hin ltac:(replace (0 + Z.of_nat (Z.to_nat k)) with k by lia; exact Hgap))
    as (ths' & prev' & Hp & Hprev').
  rewrite Hp in Hgen. apply (Hgen t eq_refl).
  cbn [thr_hit]. rewrite (Hprev' ltac:(lia)). replace (0 + Z.of_nat (Z.to_nat k) - 1) with (k - 1) by lia.
  pose proof (Hpos k ltac:(lia)). lia.
Qed.

Lemma ex_grid_pos : forall j, 0 <= j < levels ex_grid -> 0 < res_at ex_grid j.
Proof.
  intros j Hj. change (levels ex_grid) with 3 in Hj.
  assert (j = 0 \/ j = 1 \/ j = 2) as [-> | [-> | ->]] by lia; vm_compute; reflexivity.
Qed.
(* thresholds 30 (between levels 1 and 2) and 70 (between levels 0 and 1) on ex_grid: a request of 31 gets level 1 *)
Example ex_one_per_gap : closest_level_thr ex_grid [30; 70] 31 1 = if 30 * 1 <? 31 then 2 - 1 else 2.
Proof.
  apply (closest_level_thr_one_per_gap ex_grid [30; 70] 30 2 31 1 ex_grid_decreasing ex_grid_pos); try lia.
  - cbn [rev app gaps_ok]. exists 1. split; [lia|]. split; [unfold thr_gap; vm_compute; repeat split; congruence|].
    exists 2. split; [lia|]. split; [unfold thr_gap; vm_compute; repeat split; congruence|exact I].
  - left. reflexivity.
  - unfold thr_gap. vm_compute. repeat split; congruence.
  - vm_compute. split; congruence.
Qed.

(* ---- configured grids *)
(* an option set on the grid itself wins over globals and defaults (also when it was inherited from the base grid) *)
Lemma configured_grid_own_options g0 sf shr ts sf_glob shr_glob ts_glob :
  let g := configured_grid g0 (Some sf) sf_glob (Some shr) shr_glob (Some ts) ts_glob in
  (sf_n g, sf_d g) = sf /\ (shr_n g, shr_d g) = shr /\ (tw g, th g) = ts.
Proof. destruct sf, shr, ts. cbn. repeat split. Qed.

Lemma configured_grid_global_options g0 sf shr ts :
  let g := configured_grid g0 None (Some sf) None (Some shr) None (Some ts) in
  (sf_n g, sf_d g) = sf /\ (shr_n g, shr_d g) = shr /\ (tw g, th g) = ts.
Proof. destruct sf, shr, ts. cbn. repeat split. Qed.

(* hence the level choice on a configured grid is the one of closest_level_spec for the configured stretch factor *)
Lemma configured_level_choice g0 sn sd sf_glob shr_loc shr_glob ts_loc ts_glob rn rd :
  let g := configured_grid g0 (Some (sn, sd)) sf_glob shr_loc shr_glob ts_loc ts_glob in
  decreasing_res g -> 0 < levels g -> 0 < rd -> 0 < rn -> 0 < sd <= sn ->
  sf_n g = sn /\ sf_d g = sd /\ closest_level_spec_of g rn rd (closest_level g rn rd).
Proof.
  intros g Hd Hl Hrd Hrn Hsf. split; [reflexivity|]. split; [reflexivity|].
  apply closest_level_spec; assumption.
Qed.

Example ex_configured :
  let g := configured_grid ex_grid (Some (1, 1)) (Some (3, 2)) None None None (Some (128, 128)) in
  (sf_n g, sf_d g, shr_n g, shr_d g, tw g, th g) = (1, 1, 4, 1, 128, 128) /\
  closest_level g 46 1 = 2 /\ closest_level (configured_grid ex_grid None (Some (3, 2)) None None None None) 46 1 = 1.
Proof. repeat split; reflexivity. Qed.
