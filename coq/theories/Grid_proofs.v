(* Proofs about the exact grid model (C03). *)
From Coq Require Import ZArith List Bool Lia ZifyBool.
Import ListNotations.
From MP Require Import Grid.
Local Open Scope Z_scope.
Ltac Zify.zify_post_hook ::= Z.to_euclidean_division_equations.

(* well-formed grid: what TileGrid's constructor guarantees for sane configurations *)
Definition pos_res (g : grid) : Prop := forall r, In r (ress g) -> 0 < r.
Definition wf (g : grid) : Prop :=
  gx0 g < gx1 g /\ gy0 g < gy1 g /\ 0 < tw g /\ 0 < th g /\ pos_res g.

Lemma res_at_pos g l : wf g -> valid_level g l = true -> 0 < res_at g l.
Proof.
  intros (_ & _ & _ & _ & Hp) Hv. unfold valid_level, levels in Hv. unfold res_at.
  apply Hp. apply nth_In. lia.
Qed.

Definition in_bbox_halfopen (b : bbox) (px py : Z) : Prop :=
  let '(x0, y0, x1, y1) := b in x0 <= px < x1 /\ y0 <= py < y1.
(* for 'ul' grids rows are counted downwards from the top edge: the tile owns its top edge *)
Definition in_bbox_halfopen_ul (b : bbox) (px py : Z) : Prop :=
  let '(x0, y0, x1, y1) := b in x0 <= px < x1 /\ y0 < py <= y1.
Definition owns (g : grid) (b : bbox) (px py : Z) : Prop :=
  if ul g then in_bbox_halfopen_ul b px py else in_bbox_halfopen b px py.

Lemma div_bounds a s : 0 < s -> (a / s) * s <= a < (a / s) * s + s.
Proof. intros Hs. pose proof (Z.mod_pos_bound a s Hs). pose proof (Z.div_mod a s). nia. Qed.

(* the tile found for a point contains that point *)
Lemma point_in_own_tile g px py l :
  wf g -> valid_level g l = true ->
  let '(tx, ty) := tile g px py l in owns g (tile_bbox g tx ty l) px py.
Proof.
  intros Hwf Hv. pose proof (res_at_pos g l Hwf Hv) as Hr.
  destruct Hwf as (_ & _ & Htw & Hth & _).
  unfold tile, tile_bbox, owns. set (r := res_at g l) in *.
  assert (Hsx : 0 < r * tw g) by nia. assert (Hsy : 0 < r * th g) by nia.
  pose proof (div_bounds (px - gx0 g) (r * tw g) Hsx) as Hx.
  destruct (ul g); cbn [in_bbox_halfopen in_bbox_halfopen_ul].
  - pose proof (div_bounds (gy1 g - py) (r * th g) Hsy) as Hy. nia.
  - pose proof (div_bounds (py - gy0 g) (r * th g) Hsy) as Hy. nia.
Qed.

Lemma div_unique_bounds a s q : 0 < s -> q * s <= a < q * s + s -> a / s = q.
Proof. intros Hs H. symmetry. apply (Z.div_unique a s q (a - q * s)); lia. Qed.

(* a point owned by a tile's rectangle is mapped to that tile: tiles do not overlap *)
Lemma tile_of_owned g px py x y l :
  wf g -> valid_level g l = true ->
  owns g (tile_bbox g x y l) px py -> tile g px py l = (x, y).
Proof.
  intros Hwf Hv. pose proof (res_at_pos g l Hwf Hv) as Hr.
  destruct Hwf as (_ & _ & Htw & Hth & _).
  unfold tile, tile_bbox, owns. set (r := res_at g l) in *.
  assert (Hsx : 0 < r * tw g) by nia. assert (Hsy : 0 < r * th g) by nia.
  destruct (ul g); cbn [in_bbox_halfopen in_bbox_halfopen_ul]; intros [Hx Hy]; f_equal;
    apply div_unique_bounds; try assumption; nia.
Qed.

(* neighbouring tiles share edges: no gaps, no overlaps *)
Lemma tile_bbox_adjacent_x g x y l :
  let '(_, _, x1, _) := tile_bbox g x y l in
  let '(x0', _, _, _) := tile_bbox g (x + 1) y l in x1 = x0'.
Proof. unfold tile_bbox. destruct (ul g); nia. Qed.

Lemma tile_bbox_adjacent_y g x y l :
  let '(_, y0, _, y1) := tile_bbox g x y l in
  let '(_, y0', _, y1') := tile_bbox g x (y + 1) l in
  if ul g then y0 = y1' else y1 = y0'.
Proof. unfold tile_bbox. destruct (ul g); nia. Qed.

Lemma tile_bbox_size g x y l :
  let '(x0, y0, x1, y1) := tile_bbox g x y l in
  x1 - x0 = res_at g l * tw g /\ y1 - y0 = res_at g l * th g.
Proof. unfold tile_bbox. destruct (ul g); nia. Qed.

(* ---- grid sizes: the valid tiles cover the grid bbox except for a strip thinner than one pixel *)
Lemma cdiv_bounds a b : 0 < b -> a <= cdiv a b * b < a + b.
Proof. intros Hb. unfold cdiv. pose proof (div_bounds (- a) b Hb). nia. Qed.

Lemma axis_tiles_cover extent r t :
  0 < r -> 0 < t -> 0 < extent ->
  let n := axis_tiles extent r t in
  1 <= n /\ extent - r < n * (r * t) /\ (n - 1) * (r * t) < extent.
Proof.
  intros Hr Ht He. unfold axis_tiles.
  pose proof (cdiv_bounds (extent / r) t Ht) as Hc.
  pose proof (div_bounds extent r Hr) as Hd.
  assert (0 <= extent / r) by (apply Z.div_pos; lia).
  split; [lia|]. split; nia.
Qed.

Lemma grid_size_cover g l :
  wf g -> valid_level g l = true ->
  let '(nx, ny) := grid_size g l in
  let r := res_at g l in
  1 <= nx /\ 1 <= ny /\
  (gx1 g - gx0 g) - r < nx * (r * tw g) /\ (nx - 1) * (r * tw g) < gx1 g - gx0 g /\
  (gy1 g - gy0 g) - r < ny * (r * th g) /\ (ny - 1) * (r * th g) < gy1 g - gy0 g.
Proof.
  intros Hwf Hv. pose proof (res_at_pos g l Hwf Hv) as Hr.
  destruct Hwf as (Hx & Hy & Htw & Hth & _). unfold grid_size.
  pose proof (axis_tiles_cover (gx1 g - gx0 g) (res_at g l) (tw g) Hr Htw ltac:(lia)) as Hax.
  pose proof (axis_tiles_cover (gy1 g - gy0 g) (res_at g l) (th g) Hr Hth ltac:(lia)) as Hay.
  cbv zeta in Hax, Hay. tauto.
Qed.

(* ---- flipping between south-west and north-west numbering *)
Definition set_origin (g : grid) (o : bool) : grid :=
  mkGrid (gx0 g) (gy0 g) (gx1 g) (gy1 g) (tw g) (th g) (ress g) o (sf_n g) (sf_d g) (shr_n g) (shr_d g).

Lemma flip_involutive g x y l :
  let '(x', y', l') := flip_tile_coord g x y l in flip_tile_coord g x' y' l' = (x, y, l).
Proof. unfold flip_tile_coord. f_equal. f_equal. lia. Qed.

Lemma flip_preserves_validity g x y l :
  limit_tile g x y l = Some (x, y, l) ->
  let '(x', y', l') := flip_tile_coord g x y l in limit_tile g x' y' l' = Some (x', y', l').
Proof.
  unfold limit_tile, flip_tile_coord. destruct (negb (valid_level g l)); [discriminate|].
  destruct (grid_size g l) as [nx ny]. cbn [snd].
  destruct ((x <? 0) || (y <? 0) || (nx <=? x) || (ny <=? y)) eqn:E; [discriminate|]. intros _.
  replace ((x <? 0) || (ny - 1 - y <? 0) || (nx <=? x) || (ny <=? ny - 1 - y)) with false; [reflexivity|].
  symmetry. lia.
Qed.

(* vertical misalignment of the tiled area of a level with the grid bbox *)
Definition misalign (g : grid) (l : Z) : Z :=
  (gy1 g - gy0 g) - snd (grid_size g l) * (res_at g l * th g).

Definition shift_y (b : bbox) (d : Z) : bbox := let '(x0, y0, x1, y1) := b in (x0, y0 + d, x1, y1 + d).

(* the rectangle of the flipped coordinate in the grid numbered from the other corner is the same
   rectangle, moved by the misalignment of the level *)
