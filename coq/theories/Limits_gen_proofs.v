(* C16  Limits.over_tile_limit is the test that translator/specs/tile_limit.py regenerates from
   mapproxy/layer.py (CacheMapLayer._image) on every run (gen/Gen_tile_limit.v). *)
From Coq Require Import ZArith Bool.
From MP Require Import Grid Limits Gen_tile_limit.
Local Open Scope Z_scope.

Lemma over_tile_limit_as_generated : forall ly n,
  over_tile_limit ly n = gen_over_tile_limit (lmax_tiles ly) n.
Proof.
  intros ly n. unfold over_tile_limit, gen_over_tile_limit, oget_limit.
  destruct (lmax_tiles ly); reflexivity.
Qed.
