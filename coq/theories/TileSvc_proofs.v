(* Proofs about the tile-service addressing model (C02). *)
From Coq Require Import ZArith List Bool Lia ZifyBool.
Import ListNotations.
From MP Require Import Grid Grid_proofs TileSvc.
Local Open Scope Z_scope.
Ltac Zify.zify_post_hook ::= Z.to_euclidean_division_equations.

(* ---- WMTS client resolution: the scale denominator round-trips exactly *)
Lemma wmts_client_res_exact s l :
  0 < s_mpu_n s -> 0 < s_mpu_d s ->
  wmts_client_res (s_mpu_n s) (s_mpu_d s) (wmts_matrix s l) = res_at (sg s) l.
Proof.
  intros Hn Hd. unfold wmts_client_res, wmts_matrix.
  destruct (origin_tile (sg s) l true) as [[ox oy] ol].
  destruct (tile_bbox (sg s) ox oy ol) as [[[bx0 by0] bx1] by1].
  destruct (grid_size (sg s) l) as [nx ny]. cbn [tm_scale_n tm_scale_d].
  replace (res_at (sg s) l * 100000 * s_mpu_n s * 28 * s_mpu_d s)
    with (res_at (sg s) l * (28 * s_mpu_d s * 100000 * s_mpu_n s)) by ring.
  apply Z.div_mul. nia.
Qed.

(* ---- small facts *)
Definition grid_bbox (g : grid) : bbox := (gx0 g, gy0 g, gx1 g, gy1 g).
Definition tile_bbox_c (g : grid) (c : coord) : bbox := let '(x, y, l) := c in tile_bbox g x y l.
Definition shift_xy (b : bbox) (dx dy : Z) : bbox :=
  let '(x0, y0, x1, y1) := b in (x0 + dx, y0 + dy, x1 + dx, y1 + dy).

Lemma internal_some s x y z up all c :
  internal_tile_coord s x y z up all = Some c ->
  0 <= z /\ c = (x, y, req_level s up all z) /\ valid_level (sg s) (req_level s up all z) = true /\
  0 <= x < fst (grid_size (sg s) (req_level s up all z)) /\ 0 <= y < snd (grid_size (sg s) (req_level s up all z)).
Proof.
  unfold internal_tile_coord. destruct (z <? 0) eqn:E; [discriminate|]. intros H.
  apply limit_tile_some in H. destruct H as (-> & Hv & Hx & Hy). repeat split; try assumption; lia.
Qed.

Lemma internal_valid s x y z up all :
  0 <= z -> valid_level (sg s) (req_level s up all z) = true ->
  0 <= x < fst (grid_size (sg s) (req_level s up all z)) -> 0 <= y < snd (grid_size (sg s) (req_level s up all z)) ->
  internal_tile_coord s x y z up all = Some (x, y, req_level s up all z).
Proof.
  intros Hz Hv Hx Hy. unfold internal_tile_coord. replace (z <? 0) with false by lia.
  apply limit_tile_valid; assumption.
Qed.

Lemma layer_internal_some s o up all x y z c :
  layer_internal s o up all x y z = Some c ->
  0 <= z /\ c = flip_for (sg s) o (x, y, req_level s up all z) /\
  valid_level (sg s) (req_level s up all z) = true /\
  0 <= x < fst (grid_size (sg s) (req_level s up all z)) /\ 0 <= y < snd (grid_size (sg s) (req_level s up all z)).
Proof.
  unfold layer_internal. destruct (internal_tile_coord s x y z up all) as [c0|] eqn:E; [|discriminate].
  intros H. inversion H. apply internal_some in E. destruct E as (Hz & -> & Hv & Hx & Hy). auto.
Qed.

(* the rectangle of the coordinate chosen for request origin o, relative to the convention of o *)
Lemma flip_for_rect g o x y l :
  (effective_origin g o = ul g \/ misalign g l = 0) ->
  tile_bbox_c g (flip_for g o (x, y, l)) = conv_rect g (effective_origin g o) x y l.
Proof.
  intros H. unfold flip_for, effective_origin, conv_rect, tile_bbox_c, flip_tile_coord, tile_bbox in *.
  unfold misalign in H.
  destruct o, (ul g) eqn:U; cbn [snd] in *; try rewrite U;
    try (apply bbox_eq; ring);
    (destruct H as [H|H]; [discriminate|]);
    destruct (grid_size g l) as [nx ny]; cbn [snd] in *; apply bbox_eq; try ring; nia.
Qed.

Lemma flip_for_level g o x y l : snd (flip_for g o (x, y, l)) = l.
Proof. unfold flip_for, flip_tile_coord. destruct o, (ul g); reflexivity. Qed.

Lemma flip_for_valid g o x y l :
  limit_tile g x y l = Some (x, y, l) ->
  let '(x', y', l') := flip_for g o (x, y, l) in limit_tile g x' y' l' = Some (x', y', l').
Proof.
  intros H. unfold flip_for. pose proof (flip_preserves_validity g x y l H) as Hf.
  destruct o, (ul g); try exact H; exact Hf.
Qed.

(* ---- tile_sets *)
Lemma lookup_order_map (f : Z -> Z) z l u :
  lookup_order z (map (fun k => (k, f k)) l) = Some u -> In z l /\ u = f z.
Proof.
  induction l as [|k l IH]; cbn [map lookup_order]; [discriminate|].
  destruct (k =? z) eqn:E.
  - intros H. inversion H. apply Z.eqb_eq in E. subst. split; [left; reflexivity|reflexivity].
  - intros H. destruct (IH H) as [Hi Hu]. split; [right; exact Hi|exact Hu].
Qed.

Lemma ts_level_public s z : ts_start s + z * ts_step s = public_level s true z.
Proof.
  unfold ts_start, ts_step, public_level. destruct (skip_first s), (skip_odd s); cbn [andb]; ring.
Qed.

Lemma ts_step_pos s : 0 < ts_step s.
Proof. unfold ts_step. destruct (skip_odd s); lia. Qed.

Lemma ts_start_nonneg s : 0 <= ts_start s.
Proof. unfold ts_start. destruct (skip_first s), (skip_odd s); lia. Qed.

Lemma tile_sets_spec s z u :
  lookup_order z (tile_sets s) = Some u ->
  0 <= z /\ valid_level (sg s) (public_level s true z) = true /\ u = res_at (sg s) (public_level s true z).
Proof.
  unfold tile_sets. intros H.
  apply (lookup_order_map (fun k => res_at (sg s) (ts_start s + k * ts_step s))) in H.
  destruct H as [Hi ->]. apply zrange_In in Hi. rewrite ts_level_public.
  split; [lia|]. split; [|reflexivity].
  rewrite <- ts_level_public. unfold valid_level, ts_count in *.
  pose proof (ts_step_pos s) as Hs. pose proof (ts_start_nonneg s) as H0.
  pose proof (cdiv_bounds (levels (sg s) - ts_start s) (ts_step s) Hs) as Hc.
  apply andb_true_iff. split; [nia|]. apply Z.ltb_lt. nia.
Qed.

(* every advertised TileSet (order, units-per-pixel) is the resolution of the internal level that a request
   for that order is mapped to (global-profile level skip and sqrt2 level skip included) *)
Lemma tile_sets_internal_level_consistent_l s order upp :
  In (order, upp) (tile_sets s) ->
  valid_level (sg s) (public_level s true order) = true /\ res_at (sg s) (public_level s true order) = upp.
Proof.
  unfold tile_sets. intros H. apply in_map_iff in H. destruct H as (k & Hk & Hi).
  inversion Hk; subst. apply zrange_In in Hi. rewrite <- ts_level_public. split; [|reflexivity].
  unfold valid_level, ts_count in *.
  pose proof (ts_step_pos s) as Hs. pose proof (ts_start_nonneg s) as H0.
  pose proof (cdiv_bounds (levels (sg s) - ts_start s) (ts_step s) Hs) as Hc.
  apply andb_true_iff. split; [nia|]. apply Z.ltb_lt. nia.
Qed.

(* ---- TMS *)
(* where the TileMap Origin must lie for the addresses of internal level l to mean what the document says:
   at the lower-left corner of tile (0, 0) counted from the south-west *)
Definition tms_origin_ok (s : tlayer) (l : Z) : Prop :=
  let '(ex0, ey0, _, _) := s_extent s in
  ex0 = gx0 (sg s) /\ ey0 = gy0 (sg s) + (if ul (sg s) then misalign (sg s) l else 0).

Lemma tms_address_offset s srv z x y r c :
  tms_client_rect (tms_tilemap s) z x y = Some r ->
  served s srv (ATms z x y) = Some c ->
  let l := public_level s true z in
  let '(ex0, ey0, _, _) := s_extent s in
  tile_bbox_c (sg s) c =
  shift_xy r (gx0 (sg s) - ex0) (gy0 (sg s) + (if ul (sg s) then misalign (sg s) l else 0) - ey0).
Proof.
  unfold tms_client_rect, tms_tilemap, served. intros Hr Hc.
  destruct (s_extent s) as [[[ex0 ey0] ex1] ey1] eqn:Ee. cbn [td_sets td_origin td_tw td_th] in Hr.
  destruct (lookup_order z (tile_sets s)) as [u|] eqn:El; [|discriminate].
  apply tile_sets_spec in El. destruct El as (Hz & Hv & ->).
  apply layer_internal_some in Hc. destruct Hc as (_ & -> & _ & _ & _).
  change (req_level s true false z) with (public_level s true z).
  inversion Hr; subst r. clear Hr. cbv zeta.
  set (l := public_level s true z). set (g := sg s).
  unfold flip_for, tile_bbox_c, flip_tile_coord, tile_bbox, shift_xy, misalign.
  destruct (ul g) eqn:U; destruct (grid_size g l) as [nx ny]; cbn [snd]; try rewrite U; apply bbox_eq; ring.
Qed.

Lemma shift_xy_zero b : shift_xy b 0 0 = b.
Proof. destruct b as [[[a b] c] d]. unfold shift_xy. apply bbox_eq; lia. Qed.

Lemma shift_xy_fix b dx dy : shift_xy b dx dy = b -> dx = 0 /\ dy = 0.
Proof. destruct b as [[[a b] c] d]. unfold shift_xy. intros H. inversion H. lia. Qed.

(* the served tile covers the client's rectangle exactly when the Origin is the south-west corner of tile (0,0) *)
Lemma tms_address_exact_iff_l s srv z x y r c :
  tms_client_rect (tms_tilemap s) z x y = Some r ->
  served s srv (ATms z x y) = Some c ->
  (tile_bbox_c (sg s) c = r <-> tms_origin_ok s (public_level s true z)).
Proof.
  intros Hr Hc. pose proof (tms_address_offset s srv z x y r c Hr Hc) as H. cbv zeta in H.
  unfold tms_origin_ok. destruct (s_extent s) as [[[ex0 ey0] ex1] ey1]. rewrite H. split.
  - intros E. apply shift_xy_fix in E. lia.
  - intros [-> ->]. replace (gx0 (sg s) - gx0 (sg s)) with 0 by lia.
    match goal with |- shift_xy r 0 ?d = r => replace d with 0 by lia end. apply shift_xy_zero.
Qed.

(* readable form: layer extent = grid bbox and (origin ll, or the bottom of the tiled area of that level is the
   bottom of the grid bbox) *)
Lemma tms_address_exact_l s srv z x y r c :
  s_extent s = grid_bbox (sg s) ->
  (ul (sg s) = false \/ misalign (sg s) (public_level s true z) = 0) ->
  tms_client_rect (tms_tilemap s) z x y = Some r ->
  served s srv (ATms z x y) = Some c ->
  tile_bbox_c (sg s) c = r.
Proof.
  intros He Ha Hr Hc. apply (tms_address_exact_iff_l s srv z x y r c Hr Hc).
  unfold tms_origin_ok. rewrite He. unfold grid_bbox. split; [reflexivity|].
  destruct Ha as [-> | ->]; [lia|]. destruct (ul (sg s)); lia.
Qed.

(* an address inside the advertised range is served *)
Lemma tms_advertised_served_l s srv z x y u :
  lookup_order z (tile_sets s) = Some u ->
  0 <= x < fst (grid_size (sg s) (public_level s true z)) ->
  0 <= y < snd (grid_size (sg s) (public_level s true z)) ->
  exists c, served s srv (ATms z x y) = Some c.
Proof.
  intros Hl Hx Hy. apply tile_sets_spec in Hl. destruct Hl as (Hz & Hv & _).
  unfold served, layer_internal. rewrite (internal_valid s x y z true false Hz Hv Hx Hy). eexists. reflexivity.
Qed.

(* finding F8: bbox [0,0,1000,700], res 4/2/1 (lattice: 40, 20, 10), 100 px tiles, origin ul *)
Definition f8_grid : grid := mkGrid 0 0 10000 7000 100 100 [40; 20; 10] true 23 20 4 1.
Definition f8_layer : tlayer := mkLayer f8_grid SrsOther false false false 1 1 (0, 0, 10000, 7000) 10.

Lemma f8_wf : wf f8_grid.
Proof.
  unfold wf, pos_res, f8_grid; cbn. repeat split; lia.
Qed.

Lemma tms_address_refuted_l :
  exists s srv z x y r c,
    wf (sg s) /\ s_extent s = grid_bbox (sg s) /\
    tms_client_rect (tms_tilemap s) z x y = Some r /\ served s srv (ATms z x y) = Some c /\
    tile_bbox_c (sg s) c <> r.
Proof.
  exists f8_layer, ONone, 0, 0, 0, (0, 0, 4000, 4000), (0, 1, 0).
  split; [exact f8_wf|]. split; [reflexivity|]. split; [reflexivity|]. split; [reflexivity|].
  vm_compute. discriminate.
Qed.

(* second class of F8: the layer extent (cache coverage) differs from the grid bbox, grid origin ll *)
Lemma tms_address_refuted_extent_l :
  exists s srv z x y r c,
    wf (sg s) /\ ul (sg s) = false /\
    tms_client_rect (tms_tilemap s) z x y = Some r /\ served s srv (ATms z x y) = Some c /\
    tile_bbox_c (sg s) c <> r.
Proof.
  exists (mkLayer (mkGrid 0 0 8000 8000 100 100 [40; 20] false 23 20 4 1) SrsOther false false false 1 1 (10, 20, 8000, 8000) 10),
         ONone, 0, 0, 0, (10, 20, 4010, 4020), (0, 0, 0).
  split. { unfold wf, pos_res; cbn. repeat split; lia. }
  split; [reflexivity|]. split; [reflexivity|]. split; [reflexivity|]. vm_compute. discriminate.
Qed.

(* non-vacuity: an aligned ul grid on which the TMS statement applies, with the hidden level of a global profile *)
Definition ex_geodetic : grid := mkGrid (-1800) (-900) 1800 900 4 4 [900; 450; 225] true 23 20 4 1.
Definition ex_geod_layer : tlayer := mkLayer ex_geodetic SrsGeod true false true 111 1 (-1800, -900, 1800, 900) 10.
Lemma ex_geodetic_wf : wf ex_geodetic.
Proof. unfold wf, pos_res, ex_geodetic; cbn. repeat split; lia. Qed.
Example ex_tms_exact :
  wf ex_geodetic /\ s_extent ex_geod_layer = grid_bbox ex_geodetic /\ misalign ex_geodetic (public_level ex_geod_layer true 0) = 0 /\
  tile_sets ex_geod_layer = [(0, 450); (1, 225)] /\
  tms_client_rect (tms_tilemap ex_geod_layer) 0 1 0 = Some (0, -900, 1800, 900) /\
  served ex_geod_layer ONone (ATms 0 1 0) = Some (1, 0, 1) /\ tile_bbox_c ex_geodetic (1, 0, 1) = (0, -900, 1800, 900).
Proof.
  split; [exact ex_geodetic_wf|]. repeat split; vm_compute; reflexivity.
Qed.

(* ---- WMTS *)
Lemma find_some_id (ms : list tile_matrix) m tm :
  find (fun t => tm_id t =? m) ms = Some tm -> In tm ms /\ tm_id tm = m.
Proof. intros H. apply find_some in H. destruct H as [Hi He]. split; [exact Hi|lia]. Qed.

Lemma wmts_matrix_fields s l :
  tm_id (wmts_matrix s l) = l /\ tm_tw (wmts_matrix s l) = tw (sg s) /\ tm_th (wmts_matrix s l) = th (sg s) /\
  tm_w (wmts_matrix s l) = fst (grid_size (sg s) l) /\ tm_h (wmts_matrix s l) = snd (grid_size (sg s) l) /\
  (let '(tlx, tly) := if s_ne s then (snd (tm_top (wmts_matrix s l)), fst (tm_top (wmts_matrix s l))) else tm_top (wmts_matrix s l) in
   tlx = gx0 (sg s) /\
   tly = if ul (sg s) then gy1 (sg s) else gy0 (sg s) + snd (grid_size (sg s) l) * res_at (sg s) l * th (sg s)).
Proof.
  unfold wmts_matrix, origin_tile, flip_tile_coord, tile_bbox.
  destruct (ul (sg s)) eqn:U; cbn [Bool.eqb]; rewrite ?U;
    destruct (grid_size (sg s) l) as [nx ny]; cbn [snd fst]; rewrite ?U;
    cbn [tm_id tm_tw tm_th tm_w tm_h tm_top fst snd];
    repeat split; destruct (s_ne s); cbn [fst snd]; split; ring.
Qed.

Lemma wmts_address_exact_l s srv m col row r :
  0 < s_mpu_n s -> 0 < s_mpu_d s ->
  client_rect s srv (AWmts m col row) = Some r ->
  exists c, served s srv (AWmts m col row) = Some c /\ tile_bbox_c (sg s) c = r.
Proof.
  intros Hn Hd. unfold client_rect, wmts_matrix_set, served.
  destruct (wmts_offered s) eqn:Ho; [|discriminate].
  destruct (find (fun tm => tm_id tm =? m) (map (wmts_matrix s) (zrange 0 (levels (sg s) - 1)))) as [tm|] eqn:Ef; [|discriminate].
  apply find_some_id in Ef. destruct Ef as [Hi Hid].
  apply in_map_iff in Hi. destruct Hi as (l & <- & Hl). apply zrange_In in Hl.
  pose proof (wmts_matrix_fields s l) as (Fid & Ftw & Fth & Fw & Fh & Ftop).
  rewrite Fid in Hid. subst m. rewrite Fw, Fh.
  destruct ((0 <=? col) && (col <? fst (grid_size (sg s) l)) && (0 <=? row) && (row <? snd (grid_size (sg s) l))) eqn:Er; [|discriminate].
  intros Hr. inversion Hr; subst r. clear Hr.
  assert (Hv : valid_level (sg s) l = true) by (unfold valid_level; lia).
  assert (Hp : req_level s false true l = l) by reflexivity.
  unfold layer_internal. rewrite (internal_valid s col row l false true) by (rewrite ?Hp; try assumption; lia).
  rewrite Hp. eexists. split; [reflexivity|].
  unfold wmts_client_rect. rewrite (wmts_client_res_exact s l Hn Hd), Ftw, Fth.
  destruct (if s_ne s then (snd (tm_top (wmts_matrix s l)), fst (tm_top (wmts_matrix s l))) else tm_top (wmts_matrix s l)) as [tlx tly].
  destruct Ftop as [-> ->].
  unfold flip_for, tile_bbox_c, flip_tile_coord, tile_bbox.
  destruct (ul (sg s)) eqn:U; destruct (grid_size (sg s) l) as [nx ny]; cbn [snd]; rewrite ?U; apply bbox_eq; ring.
Qed.

(* non-vacuity with the sqrt2 level skip (finding W1, repaired): matrix 1 is served from level 1 *)
Definition w1_grid : grid := mkGrid 0 0 141400 141400 1 1 [141400; 100000; 70700; 50000] true 23 20 4 1.
Definition w1_layer : tlayer := mkLayer w1_grid SrsOther false true false 1 1 (0, 0, 141400, 141400) 10.
Example ex_wmts_sqrt2 :
  skip_odd w1_layer = true /\
  client_rect w1_layer ONone (AWmts 1 0 0) = Some (0, 41400, 100000, 141400) /\
  served w1_layer ONone (AWmts 1 0 0) = Some (0, 0, 1) /\ tile_bbox w1_grid 0 0 1 = (0, 41400, 100000, 141400) /\
  served w1_layer ONone (AWmts 3 1 1) = Some (1, 1, 3) /\ served w1_layer ONone (ATms 1 0 0) = Some (0, 1, 2).
Proof. repeat split; vm_compute; reflexivity. Qed.

Definition ex_ll_unaligned : grid := mkGrid 0 0 800 400 4 2 [100; 50] false 23 20 4 1.
Example ex_wmts_exact :
  client_rect (mkLayer ex_ll_unaligned SrsGeod false false true 7 2 (0, 0, 800, 400) 10) ONone (AWmts 1 3 0) = Some (600, 300, 800, 400) /\
  served (mkLayer ex_ll_unaligned SrsGeod false false true 7 2 (0, 0, 800, 400) 10) ONone (AWmts 1 3 0) = Some (3, 3, 1).
Proof. split; vm_compute; reflexivity. Qed.

(* ---- /tiles with ?origin= / the origin option of the service, and /kml (forced 'sw') *)
Definition request_origin (srv q : origin_req) : origin_req := match q with ONone => srv | _ => q end.

Lemma tiles_address_exact_l s srv q z x y r c :
  let l := public_level s false z in
  (effective_origin (sg s) (request_origin srv q) = ul (sg s) \/ misalign (sg s) l = 0) ->
  client_rect s srv (ATiles q z x y) = Some r ->
  served s srv (ATiles q z x y) = Some c ->
  tile_bbox_c (sg s) c = r.
Proof.
  cbv zeta. unfold client_rect, served. fold (request_origin srv q). intros Ha Hr Hc.
  destruct (z <? 0); [discriminate|]. inversion Hr; subst r.
  apply layer_internal_some in Hc. destruct Hc as (_ & -> & _).
  change (req_level s false false z) with (public_level s false z).
  apply flip_for_rect. exact Ha.
Qed.

Lemma kml_address_exact_l s srv z x y r c :
  (ul (sg s) = false \/ misalign (sg s) (public_level s false z) = 0) ->
  client_rect s srv (AKml z x y) = Some r ->
  served s srv (AKml z x y) = Some c ->
  tile_bbox_c (sg s) c = r.
Proof.
  unfold client_rect, served. intros Ha Hr Hc.
  destruct (z <? 0); [discriminate|]. inversion Hr; subst r.
  apply layer_internal_some in Hc. destruct Hc as (_ & -> & _).
  change (req_level s false false z) with (public_level s false z).
  change false with (effective_origin (sg s) OSW) at 2. apply flip_for_rect.
  cbn [effective_origin]. destruct Ha as [-> | H]; auto.
Qed.

(* the request parameter wins over the service option; without either the grid's own origin is used *)
Lemma origin_param_wins_l s srv srv' q z x y :
  q <> ONone -> served s srv (ATiles q z x y) = served s srv' (ATiles q z x y).
Proof. intros H. destruct q; [contradiction| |]; reflexivity. Qed.

Lemma tiles_advertised_served_l s srv q z x y :
  0 <= z -> valid_level (sg s) (public_level s false z) = true ->
  0 <= x < fst (grid_size (sg s) (public_level s false z)) ->
  0 <= y < snd (grid_size (sg s) (public_level s false z)) ->
  exists c, served s srv (ATiles q z x y) = Some c.
Proof.
  intros Hz Hv Hx Hy. unfold served, layer_internal.
  rewrite (internal_valid s x y z false false Hz Hv Hx Hy). eexists. reflexivity.
Qed.

Example ex_origin_override :
  served f8_layer OSW (ATiles ONW 1 0 0) = Some (0, 0, 1) /\ served f8_layer ONW (ATiles ONone 1 0 0) = Some (0, 0, 1) /\
  served f8_layer ONone (ATiles OSW 1 0 0) = Some (0, 3, 1) /\
  client_rect f8_layer OSW (ATiles ONW 1 0 0) = Some (0, 5000, 2000, 7000) /\ tile_bbox f8_grid 0 0 1 = (0, 5000, 2000, 7000).
Proof. repeat split; vm_compute; reflexivity. Qed.

(* ---- one statement for all services *)
Definition addr_ok (s : tlayer) (srv : origin_req) (a : address) : Prop :=
  match a with
  | ATms z _ _ => tms_origin_ok s (public_level s true z)
  | ATiles q z _ _ => effective_origin (sg s) (request_origin srv q) = ul (sg s) \/ misalign (sg s) (public_level s false z) = 0
  | AKml z _ _ => ul (sg s) = false \/ misalign (sg s) (public_level s false z) = 0
  | AWmts _ _ _ => 0 < s_mpu_n s /\ 0 < s_mpu_d s
  end.

Lemma address_exact_l s srv a r c :
  addr_ok s srv a -> client_rect s srv a = Some r -> served s srv a = Some c -> tile_bbox_c (sg s) c = r.
Proof.
  destruct a as [z x y|q z x y|z x y|m col row]; cbn [addr_ok]; intros Ha Hr Hc.
  - apply (tms_address_exact_iff_l s srv z x y r c Hr Hc). exact Ha.
  - exact (tiles_address_exact_l s srv q z x y r c Ha Hr Hc).
  - exact (kml_address_exact_l s srv z x y r c Ha Hr Hc).
  - destruct Ha as (Hn & Hd). destruct (wmts_address_exact_l s srv m col row r Hn Hd Hr) as (c' & Hc' & He).
    congruence.
Qed.

Lemma served_valid s srv a c :
  served s srv a = Some c -> let '(x, y, l) := c in limit_tile (sg s) x y l = Some c.
Proof.
  assert (G : forall o up all x y z, layer_internal s o up all x y z = Some c -> let '(x, y, l) := c in limit_tile (sg s) x y l = Some c).
  { intros o up all x y z H. apply layer_internal_some in H. destruct H as (_ & -> & Hv & Hx & Hy).
    pose proof (flip_for_valid (sg s) o x y (req_level s up all z) (limit_tile_valid _ _ _ _ Hv Hx Hy)) as Hf.
    destruct (flip_for (sg s) o (x, y, req_level s up all z)) as [[x' y'] l']. exact Hf. }
  destruct a as [z x y|q z x y|z x y|m col row]; cbn [served]; try apply G.
  destruct (wmts_offered s); [apply G|discriminate].
Qed.

Lemma res_at_inj g l1 l2 :
  decreasing_res g -> valid_level g l1 = true -> valid_level g l2 = true -> res_at g l1 = res_at g l2 -> l1 = l2.
Proof.
  intros Hd H1 H2 He. unfold valid_level in *.
  destruct (Z.lt_trichotomy l1 l2) as [H|[H|H]]; [|exact H|].
  - pose proof (Hd l1 l2 ltac:(lia) H ltac:(lia)). lia.
  - pose proof (Hd l2 l1 ltac:(lia) H ltac:(lia)). lia.
Qed.

Lemma tile_bbox_inj g x1 y1 l1 x2 y2 l2 :
  wf g -> decreasing_res g -> valid_level g l1 = true -> valid_level g l2 = true ->
  tile_bbox g x1 y1 l1 = tile_bbox g x2 y2 l2 -> (x1, y1, l1) = (x2, y2, l2).
Proof.
  intros Hwf Hd H1 H2 He.
  pose proof (res_at_pos g l1 Hwf H1) as R1. pose proof (res_at_pos g l2 Hwf H2) as R2.
  destruct Hwf as (_ & _ & Htw & Hth & _).
  assert (Hr : res_at g l1 = res_at g l2).
  { unfold tile_bbox in He.
    assert (res_at g l1 * tw g = res_at g l2 * tw g) by (destruct (ul g); inversion He; lia). nia. }
  pose proof (res_at_inj g l1 l2 Hd H1 H2 Hr) as ->.
  unfold tile_bbox in He. set (r := res_at g l2) in *.
  assert (0 < r * tw g) by nia. assert (0 < r * th g) by nia.
  assert (Hx : x1 * r * tw g = x2 * r * tw g) by (destruct (ul g); inversion He; lia).
  assert (Hy : y1 * r * th g = y2 * r * th g) by (destruct (ul g); inversion He; lia).
  assert (x1 = x2) by nia. assert (y1 = y2) by nia. subst. reflexivity.
Qed.

(* two addresses (any services, any origin conventions) for which the clients compute the same rectangle are
   answered from the same internal tile, hence with the same cached image *)
Lemma same_ground_tile_same_internal_l s srv a1 a2 r c1 c2 :
  wf (sg s) -> decreasing_res (sg s) ->
  addr_ok s srv a1 -> addr_ok s srv a2 ->
  client_rect s srv a1 = Some r -> client_rect s srv a2 = Some r ->
  served s srv a1 = Some c1 -> served s srv a2 = Some c2 ->
  c1 = c2.
Proof.
  intros Hwf Hd O1 O2 R1 R2 S1 S2.
  pose proof (address_exact_l s srv a1 r c1 O1 R1 S1) as E1.
  pose proof (address_exact_l s srv a2 r c2 O2 R2 S2) as E2.
  pose proof (served_valid s srv a1 c1 S1) as V1. pose proof (served_valid s srv a2 c2 S2) as V2.
  destruct c1 as [[x1 y1] l1], c2 as [[x2 y2] l2]. cbn [tile_bbox_c] in *.
  apply limit_tile_some in V1. apply limit_tile_some in V2.
  apply (tile_bbox_inj (sg s)); try tauto. congruence.
Qed.

Lemma f8_decreasing : decreasing_res f8_grid.
Proof.
  intros i j Hi Hij Hj. unfold levels, f8_grid in *. cbn in Hj.
  assert (i = 0 /\ j = 1 \/ i = 0 /\ j = 2 \/ i = 1 /\ j = 2) as [[-> ->]|[[-> ->]|[-> ->]]] by lia; vm_compute; reflexivity.
Qed.

(* non-vacuity: WMTS (north-west rows) and /tiles?origin=nw name the same tile of the unaligned ul grid *)
Example ex_same_ground :
  addr_ok f8_layer ONone (AWmts 1 2 1) /\ addr_ok f8_layer ONone (ATiles ONW 1 2 1) /\
  client_rect f8_layer ONone (AWmts 1 2 1) = Some (4000, 3000, 6000, 5000) /\
  client_rect f8_layer ONone (ATiles ONW 1 2 1) = Some (4000, 3000, 6000, 5000) /\
  served f8_layer ONone (AWmts 1 2 1) = Some (2, 1, 1) /\ served f8_layer ONone (ATiles ONW 1 2 1) = Some (2, 1, 1).
Proof.
  split. { cbn. repeat split; lia. }
  split. { left. reflexivity. }
  repeat split; vm_compute; reflexivity.
Qed.

(* ---- WMS-C (GetMap tiled=true) *)
Lemma create_tile_list_single x xs y ys l gs c :
  create_tile_list (x :: xs) (y :: ys) l gs = [Some c] ->
  xs = [] /\ ys = [] /\ tile_or_none (fst gs) (snd gs) l x y = Some c.
Proof.
  unfold create_tile_list. cbn [flat_map map]. intros H. inversion H as [[H0 H1]].
  apply app_eq_nil in H1. destruct H1 as [Hm Hf]. apply map_eq_nil in Hm.
  destruct ys as [|y2 ys2]; [auto|]. cbn [flat_map map] in Hf. discriminate.
Qed.

Lemma merge_bbox_idem a : merge_bbox a a = a.
Proof. destruct a as [[[a0 a1] a2] a3]. unfold merge_bbox. apply bbox_eq; lia. Qed.

(* a tiled GetMap that is answered with a tile has the tile size of the grid and every edge of the served tile
   lies within 1/10 pixel of the requested rectangle: it is never answered with a neighbouring tile *)
Lemma wmsc_exact_or_refused_l g b sx sy c :
  wmsc_get_map g b sx sy = WLoaded c ->
  sx = tw g /\ sy = th g /\ bbox_equals_tenth b (tile_bbox_c g c) sx sy = true.
Proof.
  unfold wmsc_get_map.
  destruct ((sx =? tw g) && (sy =? th g)) eqn:Es; cbn [negb]; [|discriminate].
  destruct (affected_level g b sx sy) as [l|]; [|discriminate].
  rewrite affected_unfold.
  destruct (aff_cols g b l) as [|xf xs] eqn:Ec; [discriminate|].
  destruct (aff_rows g b l) as [|yf ys] eqn:Er; [discriminate|].
  match goal with |- (if ?c then _ else _) = _ -> _ => destruct c; [discriminate|] end.
  match goal with |- (if negb ?c then _ else _) = _ -> _ => destruct c eqn:Eb; cbn [negb]; [|discriminate] end.
  destruct (create_tile_list (xf :: xs) (yf :: ys) l (grid_size g l)) as [|[c0|] [|? ?]] eqn:Et; try discriminate.
  intros H. inversion H; subst c0. clear H.
  apply create_tile_list_single in Et. destruct Et as (-> & -> & Ht).
  cbn [last] in Eb. rewrite merge_bbox_idem in Eb.
  unfold tile_or_none in Ht.
  destruct ((xf <? 0) || (yf <? 0) || (fst (grid_size g l) <=? xf) || (snd (grid_size g l) <=? yf)); [discriminate|].
  inversion Ht; subst c. cbn [tile_bbox_c]. repeat split; try lia. exact Eb.
Qed.

Lemma bbox_equals_tenth_spec a b sx sy :
  bbox_equals_tenth a b sx sy = true ->
  let '(a0, a1, a2, a3) := a in let '(b0, b1, b2, b3) := b in
  Z.abs (a0 - b0) * (10 * sx) < Z.abs (a2 - a0) /\ Z.abs (a1 - b1) * (10 * sx) < Z.abs (a2 - a0) /\
  Z.abs (a2 - b2) * (10 * sy) < Z.abs (a3 - a1) /\ Z.abs (a3 - b3) * (10 * sy) < Z.abs (a3 - a1).
Proof.
  destruct a as [[[a0 a1] a2] a3], b as [[[b0 b1] b2] b3]. unfold bbox_equals_tenth. lia.
Qed.

Example ex_wmsc :
  wmsc_get_map ex_ll_unaligned (400, 100, 600, 200) 4 2 = WLoaded (2, 1, 1) /\
  wmsc_get_map ex_ll_unaligned (404, 100, 604, 200) 4 2 = WLoaded (2, 1, 1) /\
  wmsc_get_map ex_ll_unaligned (406, 100, 606, 200) 4 2 = WRefused /\
  wmsc_get_map f8_grid (0, 0, 4000, 4000) 100 100 = WRefused.
Proof. repeat split; vm_compute; reflexivity. Qed.

(* ---- KML super-overlay links *)
Lemma kml_href_roundtrip_l s srv x y l h :
  (skip_odd s = false \/ l mod 2 = 0) ->
  limit_tile (sg s) x y l = Some (x, y, l) ->
  kml_href_coord s (x, y, l) = Some h ->
  let '(hx, hy, hz) := h in served s srv (AKml hz hx hy) = Some (x, y, l).
Proof.
  intros Hs Hl. pose proof (limit_tile_some _ _ _ _ _ Hl) as (_ & Hv & Hx & Hy).
  assert (H0 : 0 <= l) by (unfold valid_level in Hv; lia).
  set (hz := if skip_odd s then l / 2 else l).
  assert (Hhz : 0 <= hz) by (unfold hz; destruct (skip_odd s); lia).
  assert (Hp : req_level s false false hz = l).
  { unfold req_level, public_level, hz. cbn [andb]. destruct (skip_odd s); [|reflexivity].
    destruct Hs as [Hs|Hs]; [discriminate|]. lia. }
  unfold kml_href_coord, external_tile_coord, flip_tile_coord. cbn [andb].
  destruct (ul (sg s)) eqn:U; replace (l <? 0) with false by lia; fold hz; intros E; inversion E; subst h; clear E;
    cbv beta iota zeta; unfold served, layer_internal, flip_for.
  - match goal with |- context [internal_tile_coord s x ?yy hz false false] =>
      rewrite (internal_valid s x yy hz false false)
        by (rewrite ?Hp; try assumption; unfold grid_size in *; cbn [fst snd] in *; lia) end.
    rewrite Hp, U. unfold flip_tile_coord, grid_size. cbn [snd]. f_equal. f_equal. f_equal. lia.
  - rewrite (internal_valid s x y hz false false) by (rewrite ?Hp; try assumption; lia). rewrite Hp, U. reflexivity.
Qed.

(* non-vacuity with the sqrt2 level skip on a ul grid (finding K1, repaired): internal tile (0, 0, 2) is linked as
   /1/0/1 (row flipped with the 2 rows of level 2) and that address is answered with (0, 0, 2) *)
Example ex_kml_href_sqrt2 :
  skip_odd w1_layer = true /\ ul (sg w1_layer) = true /\ limit_tile w1_grid 0 0 2 = Some (0, 0, 2) /\
  kml_href_coord w1_layer (0, 0, 2) = Some (0, 1, 1) /\ served w1_layer ONone (AKml 1 0 1) = Some (0, 0, 2).
Proof. repeat split; vm_compute; reflexivity. Qed.

(* the document of the last level has no sub tiles (finding K2, repaired) *)
Example ex_kml_last_level :
  kml_document ex_geod_layer 0 0 2 = KmlDoc (-1800, -900, -900, 0) [].
Proof. vm_compute. reflexivity. Qed.

Example ex_kml_doc :
  kml_document ex_geod_layer 0 0 0 =
  KmlDoc (-1800, -900, 1800, 900)
    [(Some (0, 0, 1), (-1800, -900, 0, 900)); (Some (1, 0, 1), (0, -900, 1800, 900))].
Proof. vm_compute. reflexivity. Qed.

(* ---- WMS-C: requesting exactly the rectangle of a stored tile returns that tile *)
Lemma zrange_single x : zrange x x = [x].
Proof. unfold zrange. replace (x + 1 - x) with 1 by lia. change (Z.to_nat 1) with 1%nat. cbn [seq map Z.of_nat]. rewrite Z.add_0_r. reflexivity. Qed.

Lemma div_in_tile a s d : 0 < s -> 0 <= d < s -> (a * s + d) / s = a.
Proof. intros Hs Hd. apply div_unique_bounds; lia. Qed.

(* the level chosen for a request at exactly the resolution of level l is l *)
Lemma closest_level_exact g l t :
  wf g -> decreasing_res g -> valid_level g l = true -> 0 < t -> 0 < sf_d g <= sf_n g ->
  closest_level g (res_at g l * t) t = l.
Proof.
  intros Hwf Hd Hv Ht Hsf. pose proof (res_at_pos g l Hwf Hv) as Hr.
  assert (Hl : 0 < levels g) by (unfold valid_level in Hv; lia).
  pose proof (closest_level_spec g (res_at g l * t) t Hd Hl Ht ltac:(nia) Hsf) as Hs.
  apply (closest_level_spec_unique g (res_at g l * t) t _ l Hs).
  unfold closest_level_spec_of. split; [unfold valid_level in Hv; lia|]. left. split.
  - unfold level_within. split; [lia|]. nia.
  - intros j Hj [Hw _]. pose proof (Hd l j ltac:(unfold valid_level in Hv; lia) ltac:(lia) ltac:(lia)). nia.
Qed.

Lemma wmsc_tile_rect_served g x y l :
  wf g -> decreasing_res g -> 0 < sf_d g <= sf_n g -> 0 < shr_d g <= shr_n g ->
  limit_tile g x y l = Some (x, y, l) -> 10 <= res_at g l ->
  wmsc_get_map g (tile_bbox g x y l) (tw g) (th g) = WLoaded (x, y, l).
Proof.
  intros Hwf Hd Hsf Hshr Hl H10.
  pose proof (limit_tile_some _ _ _ _ _ Hl) as (_ & Hv & Hx & Hy).
  pose proof (res_at_pos g l Hwf Hv) as Hr.
  pose proof (grid_size_cover g l Hwf Hv) as Hc.
  assert (Hv0 : valid_level g 0 = true) by (unfold valid_level in *; lia).
  pose proof (res_at_pos g 0 Hwf Hv0) as Hr0.
  assert (Hr0l : res_at g l <= res_at g 0).
  { destruct (Z.eq_dec l 0) as [->|]; [lia|].
    pose proof (Hd 0 l ltac:(lia) ltac:(unfold valid_level in Hv; lia) ltac:(unfold valid_level in Hv; lia)). lia. }
  assert (Hwf2 := Hwf). destruct Hwf as (Hgx & Hgy & Htw & Hth & Hp).
  destruct (grid_size g l) as [nx ny] eqn:Eg. cbn [fst snd] in *. cbv zeta in Hc.
  destruct Hc as (Hnx & Hny & Hcx1 & Hcx2 & Hcy1 & Hcy2).
  set (r := res_at g l) in *.
  assert (Hsx : 0 < r * tw g) by nia. assert (Hsy : 0 < r * th g) by nia.
  assert (Hd10 : 1 <= r / 10 <= r) by lia.
  assert (Hdx : r / 10 < r * tw g) by nia. assert (Hdy : r / 10 < r * th g) by nia.
  assert (Hshr2 : r * shr_d g <= res_at g 0 * shr_n g) by nia.
  assert (Hshr3 : r * tw g * shr_d g <= res_at g 0 * shr_n g * tw g) by nia.
  unfold wmsc_get_map. rewrite !Z.eqb_refl. cbn [andb negb].
  (* level *)
  assert (Hal : affected_level g (tile_bbox g x y l) (tw g) (th g) = Some l).
  { unfold affected_level, tile_bbox. fold r.
    destruct (ul g) eqn:U.
    - unfold bbox_intersects, get_resolution.
      replace ((gx0 g <? gx0 g + x * r * tw g + r * tw g) && (gx0 g + x * r * tw g <? gx1 g) &&
               (gy0 g <? gy1 g - y * r * th g) && (gy1 g - y * r * th g - r * th g <? gy1 g)) with true by (symmetry; nia).
      cbn [negb].
      replace (Z.abs (gx0 g + x * r * tw g - (gx0 g + x * r * tw g + r * tw g))) with (r * tw g) by lia.
      replace (Z.abs (gy1 g - y * r * th g - r * th g - (gy1 g - y * r * th g))) with (r * th g) by lia.
      replace (r * tw g * th g <=? r * th g * tw g) with true by (symmetry; nia).
      unfold r. rewrite (closest_level_exact g l (tw g)) by (try assumption; lia).
      fold r. replace (res_at g 0 * shr_n g * tw g <? r * tw g * shr_d g) with false by (symmetry; lia). reflexivity.
    - unfold bbox_intersects, get_resolution.
      replace ((gx0 g <? gx0 g + x * r * tw g + r * tw g) && (gx0 g + x * r * tw g <? gx1 g) &&
               (gy0 g <? gy0 g + y * r * th g + r * th g) && (gy0 g + y * r * th g <? gy1 g)) with true by (symmetry; nia).
      cbn [negb].
      replace (Z.abs (gx0 g + x * r * tw g - (gx0 g + x * r * tw g + r * tw g))) with (r * tw g) by lia.
      replace (Z.abs (gy0 g + y * r * th g - (gy0 g + y * r * th g + r * th g))) with (r * th g) by lia.
      replace (r * tw g * th g <=? r * th g * tw g) with true by (symmetry; nia).
      unfold r. rewrite (closest_level_exact g l (tw g)) by (try assumption; lia).
      fold r. replace (res_at g 0 * shr_n g * tw g <? r * tw g * shr_d g) with false by (symmetry; lia). reflexivity. }
  rewrite Hal.
  (* the block is the single tile *)
  assert (Hcols : aff_cols g (tile_bbox g x y l) l = [x]).
  { unfold aff_cols, tile_bbox, tile, inset. fold r. destruct (ul g); cbn [fst].
    - replace (gx0 g + x * r * tw g + r / 10 - gx0 g) with (x * (r * tw g) + r / 10) by ring.
      replace (gx0 g + x * r * tw g + r * tw g - r / 10 - gx0 g) with (x * (r * tw g) + (r * tw g - r / 10)) by ring.
      rewrite !div_in_tile by lia. apply zrange_single.
    - replace (gx0 g + x * r * tw g + r / 10 - gx0 g) with (x * (r * tw g) + r / 10) by ring.
      replace (gx0 g + x * r * tw g + r * tw g - r / 10 - gx0 g) with (x * (r * tw g) + (r * tw g - r / 10)) by ring.
      rewrite !div_in_tile by lia. apply zrange_single. }
  assert (Hrows : aff_rows g (tile_bbox g x y l) l = [y]).
  { unfold aff_rows, tile_bbox, tile, inset. fold r. destruct (ul g) eqn:U; rewrite ?U; cbn [snd].
    - replace (gy1 g - (gy1 g - y * r * th g - r * th g + r / 10)) with (y * (r * th g) + (r * th g - r / 10)) by ring.
      replace (gy1 g - (gy1 g - y * r * th g - r / 10)) with (y * (r * th g) + r / 10) by ring.
      rewrite !div_in_tile by lia. apply zrange_single.
    - replace (gy0 g + y * r * th g + r / 10 - gy0 g) with (y * (r * th g) + r / 10) by ring.
      replace (gy0 g + y * r * th g + r * th g - r / 10 - gy0 g) with (y * (r * th g) + (r * th g - r / 10)) by ring.
      rewrite !div_in_tile by lia. rewrite zrange_single. reflexivity. }
  rewrite affected_unfold, Hcols, Hrows. cbn [last length create_tile_list flat_map map app fst snd].
  rewrite merge_bbox_idem. rewrite Eg. cbn [fst snd].
  replace (1 <? Z.of_nat 1 * Z.of_nat 1) with false by reflexivity.
  assert (Hbe : bbox_equals_tenth (tile_bbox g x y l) (tile_bbox g x y l) (tw g) (th g) = true).
  { unfold bbox_equals_tenth, tile_bbox. fold r. destruct (ul g); lia. }
  rewrite Hbe. cbn [negb]. unfold tile_or_none.
  replace ((x <? 0) || (y <? 0) || (nx <=? x) || (ny <=? y)) with false by (symmetry; lia). reflexivity.
Qed.

(* the rectangles a client derives from the WMS-C TileSet (BoundingBox corner, resolution, tile size) are served
   with the tile a TMS request for the same (i, j) gets, under the hypotheses of tms_address_exact *)
Lemma wmsc_advertised_served_l s i j l :
  wf (sg s) -> decreasing_res (sg s) -> 0 < sf_d (sg s) <= sf_n (sg s) -> 0 < shr_d (sg s) <= shr_n (sg s) ->
  s_extent s = grid_bbox (sg s) ->
  (ul (sg s) = false \/ misalign (sg s) l = 0) ->
  limit_tile (sg s) i j l = Some (i, j, l) -> 10 <= res_at (sg s) l ->
  wmsc_get_map (sg s) (wmsc_client_rect s (res_at (sg s) l) i j) (tw (sg s)) (th (sg s)) =
  WLoaded (flip_for (sg s) OSW (i, j, l)).
Proof.
  intros Hwf Hd Hsf Hshr He Ha Hl H10.
  assert (Hrect : wmsc_client_rect s (res_at (sg s) l) i j = tile_bbox_c (sg s) (flip_for (sg s) OSW (i, j, l))).
  { rewrite flip_for_rect by (cbn [effective_origin]; destruct Ha as [-> | H]; auto).
    unfold wmsc_client_rect, conv_rect. rewrite He. unfold grid_bbox. cbn [effective_origin]. reflexivity. }
  rewrite Hrect. pose proof (flip_for_valid (sg s) OSW i j l Hl) as Hv.
  pose proof (flip_for_level (sg s) OSW i j l) as Hlv.
  destruct (flip_for (sg s) OSW (i, j, l)) as [[x' y'] l']. cbn [snd] in Hlv. subst l'.
  cbn [tile_bbox_c]. apply wmsc_tile_rect_served; assumption.
Qed.

Example ex_wmsc_advertised :
  wmsc_get_map f8_grid (wmsc_client_rect (mkLayer f8_grid SrsOther false false false 1 1 (0, 0, 10000, 7000) 10) 40 0 0)
               100 100 = WRefused /\
  wmsc_get_map ex_ll_unaligned (wmsc_client_rect (mkLayer ex_ll_unaligned SrsOther false false false 1 1 (0, 0, 800, 400) 10) 50 3 3) 4 2
  = WLoaded (3, 3, 1).
Proof. split; vm_compute; reflexivity. Qed.

(* ---- the whole KML document: every GroundOverlay (href, LatLonBox) names a tile that is served and covers the box *)
Lemma kml_document_links_exact_l s srv x y z b subs oh r :
  kml_document s x y z = KmlDoc b subs -> In (oh, r) subs ->
  exists hx hy hz, oh = Some (hx, hy, hz) /\
    exists c, served s srv (AKml hz hx hy) = Some c /\ tile_bbox_c (sg s) c = r.
Proof.
  unfold kml_document.
  destruct (layer_internal s OSW false false x y z) as [[[ix iy] iz]|]; [|discriminate].
  destruct (internal_tile_coord s x y (z + 1) false false) as [[[nx0 ny0] lvl]|] eqn:En.
  2:{ intros H. inversion H; subst. intros []. }
  apply internal_some in En. destruct En as (Hz & Hc & Hv & _). assert (El : lvl = req_level s false false (z + 1)) by congruence. clear Hc. subst lvl.
  set (lvl := req_level s false false (z + 1)) in *.
  assert (Hev : skip_odd s = false \/ lvl mod 2 = 0).
  { unfold lvl, req_level, public_level. cbn [andb]. destruct (skip_odd s); [right; lia|left; reflexivity]. }
  destruct (affected_level_tiles (sg s) (limit_bbox (sg s) (tile_bbox (sg s) ix iy iz)) lvl) as [ab n m tiles|] eqn:Ea; [|discriminate].
  destruct (limit_bbox (sg s) (tile_bbox (sg s) ix iy iz)) as [[[b0 b1] b2] b3] eqn:Eb.
  intros H. inversion H; subst b subs. clear H. intros Hi.
  apply in_flat_map in Hi. destruct Hi as (oc & Hoc & Hin).
  destruct oc as [[[cx cy] cz]|]; [|destruct Hin].
  destruct (tile_bbox (sg s) cx cy cz) as [[[s0 s1] s2] s3] eqn:Es.
  destruct ((0 <? (s0 - b0) * 10000000 + s_scale s) && (0 <? (s1 - b1) * 10000000 + s_scale s)); [|destruct Hin].
  destruct Hin as [Hin|[]]. injection Hin as Hoh Hr. subst r.
  pose proof (affected_tiles_valid (sg s) _ lvl ab n m tiles Hv Ea) as [H1 _].
  destruct (H1 _ Hoc) as (tx & ty & _ & _ & Hl). symmetry in Hl.
  pose proof (limit_tile_some _ _ _ _ _ Hl) as (Ht & _). inversion Ht; subst cx cy cz. clear Ht.
  assert (Hoh' : kml_href_coord s (tx, ty, lvl) = oh) by exact Hoh. clear Hoh.
  destruct oh as [[[hx hy] hz]|].
  - exists hx, hy, hz. split; [reflexivity|].
    pose proof (kml_href_roundtrip_l s srv tx ty lvl (hx, hy, hz) Hev Hl Hoh') as Hs. cbv beta iota in Hs.
    exists (tx, ty, lvl). split; [exact Hs|]. cbn [tile_bbox_c]. exact Es.
  - exfalso. unfold kml_href_coord, external_tile_coord in Hoh'.
    apply limit_tile_some in Hl. destruct Hl as (_ & Hvl & _). unfold valid_level in Hvl.
    destruct (ul (sg s)); unfold flip_tile_coord in Hoh'; replace (lvl <? 0) with false in Hoh' by lia; discriminate.
Qed.

(* ---- WMS-C: the advertised-served statement needs only the Origin condition of tms_address_exact_iff (the lower-left
   corner of the TileSet BoundingBox is the south-west corner of tile (0,0) of that level), not extent = grid bbox *)
Lemma wmsc_advertised_served_origin_l s i j l :
  wf (sg s) -> decreasing_res (sg s) -> 0 < sf_d (sg s) <= sf_n (sg s) -> 0 < shr_d (sg s) <= shr_n (sg s) ->
  tms_origin_ok s l ->
  limit_tile (sg s) i j l = Some (i, j, l) -> 10 <= res_at (sg s) l ->
  wmsc_get_map (sg s) (wmsc_client_rect s (res_at (sg s) l) i j) (tw (sg s)) (th (sg s)) =
  WLoaded (flip_for (sg s) OSW (i, j, l)).
Proof.
  intros Hwf Hd Hsf Hshr Ho Hl H10.
  assert (Hrect : wmsc_client_rect s (res_at (sg s) l) i j = tile_bbox_c (sg s) (flip_for (sg s) OSW (i, j, l))).
  { unfold tms_origin_ok in Ho. unfold wmsc_client_rect.
    destruct (s_extent s) as [[[ex0 ey0] ex1] ey1]. destruct Ho as [-> ->].
    unfold flip_for, tile_bbox_c, flip_tile_coord, tile_bbox, misalign.
    destruct (ul (sg s)) eqn:U; destruct (grid_size (sg s) l) as [nx ny]; cbn [snd]; rewrite ?U; apply bbox_eq; ring. }
  rewrite Hrect. pose proof (flip_for_valid (sg s) OSW i j l Hl) as Hv.
  pose proof (flip_for_level (sg s) OSW i j l) as Hlv.
  destruct (flip_for (sg s) OSW (i, j, l)) as [[x' y'] l']. cbn [snd] in Hlv. subst l'.
  cbn [tile_bbox_c]. apply wmsc_tile_rect_served; assumption.
Qed.

(* converse: if the rectangle derived from the TileSet for (i, j) is answered with the tile TMS serves for (i, j), the
   Origin condition holds up to the 1/10 pixel guard - stated exactly: the two rectangles differ by less than a tenth of a
   pixel in every edge *)
Lemma wmsc_served_implies_close s i j l :
  wmsc_get_map (sg s) (wmsc_client_rect s (res_at (sg s) l) i j) (tw (sg s)) (th (sg s)) =
  WLoaded (flip_for (sg s) OSW (i, j, l)) ->
  bbox_equals_tenth (wmsc_client_rect s (res_at (sg s) l) i j) (tile_bbox_c (sg s) (flip_for (sg s) OSW (i, j, l)))
                    (tw (sg s)) (th (sg s)) = true.
Proof. intros H. apply wmsc_exact_or_refused_l in H. tauto. Qed.

(* ---- TileServiceGrid.internal_level (demo): the level it names is the level TMS requests are served from, except on
   global-profile sqrt2 grids, where it is two grid levels further down (4 instead of 2 for order 0) *)
Lemma internal_level_consistent_l s z :
  skip_first s && skip_odd s = false -> internal_level s z = public_level s true z.
Proof.
  unfold internal_level, public_level. destruct (skip_first s), (skip_odd s); cbn [andb]; try discriminate; intros _; ring.
Qed.

Lemma internal_level_offset_l s z :
  skip_first s = true -> skip_odd s = true -> internal_level s z = public_level s true z + 2.
Proof. unfold internal_level, public_level. intros -> ->. cbn [andb]. ring. Qed.

Lemma svc_bbox_spec s b : svc_bbox s = Some b -> b = grid_bbox (sg s) /\ internal_level s 0 < levels (sg s).
Proof.
  unfold svc_bbox, grid_bbox. destruct (internal_level s 0 <? levels (sg s)) eqn:E; [|discriminate].
  intros H. inversion H. split; [reflexivity|lia].
Qed.

Example ex_internal_level :
  internal_level (mkLayer w1_grid SrsMerc true true false 1 1 (0, 0, 141400, 141400) 10) 0 = 4 /\
  public_level (mkLayer w1_grid SrsMerc true true false 1 1 (0, 0, 141400, 141400) 10) true 0 = 2 /\
  svc_bbox (mkLayer w1_grid SrsMerc true true false 1 1 (0, 0, 141400, 141400) 10) = None /\
  svc_bbox f8_layer = Some (0, 0, 10000, 7000).
Proof. repeat split; vm_compute; reflexivity. Qed.

(* ---- request isolation: for every number of requests and every schedule of parse / handle events, a request that is
   handled after it was parsed is answered exactly as if it were alone - whatever was parsed or handled in between *)
Section Isolation.
Variable t : layer_table.
Variable srv : origin_req.
Variable reqs : nat -> treq.

Definition dims_inv (st : rstate) : Prop :=
  cls_dims st = None /\ forall i d, assoc_nat i (inst_dims st) = Some d -> d = rq_spec (reqs i).

Lemma rstep_inv st e : dims_inv st -> dims_inv (rstep t srv reqs st e).
Proof.
  intros [Hc Hi]. destruct e as [i|i]; cbn [rstep]; split; cbn [cls_dims inst_dims]; try assumption.
  intros k d. cbn [assoc_nat]. destruct (Nat.eqb i k) eqn:E.
  - apply Nat.eqb_eq in E. subst k. intros H. inversion H. reflexivity.
  - apply Hi.
Qed.

Lemma run_inv sched : forall st, dims_inv st -> dims_inv (fold_left (rstep t srv reqs) sched st).
Proof. induction sched as [|e r IH]; intros st H; cbn [fold_left]; [exact H|]. apply IH. apply rstep_inv. exact H. Qed.

Definition parsed (st : rstate) (i : nat) : Prop := assoc_nat i (inst_dims st) <> None.

Lemma rstep_parsed st e i : parsed st i -> parsed (rstep t srv reqs st e) i.
Proof.
  unfold parsed. destruct e as [k|k]; cbn [rstep inst_dims assoc_nat]; [|tauto].
  destruct (Nat.eqb k i); [discriminate|tauto].
Qed.

Lemma handle_isolated st i :
  dims_inv st -> parsed st i ->
  answer_of (rstep t srv reqs st (RHandle i)) i = Some (handle_with t srv (reqs i) (rq_spec (reqs i))).
Proof.
  intros [Hc Hi] Hp. unfold answer_of. cbn [rstep answers assoc_nat]. rewrite Nat.eqb_refl.
  unfold dims_of. unfold parsed in Hp. destruct (assoc_nat i (inst_dims st)) as [d|] eqn:E; [|contradiction].
  rewrite (Hi i d E). reflexivity.
Qed.

(* later events do not change the answer that was given, unless the request is handled again *)
Lemma answer_stable st e i a :
  answer_of st i = Some a -> e <> RHandle i -> answer_of (rstep t srv reqs st e) i = Some a.
Proof.
  unfold answer_of. destruct e as [k|k]; cbn [rstep answers]; [tauto|]. intros H Hne. cbn [assoc_nat].
  destruct (Nat.eqb k i) eqn:E; [apply Nat.eqb_eq in E; subst; contradiction|exact H].
Qed.

Theorem request_isolation_l pre post i :
  In (RParse i) pre ->
  ~ In (RHandle i) post ->
  answer_of (run_schedule t srv reqs (pre ++ RHandle i :: post)) i =
  Some (handle_with t srv (reqs i) (rq_spec (reqs i))).
Proof.
  intros Hin Hpost. unfold run_schedule. rewrite fold_left_app. cbn [fold_left].
  set (st := fold_left (rstep t srv reqs) pre rs_init).
  assert (Hinv : dims_inv st).
  { apply run_inv. split; [reflexivity|]. intros k d H. discriminate. }
  assert (Hp : parsed st i).
  { unfold st. clear Hinv st Hpost. generalize rs_init. induction pre as [|e r IH]; [destruct Hin|]. intros s0.
    cbn [fold_left]. destruct Hin as [->|Hin].
    - assert (P : parsed (rstep t srv reqs s0 (RParse i)) i).
      { unfold parsed. cbn [rstep inst_dims assoc_nat]. rewrite Nat.eqb_refl. discriminate. }
      revert P. generalize (rstep t srv reqs s0 (RParse i)). clear. induction r as [|e r IH]; intros s P; [exact P|].
      cbn [fold_left]. apply IH. apply rstep_parsed. exact P.
    - apply IH. exact Hin. }
  pose proof (handle_isolated st i Hinv Hp) as Ha.
  revert Ha. generalize (rstep t srv reqs st (RHandle i)). clear -Hpost.
  induction post as [|e r IH]; intros s Ha; [exact Ha|]. cbn [fold_left]. apply IH.
  - intros H. apply Hpost. right. exact H.
  - apply answer_stable; [exact Ha|]. intros ->. apply Hpost. left. reflexivity.
Qed.
End Isolation.

(* non-vacuity: two layers, B (other grid path element) is parsed between the parsing and the handling of A *)
Example ex_request_isolation :
  let t := [(1, 3857, f8_layer); (2, 4326, ex_geod_layer)] in
  let reqs := fun i : nat => match i with O => mkReq false 1 (Some 3857) (ATms 0 0 0) | _ => mkReq false 2 None (ATiles ONone 1 1 0) end in
  let st := run_schedule t ONone reqs [RParse 0; RParse 1; RHandle 0; RHandle 1]%nat in
  answer_of st 0%nat = Some (Some (0, 1, 0)) /\ answer_of st 1%nat = Some (Some (1, 0, 1)).
Proof. split; vm_compute; reflexivity. Qed.

(* ---- content of the served tile (composition with the meta tile model of C04, imported read-only) *)
From MP Require Import MetaGrid MetaGrid_proofs.
(* ---- content: the image stored for the tile of an address, cut out of its meta tile (MetaGrid.v: meta tile bbox,
   tile pattern, TileSplitter, a picture that depends on the ground position only), shows at every pixel the picture
   sampled over the rectangle the client computes for the address *)
Lemma served_content_exact_l s srv a r c m q j k :
  mg_grid m = sg s -> mwf m -> 0 < q ->
  addr_ok s srv a -> client_rect s srv a = Some r -> served s srv a = Some c ->
  (let '(cx, cy, cz) := c in no_buffer_cut m cx cy cz) ->
  0 <= j < tw (sg s) -> 0 <= k < th (sg s) ->
  model_pixel m q HowMeta c j k = Some (stored_pixel (sg s) q r (tw (sg s), th (sg s)) (0, 0) j k).
Proof.
  intros Hg Hm Hq Hok Hr Hs Hcut Hj Hk.
  pose proof (address_exact_l s srv a r c Hok Hr Hs) as He.
  pose proof (served_valid s srv a c Hs) as Hv.
  destruct c as [[cx cy] cz]. cbn [tile_bbox_c] in He.
  apply limit_tile_some in Hv. destruct Hv as (_ & Hvl & Hx & Hy).
  rewrite <- Hg in *.
  rewrite (meta_equals_single_lemma m q cx cy cz j k Hm Hvl Hq Hx Hy Hcut Hj Hk).
  unfold model_pixel. rewrite He. reflexivity.
Qed.
