(* Proofs about the tile-service addressing model (C02). *)
From Coq Require Import ZArith List Bool Lia ZifyBool.
Import ListNotations.
From MP Require Import Grid Grid_proofs TileSvc.
Local Open Scope Z_scope.
Ltac Zify.zify_post_hook ::= Z.to_euclidean_division_equations.

(* ---- WMTS client resolution: the scale denominator round-trips exactly *)
Lemma wmts_client_res_exact s l :
  0 < s_mpu_n s -> 0 < s_mpu_d s ->
  wmts_client_res (s_mpu_n s) (s_mpu_d s) (wmts_matrix s l) = res_at (sg s) l.
Proof.
  intros Hn Hd. unfold wmts_client_res, wmts_matrix.
  destruct (origin_tile (sg s) l true) as [[ox oy] ol].
  destruct (tile_bbox (sg s) ox oy ol) as [[[bx0 by0] bx1] by1].
  destruct (grid_size (sg s) l) as [nx ny]. cbn [tm_scale_n tm_scale_d].
  replace (res_at (sg s) l * 100000 * s_mpu_n s * 28 * s_mpu_d s)
    with (res_at (sg s) l * (28 * s_mpu_d s * 100000 * s_mpu_n s)) by ring.
  apply Z.div_mul. nia.
Qed.

(* ---- small facts *)
Definition grid_bbox (g : grid) : bbox := (gx0 g, gy0 g, gx1 g, gy1 g).
Definition tile_bbox_c (g : grid) (c : coord) : bbox := let '(x, y, l) := c in tile_bbox g x y l.
Definition shift_xy (b : bbox) (dx dy : Z) : bbox :=
  let '(x0, y0, x1, y1) := b in (x0 + dx, y0 + dy, x1 + dx, y1 + dy).

Lemma internal_some s x y z up c :
  internal_tile_coord s x y z up = Some c ->
  0 <= z /\ c = (x, y, public_level s up z) /\ valid_level (sg s) (public_level s up z) = true /\
  0 <= x < fst (grid_size (sg s) (public_level s up z)) /\ 0 <= y < snd (grid_size (sg s) (public_level s up z)).
Proof.
  unfold internal_tile_coord. destruct (z <? 0) eqn:E; [discriminate|]. intros H.
  apply limit_tile_some in H. destruct H as (-> & Hv & Hx & Hy). repeat split; try assumption; lia.
Qed.

Lemma internal_valid s x y z up :
  0 <= z -> valid_level (sg s) (public_level s up z) = true ->
  0 <= x < fst (grid_size (sg s) (public_level s up z)) -> 0 <= y < snd (grid_size (sg s) (public_level s up z)) ->
  internal_tile_coord s x y z up = Some (x, y, public_level s up z).
Proof.
  intros Hz Hv Hx Hy. unfold internal_tile_coord. replace (z <? 0) with false by lia.
  apply limit_tile_valid; assumption.
Qed.

Lemma layer_internal_some s o up x y z c :
  layer_internal s o up x y z = Some c ->
  0 <= z /\ c = flip_for (sg s) o (x, y, public_level s up z) /\
  valid_level (sg s) (public_level s up z) = true /\
  0 <= x < fst (grid_size (sg s) (public_level s up z)) /\ 0 <= y < snd (grid_size (sg s) (public_level s up z)).
Proof.
  unfold layer_internal. destruct (internal_tile_coord s x y z up) as [c0|] eqn:E; [|discriminate].
  intros H. inversion H. apply internal_some in E. destruct E as (Hz & -> & Hv & Hx & Hy). auto.
Qed.

(* the rectangle of the coordinate chosen for request origin o, relative to the convention of o *)
Lemma flip_for_rect g o x y l :
  (effective_origin g o = ul g \/ misalign g l = 0) ->
  tile_bbox_c g (flip_for g o (x, y, l)) = conv_rect g (effective_origin g o) x y l.
Proof.
  intros H. unfold flip_for, effective_origin, conv_rect, tile_bbox_c, flip_tile_coord, tile_bbox in *.
  unfold misalign in H.
  destruct o, (ul g) eqn:U; cbn [snd] in *; try rewrite U;
    try (apply bbox_eq; ring);
    (destruct H as [H|H]; [discriminate|]);
    destruct (grid_size g l) as [nx ny]; cbn [snd] in *; apply bbox_eq; try ring; nia.
Qed.

Lemma flip_for_level g o x y l : snd (flip_for g o (x, y, l)) = l.
Proof. unfold flip_for, flip_tile_coord. destruct o, (ul g); reflexivity. Qed.

Lemma flip_for_valid g o x y l :
  limit_tile g x y l = Some (x, y, l) ->
  let '(x', y', l') := flip_for g o (x, y, l) in limit_tile g x' y' l' = Some (x', y', l').
Proof.
  intros H. unfold flip_for. pose proof (flip_preserves_validity g x y l H) as Hf.
  destruct o, (ul g); try exact H; exact Hf.
Qed.

(* ---- tile_sets *)
Lemma lookup_order_map (f : Z -> Z) z l u :
  lookup_order z (map (fun k => (k, f k)) l) = Some u -> In z l /\ u = f z.
Proof.
  induction l as [|k l IH]; cbn [map lookup_order]; [discriminate|].
  destruct (k =? z) eqn:E.
  - intros H. inversion H. apply Z.eqb_eq in E. subst. split; [left; reflexivity|reflexivity].
  - intros H. destruct (IH H) as [Hi Hu]. split; [right; exact Hi|exact Hu].
Qed.

Lemma ts_level_public s z : ts_start s + z * ts_step s = public_level s true z.
Proof.
  unfold ts_start, ts_step, public_level. destruct (skip_first s), (skip_odd s); cbn [andb]; ring.
Qed.

Lemma ts_step_pos s : 0 < ts_step s.
Proof. unfold ts_step. destruct (skip_odd s); lia. Qed.

Lemma ts_start_nonneg s : 0 <= ts_start s.
Proof. unfold ts_start. destruct (skip_first s), (skip_odd s); lia. Qed.

Lemma tile_sets_spec s z u :
  lookup_order z (tile_sets s) = Some u ->
  0 <= z /\ valid_level (sg s) (public_level s true z) = true /\ u = res_at (sg s) (public_level s true z).
Proof.
  unfold tile_sets. intros H.
  apply (lookup_order_map (fun k => res_at (sg s) (ts_start s + k * ts_step s))) in H.
  destruct H as [Hi ->]. apply zrange_In in Hi. rewrite ts_level_public.
  split; [lia|]. split; [|reflexivity].
  rewrite <- ts_level_public. unfold valid_level, ts_count in *.
  pose proof (ts_step_pos s) as Hs. pose proof (ts_start_nonneg s) as H0.
  pose proof (cdiv_bounds (levels (sg s) - ts_start s) (ts_step s) Hs) as Hc.
  apply andb_true_iff. split; [nia|]. apply Z.ltb_lt. nia.
Qed.

(* every advertised TileSet (order, units-per-pixel) is the resolution of the internal level that a request
   for that order is mapped to (global-profile level skip and sqrt2 level skip included) *)
Lemma tile_sets_internal_level_consistent_l s order upp :
  In (order, upp) (tile_sets s) ->
  valid_level (sg s) (public_level s true order) = true /\ res_at (sg s) (public_level s true order) = upp.
Proof.
  unfold tile_sets. intros H. apply in_map_iff in H. destruct H as (k & Hk & Hi).
  inversion Hk; subst. apply zrange_In in Hi. rewrite <- ts_level_public. split; [|reflexivity].
  unfold valid_level, ts_count in *.
  pose proof (ts_step_pos s) as Hs. pose proof (ts_start_nonneg s) as H0.
  pose proof (cdiv_bounds (levels (sg s) - ts_start s) (ts_step s) Hs) as Hc.
  apply andb_true_iff. split; [nia|]. apply Z.ltb_lt. nia.
Qed.

(* ---- TMS *)
(* where the TileMap Origin must lie for the addresses of internal level l to mean what the document says:
   at the lower-left corner of tile (0, 0) counted from the south-west *)
Definition tms_origin_ok (s : tlayer) (l : Z) : Prop :=
  let '(ex0, ey0, _, _) := s_extent s in
  ex0 = gx0 (sg s) /\ ey0 = gy0 (sg s) + (if ul (sg s) then misalign (sg s) l else 0).

Lemma tms_address_offset s srv z x y r c :
  tms_client_rect (tms_tilemap s) z x y = Some r ->
  served s srv (ATms z x y) = Some c ->
  let l := public_level s true z in
  let '(ex0, ey0, _, _) := s_extent s in
  tile_bbox_c (sg s) c =
  shift_xy r (gx0 (sg s) - ex0) (gy0 (sg s) + (if ul (sg s) then misalign (sg s) l else 0) - ey0).
Proof.
  unfold tms_client_rect, tms_tilemap, served. intros Hr Hc.
  destruct (s_extent s) as [[[ex0 ey0] ex1] ey1] eqn:Ee. cbn [td_sets td_origin td_tw td_th] in Hr.
  destruct (lookup_order z (tile_sets s)) as [u|] eqn:El; [|discriminate].
  apply tile_sets_spec in El. destruct El as (Hz & Hv & ->).
  apply layer_internal_some in Hc. destruct Hc as (_ & -> & _ & _ & _).
  inversion Hr; subst r. clear Hr. cbv zeta.
  set (l := public_level s true z). set (g := sg s).
  unfold flip_for, tile_bbox_c, flip_tile_coord, tile_bbox, shift_xy, misalign.
  destruct (ul g) eqn:U; destruct (grid_size g l) as [nx ny]; cbn [snd]; try rewrite U; apply bbox_eq; ring.
Qed.

Lemma shift_xy_zero b : shift_xy b 0 0 = b.
Proof. destruct b as [[[a b] c] d]. unfold shift_xy. apply bbox_eq; lia. Qed.

Lemma shift_xy_fix b dx dy : shift_xy b dx dy = b -> dx = 0 /\ dy = 0.
Proof. destruct b as [[[a b] c] d]. unfold shift_xy. intros H. inversion H. lia. Qed.

(* the served tile covers the client's rectangle exactly when the Origin is the south-west corner of tile (0,0) *)
Lemma tms_address_exact_iff_l s srv z x y r c :
  tms_client_rect (tms_tilemap s) z x y = Some r ->
  served s srv (ATms z x y) = Some c ->
  (tile_bbox_c (sg s) c = r <-> tms_origin_ok s (public_level s true z)).
Proof.
  intros Hr Hc. pose proof (tms_address_offset s srv z x y r c Hr Hc) as H. cbv zeta in H.
  unfold tms_origin_ok. destruct (s_extent s) as [[[ex0 ey0] ex1] ey1]. rewrite H. split.
  - intros E. apply shift_xy_fix in E. lia.
  - intros [-> ->]. replace (gx0 (sg s) - gx0 (sg s)) with 0 by lia.
    match goal with |- shift_xy r 0 ?d = r => replace d with 0 by lia end. apply shift_xy_zero.
Qed.

(* readable form: layer extent = grid bbox and (origin ll, or the bottom of the tiled area of that level is the
   bottom of the grid bbox) *)
Lemma tms_address_exact_l s srv z x y r c :
  s_extent s = grid_bbox (sg s) ->
  (ul (sg s) = false \/ misalign (sg s) (public_level s true z) = 0) ->
  tms_client_rect (tms_tilemap s) z x y = Some r ->
  served s srv (ATms z x y) = Some c ->
  tile_bbox_c (sg s) c = r.
Proof.
  intros He Ha Hr Hc. apply (tms_address_exact_iff_l s srv z x y r c Hr Hc).
  unfold tms_origin_ok. rewrite He. unfold grid_bbox. split; [reflexivity|].
  destruct Ha as [-> | ->]; [lia|]. destruct (ul (sg s)); lia.
Qed.

(* an address inside the advertised range is served *)
Lemma tms_advertised_served_l s srv z x y u :
  lookup_order z (tile_sets s) = Some u ->
  0 <= x < fst (grid_size (sg s) (public_level s true z)) ->
  0 <= y < snd (grid_size (sg s) (public_level s true z)) ->
  exists c, served s srv (ATms z x y) = Some c.
Proof.
  intros Hl Hx Hy. apply tile_sets_spec in Hl. destruct Hl as (Hz & Hv & _).
  unfold served, layer_internal. rewrite (internal_valid s x y z true Hz Hv Hx Hy). eexists. reflexivity.
Qed.

(* finding F8: bbox [0,0,1000,700], res 4/2/1 (lattice: 40, 20, 10), 100 px tiles, origin ul *)
Definition f8_grid : grid := mkGrid 0 0 10000 7000 100 100 [40; 20; 10] true 23 20 4 1.
Definition f8_layer : tlayer := mkLayer f8_grid SrsOther false false false 1 1 (0, 0, 10000, 7000) 10.

Lemma f8_wf : wf f8_grid.
Proof.
  unfold wf, pos_res, f8_grid; cbn. repeat split; lia.
Qed.

Lemma tms_address_refuted_l :
  exists s srv z x y r c,
    wf (sg s) /\ s_extent s = grid_bbox (sg s) /\
    tms_client_rect (tms_tilemap s) z x y = Some r /\ served s srv (ATms z x y) = Some c /\
    tile_bbox_c (sg s) c <> r.
Proof.
  exists f8_layer, ONone, 0, 0, 0, (0, 0, 4000, 4000), (0, 1, 0).
  split; [exact f8_wf|]. split; [reflexivity|]. split; [reflexivity|]. split; [reflexivity|].
  vm_compute. discriminate.
Qed.

(* second class of F8: the layer extent (cache coverage) differs from the grid bbox, grid origin ll *)
Lemma tms_address_refuted_extent_l :
  exists s srv z x y r c,
    wf (sg s) /\ ul (sg s) = false /\
    tms_client_rect (tms_tilemap s) z x y = Some r /\ served s srv (ATms z x y) = Some c /\
    tile_bbox_c (sg s) c <> r.
Proof.
  exists (mkLayer (mkGrid 0 0 8000 8000 100 100 [40; 20] false 23 20 4 1) SrsOther false false false 1 1 (10, 20, 8000, 8000) 10),
         ONone, 0, 0, 0, (10, 20, 4010, 4020), (0, 0, 0).
  split. { unfold wf, pos_res; cbn. repeat split; lia. }
  split; [reflexivity|]. split; [reflexivity|]. split; [reflexivity|]. vm_compute. discriminate.
Qed.

(* non-vacuity: an aligned ul grid on which the TMS statement applies, with the hidden level of a global profile *)
Definition ex_geodetic : grid := mkGrid (-1800) (-900) 1800 900 4 4 [900; 450; 225] true 23 20 4 1.
Definition ex_geod_layer : tlayer := mkLayer ex_geodetic SrsGeod true false true 111 1 (-1800, -900, 1800, 900) 10.
Lemma ex_geodetic_wf : wf ex_geodetic.
Proof. unfold wf, pos_res, ex_geodetic; cbn. repeat split; lia. Qed.
Example ex_tms_exact :
  wf ex_geodetic /\ s_extent ex_geod_layer = grid_bbox ex_geodetic /\ misalign ex_geodetic (public_level ex_geod_layer true 0) = 0 /\
  tile_sets ex_geod_layer = [(0, 450); (1, 225)] /\
  tms_client_rect (tms_tilemap ex_geod_layer) 0 1 0 = Some (0, -900, 1800, 900) /\
  served ex_geod_layer ONone (ATms 0 1 0) = Some (1, 0, 1) /\ tile_bbox_c ex_geodetic (1, 0, 1) = (0, -900, 1800, 900).
Proof.
  split; [exact ex_geodetic_wf|]. repeat split; vm_compute; reflexivity.
Qed.
