(* Proofs about the tile-service addressing model (C02). *)
From Coq Require Import ZArith List Bool Lia ZifyBool.
Import ListNotations.
From MP Require Import Grid Grid_proofs TileSvc.
Local Open Scope Z_scope.
Ltac Zify.zify_post_hook ::= Z.to_euclidean_division_equations.

(* ---- WMTS client resolution: the scale denominator round-trips exactly *)
Lemma wmts_client_res_exact s l :
  0 < s_mpu_n s -> 0 < s_mpu_d s ->
  wmts_client_res (s_mpu_n s) (s_mpu_d s) (wmts_matrix s l) = res_at (sg s) l.
Proof.
  intros Hn Hd. unfold wmts_client_res, wmts_matrix.
  destruct (origin_tile (sg s) l true) as [[ox oy] ol].
  destruct (tile_bbox (sg s) ox oy ol) as [[[bx0 by0] bx1] by1].
  destruct (grid_size (sg s) l) as [nx ny]. cbn [tm_scale_n tm_scale_d].
  replace (res_at (sg s) l * 100000 * s_mpu_n s * 28 * s_mpu_d s)
    with (res_at (sg s) l * (28 * s_mpu_d s * 100000 * s_mpu_n s)) by ring.
  apply Z.div_mul. nia.
Qed.

(* ---- small facts *)
Definition grid_bbox (g : grid) : bbox := (gx0 g, gy0 g, gx1 g, gy1 g).
Definition tile_bbox_c (g : grid) (c : coord) : bbox := let '(x, y, l) := c in tile_bbox g x y l.
Definition shift_xy (b : bbox) (dx dy : Z) : bbox :=
  let '(x0, y0, x1, y1) := b in (x0 + dx, y0 + dy, x1 + dx, y1 + dy).

Lemma internal_some s x y z up all c :
  internal_tile_coord s x y z up all = Some c ->
  0 <= z /\ c = (x, y, req_level s up all z) /\ valid_level (sg s) (req_level s up all z) = true /\
  0 <= x < fst (grid_size (sg s) (req_level s up all z)) /\ 0 <= y < snd (grid_size (sg s) (req_level s up all z)).
Proof.
  unfold internal_tile_coord. destruct (z <? 0) eqn:E; [discriminate|]. intros H.
  apply limit_tile_some in H. destruct H as (-> & Hv & Hx & Hy). repeat split; try assumption; lia.
Qed.

Lemma internal_valid s x y z up all :
  0 <= z -> valid_level (sg s) (req_level s up all z) = true ->
  0 <= x < fst (grid_size (sg s) (req_level s up all z)) -> 0 <= y < snd (grid_size (sg s) (req_level s up all z)) ->
  internal_tile_coord s x y z up all = Some (x, y, req_level s up all z).
Proof.
  intros Hz Hv Hx Hy. unfold internal_tile_coord. replace (z <? 0) with false by lia.
  apply limit_tile_valid; assumption.
Qed.

Lemma layer_internal_some s o up all x y z c :
  layer_internal s o up all x y z = Some c ->
  0 <= z /\ c = flip_for (sg s) o (x, y, req_level s up all z) /\
  valid_level (sg s) (req_level s up all z) = true /\
  0 <= x < fst (grid_size (sg s) (req_level s up all z)) /\ 0 <= y < snd (grid_size (sg s) (req_level s up all z)).
Proof.
  unfold layer_internal. destruct (internal_tile_coord s x y z up all) as [c0|] eqn:E; [|discriminate].
  intros H. inversion H. apply internal_some in E. destruct E as (Hz & -> & Hv & Hx & Hy). auto.
Qed.

(* the rectangle of the coordinate chosen for request origin o, relative to the convention of o *)
Lemma flip_for_rect g o x y l :
  (effective_origin g o = ul g \/ misalign g l = 0) ->
  tile_bbox_c g (flip_for g o (x, y, l)) = conv_rect g (effective_origin g o) x y l.
Proof.
  intros H. unfold flip_for, effective_origin, conv_rect, tile_bbox_c, flip_tile_coord, tile_bbox in *.
  unfold misalign in H.
  destruct o, (ul g) eqn:U; cbn [snd] in *; try rewrite U;
    try (apply bbox_eq; ring);
    (destruct H as [H|H]; [discriminate|]);
    destruct (grid_size g l) as [nx ny]; cbn [snd] in *; apply bbox_eq; try ring; nia.
Qed.

Lemma flip_for_level g o x y l : snd (flip_for g o (x, y, l)) = l.
Proof. unfold flip_for, flip_tile_coord. destruct o, (ul g); reflexivity. Qed.

Lemma flip_for_valid g o x y l :
  limit_tile g x y l = Some (x, y, l) ->
  let '(x', y', l') := flip_for g o (x, y, l) in limit_tile g x' y' l' = Some (x', y', l').
Proof.
  intros H. unfold flip_for. pose proof (flip_preserves_validity g x y l H) as Hf.
  destruct o, (ul g); try exact H; exact Hf.
Qed.

(* ---- tile_sets *)
Lemma lookup_order_map (f : Z -> Z) z l u :
  lookup_order z (map (fun k => (k, f k)) l) = Some u -> In z l /\ u = f z.
Proof.
  induction l as [|k l IH]; cbn [map lookup_order]; [discriminate|].
  destruct (k =? z) eqn:E.
  - intros H. inversion H. apply Z.eqb_eq in E. subst. split; [left; reflexivity|reflexivity].
  - intros H. destruct (IH H) as [Hi Hu]. split; [right; exact Hi|exact Hu].
Qed.

Lemma ts_level_public s z : ts_start s + z * ts_step s = public_level s true z.
Proof.
  unfold ts_start, ts_step, public_level. destruct (skip_first s), (skip_odd s); cbn [andb]; ring.
Qed.

Lemma ts_step_pos s : 0 < ts_step s.
Proof. unfold ts_step. destruct (skip_odd s); lia. Qed.

Lemma ts_start_nonneg s : 0 <= ts_start s.
Proof. unfold ts_start. destruct (skip_first s), (skip_odd s); lia. Qed.

Lemma tile_sets_spec s z u :
  lookup_order z (tile_sets s) = Some u ->
  0 <= z /\ valid_level (sg s) (public_level s true z) = true /\ u = res_at (sg s) (public_level s true z).
Proof.
  unfold tile_sets. intros H.
  apply (lookup_order_map (fun k => res_at (sg s) (ts_start s + k * ts_step s))) in H.
  destruct H as [Hi ->]. apply zrange_In in Hi. rewrite ts_level_public.
  split; [lia|]. split; [|reflexivity].
  rewrite <- ts_level_public. unfold valid_level, ts_count in *.
  pose proof (ts_step_pos s) as Hs. pose proof (ts_start_nonneg s) as H0.
  pose proof (cdiv_bounds (levels (sg s) - ts_start s) (ts_step s) Hs) as Hc.
  apply andb_true_iff. split; [nia|]. apply Z.ltb_lt. nia.
Qed.

(* every advertised TileSet (order, units-per-pixel) is the resolution of the internal level that a request
   for that order is mapped to (global-profile level skip and sqrt2 level skip included) *)
Lemma tile_sets_internal_level_consistent_l s order upp :
  In (order, upp) (tile_sets s) ->
  valid_level (sg s) (public_level s true order) = true /\ res_at (sg s) (public_level s true order) = upp.
Proof.
  unfold tile_sets. intros H. apply in_map_iff in H. destruct H as (k & Hk & Hi).
  inversion Hk; subst. apply zrange_In in Hi. rewrite <- ts_level_public. split; [|reflexivity].
  unfold valid_level, ts_count in *.
  pose proof (ts_step_pos s) as Hs. pose proof (ts_start_nonneg s) as H0.
  pose proof (cdiv_bounds (levels (sg s) - ts_start s) (ts_step s) Hs) as Hc.
  apply andb_true_iff. split; [nia|]. apply Z.ltb_lt. nia.
Qed.

(* ---- TMS *)
(* where the TileMap Origin must lie for the addresses of internal level l to mean what the document says:
   at the lower-left corner of tile (0, 0) counted from the south-west *)
Definition tms_origin_ok (s : tlayer) (l : Z) : Prop :=
  let '(ex0, ey0, _, _) := s_extent s in
  ex0 = gx0 (sg s) /\ ey0 = gy0 (sg s) + (if ul (sg s) then misalign (sg s) l else 0).

Lemma tms_address_offset s srv z x y r c :
  tms_client_rect (tms_tilemap s) z x y = Some r ->
  served s srv (ATms z x y) = Some c ->
  let l := public_level s true z in
  let '(ex0, ey0, _, _) := s_extent s in
  tile_bbox_c (sg s) c =
  shift_xy r (gx0 (sg s) - ex0) (gy0 (sg s) + (if ul (sg s) then misalign (sg s) l else 0) - ey0).
Proof.
  unfold tms_client_rect, tms_tilemap, served. intros Hr Hc.
  destruct (s_extent s) as [[[ex0 ey0] ex1] ey1] eqn:Ee. cbn [td_sets td_origin td_tw td_th] in Hr.
  destruct (lookup_order z (tile_sets s)) as [u|] eqn:El; [|discriminate].
  apply tile_sets_spec in El. destruct El as (Hz & Hv & ->).
  apply layer_internal_some in Hc. destruct Hc as (_ & -> & _ & _ & _).
  change (req_level s true false z) with (public_level s true z).
  inversion Hr; subst r. clear Hr. cbv zeta.
  set (l := public_level s true z). set (g := sg s).
  unfold flip_for, tile_bbox_c, flip_tile_coord, tile_bbox, shift_xy, misalign.
  destruct (ul g) eqn:U; destruct (grid_size g l) as [nx ny]; cbn [snd]; try rewrite U; apply bbox_eq; ring.
Qed.

Lemma shift_xy_zero b : shift_xy b 0 0 = b.
Proof. destruct b as [[[a b] c] d]. unfold shift_xy. apply bbox_eq; lia. Qed.

Lemma shift_xy_fix b dx dy : shift_xy b dx dy = b -> dx = 0 /\ dy = 0.
Proof. destruct b as [[[a b] c] d]. unfold shift_xy. intros H. inversion H. lia. Qed.

(* the served tile covers the client's rectangle exactly when the Origin is the south-west corner of tile (0,0) *)
Lemma tms_address_exact_iff_l s srv z x y r c :
  tms_client_rect (tms_tilemap s) z x y = Some r ->
  served s srv (ATms z x y) = Some c ->
  (tile_bbox_c (sg s) c = r <-> tms_origin_ok s (public_level s true z)).
Proof.
  intros Hr Hc. pose proof (tms_address_offset s srv z x y r c Hr Hc) as H. cbv zeta in H.
  unfold tms_origin_ok. destruct (s_extent s) as [[[ex0 ey0] ex1] ey1]. rewrite H. split.
  - intros E. apply shift_xy_fix in E. lia.
  - intros [-> ->]. replace (gx0 (sg s) - gx0 (sg s)) with 0 by lia.
    match goal with |- shift_xy r 0 ?d = r => replace d with 0 by lia end. apply shift_xy_zero.
Qed.

(* readable form: layer extent = grid bbox and (origin ll, or the bottom of the tiled area of that level is the
   bottom of the grid bbox) *)
Lemma tms_address_exact_l s srv z x y r c :
  s_extent s = grid_bbox (sg s) ->
  (ul (sg s) = false \/ misalign (sg s) (public_level s true z) = 0) ->
  tms_client_rect (tms_tilemap s) z x y = Some r ->
  served s srv (ATms z x y) = Some c ->
  tile_bbox_c (sg s) c = r.
Proof.
  intros He Ha Hr Hc. apply (tms_address_exact_iff_l s srv z x y r c Hr Hc).
  unfold tms_origin_ok. rewrite He. unfold grid_bbox. split; [reflexivity|].
  destruct Ha as [-> | ->]; [lia|]. destruct (ul (sg s)); lia.
Qed.

(* an address inside the advertised range is served *)
Lemma tms_advertised_served_l s srv z x y u :
  lookup_order z (tile_sets s) = Some u ->
  0 <= x < fst (grid_size (sg s) (public_level s true z)) ->
  0 <= y < snd (grid_size (sg s) (public_level s true z)) ->
  exists c, served s srv (ATms z x y) = Some c.
Proof.
  intros Hl Hx Hy. apply tile_sets_spec in Hl. destruct Hl as (Hz & Hv & _).
  unfold served, layer_internal. rewrite (internal_valid s x y z true false Hz Hv Hx Hy). eexists. reflexivity.
Qed.

(* finding F8: bbox [0,0,1000,700], res 4/2/1 (lattice: 40, 20, 10), 100 px tiles, origin ul *)
Definition f8_grid : grid := mkGrid 0 0 10000 7000 100 100 [40; 20; 10] true 23 20 4 1.
Definition f8_layer : tlayer := mkLayer f8_grid SrsOther false false false 1 1 (0, 0, 10000, 7000) 10.

Lemma f8_wf : wf f8_grid.
Proof.
  unfold wf, pos_res, f8_grid; cbn. repeat split; lia.
Qed.

Lemma tms_address_refuted_l :
  exists s srv z x y r c,
    wf (sg s) /\ s_extent s = grid_bbox (sg s) /\
    tms_client_rect (tms_tilemap s) z x y = Some r /\ served s srv (ATms z x y) = Some c /\
    tile_bbox_c (sg s) c <> r.
Proof.
  exists f8_layer, ONone, 0, 0, 0, (0, 0, 4000, 4000), (0, 1, 0).
  split; [exact f8_wf|]. split; [reflexivity|]. split; [reflexivity|]. split; [reflexivity|].
  vm_compute. discriminate.
Qed.

(* second class of F8: the layer extent (cache coverage) differs from the grid bbox, grid origin ll *)
Lemma tms_address_refuted_extent_l :
  exists s srv z x y r c,
    wf (sg s) /\ ul (sg s) = false /\
    tms_client_rect (tms_tilemap s) z x y = Some r /\ served s srv (ATms z x y) = Some c /\
    tile_bbox_c (sg s) c <> r.
Proof.
  exists (mkLayer (mkGrid 0 0 8000 8000 100 100 [40; 20] false 23 20 4 1) SrsOther false false false 1 1 (10, 20, 8000, 8000) 10),
         ONone, 0, 0, 0, (10, 20, 4010, 4020), (0, 0, 0).
  split. { unfold wf, pos_res; cbn. repeat split; lia. }
  split; [reflexivity|]. split; [reflexivity|]. split; [reflexivity|]. vm_compute. discriminate.
Qed.

(* non-vacuity: an aligned ul grid on which the TMS statement applies, with the hidden level of a global profile *)
Definition ex_geodetic : grid := mkGrid (-1800) (-900) 1800 900 4 4 [900; 450; 225] true 23 20 4 1.
Definition ex_geod_layer : tlayer := mkLayer ex_geodetic SrsGeod true false true 111 1 (-1800, -900, 1800, 900) 10.
Lemma ex_geodetic_wf : wf ex_geodetic.
Proof. unfold wf, pos_res, ex_geodetic; cbn. repeat split; lia. Qed.
Example ex_tms_exact :
  wf ex_geodetic /\ s_extent ex_geod_layer = grid_bbox ex_geodetic /\ misalign ex_geodetic (public_level ex_geod_layer true 0) = 0 /\
  tile_sets ex_geod_layer = [(0, 450); (1, 225)] /\
  tms_client_rect (tms_tilemap ex_geod_layer) 0 1 0 = Some (0, -900, 1800, 900) /\
  served ex_geod_layer ONone (ATms 0 1 0) = Some (1, 0, 1) /\ tile_bbox_c ex_geodetic (1, 0, 1) = (0, -900, 1800, 900).
Proof.
  split; [exact ex_geodetic_wf|]. repeat split; vm_compute; reflexivity.
Qed.

(* ---- WMTS *)
Lemma find_some_id (ms : list tile_matrix) m tm :
  find (fun t => tm_id t =? m) ms = Some tm -> In tm ms /\ tm_id tm = m.
Proof. intros H. apply find_some in H. destruct H as [Hi He]. split; [exact Hi|lia]. Qed.

Lemma wmts_matrix_fields s l :
  tm_id (wmts_matrix s l) = l /\ tm_tw (wmts_matrix s l) = tw (sg s) /\ tm_th (wmts_matrix s l) = th (sg s) /\
  tm_w (wmts_matrix s l) = fst (grid_size (sg s) l) /\ tm_h (wmts_matrix s l) = snd (grid_size (sg s) l) /\
  (let '(tlx, tly) := if s_ne s then (snd (tm_top (wmts_matrix s l)), fst (tm_top (wmts_matrix s l))) else tm_top (wmts_matrix s l) in
   tlx = gx0 (sg s) /\
   tly = if ul (sg s) then gy1 (sg s) else gy0 (sg s) + snd (grid_size (sg s) l) * res_at (sg s) l * th (sg s)).
Proof.
  unfold wmts_matrix, origin_tile, flip_tile_coord, tile_bbox.
  destruct (ul (sg s)) eqn:U; cbn [Bool.eqb]; rewrite ?U;
    destruct (grid_size (sg s) l) as [nx ny]; cbn [snd fst]; rewrite ?U;
    cbn [tm_id tm_tw tm_th tm_w tm_h tm_top fst snd];
    repeat split; destruct (s_ne s); cbn [fst snd]; split; ring.
Qed.

Lemma wmts_address_exact_l s srv m col row r :
  0 < s_mpu_n s -> 0 < s_mpu_d s ->
  client_rect s srv (AWmts m col row) = Some r ->
  exists c, served s srv (AWmts m col row) = Some c /\ tile_bbox_c (sg s) c = r.
Proof.
  intros Hn Hd. unfold client_rect, wmts_matrix_set, served.
  destruct (wmts_offered s) eqn:Ho; [|discriminate].
  destruct (find (fun tm => tm_id tm =? m) (map (wmts_matrix s) (zrange 0 (levels (sg s) - 1)))) as [tm|] eqn:Ef; [|discriminate].
  apply find_some_id in Ef. destruct Ef as [Hi Hid].
  apply in_map_iff in Hi. destruct Hi as (l & <- & Hl). apply zrange_In in Hl.
  pose proof (wmts_matrix_fields s l) as (Fid & Ftw & Fth & Fw & Fh & Ftop).
  rewrite Fid in Hid. subst m. rewrite Fw, Fh.
  destruct ((0 <=? col) && (col <? fst (grid_size (sg s) l)) && (0 <=? row) && (row <? snd (grid_size (sg s) l))) eqn:Er; [|discriminate].
  intros Hr. inversion Hr; subst r. clear Hr.
  assert (Hv : valid_level (sg s) l = true) by (unfold valid_level; lia).
  assert (Hp : req_level s false true l = l) by reflexivity.
  unfold layer_internal. rewrite (internal_valid s col row l false true) by (rewrite ?Hp; try assumption; lia).
  rewrite Hp. eexists. split; [reflexivity|].
  unfold wmts_client_rect. rewrite (wmts_client_res_exact s l Hn Hd), Ftw, Fth.
  destruct (if s_ne s then (snd (tm_top (wmts_matrix s l)), fst (tm_top (wmts_matrix s l))) else tm_top (wmts_matrix s l)) as [tlx tly].
  destruct Ftop as [-> ->].
  unfold flip_for, tile_bbox_c, flip_tile_coord, tile_bbox.
  destruct (ul (sg s)) eqn:U; destruct (grid_size (sg s) l) as [nx ny]; cbn [snd]; rewrite ?U; apply bbox_eq; ring.
Qed.

(* non-vacuity with the sqrt2 level skip (finding W1, repaired): matrix 1 is served from level 1 *)
Definition w1_grid : grid := mkGrid 0 0 141400 141400 1 1 [141400; 100000; 70700; 50000] true 23 20 4 1.
Definition w1_layer : tlayer := mkLayer w1_grid SrsOther false true false 1 1 (0, 0, 141400, 141400) 10.
Example ex_wmts_sqrt2 :
  skip_odd w1_layer = true /\
  client_rect w1_layer ONone (AWmts 1 0 0) = Some (0, 41400, 100000, 141400) /\
  served w1_layer ONone (AWmts 1 0 0) = Some (0, 0, 1) /\ tile_bbox w1_grid 0 0 1 = (0, 41400, 100000, 141400) /\
  served w1_layer ONone (AWmts 3 1 1) = Some (1, 1, 3) /\ served w1_layer ONone (ATms 1 0 0) = Some (0, 1, 2).
Proof. repeat split; vm_compute; reflexivity. Qed.

Definition ex_ll_unaligned : grid := mkGrid 0 0 800 400 4 2 [100; 50] false 23 20 4 1.
Example ex_wmts_exact :
  client_rect (mkLayer ex_ll_unaligned SrsGeod false false true 7 2 (0, 0, 800, 400) 10) ONone (AWmts 1 3 0) = Some (600, 300, 800, 400) /\
  served (mkLayer ex_ll_unaligned SrsGeod false false true 7 2 (0, 0, 800, 400) 10) ONone (AWmts 1 3 0) = Some (3, 3, 1).
Proof. split; vm_compute; reflexivity. Qed.

(* ---- /tiles with ?origin= / the origin option of the service, and /kml (forced 'sw') *)
Definition request_origin (srv q : origin_req) : origin_req := match q with ONone => srv | _ => q end.

Lemma tiles_address_exact_l s srv q z x y r c :
  let l := public_level s false z in
  (effective_origin (sg s) (request_origin srv q) = ul (sg s) \/ misalign (sg s) l = 0) ->
  client_rect s srv (ATiles q z x y) = Some r ->
  served s srv (ATiles q z x y) = Some c ->
  tile_bbox_c (sg s) c = r.
Proof.
  cbv zeta. unfold client_rect, served. fold (request_origin srv q). intros Ha Hr Hc.
  destruct (z <? 0); [discriminate|]. inversion Hr; subst r.
  apply layer_internal_some in Hc. destruct Hc as (_ & -> & _).
  change (req_level s false false z) with (public_level s false z).
  apply flip_for_rect. exact Ha.
Qed.

Lemma kml_address_exact_l s srv z x y r c :
  (ul (sg s) = false \/ misalign (sg s) (public_level s false z) = 0) ->
  client_rect s srv (AKml z x y) = Some r ->
  served s srv (AKml z x y) = Some c ->
  tile_bbox_c (sg s) c = r.
Proof.
  unfold client_rect, served. intros Ha Hr Hc.
  destruct (z <? 0); [discriminate|]. inversion Hr; subst r.
  apply layer_internal_some in Hc. destruct Hc as (_ & -> & _).
  change (req_level s false false z) with (public_level s false z).
  change false with (effective_origin (sg s) OSW) at 2. apply flip_for_rect.
  cbn [effective_origin]. destruct Ha as [-> | H]; auto.
Qed.

(* the request parameter wins over the service option; without either the grid's own origin is used *)
Lemma origin_param_wins_l s srv srv' q z x y :
  q <> ONone -> served s srv (ATiles q z x y) = served s srv' (ATiles q z x y).
Proof. intros H. destruct q; [contradiction| |]; reflexivity. Qed.

Lemma tiles_advertised_served_l s srv q z x y :
  0 <= z -> valid_level (sg s) (public_level s false z) = true ->
  0 <= x < fst (grid_size (sg s) (public_level s false z)) ->
  0 <= y < snd (grid_size (sg s) (public_level s false z)) ->
  exists c, served s srv (ATiles q z x y) = Some c.
Proof.
  intros Hz Hv Hx Hy. unfold served, layer_internal.
  rewrite (internal_valid s x y z false false Hz Hv Hx Hy). eexists. reflexivity.
Qed.

Example ex_origin_override :
  served f8_layer OSW (ATiles ONW 1 0 0) = Some (0, 0, 1) /\ served f8_layer ONW (ATiles ONone 1 0 0) = Some (0, 0, 1) /\
  served f8_layer ONone (ATiles OSW 1 0 0) = Some (0, 3, 1) /\
  client_rect f8_layer OSW (ATiles ONW 1 0 0) = Some (0, 5000, 2000, 7000) /\ tile_bbox f8_grid 0 0 1 = (0, 5000, 2000, 7000).
Proof. repeat split; vm_compute; reflexivity. Qed.

(* ---- one statement for all services *)
Definition addr_ok (s : tlayer) (srv : origin_req) (a : address) : Prop :=
  match a with
  | ATms z _ _ => tms_origin_ok s (public_level s true z)
  | ATiles q z _ _ => effective_origin (sg s) (request_origin srv q) = ul (sg s) \/ misalign (sg s) (public_level s false z) = 0
  | AKml z _ _ => ul (sg s) = false \/ misalign (sg s) (public_level s false z) = 0
  | AWmts _ _ _ => 0 < s_mpu_n s /\ 0 < s_mpu_d s
  end.

Lemma address_exact_l s srv a r c :
  addr_ok s srv a -> client_rect s srv a = Some r -> served s srv a = Some c -> tile_bbox_c (sg s) c = r.
Proof.
  destruct a as [z x y|q z x y|z x y|m col row]; cbn [addr_ok]; intros Ha Hr Hc.
  - apply (tms_address_exact_iff_l s srv z x y r c Hr Hc). exact Ha.
  - exact (tiles_address_exact_l s srv q z x y r c Ha Hr Hc).
  - exact (kml_address_exact_l s srv z x y r c Ha Hr Hc).
  - destruct Ha as (Hn & Hd). destruct (wmts_address_exact_l s srv m col row r Hn Hd Hr) as (c' & Hc' & He).
    congruence.
Qed.

Lemma served_valid s srv a c :
  served s srv a = Some c -> let '(x, y, l) := c in limit_tile (sg s) x y l = Some c.
Proof.
  assert (G : forall o up all x y z, layer_internal s o up all x y z = Some c -> let '(x, y, l) := c in limit_tile (sg s) x y l = Some c).
  { intros o up all x y z H. apply layer_internal_some in H. destruct H as (_ & -> & Hv & Hx & Hy).
    pose proof (flip_for_valid (sg s) o x y (req_level s up all z) (limit_tile_valid _ _ _ _ Hv Hx Hy)) as Hf.
    destruct (flip_for (sg s) o (x, y, req_level s up all z)) as [[x' y'] l']. exact Hf. }
  destruct a as [z x y|q z x y|z x y|m col row]; cbn [served]; try apply G.
  destruct (wmts_offered s); [apply G|discriminate].
Qed.

Lemma res_at_inj g l1 l2 :
  decreasing_res g -> valid_level g l1 = true -> valid_level g l2 = true -> res_at g l1 = res_at g l2 -> l1 = l2.
Proof.
  intros Hd H1 H2 He. unfold valid_level in *.
  destruct (Z.lt_trichotomy l1 l2) as [H|[H|H]]; [|exact H|].
  - pose proof (Hd l1 l2 ltac:(lia) H ltac:(lia)). lia.
  - pose proof (Hd l2 l1 ltac:(lia) H ltac:(lia)). lia.
Qed.

Lemma tile_bbox_inj g x1 y1 l1 x2 y2 l2 :
  wf g -> decreasing_res g -> valid_level g l1 = true -> valid_level g l2 = true ->
  tile_bbox g x1 y1 l1 = tile_bbox g x2 y2 l2 -> (x1, y1, l1) = (x2, y2, l2).
Proof.
  intros Hwf Hd H1 H2 He.
  pose proof (res_at_pos g l1 Hwf H1) as R1. pose proof (res_at_pos g l2 Hwf H2) as R2.
  destruct Hwf as (_ & _ & Htw & Hth & _).
  assert (Hr : res_at g l1 = res_at g l2).
  { unfold tile_bbox in He.
    assert (res_at g l1 * tw g = res_at g l2 * tw g) by (destruct (ul g); inversion He; lia). nia. }
  pose proof (res_at_inj g l1 l2 Hd H1 H2 Hr) as ->.
  unfold tile_bbox in He. set (r := res_at g l2) in *.
  assert (0 < r * tw g) by nia. assert (0 < r * th g) by nia.
  assert (Hx : x1 * r * tw g = x2 * r * tw g) by (destruct (ul g); inversion He; lia).
  assert (Hy : y1 * r * th g = y2 * r * th g) by (destruct (ul g); inversion He; lia).
  assert (x1 = x2) by nia. assert (y1 = y2) by nia. subst. reflexivity.
Qed.

(* two addresses (any services, any origin conventions) for which the clients compute the same rectangle are
   answered from the same internal tile, hence with the same cached image *)
Lemma same_ground_tile_same_internal_l s srv a1 a2 r c1 c2 :
  wf (sg s) -> decreasing_res (sg s) ->
  addr_ok s srv a1 -> addr_ok s srv a2 ->
  client_rect s srv a1 = Some r -> client_rect s srv a2 = Some r ->
  served s srv a1 = Some c1 -> served s srv a2 = Some c2 ->
  c1 = c2.
Proof.
  intros Hwf Hd O1 O2 R1 R2 S1 S2.
  pose proof (address_exact_l s srv a1 r c1 O1 R1 S1) as E1.
  pose proof (address_exact_l s srv a2 r c2 O2 R2 S2) as E2.
  pose proof (served_valid s srv a1 c1 S1) as V1. pose proof (served_valid s srv a2 c2 S2) as V2.
  destruct c1 as [[x1 y1] l1], c2 as [[x2 y2] l2]. cbn [tile_bbox_c] in *.
  apply limit_tile_some in V1. apply limit_tile_some in V2.
  apply (tile_bbox_inj (sg s)); try tauto. congruence.
Qed.

Lemma f8_decreasing : decreasing_res f8_grid.
Proof.
  intros i j Hi Hij Hj. unfold levels, f8_grid in *. cbn in Hj.
  assert (i = 0 /\ j = 1 \/ i = 0 /\ j = 2 \/ i = 1 /\ j = 2) as [[-> ->]|[[-> ->]|[-> ->]]] by lia; vm_compute; reflexivity.
Qed.

(* non-vacuity: WMTS (north-west rows) and /tiles?origin=nw name the same tile of the unaligned ul grid *)
Example ex_same_ground :
  addr_ok f8_layer ONone (AWmts 1 2 1) /\ addr_ok f8_layer ONone (ATiles ONW 1 2 1) /\
  client_rect f8_layer ONone (AWmts 1 2 1) = Some (4000, 3000, 6000, 5000) /\
  client_rect f8_layer ONone (ATiles ONW 1 2 1) = Some (4000, 3000, 6000, 5000) /\
  served f8_layer ONone (AWmts 1 2 1) = Some (2, 1, 1) /\ served f8_layer ONone (ATiles ONW 1 2 1) = Some (2, 1, 1).
Proof.
  split. { cbn. repeat split; lia. }
  split. { left. reflexivity. }
  repeat split; vm_compute; reflexivity.
Qed.

(* ---- WMS-C (GetMap tiled=true) *)
Lemma create_tile_list_single x xs y ys l gs c :
  create_tile_list (x :: xs) (y :: ys) l gs = [Some c] ->
  xs = [] /\ ys = [] /\ tile_or_none (fst gs) (snd gs) l x y = Some c.
Proof.
  unfold create_tile_list. cbn [flat_map map]. intros H. inversion H as [[H0 H1]].
  apply app_eq_nil in H1. destruct H1 as [Hm Hf]. apply map_eq_nil in Hm.
  destruct ys as [|y2 ys2]; [auto|]. cbn [flat_map map] in Hf. discriminate.
Qed.

Lemma merge_bbox_idem a : merge_bbox a a = a.
Proof. destruct a as [[[a0 a1] a2] a3]. unfold merge_bbox. apply bbox_eq; lia. Qed.

(* a tiled GetMap that is answered with a tile has the tile size of the grid and every edge of the served tile
   lies within 1/10 pixel of the requested rectangle: it is never answered with a neighbouring tile *)
Lemma wmsc_exact_or_refused_l g b sx sy c :
  wmsc_get_map g b sx sy = WLoaded c ->
  sx = tw g /\ sy = th g /\ bbox_equals_tenth b (tile_bbox_c g c) sx sy = true.
Proof.
  unfold wmsc_get_map.
  destruct ((sx =? tw g) && (sy =? th g)) eqn:Es; cbn [negb]; [|discriminate].
  destruct (affected_level g b sx sy) as [l|]; [|discriminate].
  rewrite affected_unfold.
  destruct (aff_cols g b l) as [|xf xs] eqn:Ec; [discriminate|].
  destruct (aff_rows g b l) as [|yf ys] eqn:Er; [discriminate|].
  match goal with |- (if ?c then _ else _) = _ -> _ => destruct c; [discriminate|] end.
  match goal with |- (if negb ?c then _ else _) = _ -> _ => destruct c eqn:Eb; cbn [negb]; [|discriminate] end.
  destruct (create_tile_list (xf :: xs) (yf :: ys) l (grid_size g l)) as [|[c0|] [|? ?]] eqn:Et; try discriminate.
  intros H. inversion H; subst c0. clear H.
  apply create_tile_list_single in Et. destruct Et as (-> & -> & Ht).
  cbn [last] in Eb. rewrite merge_bbox_idem in Eb.
  unfold tile_or_none in Ht.
  destruct ((xf <? 0) || (yf <? 0) || (fst (grid_size g l) <=? xf) || (snd (grid_size g l) <=? yf)); [discriminate|].
  inversion Ht; subst c. cbn [tile_bbox_c]. repeat split; try lia. exact Eb.
Qed.

Lemma bbox_equals_tenth_spec a b sx sy :
  bbox_equals_tenth a b sx sy = true ->
  let '(a0, a1, a2, a3) := a in let '(b0, b1, b2, b3) := b in
  Z.abs (a0 - b0) * (10 * sx) < Z.abs (a2 - a0) /\ Z.abs (a1 - b1) * (10 * sx) < Z.abs (a2 - a0) /\
  Z.abs (a2 - b2) * (10 * sy) < Z.abs (a3 - a1) /\ Z.abs (a3 - b3) * (10 * sy) < Z.abs (a3 - a1).
Proof.
  destruct a as [[[a0 a1] a2] a3], b as [[[b0 b1] b2] b3]. unfold bbox_equals_tenth. lia.
Qed.

Example ex_wmsc :
  wmsc_get_map ex_ll_unaligned (400, 100, 600, 200) 4 2 = WLoaded (2, 1, 1) /\
  wmsc_get_map ex_ll_unaligned (404, 100, 604, 200) 4 2 = WLoaded (2, 1, 1) /\
  wmsc_get_map ex_ll_unaligned (406, 100, 606, 200) 4 2 = WRefused /\
  wmsc_get_map f8_grid (0, 0, 4000, 4000) 100 100 = WRefused.
Proof. repeat split; vm_compute; reflexivity. Qed.

(* ---- KML super-overlay links *)
Lemma kml_href_roundtrip_l s srv x y l h :
  (skip_odd s = false \/ l mod 2 = 0) ->
  limit_tile (sg s) x y l = Some (x, y, l) ->
  kml_href_coord s (x, y, l) = Some h ->
  let '(hx, hy, hz) := h in served s srv (AKml hz hx hy) = Some (x, y, l).
Proof.
  intros Hs Hl. pose proof (limit_tile_some _ _ _ _ _ Hl) as (_ & Hv & Hx & Hy).
  assert (H0 : 0 <= l) by (unfold valid_level in Hv; lia).
  set (hz := if skip_odd s then l / 2 else l).
  assert (Hhz : 0 <= hz) by (unfold hz; destruct (skip_odd s); lia).
  assert (Hp : req_level s false false hz = l).
  { unfold req_level, public_level, hz. cbn [andb]. destruct (skip_odd s); [|reflexivity].
    destruct Hs as [Hs|Hs]; [discriminate|]. lia. }
  unfold kml_href_coord, external_tile_coord, flip_tile_coord. cbn [andb].
  destruct (ul (sg s)) eqn:U; replace (l <? 0) with false by lia; fold hz; intros E; inversion E; subst h; clear E;
    cbv beta iota zeta; unfold served, layer_internal, flip_for.
  - match goal with |- context [internal_tile_coord s x ?yy hz false false] =>
      rewrite (internal_valid s x yy hz false false)
        by (rewrite ?Hp; try assumption; unfold grid_size in *; cbn [fst snd] in *; lia) end.
    rewrite Hp, U. unfold flip_tile_coord, grid_size. cbn [snd]. f_equal. f_equal. f_equal. lia.
  - rewrite (internal_valid s x y hz false false) by (rewrite ?Hp; try assumption; lia). rewrite Hp, U. reflexivity.
Qed.

(* non-vacuity with the sqrt2 level skip on a ul grid (finding K1, repaired): internal tile (0, 0, 2) is linked as
   /1/0/1 (row flipped with the 2 rows of level 2) and that address is answered with (0, 0, 2) *)
Example ex_kml_href_sqrt2 :
  skip_odd w1_layer = true /\ ul (sg w1_layer) = true /\ limit_tile w1_grid 0 0 2 = Some (0, 0, 2) /\
  kml_href_coord w1_layer (0, 0, 2) = Some (0, 1, 1) /\ served w1_layer ONone (AKml 1 0 1) = Some (0, 0, 2).
Proof. repeat split; vm_compute; reflexivity. Qed.

(* the document of the last level has no sub tiles (finding K2, repaired) *)
Example ex_kml_last_level :
  kml_document ex_geod_layer 0 0 2 = KmlDoc (-1800, -900, -900, 0) [].
Proof. vm_compute. reflexivity. Qed.

Example ex_kml_doc :
  kml_document ex_geod_layer 0 0 0 =
  KmlDoc (-1800, -900, 1800, 900)
    [(Some (0, 0, 1), (-1800, -900, 0, 900)); (Some (1, 0, 1), (0, -900, 1800, 900))].
Proof. vm_compute. reflexivity. Qed.

(* ---- WMS-C: requesting exactly the rectangle of a stored tile returns that tile *)
Lemma zrange_single x : zrange x x = [x].
Proof. unfold zrange. replace (x + 1 - x) with 1 by lia. change (Z.to_nat 1) with 1%nat. cbn [seq map Z.of_nat]. rewrite Z.add_0_r. reflexivity. Qed.

Lemma div_in_tile a s d : 0 < s -> 0 <= d < s -> (a * s + d) / s = a.
Proof. intros Hs Hd. apply div_unique_bounds; lia. Qed.

(* the level chosen for a request at exactly the resolution of level l is l *)
Lemma closest_level_exact g l t :
  wf g -> decreasing_res g -> valid_level g l = true -> 0 < t -> 0 < sf_d g <= sf_n g ->
  closest_level g (res_at g l * t) t = l.
Proof.
  intros Hwf Hd Hv Ht Hsf. pose proof (res_at_pos g l Hwf Hv) as Hr.
  assert (Hl : 0 < levels g) by (unfold valid_level in Hv; lia).
  pose proof (closest_level_spec g (res_at g l * t) t Hd Hl Ht ltac:(nia) Hsf) as Hs.
  apply (closest_level_spec_unique g (res_at g l * t) t _ l Hs).
  unfold closest_level_spec_of. split; [unfold valid_level in Hv; lia|]. left. split.
  - unfold level_within. split; [lia|]. nia.
  - intros j Hj [Hw _]. pose proof (Hd l j ltac:(unfold valid_level in Hv; lia) ltac:(lia) ltac:(lia)). nia.
Qed.

Lemma wmsc_tile_rect_served g x y l :
  wf g -> decreasing_res g -> 0 < sf_d g <= sf_n g -> 0 < shr_d g <= shr_n g ->
  limit_tile g x y l = Some (x, y, l) -> 10 <= res_at g l ->
  wmsc_get_map g (tile_bbox g x y l) (tw g) (th g) = WLoaded (x, y, l).
Proof.
  intros Hwf Hd Hsf Hshr Hl H10.
  pose proof (limit_tile_some _ _ _ _ _ Hl) as (_ & Hv & Hx & Hy).
  pose proof (res_at_pos g l Hwf Hv) as Hr.
  pose proof (grid_size_cover g l Hwf Hv) as Hc.
  assert (Hv0 : valid_level g 0 = true) by (unfold valid_level in *; lia).
  pose proof (res_at_pos g 0 Hwf Hv0) as Hr0.
  assert (Hr0l : res_at g l <= res_at g 0).
  { destruct (Z.eq_dec l 0) as [->|]; [lia|].
    pose proof (Hd 0 l ltac:(lia) ltac:(unfold valid_level in Hv; lia) ltac:(unfold valid_level in Hv; lia)). lia. }
  assert (Hwf2 := Hwf). destruct Hwf as (Hgx & Hgy & Htw & Hth & Hp).
  destruct (grid_size g l) as [nx ny] eqn:Eg. cbn [fst snd] in *. cbv zeta in Hc.
  destruct Hc as (Hnx & Hny & Hcx1 & Hcx2 & Hcy1 & Hcy2).
  set (r := res_at g l) in *.
  assert (Hsx : 0 < r * tw g) by nia. assert (Hsy : 0 < r * th g) by nia.
  assert (Hd10 : 1 <= r / 10 <= r) by lia.
  assert (Hdx : r / 10 < r * tw g) by nia. assert (Hdy : r / 10 < r * th g) by nia.
  assert (Hshr2 : r * shr_d g <= res_at g 0 * shr_n g) by nia.
  assert (Hshr3 : r * tw g * shr_d g <= res_at g 0 * shr_n g * tw g) by nia.
  unfold wmsc_get_map. rewrite !Z.eqb_refl. cbn [andb negb].
  (* level *)
  assert (Hal : affected_level g (tile_bbox g x y l) (tw g) (th g) = Some l).
  { unfold affected_level, tile_bbox. fold r.
    destruct (ul g) eqn:U.
    - unfold bbox_intersects, get_resolution.
      replace ((gx0 g <? gx0 g + x * r * tw g + r * tw g) && (gx0 g + x * r * tw g <? gx1 g) &&
               (gy0 g <? gy1 g - y * r * th g) && (gy1 g - y * r * th g - r * th g <? gy1 g)) with true by (symmetry; nia).
      cbn [negb].
      replace (Z.abs (gx0 g + x * r * tw g - (gx0 g + x * r * tw g + r * tw g))) with (r * tw g) by lia.
      replace (Z.abs (gy1 g - y * r * th g - r * th g - (gy1 g - y * r * th g))) with (r * th g) by lia.
      replace (r * tw g * th g <=? r * th g * tw g) with true by (symmetry; nia).
      unfold r. rewrite (closest_level_exact g l (tw g)) by (try assumption; lia).
      fold r. replace (res_at g 0 * shr_n g * tw g <? r * tw g * shr_d g) with false by (symmetry; lia). reflexivity.
    - unfold bbox_intersects, get_resolution.
      replace ((gx0 g <? gx0 g + x * r * tw g + r * tw g) && (gx0 g + x * r * tw g <? gx1 g) &&
               (gy0 g <? gy0 g + y * r * th g + r * th g) && (gy0 g + y * r * th g <? gy1 g)) with true by (symmetry; nia).
      cbn [negb].
      replace (Z.abs (gx0 g + x * r * tw g - (gx0 g + x * r * tw g + r * tw g))) with (r * tw g) by lia.
      replace (Z.abs (gy0 g + y * r * th g - (gy0 g + y * r * th g + r * th g))) with (r * th g) by lia.
      replace (r * tw g * th g <=? r * th g * tw g) with true by (symmetry; nia).
      unfold r. rewrite (closest_level_exact g l (tw g)) by (try assumption; lia).
      fold r. replace (res_at g 0 * shr_n g * tw g <? r * tw g * shr_d g) with false by (symmetry; lia). reflexivity. }
  rewrite Hal.
  (* the block is the single tile *)
  assert (Hcols : aff_cols g (tile_bbox g x y l) l = [x]).
  { unfold aff_cols, tile_bbox, tile, inset. fold r. destruct (ul g); cbn [fst].
    - replace (gx0 g + x * r * tw g + r / 10 - gx0 g) with (x * (r * tw g) + r / 10) by ring.
      replace (gx0 g + x * r * tw g + r * tw g - r / 10 - gx0 g) with (x * (r * tw g) + (r * tw g - r / 10)) by ring.
      rewrite !div_in_tile by lia. apply zrange_single.
    - replace (gx0 g + x * r * tw g + r / 10 - gx0 g) with (x * (r * tw g) + r / 10) by ring.
      replace (gx0 g + x * r * tw g + r * tw g - r / 10 - gx0 g) with (x * (r * tw g) + (r * tw g - r / 10)) by ring.
      rewrite !div_in_tile by lia. apply zrange_single. }
  assert (Hrows : aff_rows g (tile_bbox g x y l) l = [y]).
  { unfold aff_rows, tile_bbox, tile, inset. fold r. destruct (ul g) eqn:U; rewrite ?U; cbn [snd].
    - replace (gy1 g - (gy1 g - y * r * th g - r * th g + r / 10)) with (y * (r * th g) + (r * th g - r / 10)) by ring.
      replace (gy1 g - (gy1 g - y * r * th g - r / 10)) with (y * (r * th g) + r / 10) by ring.
      rewrite !div_in_tile by lia. apply zrange_single.
    - replace (gy0 g + y * r * th g + r / 10 - gy0 g) with (y * (r * th g) + r / 10) by ring.
      replace (gy0 g + y * r * th g + r * th g - r / 10 - gy0 g) with (y * (r * th g) + (r * th g - r / 10)) by ring.
      rewrite !div_in_tile by lia. rewrite zrange_single. reflexivity. }
  rewrite affected_unfold, Hcols, Hrows. cbn [last length create_tile_list flat_map map app fst snd].
  rewrite merge_bbox_idem. rewrite Eg. cbn [fst snd].
  replace (1 <? Z.of_nat 1 * Z.of_nat 1) with false by reflexivity.
  assert (Hbe : bbox_equals_tenth (tile_bbox g x y l) (tile_bbox g x y l) (tw g) (th g) = true).
  { unfold bbox_equals_tenth, tile_bbox. fold r. destruct (ul g); lia. }
  rewrite Hbe. cbn [negb]. unfold tile_or_none.
  replace ((x <? 0) || (y <? 0) || (nx <=? x) || (ny <=? y)) with false by (symmetry; lia). reflexivity.
Qed.

(* the rectangles a client derives from the WMS-C TileSet (BoundingBox corner, resolution, tile size) are served
   with the tile a TMS request for the same (i, j) gets, under the hypotheses of tms_address_exact *)
Lemma wmsc_advertised_served_l s i j l :
  wf (sg s) -> decreasing_res (sg s) -> 0 < sf_d (sg s) <= sf_n (sg s) -> 0 < shr_d (sg s) <= shr_n (sg s) ->
  s_extent s = grid_bbox (sg s) ->
  (ul (sg s) = false \/ misalign (sg s) l = 0) ->
  limit_tile (sg s) i j l = Some (i, j, l) -> 10 <= res_at (sg s) l ->
  wmsc_get_map (sg s) (wmsc_client_rect s (res_at (sg s) l) i j) (tw (sg s)) (th (sg s)) =
  WLoaded (flip_for (sg s) OSW (i, j, l)).
Proof.
  intros Hwf Hd Hsf Hshr He Ha Hl H10.
  assert (Hrect : wmsc_client_rect s (res_at (sg s) l) i j = tile_bbox_c (sg s) (flip_for (sg s) OSW (i, j, l))).
  { rewrite flip_for_rect by (cbn [effective_origin]; destruct Ha as [-> | H]; auto).
    unfold wmsc_client_rect, conv_rect. rewrite He. unfold grid_bbox. cbn [effective_origin]. reflexivity. }
  rewrite Hrect. pose proof (flip_for_valid (sg s) OSW i j l Hl) as Hv.
  pose proof (flip_for_level (sg s) OSW i j l) as Hlv.
  destruct (flip_for (sg s) OSW (i, j, l)) as [[x' y'] l']. cbn [snd] in Hlv. subst l'.
  cbn [tile_bbox_c]. apply wmsc_tile_rect_served; assumption.
Qed.

Example ex_wmsc_advertised :
  wmsc_get_map f8_grid (wmsc_client_rect (mkLayer f8_grid SrsOther false false false 1 1 (0, 0, 10000, 7000) 10) 40 0 0)
               100 100 = WRefused /\
  wmsc_get_map ex_ll_unaligned (wmsc_client_rect (mkLayer ex_ll_unaligned SrsOther false false false 1 1 (0, 0, 800, 400) 10) 50 3 3) 4 2
  = WLoaded (3, 3, 1).
Proof. split; vm_compute; reflexivity. Qed.

(* ---- the whole KML document: every GroundOverlay (href, LatLonBox) names a tile that is served and covers the box *)
Lemma kml_document_links_exact_l s srv x y z b subs oh r :
  kml_document s x y z = KmlDoc b subs -> In (oh, r) subs ->
  exists hx hy hz, oh = Some (hx, hy, hz) /\
    exists c, served s srv (AKml hz hx hy) = Some c /\ tile_bbox_c (sg s) c = r.
Proof.
  unfold kml_document.
  destruct (layer_internal s OSW false false x y z) as [[[ix iy] iz]|]; [|discriminate].
  destruct (internal_tile_coord s x y (z + 1) false false) as [[[nx0 ny0] lvl]|] eqn:En.
  2:{ intros H. inversion H; subst. intros []. }
  apply internal_some in En. destruct En as (Hz & Hc & Hv & _). assert (El : lvl = req_level s false false (z + 1)) by congruence. clear Hc. subst lvl.
  set (lvl := req_level s false false (z + 1)) in *.
  assert (Hev : skip_odd s = false \/ lvl mod 2 = 0).
  { unfold lvl, req_level, public_level. cbn [andb]. destruct (skip_odd s); [right; lia|left; reflexivity]. }
  destruct (affected_level_tiles (sg s) (limit_bbox (sg s) (tile_bbox (sg s) ix iy iz)) lvl) as [ab n m tiles|] eqn:Ea; [|discriminate].
  destruct (limit_bbox (sg s) (tile_bbox (sg s) ix iy iz)) as [[[b0 b1] b2] b3] eqn:Eb.
  intros H. inversion H; subst b subs. clear H. intros Hi.
  apply in_flat_map in Hi. destruct Hi as (oc & Hoc & Hin).
  destruct oc as [[[cx cy] cz]|]; [|destruct Hin].
  destruct (tile_bbox (sg s) cx cy cz) as [[[s0 s1] s2] s3] eqn:Es.
  destruct ((0 <? (s0 - b0) * 10000000 + s_scale s) && (0 <? (s1 - b1) * 10000000 + s_scale s)); [|destruct Hin].
  destruct Hin as [Hin|[]]. injection Hin as Hoh Hr. subst r.
  pose proof (affected_tiles_valid (sg s) _ lvl ab n m tiles Hv Ea) as [H1 _].
  destruct (H1 _ Hoc) as (tx & ty & _ & _ & Hl). symmetry in Hl.
  pose proof (limit_tile_some _ _ _ _ _ Hl) as (Ht & _). inversion Ht; subst cx cy cz. clear Ht.
  assert (Hoh' : kml_href_coord s (tx, ty, lvl) = oh) by exact Hoh. clear Hoh.
  destruct oh as [[[hx hy] hz]|].
  - exists hx, hy, hz. split; [reflexivity|].
    pose proof (kml_href_roundtrip_l s srv tx ty lvl (hx, hy, hz) Hev Hl Hoh') as Hs. cbv beta iota in Hs.
    exists (tx, ty, lvl). split; [exact Hs|]. cbn [tile_bbox_c]. exact Es.
  - exfalso. unfold kml_href_coord, external_tile_coord in Hoh'.
    apply limit_tile_some in Hl. destruct Hl as (_ & Hvl & _). unfold valid_level in Hvl.
    destruct (ul (sg s)); unfold flip_tile_coord in Hoh'; replace (lvl <? 0) with false in Hoh' by lia; discriminate.
Qed.

(* ---- WMS-C: the advertised-served statement needs only the Origin condition of tms_address_exact_iff (the lower-left
   corner of the TileSet BoundingBox is the south-west corner of tile (0,0) of that level), not extent = grid bbox *)
Lemma wmsc_advertised_served_origin_l s i j l :
  wf (sg s) -> decreasing_res (sg s) -> 0 < sf_d (sg s) <= sf_n (sg s) -> 0 < shr_d (sg s) <= shr_n (sg s) ->
  tms_origin_ok s l ->
  limit_tile (sg s) i j l = Some (i, j, l) -> 10 <= res_at (sg s) l ->
  wmsc_get_map (sg s) (wmsc_client_rect s (res_at (sg s) l) i j) (tw (sg s)) (th (sg s)) =
  WLoaded (flip_for (sg s) OSW (i, j, l)).
Proof.
  intros Hwf Hd Hsf Hshr Ho Hl H10.
  assert (Hrect : wmsc_client_rect s (res_at (sg s) l) i j = tile_bbox_c (sg s) (flip_for (sg s) OSW (i, j, l))).
  { unfold tms_origin_ok in Ho. unfold wmsc_client_rect.
    destruct (s_extent s) as [[[ex0 ey0] ex1] ey1]. destruct Ho as [-> ->].
    unfold flip_for, tile_bbox_c, flip_tile_coord, tile_bbox, misalign.
    destruct (ul (sg s)) eqn:U; destruct (grid_size (sg s) l) as [nx ny]; cbn [snd]; rewrite ?U; apply bbox_eq; ring. }
  rewrite Hrect. pose proof (flip_for_valid (sg s) OSW i j l Hl) as Hv.
  pose proof (flip_for_level (sg s) OSW i j l) as Hlv.
  destruct (flip_for (sg s) OSW (i, j, l)) as [[x' y'] l']. cbn [snd] in Hlv. subst l'.
  cbn [tile_bbox_c]. apply wmsc_tile_rect_served; assumption.
Qed.

(* converse: if the rectangle derived from the TileSet for (i, j) is answered with the tile TMS serves for (i, j), the
   Origin condition holds up to the 1/10 pixel guard - stated exactly: the two rectangles differ by less than a tenth of a
   pixel in every edge *)
Lemma wmsc_served_implies_close s i j l :
  wmsc_get_map (sg s) (wmsc_client_rect s (res_at (sg s) l) i j) (tw (sg s)) (th (sg s)) =
  WLoaded (flip_for (sg s) OSW (i, j, l)) ->
  bbox_equals_tenth (wmsc_client_rect s (res_at (sg s) l) i j) (tile_bbox_c (sg s) (flip_for (sg s) OSW (i, j, l)))
                    (tw (sg s)) (th (sg s)) = true.
Proof. intros H. apply wmsc_exact_or_refused_l in H. tauto. Qed.

(* ---- TileServiceGrid.internal_level (demo): the level it names is the level TMS requests are served from, except on
   global-profile sqrt2 grids, where it is two grid levels further down (4 instead of 2 for order 0) *)
Lemma internal_level_consistent_l s z :
  skip_first s && skip_odd s = false -> internal_level s z = public_level s true z.
Proof.
  unfold internal_level, public_level. destruct (skip_first s), (skip_odd s); cbn [andb]; try discriminate; intros _; ring.
Qed.

Lemma internal_level_offset_l s z :
  skip_first s = true -> skip_odd s = true -> internal_level s z = public_level s true z + 2.
Proof. unfold internal_level, public_level. intros -> ->. cbn [andb]. ring. Qed.

Lemma svc_bbox_spec s b : svc_bbox s = Some b -> b = grid_bbox (sg s) /\ internal_level s 0 < levels (sg s).
Proof.
  unfold svc_bbox, grid_bbox. destruct (internal_level s 0 <? levels (sg s)) eqn:E; [|discriminate].
  intros H. inversion H. split; [reflexivity|lia].
Qed.

Example ex_internal_level :
  internal_level (mkLayer w1_grid SrsMerc true true false 1 1 (0, 0, 141400, 141400) 10) 0 = 4 /\
  public_level (mkLayer w1_grid SrsMerc true true false 1 1 (0, 0, 141400, 141400) 10) true 0 = 2 /\
  svc_bbox (mkLayer w1_grid SrsMerc true true false 1 1 (0, 0, 141400, 141400) 10) = None /\
  svc_bbox f8_layer = Some (0, 0, 10000, 7000).
Proof. repeat split; vm_compute; reflexivity. Qed.

(* ---- request isolation: for every number of requests and every schedule of parse / handle events, a request that is
   handled after it was parsed is answered exactly as if it were alone - whatever was parsed or handled in between *)
Section Isolation.
Variable t : layer_table.
Variable srv : origin_req.
Variable reqs : nat -> treq.

Definition dims_inv (st : rstate) : Prop :=
  cls_dims st = None /\ forall i d, assoc_nat i (inst_dims st) = Some d -> d = rq_spec (reqs i).

Lemma rstep_inv st e : dims_inv st -> dims_inv (rstep t srv reqs st e).
Proof.
  intros [Hc Hi]. destruct e as [i|i]; cbn [rstep]; split; cbn [cls_dims inst_dims]; try assumption.
  intros k d. cbn [assoc_nat]. destruct (Nat.eqb i k) eqn:E.
  - apply Nat.eqb_eq in E. subst k. intros H. inversion H. reflexivity.
  - apply Hi.
Qed.

Lemma run_inv sched : forall st, dims_inv st -> dims_inv (fold_left (rstep t srv reqs) sched st).
Proof. induction sched as [|e r IH]; intros st H; cbn [fold_left]; [exact H|]. apply IH. apply rstep_inv. exact H. Qed.

Definition parsed (st : rstate) (i : nat) : Prop := assoc_nat i (inst_dims st) <> None.

Lemma rstep_parsed st e i : parsed st i -> parsed (rstep t srv reqs st e) i.
Proof.
  unfold parsed. destruct e as [k|k]; cbn [rstep inst_dims assoc_nat]; [|tauto].
  destruct (Nat.eqb k i); [discriminate|tauto].
Qed.

Lemma handle_isolated st i :
  dims_inv st -> parsed st i ->
  answer_of (rstep t srv reqs st (RHandle i)) i = Some (handle_with t srv (reqs i) (rq_spec (reqs i))).
Proof.
  intros [Hc Hi] Hp. unfold answer_of. cbn [rstep answers assoc_nat]. rewrite Nat.eqb_refl.
  unfold dims_of. unfold parsed in Hp. destruct (assoc_nat i (inst_dims st)) as [d|] eqn:E; [|contradiction].
  rewrite (Hi i d E). reflexivity.
Qed.

(* later events do not change the answer that was given, unless the request is handled again *)
Lemma answer_stable st e i a :
  answer_of st i = Some a -> e <> RHandle i -> answer_of (rstep t srv reqs st e) i = Some a.
Proof.
  unfold answer_of. destruct e as [k|k]; cbn [rstep answers]; [tauto|]. intros H Hne. cbn [assoc_nat].
  destruct (Nat.eqb k i) eqn:E; [apply Nat.eqb_eq in E; subst; contradiction|exact H].
Qed.

Theorem request_isolation_l pre post i :
  In (RParse i) pre ->
  ~ In (RHandle i) post ->
  answer_of (run_schedule t srv reqs (pre ++ RHandle i :: post)) i =
  Some (handle_with t srv (reqs i) (rq_spec (reqs i))).
Proof.
  intros Hin Hpost. unfold run_schedule. rewrite fold_left_app. cbn [fold_left].
  set (st := fold_left (rstep t srv reqs) pre rs_init).
  assert (Hinv : dims_inv st).
  { apply run_inv. split; [reflexivity|]. intros k d H. discriminate. }
  assert (Hp : parsed st i).
  { unfold st. clear Hinv st Hpost. generalize rs_init. induction pre as [|e r IH]; [destruct Hin|]. intros s0.
    cbn [fold_left]. destruct Hin as [->|Hin].
    - assert (P : parsed (rstep t srv reqs s0 (RParse i)) i).
      { unfold parsed. cbn [rstep inst_dims assoc_nat]. rewrite Nat.eqb_refl. discriminate. }
      revert P. generalize (rstep t srv reqs s0 (RParse i)). clear. induction r as [|e r IH]; intros s P; [exact P|].
      cbn [fold_left]. apply IH. apply rstep_parsed. exact P.
    - apply IH. exact Hin. }
  pose proof (handle_isolated st i Hinv Hp) as Ha.
  revert Ha. generalize (rstep t srv reqs st (RHandle i)). clear -Hpost.
  induction post as [|e r IH]; intros s Ha; [exact Ha|]. cbn [fold_left]. apply IH.
  - intros H. apply Hpost. right. exact H.
  - apply answer_stable; [exact Ha|]. intros ->. apply Hpost. left. reflexivity.
Qed.
End Isolation.

(* non-vacuity: two layers, B (other grid path element) is parsed between the parsing and the handling of A *)
Example ex_request_isolation :
  let t := [(1, 3857, f8_layer); (2, 4326, ex_geod_layer)] in
  let reqs := fun i : nat => match i with O => mkReq false 1 (Some 3857) (ATms 0 0 0) | _ => mkReq false 2 None (ATiles ONone 1 1 0) end in
  let st := run_schedule t ONone reqs [RParse 0; RParse 1; RHandle 0; RHandle 1]%nat in
  answer_of st 0%nat = Some (Some (0, 1, 0)) /\ answer_of st 1%nat = Some (Some (1, 0, 1)).
Proof. split; vm_compute; reflexivity. Qed.

(* ---- every grid of a multi-grid cache gets the extent of its own grid (no coverage, sources without extent), whatever
   its position in the grid list; with it the extent hypothesis of tms_address_exact holds for each of its tile layers *)
Lemma cache_tile_layers_extent_l coverage src grids g e :
  In (g, e) (cache_tile_layers coverage src grids) -> e = cache_extent coverage src g.
Proof.
  unfold cache_tile_layers. intros H. apply in_map_iff in H. destruct H as (g' & Heq & _). inversion Heq. reflexivity.
Qed.

Lemma cache_tile_layers_own_bbox_l grids g e :
  In (g, e) (cache_tile_layers None None grids) -> e = grid_bbox g.
Proof. intros H. apply cache_tile_layers_extent_l in H. exact H. Qed.

Example ex_multi_grid_cache :
  cache_tile_layers None None [f8_grid; ex_ll_unaligned] = [(f8_grid, (0, 0, 10000, 7000)); (ex_ll_unaligned, (0, 0, 800, 400))].
Proof. reflexivity. Qed.

(* ---- WMTS with the standard metres per unit: no hypothesis left *)
Lemma wmts_address_exact_std_l s srv latlong m col row r :
  (s_mpu_n s, s_mpu_d s) = meter_per_unit latlong ->
  client_rect s srv (AWmts m col row) = Some r ->
  exists c, served s srv (AWmts m col row) = Some c /\ tile_bbox_c (sg s) c = r.
Proof.
  intros H. apply wmts_address_exact_l; destruct latlong; cbn in H; inversion H; lia.
Qed.

(* ---- WMTS, the converse of wmts_address_exact (round 8): the advertised MatrixWidth / MatrixHeight are the numbers
   limit_tile works with, so a (TileMatrix, TileCol, TileRow) that is served lies inside an advertised matrix: the set of
   advertised addresses and the set of served addresses coincide *)
Lemma wmts_served_is_advertised_l s srv m col row c :
  served s srv (AWmts m col row) = Some c ->
  exists r, client_rect s srv (AWmts m col row) = Some r.
Proof.
  unfold served, client_rect, wmts_matrix_set. destruct (wmts_offered s); [|discriminate].
  unfold layer_internal, internal_tile_coord.
  destruct (m <? 0) eqn:Em; [discriminate|].
  replace (req_level s false true m) with m by reflexivity.
  unfold limit_tile. destruct (valid_level (sg s) m) eqn:Hv; cbn [negb]; [|discriminate].
  destruct (grid_size (sg s) m) as [nx ny] eqn:Eg.
  destruct ((col <? 0) || (row <? 0) || (nx <=? col) || (ny <=? row)) eqn:Eb; [discriminate|]. intros _.
  assert (Hin : In (wmts_matrix s m) (map (wmts_matrix s) (zrange 0 (levels (sg s) - 1)))).
  { apply in_map. apply zrange_In. unfold valid_level in Hv. lia. }
  destruct (find (fun tm => tm_id tm =? m) (map (wmts_matrix s) (zrange 0 (levels (sg s) - 1)))) as [tm|] eqn:Ef.
  - apply find_some_id in Ef. destruct Ef as [Hi Hid].
    apply in_map_iff in Hi. destruct Hi as (l & <- & _).
    pose proof (wmts_matrix_fields s l) as (Fid & _ & _ & Fw & Fh & _).
    rewrite Fid in Hid. subst l. rewrite Fw, Fh, Eg. cbn [fst snd].
    replace ((0 <=? col) && (col <? nx) && (0 <=? row) && (row <? ny)) with true by lia.
    eexists. reflexivity.
  - exfalso. pose proof (find_none _ _ Ef _ Hin) as Hn. cbn beta in Hn.
    pose proof (wmts_matrix_fields s m) as (Fid & _). rewrite Fid in Hn. lia.
Qed.

(* ---- KML LatLonBox: it is the transformed rectangle of the tile, except for tiles that end at the border of the mercator
   world; in particular for every tile of a regional grid, wherever the grid ends *)
Lemma kml_bbox_to_wgs_plain_l T merc world tenth pole src :
  (merc = false \/ let '(_, s1, _, s3) := src in tenth <= Z.abs (s1 + world) /\ tenth <= Z.abs (s3 - world)) ->
  kml_bbox_to_wgs T merc world tenth pole src = T src.
Proof.
  unfold kml_bbox_to_wgs. destruct (T src) as [[[b0 b1] b2] b3]. destruct src as [[[s0 s1] s2] s3].
  intros [-> | [H1 H3]]; [reflexivity|]. destruct merc; [|reflexivity].
  replace (Z.abs (s1 - - world) <? tenth) with false by lia. replace (Z.abs (s3 - world) <? tenth) with false by lia. reflexivity.
Qed.

Example ex_kml_bbox_to_wgs :
  kml_bbox_to_wgs (fun _ => (1, 2, 3, 4)) true 200375083 1 90000000 (0, -200375083, 10, 5) = (1, -90000000, 3, 4) /\
  kml_bbox_to_wgs (fun _ => (1, 2, 3, 4)) true 200375083 1 90000000 (0, -1000, 10, 5) = (1, 2, 3, 4).
Proof. split; reflexivity. Qed.

(* ---- content of the served tile (composition with the meta tile model of C04, imported read-only) *)
From Coq Require Import FinFun.
From MP Require Import Base MetaGrid.
(* The lemmas of C04's MetaGrid_proofs.v that served_content_exact_l needs (well-formedness, pattern of a meta tile,
   TileSplitter, meta_equals_single_lemma), copied verbatim on 2026-10-02 into a module of this file so that the C02 build
   depends on the meta tile MODEL MetaGrid.v only and not on the state of C04's proof file. *)
Module MetaLemmas.

(* well-formed meta grid: what the configuration loader guarantees *)
Definition mwf (m : mgrid) : Prop := wf (mg_grid m) /\ 1 <= msx m /\ 1 <= msy m /\ 0 <= mbuf m.

Lemma grid_size_pos g l : 1 <= fst (grid_size g l) /\ 1 <= snd (grid_size g l).
Proof. unfold grid_size, axis_tiles. cbn [fst snd]. lia. Qed.

Lemma meta_size_pos m l : mwf m -> 1 <= fst (meta_size m l) /\ 1 <= snd (meta_size m l).
Proof.
  intros (_ & Hx & Hy & _). unfold meta_size. pose proof (grid_size_pos (mg_grid m) l) as [H1 H2].
  destruct (grid_size (mg_grid m) l) as [nx ny]. cbn [fst snd] in *. lia.
Qed.

Lemma meta_size_le_grid m l :
  fst (meta_size m l) <= fst (grid_size (mg_grid m) l) /\ snd (meta_size m l) <= snd (grid_size (mg_grid m) l).
Proof. unfold meta_size. destruct (grid_size (mg_grid m) l) as [nx ny]. cbn [fst snd]. lia. Qed.

(* ---------------------------------------------------------------- main tile *)

Lemma main_tile_eq m x y z :
  main_tile m x y z = (x / fst (meta_size m z) * fst (meta_size m z), y / snd (meta_size m z) * snd (meta_size m z), z).
Proof. unfold main_tile. destruct (meta_size m z). reflexivity. Qed.

(* the block of a main tile contains the tile, and the main tile is aligned to the meta size *)
Lemma main_tile_contains m x y z :
  mwf m ->
  let '(x0, y0, z0) := main_tile m x y z in
  let '(sx, sy) := meta_size m z in
  z0 = z /\ x0 <= x < x0 + sx /\ y0 <= y < y0 + sy /\ x0 mod sx = 0 /\ y0 mod sy = 0.
Proof.
  intros Hm. pose proof (meta_size_pos m z Hm) as [Hx Hy]. rewrite main_tile_eq.
  destruct (meta_size m z) as [sx sy]. cbn [fst snd] in *.
  split; [reflexivity|]. repeat split; try nia.
  - rewrite Z.mod_mul; lia.
  - rewrite Z.mod_mul; lia.
Qed.

Lemma main_tile_idem m x y z :
  mwf m -> let '(x0, y0, z0) := main_tile m x y z in main_tile m x0 y0 z0 = (x0, y0, z0).
Proof.
  intros Hm. pose proof (meta_size_pos m z Hm) as [Hx Hy]. rewrite main_tile_eq. rewrite main_tile_eq.
  destruct (meta_size m z) as [sx sy]. cbn [fst snd] in *.
  rewrite !Z.div_mul by lia. reflexivity.
Qed.

(* two tiles of a level have the same main tile iff the second lies in the block of the first's main tile *)
Lemma main_tile_same_iff m x y x' y' z :
  mwf m ->
  let '(x0, y0, _) := main_tile m x y z in
  let '(sx, sy) := meta_size m z in
  main_tile m x' y' z = main_tile m x y z <-> (x0 <= x' < x0 + sx /\ y0 <= y' < y0 + sy).
Proof.
  intros Hm. pose proof (meta_size_pos m z Hm) as [Hx Hy]. rewrite !main_tile_eq.
  destruct (meta_size m z) as [sx sy]. cbn [fst snd] in *. split.
  - intros H. injection H as H1 H2. nia.
  - intros [H1 H2].
    assert (Ex : x' / sx = x / sx) by (apply div_unique_bounds; nia).
    assert (Ey : y' / sy = y / sy) by (apply div_unique_bounds; nia).
    rewrite Ex, Ey. reflexivity.
Qed.

Example main_tile_example :
  let m := mkMG (mkGrid 0 0 20480 20480 256 256 [80; 40; 20; 10] false 115 100 4 1) 2 2 10 in
  mwf m /\ main_tile m 5 3 3 = (4, 2, 3) /\ main_tile m 4 2 3 = (4, 2, 3) /\ main_tile m 3 3 3 = (2, 2, 3) /\
  meta_size m 0 = (1, 1) /\ meta_size m 3 = (2, 2).
Proof.
  cbv zeta. split; [|vm_compute; repeat split; reflexivity].
  unfold mwf, wf, pos_res. cbn. repeat split; try lia. all: intros r Hr; intuition lia.
Qed.

(* ---------------------------------------------------------------- lists of integers *)

Lemma zrange_length a b : length (zrange a b) = Z.to_nat (b + 1 - a).
Proof. unfold zrange. rewrite map_length, seq_length. reflexivity. Qed.

Lemma zrange_In a b k : In k (zrange a b) <-> a <= k <= b.
Proof.
  unfold zrange. rewrite in_map_iff. split.
  - intros (i & <- & Hi). apply in_seq in Hi. lia.
  - intros H. exists (Z.to_nat (k - a)). split; [lia|]. apply in_seq. lia.
Qed.

Lemma zrange_nth a b i d : (i < length (zrange a b))%nat -> nth i (zrange a b) d = a + Z.of_nat i.
Proof.
  intros Hi. rewrite zrange_length in Hi. unfold zrange.
  rewrite nth_indep with (d' := a + Z.of_nat 0) by (rewrite map_length, seq_length; exact Hi).
  rewrite (map_nth (fun k => a + Z.of_nat k)). rewrite seq_nth by exact Hi. reflexivity.
Qed.

Lemma zrange_NoDup a b : NoDup (zrange a b).
Proof.
  unfold zrange. apply FinFun.Injective_map_NoDup; [|apply seq_NoDup].
  intros i j H. lia.
Qed.

Lemma rows_from_top_In g a b k : In k (rows_from_top g a b) <-> a <= k <= b.
Proof. unfold rows_from_top. destruct (ul g); [|rewrite <- in_rev]; apply zrange_In. Qed.

Lemma rows_from_top_length g a b : length (rows_from_top g a b) = Z.to_nat (b + 1 - a).
Proof. unfold rows_from_top. destruct (ul g); [|rewrite rev_length]; apply zrange_length. Qed.

Lemma rows_from_top_nth g a b i d :
  (i < Z.to_nat (b + 1 - a))%nat ->
  nth i (rows_from_top g a b) d = if ul g then a + Z.of_nat i else b - Z.of_nat i.
Proof.
  intros Hi. unfold rows_from_top. destruct (ul g).
  - apply zrange_nth. rewrite zrange_length. exact Hi.
  - rewrite rev_nth by (rewrite zrange_length; exact Hi). rewrite zrange_length.
    rewrite zrange_nth by (rewrite zrange_length; lia). lia.
Qed.

(* element j + i * n of a row-major double loop *)
Lemma nth_rows {A B C} (f : B -> A -> C) (xs : list A) (ys : list B) i j d dx dy :
  (j < length xs)%nat -> (i < length ys)%nat ->
  nth (j + i * length xs) (flat_map (fun y => map (f y) xs) ys) d = f (nth i ys dy) (nth j xs dx).
Proof.
  revert i. induction ys as [|y ys IH]; intros i Hj Hi; [cbn in Hi; lia|].
  cbn [flat_map]. destruct i as [|i].
  - cbn [Nat.mul Nat.add nth]. rewrite Nat.add_0_r. rewrite app_nth1 by (rewrite map_length; exact Hj).
    rewrite nth_indep with (d' := f y dx) by (rewrite map_length; exact Hj). apply (map_nth (f y)).
  - rewrite app_nth2 by (rewrite map_length; lia). rewrite map_length.
    replace (j + S i * length xs - length xs)%nat with (j + i * length xs)%nat by lia.
    cbn [nth]. apply IH; [exact Hj|cbn in Hi; lia].
Qed.

(* ---------------------------------------------------------------- the crop pattern *)

Lemma tiles_pattern_In g gsx gsy b0 b1 b2 b3 tiles p :
  In p (tiles_pattern g (gsx, gsy) (b0, b1, b2, b3) tiles) <->
  exists i j, 0 <= i < gsy /\ 0 <= j < gsx /\
              p = (nth (Z.to_nat (j + i * gsx)) tiles None, (j * tw g + b0, i * th g + b3)).
Proof.
  unfold tiles_pattern. cbn [fst snd]. rewrite in_flat_map. split.
  - intros (i & Hi & Hp). apply in_map_iff in Hp. destruct Hp as (j & <- & Hj).
    apply zrange_In in Hi. apply zrange_In in Hj. exists i, j. repeat split; lia.
  - intros (i & j & Hi & Hj & ->). exists i. split; [apply zrange_In; lia|].
    apply in_map_iff. exists j. split; [reflexivity|apply zrange_In; lia].
Qed.

Lemma create_tile_list_nth xs ys l gs i j :
  0 <= i < Z.of_nat (length ys) -> 0 <= j < Z.of_nat (length xs) ->
  nth (Z.to_nat (j + i * Z.of_nat (length xs))) (create_tile_list xs ys l gs) None =
  tile_or_none (fst gs) (snd gs) l (nth (Z.to_nat j) xs 0) (nth (Z.to_nat i) ys 0).
Proof.
  intros Hi Hj. unfold create_tile_list.
  replace (Z.to_nat (j + i * Z.of_nat (length xs))) with (Z.to_nat j + Z.to_nat i * length xs)%nat by nia.
  apply (nth_rows (fun y x => tile_or_none (fst gs) (snd gs) l x y)); lia.
Qed.

(* row i (counted from the top of the picture) of a block of sy rows starting at row index y0 *)
Definition block_row (g : grid) (y0 sy i : Z) : Z := if ul g then y0 + i else y0 + sy - 1 - i.

Lemma meta_tile_unfold m x y z x0 y0 sx sy bb bufs :
  mwf m -> main_tile m x y z = (x0, y0, z) -> meta_size m z = (sx, sy) ->
  buffered_bbox m (unbuffered_meta_bbox m x0 y0 z) z true = (bb, bufs) ->
  meta_tile m x y z =
  mkMT bb (size_from_bbox m bb z)
       (tiles_pattern (mg_grid m) (sx, sy) bufs
          (create_tile_list (zrange x0 (x0 + sx - 1)) (rows_from_top (mg_grid m) y0 (y0 + sy - 1)) z (grid_size (mg_grid m) z)))
       (sx, sy).
Proof.
  intros Hm Hmain Hms Hb. unfold meta_tile. rewrite Hmain, Hb, Hms.
  unfold meta_tile_list. pose proof (main_tile_idem m x y z Hm) as Hid. rewrite Hmain in Hid. rewrite Hid.
  cbn [fst snd]. reflexivity.
Qed.

(* the pattern of a meta tile, element by element: row i from the top, column j from the left *)
Lemma meta_tile_pattern_In m x y z x0 y0 sx sy bb b0 b1 b2 b3 p :
  mwf m -> main_tile m x y z = (x0, y0, z) -> meta_size m z = (sx, sy) ->
  buffered_bbox m (unbuffered_meta_bbox m x0 y0 z) z true = (bb, (b0, b1, b2, b3)) ->
  (In p (mt_pattern (meta_tile m x y z)) <->
   exists i j, 0 <= i < sy /\ 0 <= j < sx /\
     p = (tile_or_none (fst (grid_size (mg_grid m) z)) (snd (grid_size (mg_grid m) z)) z (x0 + j) (block_row (mg_grid m) y0 sy i),
          (j * tw (mg_grid m) + b0, i * th (mg_grid m) + b3))).
Proof.
  intros Hm Hmain Hms Hb. rewrite (meta_tile_unfold m x y z x0 y0 sx sy bb _ Hm Hmain Hms Hb). cbn [mt_pattern].
  pose proof (meta_size_pos m z Hm) as [Hsx Hsy]. rewrite Hms in Hsx, Hsy. cbn [fst snd] in Hsx, Hsy.
  rewrite tiles_pattern_In.
  assert (Hlx : Z.of_nat (length (zrange x0 (x0 + sx - 1))) = sx) by (rewrite zrange_length; lia).
  assert (Hly : Z.of_nat (length (rows_from_top (mg_grid m) y0 (y0 + sy - 1))) = sy) by (rewrite rows_from_top_length; lia).
  assert (Hn : forall i j, 0 <= i < sy -> 0 <= j < sx ->
    nth (Z.to_nat (j + i * sx)) (create_tile_list (zrange x0 (x0 + sx - 1)) (rows_from_top (mg_grid m) y0 (y0 + sy - 1)) z (grid_size (mg_grid m) z)) None =
    tile_or_none (fst (grid_size (mg_grid m) z)) (snd (grid_size (mg_grid m) z)) z (x0 + j) (block_row (mg_grid m) y0 sy i)).
  { intros i j Hi Hj. rewrite <- Hlx at 1. rewrite create_tile_list_nth by lia. f_equal.
    - rewrite zrange_nth by (rewrite zrange_length; lia). lia.
    - rewrite rows_from_top_nth by lia. unfold block_row. destruct (ul (mg_grid m)); lia. }
  split; intros (i & j & Hi & Hj & ->); exists i, j; (split; [exact Hi|split; [exact Hj|]]); rewrite Hn by assumption; reflexivity.
Qed.

(* ---------------------------------------------------------------- geometry of a block of tiles *)

(* closed form of the rectangle of the block of sx x sy tiles whose lowest indices are x0, y0 *)
Definition block_bbox (g : grid) (x0 y0 sx sy z : Z) : bbox :=
  let r := res_at g z in
  if ul g then (gx0 g + x0 * r * tw g, gy1 g - (y0 + sy) * r * th g, gx0 g + (x0 + sx) * r * tw g, gy1 g - y0 * r * th g)
  else (gx0 g + x0 * r * tw g, gy0 g + y0 * r * th g, gx0 g + (x0 + sx) * r * tw g, gy0 g + (y0 + sy) * r * th g).

Lemma tiles_bbox_block g x0 y0 sx sy z :
  wf g -> valid_level g z = true -> 1 <= sx -> 1 <= sy ->
  tiles_bbox g (x0, y0, z) (x0 + sx - 1, y0 + sy - 1, z) = block_bbox g x0 y0 sx sy z.
Proof.
  intros Hwf Hv Hsx Hsy. pose proof (res_at_pos g z Hwf Hv) as Hr.
  destruct Hwf as (_ & _ & Htw & Hth & _).
  unfold tiles_bbox, block_bbox, tile_bbox, merge_bbox. set (r := res_at g z) in *.
  assert (0 < r * tw g) by nia. assert (0 < r * th g) by nia.
  destruct (ul g); repeat (f_equal; try nia).
Qed.

Lemma unbuffered_meta_bbox_eq m x0 y0 z sx sy :
  mwf m -> valid_level (mg_grid m) z = true -> meta_size m z = (sx, sy) ->
  unbuffered_meta_bbox m x0 y0 z = block_bbox (mg_grid m) x0 y0 sx sy z.
Proof.
  intros Hm Hv Hms. pose proof (meta_size_pos m z Hm) as [Hsx Hsy]. unfold unbuffered_meta_bbox.
  rewrite Hms in *. cbn [fst snd] in *. apply tiles_bbox_block; try assumption. apply Hm.
Qed.

Lemma buffered_false_eq m a b c d l :
  0 <= mbuf m ->
  buffered_bbox m (a, b, c, d) l false =
  ((a - mbuf m * res_at (mg_grid m) l, b - mbuf m * res_at (mg_grid m) l,
    c + mbuf m * res_at (mg_grid m) l, d + mbuf m * res_at (mg_grid m) l), (mbuf m, mbuf m, mbuf m, mbuf m)).
Proof.
  intros Hb. unfold buffered_bbox. destruct (mbuf m <=? 0) eqn:E; cbn [negb].
  - assert (mbuf m = 0) as -> by lia. repeat f_equal; lia.
  - reflexivity.
Qed.

(* limiting the buffered bbox to the grid bbox changes nothing: no buffer is cut off at the grid border *)
Definition no_buffer_cut (m : mgrid) (x y z : Z) : Prop :=
  let '(x0, y0, z0) := main_tile m x y z in
  buffered_bbox m (unbuffered_meta_bbox m x0 y0 z0) z0 true = buffered_bbox m (unbuffered_meta_bbox m x0 y0 z0) z0 false.

Lemma round_half_even_exact k d : 0 < d -> round_half_even (k * d) d = k.
Proof.
  intros Hd. unfold round_half_even. rewrite Z.div_mul by lia. rewrite Z.mod_mul by lia.
  destruct (2 * 0 <? d) eqn:E; [reflexivity|lia].
Qed.

Lemma tile_or_none_Some nx ny l x y c :
  tile_or_none nx ny l x y = Some c -> c = (x, y, l) /\ 0 <= x < nx /\ 0 <= y < ny.
Proof.
  unfold tile_or_none. destruct ((x <? 0) || (y <? 0) || (nx <=? x) || (ny <=? y)) eqn:E; [discriminate|].
  intros H. injection H as <-. split; [reflexivity|lia].
Qed.

Lemma tile_or_none_valid nx ny l x y :
  0 <= x < nx -> 0 <= y < ny -> tile_or_none nx ny l x y = Some (x, y, l).
Proof.
  intros Hx Hy. unfold tile_or_none.
  destruct ((x <? 0) || (y <? 0) || (nx <=? x) || (ny <=? y)) eqn:E; [lia|reflexivity].
Qed.

(* pattern_pixel_aligned: when no buffer is cut off, the image size is the extent of the meta tile divided
   by the resolution exactly, and the crop offset of every tile is its exact pixel distance from the upper
   left corner of the meta tile *)
Lemma pattern_pixel_aligned_lemma m x y z :
  mwf m -> valid_level (mg_grid m) z = true -> no_buffer_cut m x y z ->
  let mt := meta_tile m x y z in
  let r := res_at (mg_grid m) z in
  let '(minx, miny, maxx, maxy) := mt_bbox mt in
  (fst (mt_size mt) * r = maxx - minx /\ snd (mt_size mt) * r = maxy - miny) /\
  forall cx cy cz px py, In (Some (cx, cy, cz), (px, py)) (mt_pattern mt) ->
    let '(tx0, ty0, tx1, ty1) := tile_bbox (mg_grid m) cx cy cz in
    px * r = tx0 - minx /\ py * r = maxy - ty1 /\ 0 <= px /\ 0 <= py /\
    px + tw (mg_grid m) <= fst (mt_size mt) /\ py + th (mg_grid m) <= snd (mt_size mt).
Proof.
  intros Hm Hv Hcut. cbv zeta.
  pose proof (main_tile_contains m x y z Hm) as Hc. unfold no_buffer_cut in Hcut.
  destruct (main_tile m x y z) as [[x0 y0] z0] eqn:Hmain.
  destruct (meta_size m z) as [sx sy] eqn:Hms. destruct Hc as (-> & Hc).
  pose proof (meta_size_pos m z Hm) as [Hsx Hsy]. rewrite Hms in Hsx, Hsy. cbn [fst snd] in Hsx, Hsy.
  rewrite (unbuffered_meta_bbox_eq m x0 y0 z sx sy Hm Hv Hms) in Hcut.
  destruct (block_bbox (mg_grid m) x0 y0 sx sy z) as [[[ba bb_] bc] bd] eqn:Hblock.
  assert (Hbuf : 0 <= mbuf m) by apply Hm.
  rewrite (buffered_false_eq m ba bb_ bc bd z Hbuf) in Hcut.
  pose proof (fun p => meta_tile_pattern_In m x y z x0 y0 sx sy _ _ _ _ _ p Hm Hmain Hms
                (eq_trans (f_equal (fun b => buffered_bbox m b z true) (unbuffered_meta_bbox_eq m x0 y0 z sx sy Hm Hv Hms))
                          (eq_trans (f_equal (fun b => buffered_bbox m b z true) Hblock) Hcut))) as Hpat.
  rewrite (meta_tile_unfold m x y z x0 y0 sx sy _ _ Hm Hmain Hms
             (eq_trans (f_equal (fun b => buffered_bbox m b z true) (unbuffered_meta_bbox_eq m x0 y0 z sx sy Hm Hv Hms))
                       (eq_trans (f_equal (fun b => buffered_bbox m b z true) Hblock) Hcut))) in *.
  cbn [mt_bbox mt_size mt_pattern] in *.
  pose proof (res_at_pos (mg_grid m) z (proj1 Hm) Hv) as Hr.
  destruct Hm as ((_ & _ & Htw & Hth & _) & _).
  set (g := mg_grid m) in *. set (r := res_at g z) in *. set (B := mbuf m) in *.
  unfold block_bbox in Hblock. fold r in Hblock.
  assert (Hsize : size_from_bbox m (ba - B * r, bb_ - B * r, bc + B * r, bd + B * r) z
                  = (sx * tw g + 2 * B, sy * th g + 2 * B)).
  { unfold size_from_bbox. fold g. fold r.
    destruct (ul g); injection Hblock as <- <- <- <-; f_equal.
    all: match goal with |- round_half_even ?n ?rr = ?k => replace n with (k * rr) by nia end.
    all: apply round_half_even_exact; exact Hr. }
  rewrite Hsize. cbn [fst snd]. split.
  - destruct (ul g); injection Hblock as <- <- <- <-; nia.
  - intros cx cy cz px py Hin. apply Hpat in Hin. destruct Hin as (i & j & Hi & Hj & Heq).
    injection Heq as Ht -> ->. symmetry in Ht. apply tile_or_none_Some in Ht. destruct Ht as (Ht & _).
    injection Ht as -> -> ->. unfold tile_bbox, block_row. fold g. fold r.
    destruct (ul g); injection Hblock as <- <- <- <-; nia.
Qed.

(* ---------------------------------------------------------------- cutting tiles out of the meta image *)

Lemma tile_pixel_src_inside px py tw_ th_ W H j k :
  0 <= px -> 0 <= py -> px + tw_ <= W -> py + th_ <= H -> 0 <= j < tw_ -> 0 <= k < th_ ->
  tile_pixel_src (px, py) (tw_, th_) (W, H) j k = Some (px + j, py + k).
Proof.
  intros. unfold tile_pixel_src, get_tile_rect. cbn [fst snd].
  destruct ((px <? 0) || (py <? 0) || (W <? px + tw_) || (H <? py + th_)) eqn:E; [lia|].
  replace (px + (j - 0)) with (px + j) by lia. replace (py + (k - 0)) with (py + k) by lia.
  destruct ((px <=? px + j) && (px + j <? px + tw_) && (py <=? py + k) && (py + k <? py + th_)) eqn:E2; [reflexivity|lia].
Qed.

Lemma div_cancel_l a b c : 0 < c -> b <> 0 -> (c * a) / (c * b) = a / b.
Proof. intros. apply Z.div_mul_cancel_l; lia. Qed.

Lemma sample_x_aligned g q r minx miny maxx maxy W H px tx0 ty0 ty1 tw_ th_ j :
  0 < q -> 0 < W -> 0 < tw_ -> W * r = maxx - minx -> px * r = tx0 - minx ->
  sample_x g q (minx, miny, maxx, maxy) (W, H) (px + j) = sample_x g q (tx0, ty0, tx0 + r * tw_, ty1) (tw_, th_) j.
Proof.
  intros Hq HW Ht HWr Hpx. unfold sample_x. cbn [fst snd]. f_equal.
  replace ((2 * (px + j) + 1) * (maxx - minx) + 2 * W * (minx - gx0 g))
    with (W * ((2 * (px + j) + 1) * r + 2 * (minx - gx0 g))) by nia.
  replace (2 * W * q) with (W * (2 * q)) by lia. rewrite div_cancel_l by lia.
  replace ((2 * j + 1) * (tx0 + r * tw_ - tx0) + 2 * tw_ * (tx0 - gx0 g))
    with (tw_ * ((2 * (px + j) + 1) * r + 2 * (minx - gx0 g))) by nia.
  replace (2 * tw_ * q) with (tw_ * (2 * q)) by lia. rewrite div_cancel_l by lia. reflexivity.
Qed.

Lemma sample_y_aligned g q r minx miny maxx maxy W H py tx0 tx1 ty1 tw_ th_ k :
  0 < q -> 0 < H -> 0 < th_ -> H * r = maxy - miny -> py * r = maxy - ty1 ->
  sample_y g q (minx, miny, maxx, maxy) (W, H) (py + k) = sample_y g q (tx0, ty1 - r * th_, tx1, ty1) (tw_, th_) k.
Proof.
  intros Hq HH Ht HHr Hpy. unfold sample_y. cbn [fst snd]. f_equal.
  replace (2 * H * (maxy - gy0 g) - (2 * (py + k) + 1) * (maxy - miny))
    with (H * (2 * (maxy - gy0 g) - (2 * (py + k) + 1) * r)) by nia.
  replace (2 * H * q) with (H * (2 * q)) by lia. rewrite div_cancel_l by lia.
  replace (2 * th_ * (ty1 - gy0 g) - (2 * k + 1) * (ty1 - (ty1 - r * th_)))
    with (th_ * (2 * (maxy - gy0 g) - (2 * (py + k) + 1) * r)) by nia.
  replace (2 * th_ * q) with (th_ * (2 * q)) by lia. rewrite div_cancel_l by lia. reflexivity.
Qed.

Lemma tile_bbox_shape g x y l :
  let '(x0, y0, x1, y1) := tile_bbox g x y l in
  x1 = x0 + res_at g l * tw g /\ y0 = y1 - res_at g l * th g.
Proof. unfold tile_bbox. destruct (ul g); lia. Qed.

(* the image cut out of an untruncated meta tile equals the image of the tile requested alone, pixel by pixel,
   for the position-only picture sampled with any cell size q *)
Lemma cut_equals_single m q x y z cx cy cz px py j k :
  mwf m -> valid_level (mg_grid m) z = true -> 0 < q -> no_buffer_cut m x y z ->
  In (Some (cx, cy, cz), (px, py)) (mt_pattern (meta_tile m x y z)) ->
  0 <= j < tw (mg_grid m) -> 0 <= k < th (mg_grid m) ->
  stored_pixel (mg_grid m) q (mt_bbox (meta_tile m x y z)) (mt_size (meta_tile m x y z)) (px, py) j k =
  stored_pixel (mg_grid m) q (tile_bbox (mg_grid m) cx cy cz) (tw (mg_grid m), th (mg_grid m)) (0, 0) j k.
Proof.
  intros Hm Hv Hq Hcut Hin Hj Hk.
  pose proof (pattern_pixel_aligned_lemma m x y z Hm Hv Hcut) as Hal. cbv zeta in Hal.
  assert (Hcz : cz = z).
  { pose proof (main_tile_contains m x y z Hm) as Hc.
    destruct (main_tile m x y z) as [[x0 y0] z0] eqn:Hmain. destruct (meta_size m z) as [sx sy] eqn:Hms.
    destruct Hc as (-> & _).
    destruct (buffered_bbox m (unbuffered_meta_bbox m x0 y0 z) z true) as [bb [[[b0 b1] b2] b3]] eqn:Hb.
    apply (meta_tile_pattern_In m x y z x0 y0 sx sy bb b0 b1 b2 b3 _ Hm Hmain Hms Hb) in Hin.
    destruct Hin as (i & j' & _ & _ & Heq). injection Heq as Ht _ _. symmetry in Ht.
    apply tile_or_none_Some in Ht. destruct Ht as (Ht & _). injection Ht as _ _ ->. reflexivity. }
  subst cz.
  destruct (mt_bbox (meta_tile m x y z)) as [[[minx miny] maxx] maxy].
  destruct (mt_size (meta_tile m x y z)) as [W H]. cbn [fst snd] in Hal.
  destruct Hal as ((HW & HH) & Hal). specialize (Hal cx cy z px py Hin).
  pose proof (tile_bbox_shape (mg_grid m) cx cy z) as Hshape.
  destruct (tile_bbox (mg_grid m) cx cy z) as [[[tx0 ty0] tx1] ty1].
  destruct Hal as (Hpx & Hpy & Hpx0 & Hpy0 & HpxW & HpyH). destruct Hshape as (-> & ->).
  pose proof (res_at_pos (mg_grid m) z (proj1 Hm) Hv) as Hr.
  destruct Hm as ((_ & _ & Htw & Hth & _) & _).
  unfold stored_pixel.
  rewrite (tile_pixel_src_inside px py _ _ W H j k) by lia.
  rewrite (tile_pixel_src_inside 0 0 _ _ (tw (mg_grid m)) (th (mg_grid m)) j k) by lia.
  cbn [Z.add]. f_equal. f_equal.
  - apply (sample_x_aligned (mg_grid m) q (res_at (mg_grid m) z)); lia.
  - apply (sample_y_aligned (mg_grid m) q (res_at (mg_grid m) z)); lia.
Qed.

(* ---------------------------------------------------------------- which tiles a meta tile holds *)

Lemma coord_eqb_eq a b : coord_eqb a b = true <-> a = b.
Proof.
  destruct a as [[a1 a2] a3], b as [[b1 b2] b3]. unfold coord_eqb. split.
  - intros H. f_equal; [f_equal|]; lia.
  - intros H. injection H as -> -> ->. lia.
Qed.

Lemma find_crop_In c p crop : find_crop c p = Some crop -> In (Some c, crop) p.
Proof.
  induction p as [|[[c'|] cr] p IH]; cbn [find_crop]; [discriminate| |].
  - destruct (coord_eqb c c') eqn:E.
    + intros H. injection H as <-. apply coord_eqb_eq in E. subst. left. reflexivity.
    + intros H. right. apply IH. exact H.
  - intros H. right. apply IH. exact H.
Qed.

Lemma find_crop_complete c p crop : In (Some c, crop) p -> exists crop', find_crop c p = Some crop'.
Proof.
  induction p as [|[[c'|] cr] p IH]; cbn [find_crop In]; [tauto| |].
  - intros [H|H].
    + injection H as -> ->. assert (coord_eqb c c = true) as -> by (apply coord_eqb_eq; reflexivity). eauto.
    + destruct (coord_eqb c c'); eauto.
  - intros [H|H]; [discriminate|]. eauto.
Qed.

Lemma mt_tiles_In t c : In c (mt_tiles t) <-> exists crop, In (Some c, crop) (mt_pattern t).
Proof.
  unfold mt_tiles. rewrite in_flat_map. split.
  - intros ([[c'|] crop] & Hin & Hc); cbn [fst] in Hc; [|destruct Hc].
    destruct Hc as [<-|[]]. exists crop. exact Hin.
  - intros (crop & Hin). exists (Some c, crop). split; [exact Hin|left; reflexivity].
Qed.

(* pattern_complete: the tiles of the pattern are exactly the valid tiles of the block of the main tile *)
Lemma pattern_complete_lemma m x y z c :
  mwf m ->
  let '(x0, y0, _) := main_tile m x y z in
  let '(sx, sy) := meta_size m z in
  let '(nx, ny) := grid_size (mg_grid m) z in
  In c (mt_tiles (meta_tile m x y z)) <->
  exists cx cy, c = (cx, cy, z) /\ x0 <= cx < x0 + sx /\ y0 <= cy < y0 + sy /\ 0 <= cx < nx /\ 0 <= cy < ny.
Proof.
  intros Hm. pose proof (main_tile_contains m x y z Hm) as Hc.
  destruct (main_tile m x y z) as [[x0 y0] z0] eqn:Hmain. destruct (meta_size m z) as [sx sy] eqn:Hms.
  destruct Hc as (-> & _). destruct (grid_size (mg_grid m) z) as [nx ny] eqn:Hgs.
  destruct (buffered_bbox m (unbuffered_meta_bbox m x0 y0 z) z true) as [bb [[[b0 b1] b2] b3]] eqn:Hb.
  assert (Hnx : fst (grid_size (mg_grid m) z) = nx) by (rewrite Hgs; reflexivity).
  assert (Hny : snd (grid_size (mg_grid m) z) = ny) by (rewrite Hgs; reflexivity).
  unfold grid_size in Hnx, Hny. cbn [fst snd] in Hnx, Hny.
  rewrite mt_tiles_In. split.
  - intros (crop & Hin).
    apply (meta_tile_pattern_In m x y z x0 y0 sx sy bb b0 b1 b2 b3 _ Hm Hmain Hms Hb) in Hin.
    destruct Hin as (i & j & Hi & Hj & Heq). injection Heq as Ht _. symmetry in Ht.
    apply tile_or_none_Some in Ht. destruct Ht as (-> & Hx & Hy).
    exists (x0 + j), (block_row (mg_grid m) y0 sy i). split; [reflexivity|].
    unfold block_row in *. destruct (ul (mg_grid m)); lia.
  - intros (cx & cy & -> & Hx & Hy & Hvx & Hvy).
    set (i := if ul (mg_grid m) then cy - y0 else y0 + sy - 1 - cy).
    exists ((cx - x0) * tw (mg_grid m) + b0, i * th (mg_grid m) + b3).
    apply (meta_tile_pattern_In m x y z x0 y0 sx sy bb b0 b1 b2 b3 _ Hm Hmain Hms Hb).
    exists i, (cx - x0). split; [unfold i; destruct (ul (mg_grid m)); lia|]. split; [lia|].
    f_equal. rewrite Hgs. cbn [fst snd].
    replace (x0 + (cx - x0)) with cx by lia.
    replace (block_row (mg_grid m) y0 sy i) with cy by (unfold block_row, i; destruct (ul (mg_grid m)); lia).
    symmetry. apply tile_or_none_valid; lia.
Qed.

(* a valid tile is part of its own meta tile *)
Lemma own_tile_in_meta m cx cy z :
  mwf m -> 0 <= cx < fst (grid_size (mg_grid m) z) -> 0 <= cy < snd (grid_size (mg_grid m) z) ->
  In (cx, cy, z) (mt_tiles (meta_tile m cx cy z)).
Proof.
  intros Hm Hx Hy. pose proof (pattern_complete_lemma m cx cy z (cx, cy, z) Hm) as H.
  pose proof (main_tile_contains m cx cy z Hm) as Hc.
  destruct (main_tile m cx cy z) as [[x0 y0] z0]. destruct (meta_size m z) as [sx sy].
  destruct (grid_size (mg_grid m) z) as [nx ny]. cbn [fst snd] in *.
  apply H. exists cx, cy. split; [reflexivity|]. lia.
Qed.

(* THE property in the model: for every picture that depends on ground position only (any cell size q), the
   image stored for a valid tile when it is cut out of its meta tile equals the image stored when the tile is
   requested alone, at every pixel, provided no buffer is cut off at the grid border *)
Lemma meta_equals_single_lemma m q cx cy z j k :
  mwf m -> valid_level (mg_grid m) z = true -> 0 < q ->
  0 <= cx < fst (grid_size (mg_grid m) z) -> 0 <= cy < snd (grid_size (mg_grid m) z) ->
  no_buffer_cut m cx cy z ->
  0 <= j < tw (mg_grid m) -> 0 <= k < th (mg_grid m) ->
  model_pixel m q HowMeta (cx, cy, z) j k = model_pixel m q HowSingle (cx, cy, z) j k.
Proof.
  intros Hm Hv Hq Hx Hy Hcut Hj Hk. unfold model_pixel, pixel_of_metatile.
  pose proof (own_tile_in_meta m cx cy z Hm Hx Hy) as Hown. apply mt_tiles_In in Hown.
  destruct Hown as (crop0 & Hin0). destruct (find_crop_complete _ _ _ Hin0) as ([px py] & Hf).
  rewrite Hf. f_equal. apply find_crop_In in Hf.
  apply (cut_equals_single m q cx cy z cx cy z px py j k); assumption.
Qed.
End MetaLemmas.

(* ---- content: the image stored for the tile of an address, cut out of its meta tile (MetaGrid.v: meta tile bbox,
   tile pattern, TileSplitter, a picture that depends on the ground position only), shows at every pixel the picture
   sampled over the rectangle the client computes for the address *)
Lemma served_content_exact_l s srv a r c m q j k :
  mg_grid m = sg s -> MetaLemmas.mwf m -> 0 < q ->
  addr_ok s srv a -> client_rect s srv a = Some r -> served s srv a = Some c ->
  (let '(cx, cy, cz) := c in MetaLemmas.no_buffer_cut m cx cy cz) ->
  0 <= j < tw (sg s) -> 0 <= k < th (sg s) ->
  model_pixel m q HowMeta c j k = Some (stored_pixel (sg s) q r (tw (sg s), th (sg s)) (0, 0) j k).
Proof.
  intros Hg Hm Hq Hok Hr Hs Hcut Hj Hk.
  pose proof (address_exact_l s srv a r c Hok Hr Hs) as He.
  pose proof (served_valid s srv a c Hs) as Hv.
  destruct c as [[cx cy] cz]. cbn [tile_bbox_c] in He.
  apply limit_tile_some in Hv. destruct Hv as (_ & Hvl & Hx & Hy).
  rewrite <- Hg in *.
  rewrite (MetaLemmas.meta_equals_single_lemma m q cx cy cz j k Hm Hvl Hq Hx Hy Hcut Hj Hk).
  unfold model_pixel. rewrite He. reflexivity.
Qed.
