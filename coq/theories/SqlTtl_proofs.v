(* C05  the ttl-configured sqlite cache answers like the cache without ttl while the ttl has not run out *)
From Coq Require Import ZArith List Bool Lia.
Import ListNotations.
From MP Require Import Base Gen_path Gen_sqlbatch CacheMap CacheMap_proofs SqlCache SqlCache_proofs CacheBackends CacheBackends_proofs SqlTtl.
Local Open Scope Z_scope.

Section Window.
  Variables off ttl lo : Z.

  (* every row was written at or after clock reading lo, with the 'localtime' modifier *)
  Definition rows_since (d : tdb) : Prop := Forall (fun r => lo + off <= snd (snd r)) d.

  Lemma filter_all : forall (A : Type) (f : A -> bool) (l : list A), Forall (fun x => f x = true) l -> filter f l = l.
  Proof.
    induction l as [|x l IH]; intros H; [reflexivity|].
    inversion H; subst. cbn [filter]. rewrite H2. f_equal. auto.
  Qed.

  Lemma fresh_in_window : forall now lm, now < lo + ttl -> lo + off <= lm -> fresh true off ttl now lm = true.
  Proof.
    intros now lm H1 H2. unfold fresh, loc. apply orb_true_iff. right. apply Z.ltb_lt. lia.
  Qed.

  Lemma view_strip : forall now d, rows_since d -> now < lo + ttl -> tdb_view true off ttl now d = strip d.
  Proof.
    intros now d H Hn. unfold tdb_view. rewrite filter_all; [reflexivity|].
    unfold rows_since in H. rewrite Forall_forall in *. intros r Hr. apply fresh_in_window; auto.
  Qed.

  Lemma strip_del : forall d c, strip (tdb_del d c) = db_del (strip d) c.
  Proof.
    induction d as [|[c' v] d IH]; intros c; [reflexivity|].
    cbn [tdb_del strip map fst snd]. unfold db_del. cbn [kv_del]. fold (@kv_del coord Z3_eqb).
    destruct (Z3_eqb c' c).
    - apply IH.
    - cbn [map fst snd]. f_equal. apply IH.
  Qed.

  Lemma strip_put : forall d c b lm, strip (tdb_put d c b lm) = db_put (strip d) c b.
  Proof.
    intros. unfold tdb_put, db_put, kv_put. cbn [strip map fst snd]. f_equal. apply strip_del.
  Qed.

  Lemma since_del : forall d c, rows_since d -> rows_since (tdb_del d c).
  Proof.
    induction d as [|[c' v] d IH]; intros c H; [constructor|].
    inversion H; subst. cbn [tdb_del]. destruct (Z3_eqb c' c); [auto|]. constructor; auto. apply IH; auto.
  Qed.

  Lemma since_put : forall d c b now, rows_since d -> lo <= now -> rows_since (tdb_put d c b (loc true off now)).
  Proof.
    intros. unfold tdb_put. constructor; [cbn [snd]; unfold loc; lia|]. apply since_del; auto.
  Qed.

  Lemma store_many_sim : forall now l d, rows_since d -> lo <= now ->
    let d' := fold_left (fun d ab => tdb_put d (coord_of (fst ab)) (snd ab) (loc true off now)) l d in
    rows_since d' /\
    strip d' = fold_left (fun d (ab : addr * bytes) => db_put d (coord_of (fst ab)) (snd ab)) l (strip d).
  Proof.
    induction l as [|ab l IH]; intros d H Hn; cbn [fold_left]; [split; auto|].
    specialize (IH (tdb_put d (coord_of (fst ab)) (snd ab) (loc true off now)) (since_put _ _ _ _ H Hn) Hn).
    cbn zeta in IH. rewrite strip_put in IH. exact IH.
  Qed.

  Definition in_window (tops : list (Z * op)) : Prop := Forall (fun to => lo <= fst to < lo + ttl) tops.

  Lemma ttl_step_sim : forall p d now o, rows_since d -> lo <= now < lo + ttl ->
    rows_since (fst (tsql_step p code_sites off ttl d now o)) /\
    strip (fst (tsql_step p code_sites off ttl d now o)) = fst (sql_step p (strip d) o) /\
    snd (tsql_step p code_sites off ttl d now o) = snd (sql_step p (strip d) o).
  Proof.
    intros p d now o H [Hn1 Hn2]. destruct o; cbn [tsql_step sql_step fst snd code_sites st_store st_load st_bulk].
    - split; [apply since_put; auto|]. split; [apply strip_put|reflexivity].
    - pose proof (store_many_sim now l d H Hn1) as [A B]. split; [exact A|]. split; [exact B|reflexivity].
    - rewrite view_strip by auto. auto.
    - rewrite view_strip by auto. auto.
    - rewrite view_strip by auto. auto.
    - split; [apply since_del; auto|]. split; [apply strip_del|reflexivity].
  Qed.

  (* the whole history *)
  Lemma ttl_run_sim : forall p tops d, rows_since d -> in_window tops ->
    snd (tsql_run p code_sites off ttl d tops) = snd (sql_run p (strip d) (map snd tops)).
  Proof.
    induction tops as [|[now o] tops IH]; intros d H W; [reflexivity|].
    inversion W; subst. cbn [fst] in H2.
    destruct (ttl_step_sim p d now o H H2) as [A [B C]].
    cbn [tsql_run sql_run map snd].
    destruct (tsql_step p code_sites off ttl d now o) as [d1 x1] eqn:E1.
    destruct (sql_step p (strip d) o) as [e1 y1] eqn:E2.
    cbn [fst snd] in A, B, C. subst y1 e1.
    specialize (IH d1 A H3).
    destruct (tsql_run p code_sites off ttl d1 tops) as [d2 xs].
    destruct (sql_run p (strip d1) (map snd tops)) as [e2 ys].
    cbn [snd] in IH |- *. subst. reflexivity.
  Qed.
End Window.

Lemma ttl_cache_is_the_cache : forall p off ttl lo tops, in_window ttl lo tops ->
  snd (tsql_run p code_sites off ttl [] tops) = snd (sql_run p [] (map snd tops)).
Proof.
  intros. apply (ttl_run_sim off ttl lo p tops []); [constructor|assumption].
Qed.

(* with the map theorem of the back-end without ttl *)
Lemma ttl_mbtiles_refines : forall off ttl lo d0 tops, in_window ttl lo tops -> ops_ok (sql_valid d0) (map snd tops) ->
  snd (tsql_run mbtiles_params code_sites off ttl [] tops) = spec_outs (map snd tops).
Proof.
  intros off ttl lo d0 tops W V. rewrite (ttl_cache_is_the_cache mbtiles_params off ttl lo tops W).
  exact (proj1 (sql_refines d0 (map snd tops) V)).
Qed.

Definition ex_a : addr := mkAddr 0 0 0 [].
(* non-vacuity: a window of one hour, five hours west of UTC, store then single and bulk load *)
Example ttl_window_example :
  in_window 3600 100 [(100, Store ex_a [1]); (101, Load ex_a); (3699, LoadMany [ex_a])] /\
  snd (tsql_run mbtiles_params code_sites (-18000) 3600 [] [(100, Store ex_a [1]); (101, Load ex_a); (3699, LoadMany [ex_a])])
  = [ODone; OLoad (Some [1]); OLoadMany true [Some [1]]].
Proof. split; [repeat constructor; cbn; lia|vm_compute; reflexivity]. Qed.

(* the three statements must agree on the modifier: without it in the bulk SELECT (and only there) a tile stored a
   second ago is missed by the bulk load west of UTC, although the single load returns it *)
Lemma ttl_sites_must_agree_refuted :
  exists off ttl tops, in_window ttl 100 tops /\
    snd (tsql_run mbtiles_params (mkSites true true false) off ttl [] tops) <> snd (sql_run mbtiles_params [] (map snd tops)).
Proof.
  exists (-18000), 3600, [(100, Store ex_a [1]); (101, Load ex_a); (101, LoadMany [ex_a])].
  split; [repeat constructor; cbn; lia|vm_compute; discriminate].
Qed.

(* after the ttl has run out the row is gone for loads (the reason for the window hypothesis) *)
Example ttl_expired_example :
  snd (tsql_run mbtiles_params code_sites 7200 3600 [] [(100, Store ex_a [1]); (3700, Load ex_a); (3700, LoadMany [ex_a])])
  = [ODone; OLoad None; OLoadMany false [None]].
Proof. vm_compute; reflexivity. Qed.
