(* C13  The hand-written model Expiry.v is the decision kernels that translator/specs/expiry.py regenerates from
   mapproxy/cache/tile.py on every run (gen/Gen_expiry.v).  A change of TileManager.is_cached / is_stale /
   expire_timestamp that alters the decision changes the generated definitions, and these lemmas stop checking. *)
From Coq Require Import ZArith List Bool Lia.
Import ListNotations.
From MP Require Import Base Expiry Gen_expiry.
Local Open Scope Z_scope.

Definition thr_opt (th : thr) : option Z := match th with ThrAt t => Some t | _ => None end.

Section WithQ.
Variable Q : Z.

(* int(tile.timestamp), in ticks, of what load_tile_metadata read (0 for a missing tile: not consulted) *)
Definition ts_int_of (c : cache) (a : addr) : Z :=
  match get c a with Some e => int_ts Q (e_ts e) * Q | None => 0 end.

Lemma expire_timestamp_as_generated : forall m ev,
  expire_timestamp Q m ev =
  gen_expire_timestamp (is_some (m_refresh_before m))
    (match m_refresh_before m with Some rc => before_timestamp_from_options Q rc ev | None => ThrNone end)
    (match m_expire m with Some t => ThrAt t | None => ThrNone end).
Proof.
  intros m ev. unfold expire_timestamp, gen_expire_timestamp, is_some.
  destruct (m_refresh_before m); reflexivity.
Qed.

Lemma tm_is_cached_as_generated : forall m ev c a,
  tm_is_cached Q m ev c a =
  match expire_timestamp Q m ev with
  | ThrErr => None
  | th => Some (gen_tm_is_cached (Some a) (is_some (get c a)) (thr_opt th) (ts_int_of c a))
  end.
Proof.
  intros m ev c a. unfold tm_is_cached, gen_tm_is_cached, ts_int_of, stale_at, is_some, oget, thr_opt.
  destruct (expire_timestamp Q m ev) as [|t|]; cbn [negb andb]; try reflexivity.
  - destruct (get c a); reflexivity.
  - destruct (get c a) as [e|]; cbn [andb negb]; [|reflexivity].
    destruct (int_ts Q (e_ts e) * Q <=? t); reflexivity.
Qed.

Lemma tm_is_stale_as_generated : forall m ev c a,
  tm_is_stale Q m ev c a =
  match get c a with
  | Some _ => match tm_is_cached Q m ev c a with
              | Some fresh => Some (gen_tm_is_stale true fresh)
              | None => None
              end
  | None => Some (gen_tm_is_stale false false)
  end.
Proof.
  intros m ev c a. unfold tm_is_stale, gen_tm_is_stale.
  destruct (get c a); [|reflexivity].
  destruct (tm_is_cached Q m ev c a) as [[|]|]; reflexivity.
Qed.

(* the generated is_stale kernel does not consult `fresh` for a tile that is not in the cache (is_cached is not
   called there, so a configuration error of the threshold cannot surface) *)
Lemma gen_is_stale_missing : forall b, gen_tm_is_stale false b = false.
Proof. intros b. reflexivity. Qed.

(* seed/config.py before_timestamp_from_options: 'time' wins over 'mtime' wins over the deltas *)
Lemma before_timestamp_as_generated : forall rc ev,
  before_timestamp_from_options Q rc ev =
  gen_before_timestamp (is_some (rc_time rc))
    (match rc_time rc with Some s => ThrAt (s * Q) | None => ThrNone end)
    (rc_mtime rc)
    (match ref_mtime ev with Some t => ThrAt t | None => ThrErr end)
    (ThrAt (timestamp_before Q rc (now ev))).
Proof.
  intros rc ev. unfold before_timestamp_from_options, gen_before_timestamp, is_some.
  destruct (rc_time rc); [reflexivity|]. destruct (rc_mtime rc); reflexivity.
Qed.

End WithQ.
