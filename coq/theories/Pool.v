(* Model of mapproxy/util/async_.py: ThreadPool.imap / starmap / map_each (C15).
   No proofs here: the model must stay executable when a proof breaks. *)
From Coq Require Import ZArith List Bool Arith.
Import ListNotations.

(* what a task produced: a value, or an exception (sys.exc_info() transported as a value) *)
Inductive val := Ok (v : Z) | Exc (e : Z).

Definition val_eqb (a b : val) : bool :=
  match a, b with
  | Ok x, Ok y => Z.eqb x y
  | Exc x, Exc y => Z.eqb x y
  | _, _ => false
  end.

(* `results` dictionary of map_each: index -> value *)
Definition pending := list (nat * val).

Fixpoint lookup (p : pending) (i : nat) : option val :=
  match p with
  | [] => None
  | (k, v) :: r => if Nat.eqb k i then Some v else lookup r i
  end.

Fixpoint remove (p : pending) (i : nat) : pending :=
  match p with
  | [] => []
  | (k, v) :: r => if Nat.eqb k i then remove r i else (k, v) :: remove r i
  end.

Definition insert (p : pending) (i : nat) (v : val) : pending := (i, v) :: remove p i.

(* while next_result in results: yield results.pop(next_result); next_result += 1 *)
Fixpoint drain (fuel : nat) (next : nat) (p : pending) : list val * nat * pending :=
  match fuel with
  | O => ([], next, p)
  | S f =>
    match lookup p next with
    | Some v => let '(ys, n', p') := drain f (S next) (remove p next) in (v :: ys, n', p')
    | None => ([], next, p)
    end
  end.

(* _get_results / _fetch_results over the results that arrive while this generator runs.
   Returns (yielded values, next_result, results dict, raised exception). *)
Fixpoint get_results (raise_exc : bool) (next : nat) (p : pending) (arr : list (nat * val))
  : list val * nat * pending * option Z :=
  match arr with
  | [] => ([], next, p, None)
  | (i, v) :: rest =>
    match v, raise_exc with
    | Exc e, true => ([], next, p, Some e)
    | _, _ =>
      if Nat.eqb i next then
        let '(ys, n', p') := drain (length p) (S next) p in
        let '(zs, n'', p'', r) := get_results raise_exc n' p' rest in
        (v :: ys ++ zs, n'', p'', r)
      else
        get_results raise_exc next (insert p i v) rest
    end
  end.

(* map_each for pool_size >= 2: two drain phases; the second generator is started with
   next_result = number of values yielded so far and the same `results` dictionary. *)
Definition map_each (raise_exc : bool) (arr : list (nat * val)) (split : nat) : list val * option Z :=
  let '(ys1, _, p1, r1) := get_results raise_exc 0 [] (firstn split arr) in
  match r1 with
  | Some e => (ys1, Some e)
  | None =>
    let '(ys2, _, _, r2) := get_results raise_exc (length ys1) p1 (skipn split arr) in
    (ys1 ++ ys2, r2)
  end.

(* sequential branch of map_each (pool_size < 2) *)
Fixpoint seq_each (raise_exc : bool) (items : list val) : list val * option Z :=
  match items with
  | [] => ([], None)
  | Exc e :: r =>
    if raise_exc then ([], Some e)
    else let (ys, x) := seq_each raise_exc r in (Exc e :: ys, x)
  | v :: r => let (ys, x) := seq_each raise_exc r in (v :: ys, x)
  end.

(* _single_call *)
Definition single_call (use_result_objects : bool) (v : val) : list val * option Z :=
  match v with
  | Exc e => if use_result_objects then ([Exc e], None) else ([], Some e)
  | _ => ([v], None)
  end.

Definition value_of (items : list val) (i : nat) : val := nth i items (Ok 0).

(* imap/starmap: `arrival` is the order in which the workers finish (indices into items). *)
Definition imap (pool_size : nat) (use_result_objects : bool) (items : list val)
           (arrival : list nat) (split : nat) : list val * option Z :=
  match items with
  | [v] => single_call use_result_objects v
  | _ =>
    if Nat.ltb pool_size 2 then seq_each (negb use_result_objects) items
    else map_each (negb use_result_objects) (map (fun i => (i, value_of items i)) arrival) split
  end.

Definition result_eqb (a b : list val * option Z) : bool :=
  (fix leq (x y : list val) : bool :=
     match x, y with
     | [], [] => true
     | u :: x', w :: y' => val_eqb u w && leq x' y'
     | _, _ => false
     end) (fst a) (fst b)
  && match snd a, snd b with
     | None, None => true
     | Some x, Some y => Z.eqb x y
     | _, _ => false
     end.

(* ThreadPool.map = list(imap(...)): when the iteration raises, the partial list is lost *)
Definition as_list_api (is_map : bool) (r : list val * option Z) : list val * option Z :=
  if is_map then match snd r with Some e => ([], Some e) | None => r end else r.
